//! `observe`: the implementation side of the correspondence check.
//!
//! Reads one request per line on stdin, calls the real public API of `asefile`
//! in-process and prints a canonical observation (DESIGN 4.2). It has no generator
//! and no oracle of its own: it only observes.
use asefile::*;
use std::fmt::Write as _;
use std::io::{self, BufRead, Cursor, Write};
use std::panic::{self, AssertUnwindSafe};

mod alloc;
mod sched;
mod util_obs;

pub fn hex(bs: &[u8]) -> String {
    let mut s = String::with_capacity(bs.len() * 2);
    for b in bs {
        write!(s, "{:02x}", b).unwrap();
    }
    s
}

pub fn unhex(s: &str) -> Option<Vec<u8>> {
    if s == "-" {
        return Some(Vec::new());
    }
    let b = s.as_bytes();
    if b.len() % 2 != 0 {
        return None;
    }
    let mut out = Vec::with_capacity(b.len() / 2);
    for i in (0..b.len()).step_by(2) {
        let h = (b[i] as char).to_digit(16)?;
        let l = (b[i + 1] as char).to_digit(16)?;
        out.push((h * 16 + l) as u8);
    }
    Some(out)
}

fn name(s: &str) -> String {
    format!("h:{}", hex(s.as_bytes()))
}

fn opt_name(s: Option<&str>) -> String {
    match s {
        None => "-".into(),
        Some(s) => name(s),
    }
}

fn ud(u: Option<&UserData>) -> String {
    match u {
        None => "-".into(),
        Some(u) => format!(
            "t:{},c:{}",
            opt_name(u.text.as_deref()),
            match u.color {
                None => "-".to_string(),
                Some(c) => hex(&c.0),
            }
        ),
    }
}

fn fnv(canon: bool, img: &image::RgbaImage) -> u64 {
    let mut h: u64 = 0xcbf29ce484222325;
    for p in img.pixels() {
        let c = if canon && p.0[3] == 0 { [0, 0, 0, 0] } else { p.0 };
        for b in c {
            h = (h ^ b as u64).wrapping_mul(0x100000001b3);
        }
    }
    h
}

pub fn image_str(verbose: bool, img: &image::RgbaImage) -> String {
    let (w, h) = img.dimensions();
    let mut s = format!("{}x{}:{:016x}:{:016x}", w, h, fnv(false, img), fnv(true, img));
    if verbose && (w as u64) * (h as u64) <= 4096 {
        s.push(':');
        for p in img.pixels() {
            s.push_str(&hex(&p.0));
        }
    }
    s
}

/// Run `f`, mapping a panic to `None`.
pub fn guard<T>(f: impl FnOnce() -> T) -> Option<T> {
    panic::catch_unwind(AssertUnwindSafe(f)).ok()
}

fn res_image(verbose: bool, f: impl FnOnce() -> image::RgbaImage) -> String {
    match guard(f) {
        Some(img) => image_str(verbose, &img),
        None => "PANIC".into(),
    }
}

/// which of `n` entities are observed when there are more than `k`: the first `k/2`, the last
/// two, and `k - k/2 - 2` positions spread evenly over the middle
fn sel(n: usize, k: usize) -> Vec<usize> {
    if n <= k {
        (0..n).collect()
    } else {
        let a = k / 2;
        let b = k - a - 2;
        let mut v: Vec<usize> = (0..a).collect();
        for i in 0..b {
            v.push(a + ((i + 1) * (n - a - 2)) / (b + 1));
        }
        v.push(n - 2);
        v.push(n - 1);
        let mut out: Vec<usize> = Vec::new();
        for x in v {
            if !out.contains(&x) {
                out.push(x);
            }
        }
        out
    }
}

const MAX_RENDER_PIXELS: u64 = 1048576;

fn probe_ids() -> Vec<u32> {
    let mut v: Vec<u32> = (0..300).collect();
    v.extend_from_slice(&[1000, 1001, 65535, 65536, 2147483647, 2147483648]);
    v.extend((0..8u32).map(|i| i + 4294967288));
    v
}

fn blend_id(m: BlendMode) -> u32 {
    match m {
        BlendMode::Normal => 0,
        BlendMode::Multiply => 1,
        BlendMode::Screen => 2,
        BlendMode::Overlay => 3,
        BlendMode::Darken => 4,
        BlendMode::Lighten => 5,
        BlendMode::ColorDodge => 6,
        BlendMode::ColorBurn => 7,
        BlendMode::HardLight => 8,
        BlendMode::SoftLight => 9,
        BlendMode::Difference => 10,
        BlendMode::Exclusion => 11,
        BlendMode::Hue => 12,
        BlendMode::Saturation => 13,
        BlendMode::Color => 14,
        BlendMode::Luminosity => 15,
        BlendMode::Addition => 16,
        BlendMode::Subtract => 17,
        BlendMode::Divide => 18,
    }
}

fn dedup(v: Vec<String>) -> Vec<String> {
    let mut out: Vec<String> = Vec::new();
    for x in v {
        if !out.contains(&x) {
            out.push(x);
        }
    }
    out
}

fn cel_fmt(verbose: bool, can_render: bool, tag: &str, cel: &Cel) -> String {
    let tl = cel.top_left();
    let img = if can_render {
        res_image(verbose, || cel.image())
    } else {
        "skipped".to_string()
    };
    format!(
        "{} {} {} empty={} topleft={},{} tilemap={} ud={} img={}",
        tag,
        cel.frame(),
        cel.layer(),
        cel.is_empty() as u8,
        tl.0,
        tl.1,
        cel.is_tilemap() as u8,
        ud(cel.user_data()),
        img
    )
}

/// The whole-API observation of a loaded sprite.
pub fn observe(verbose: bool, ase: &AsepriteFile, input_len: usize, o: &mut Vec<String>) {
    let n_l = ase.num_layers() as usize;
    let n_f = ase.num_frames() as usize;
    let can_render = (ase.width() as u64) * (ase.height() as u64) <= MAX_RENDER_PIXELS;
    o.push(format!("size {} {}", ase.width(), ase.height()));
    debug_assert_eq!(ase.size(), (ase.width(), ase.height()));
    let tci = match ase.transparent_color_index() {
        None => "-".to_string(),
        Some(t) => t.to_string(),
    };
    let fmt = match ase.pixel_format() {
        PixelFormat::Rgba => "rgba".to_string(),
        PixelFormat::Grayscale => "gray".to_string(),
        PixelFormat::Indexed {
            transparent_color_index,
        } => format!("indexed:{}", transparent_color_index),
    };
    o.push(format!(
        "format {} idx={} tci={}",
        fmt,
        ase.is_indexed_color() as u8,
        tci
    ));
    o.push(format!("frames {}", n_f));
    o.push(format!("layers {}", n_l));
    let fsel = sel(n_f, 10);
    let lsel = sel(n_l, 24);
    // accessors that duplicate information: size(), PixelFormat::transparent_color_index(),
    // TilesetsById::is_empty(), Frame::id(), Layer::is_tilemap()
    {
        let (sw, sh) = ase.size();
        let ptci = match ase.pixel_format().transparent_color_index() {
            None => "-".to_string(),
            Some(t) => t.to_string(),
        };
        let fids: Vec<String> = fsel.iter().map(|&f| ase.frame(f as u32).id().to_string()).collect();
        let istm: Vec<String> = lsel
            .iter()
            .map(|&l| (ase.layer(l as u32).is_tilemap() as u8).to_string())
            .collect();
        o.push(format!(
            "accx size={}x{} tci={} tsempty={} frameids={} istm={}",
            sw,
            sh,
            ptci,
            ase.tilesets().is_empty() as u8,
            fids.join(","),
            istm.join(",")
        ));
    }
    for &f in &fsel {
        o.push(format!("frame {} dur {}", f, ase.frame(f as u32).duration()));
    }
    for &i in &lsel {
        let l = ase.layer(i as u32);
        let parent = match l.parent() {
            None => "-".to_string(),
            Some(p) => {
                // the handle obtained through parent() must describe the same layer as layer(id)
                let q = ase.layer(p.id());
                let same = p.name() == q.name()
                    && p.flags().bits() == q.flags().bits()
                    && p.opacity() == q.opacity()
                    && guard(|| p.is_visible()) == guard(|| q.is_visible())
                    && p.parent().map(|x| x.id()) == q.parent().map(|x| x.id());
                if same {
                    p.id().to_string()
                } else {
                    format!("{}(parent-handle-differs-from-layer({}))", p.id(), p.id())
                }
            }
        };
        let vis = match guard(|| l.is_visible()) {
            Some(b) => (b as u8).to_string(),
            None => "PANIC".to_string(),
        };
        let lt = match l.layer_type() {
            LayerType::Image => "image".to_string(),
            LayerType::Group => "group".to_string(),
            LayerType::Tilemap(id) => format!("tilemap:{}", id),
        };
        o.push(format!(
            "layer {} name={} flags={} blend={} opacity={} type={} parent={} visible={} ud={}",
            l.id(),
            name(l.name()),
            l.flags().bits(),
            blend_id(l.blend_mode()),
            l.opacity(),
            lt,
            parent,
            vis,
            ud(l.user_data())
        ));
    }
    let mut names: Vec<String> = lsel
        .iter()
        .map(|&i| ase.layer(i as u32).name().to_string())
        .collect();
    names.push("__absent__".to_string());
    for n in dedup(names) {
        let r = match ase.layer_by_name(&n) {
            None => "-".to_string(),
            Some(l) => l.id().to_string(),
        };
        o.push(format!("byname {} -> {}", name(&n), r));
    }
    {
        let ids: Vec<u32> = ase.layers().map(|l| l.id()).collect();
        let picked: Vec<String> = lsel
            .iter()
            .map(|&i| ids.get(i).map_or("?".to_string(), |x| x.to_string()))
            .collect();
        o.push(format!("iter {} {}", ids.len(), picked.join(",")));
        // the same iterator through std's adaptors (nth / skip / step_by are defined by `next`)
        let fmt = |v: Vec<u32>| v.iter().take(12).map(|x| x.to_string()).collect::<Vec<_>>().join(",");
        let skip1: Vec<u32> = ase.layers().skip(1).map(|l| l.id()).collect();
        let step2: Vec<u32> = ase.layers().step_by(2).take(70000).map(|l| l.id()).collect();
        let mut it = ase.layers();
        let first = it.next().map(|l| l.id());
        let then_nth1 = it.nth(1).map(|l| l.id());
        let after = it.next().map(|l| l.id());
        let last = ase.layers().last().map(|l| l.id());
        let on = |x: Option<u32>| x.map_or("-".to_string(), |v| v.to_string());
        o.push(format!(
            "iterx skip1={}:{} step2={}:{} next={} nth1={} next={} last={} count={}",
            skip1.len(), fmt(skip1.clone()), step2.len(), fmt(step2.clone()),
            on(first), on(then_nth1), on(after), on(last), ase.layers().count()
        ));
    }
    let n_t = ase.num_tags() as usize;
    o.push(format!("tags {}", n_t));
    let tsel = sel(n_t, 24);
    for &i in &tsel {
        let t = ase.tag(i as u32);
        let same = ase
            .get_tag(i as u32)
            .map_or(false, |t2| std::ptr::eq(t, t2));
        let dir = match t.animation_direction() {
            AnimationDirection::Forward => 0,
            AnimationDirection::Reverse => 1,
            AnimationDirection::PingPong => 2,
        };
        let rep = match t.repeat() {
            None => "-".to_string(),
            Some(n) => n.to_string(),
        };
        o.push(format!(
            "tag {} name={} from={} to={} dir={} repeat={} ud={}{}",
            i,
            name(t.name()),
            t.from_frame(),
            t.to_frame(),
            dir,
            rep,
            ud(t.user_data()),
            if same { "" } else { " get_tag-differs" }
        ));
    }
    o.push(format!(
        "gettag {} -> {}",
        n_t,
        if ase.get_tag(n_t as u32).is_none() { "-" } else { "some" }
    ));
    let mut names: Vec<String> = tsel
        .iter()
        .map(|&i| ase.tag(i as u32).name().to_string())
        .collect();
    names.push("__absent__".to_string());
    for n in dedup(names) {
        let r = match ase.tag_by_name(&n) {
            None => "-".to_string(),
            Some(t) => (0..n_t)
                .find(|&i| std::ptr::eq(ase.tag(i as u32), t))
                .map_or("?".to_string(), |i| i.to_string()),
        };
        o.push(format!("tagbyname {} -> {}", name(&n), r));
    }
    let slices = ase.slices();
    o.push(format!("slices {}", slices.len()));
    for i in sel(slices.len(), 24) {
        let s = &slices[i];
        o.push(format!(
            "slice {} name={} keys={} ud={}",
            i,
            name(&s.name),
            s.keys.len(),
            ud(s.user_data.as_ref())
        ));
        for j in sel(s.keys.len(), 24) {
            let k = &s.keys[j];
            let s9 = match &k.slice9 {
                None => "-".to_string(),
                Some(q) => format!(
                    "{},{},{},{}",
                    q.center_x, q.center_y, q.center_width, q.center_height
                ),
            };
            let pv = match k.pivot {
                None => "-".to_string(),
                Some((x, y)) => format!("{},{}", x, y),
            };
            o.push(format!(
                "key {} {} from={} origin={},{} size={},{} s9={} pivot={}",
                i, j, k.from_frame, k.origin.0, k.origin.1, k.size.0, k.size.1, s9, pv
            ));
        }
    }
    match ase.palette() {
        None => o.push("palette none".to_string()),
        Some(p) => {
            o.push(format!("palette {}", p.num_colors()));
            for i in probe_ids() {
                if let Some(e) = p.color(i) {
                    let c = e.raw_rgba8();
                    debug_assert_eq!([e.red(), e.green(), e.blue(), e.alpha()], c);
                    o.push(format!(
                        "pal {} id={} {} name={}",
                        i,
                        e.id(),
                        hex(&c),
                        opt_name(e.name())
                    ));
                }
            }
        }
    }
    {
        let m = ase.external_files().map();
        o.push(format!("extfiles {}", m.len()));
        let mut v: Vec<(u32, &ExternalFile)> = m.iter().map(|(k, e)| (k.value(), e)).collect();
        v.sort_by_key(|p| p.0);
        for (k, e) in v.into_iter().take(64) {
            let by_id = ase
                .external_file_by_id(&ExternalFileId::new(k))
                .map_or(false, |e2| std::ptr::eq(e, e2));
            o.push(format!(
                "extfile {} id={} name={}{}",
                k,
                e.id().value(),
                name(e.name()),
                if by_id { "" } else { " by_id-differs" }
            ));
        }
    }
    {
        let ts = ase.tilesets();
        o.push(format!("tilesets {}", ts.len()));
        debug_assert_eq!(ts.is_empty(), ts.len() == 0);
        let mut v: Vec<&Tileset> = ts.iter().collect();
        v.sort_by_key(|t| t.id());
        for t in v.into_iter().take(16) {
            let k = t.id();
            let got = ts.get(k).map_or(false, |t2| std::ptr::eq(t, t2));
            let ext = match t.external_file() {
                None => "-".to_string(),
                Some(r) => format!("{},{}", r.external_file_id().value(), r.tileset_id()),
            };
            o.push(format!(
                "tileset {} id={} empty0={} count={} tw={} th={} base={} name={} ext={}{}",
                k,
                t.id(),
                t.empty_tile_is_id_zero() as u8,
                t.tile_count(),
                t.tile_size().width(),
                t.tile_size().height(),
                t.base_index(),
                name(t.name()),
                ext,
                if got { "" } else { " get-differs" }
            ));
            let npx = t.tile_count() as u64
                * t.tile_size().width() as u64
                * t.tile_size().height() as u64;
            if npx <= MAX_RENDER_PIXELS {
                o.push(format!("tsimg {} {}", k, res_image(verbose, || t.image())));
                for i in sel(t.tile_count() as usize, 12) {
                    o.push(format!(
                        "tileimg {} {} {}",
                        k,
                        i,
                        res_image(verbose, || t.tile_image(i as u32))
                    ));
                }
            } else {
                o.push(format!("tsimg {} skipped", k));
            }
        }
    }
    for &f in &fsel {
        for &l in &lsel {
            let (fu, lu) = (f as u32, l as u32);
            o.push(
                guard(|| cel_fmt(verbose, can_render, "celA", &ase.cel(fu, lu)))
                    .unwrap_or_else(|| format!("celA {} {} PANIC", f, l)),
            );
            o.push(
                guard(|| {
                    let fr = ase.frame(fu);
                    let c = fr.layer(lu);
                    cel_fmt(verbose, can_render, "celB", &c)
                })
                .unwrap_or_else(|| format!("celB {} {} PANIC", f, l)),
            );
            o.push(
                guard(|| {
                    let la = ase.layer(lu);
                    let c = la.frame(fu);
                    cel_fmt(verbose, can_render, "celC", &c)
                })
                .unwrap_or_else(|| format!("celC {} {} PANIC", f, l)),
            );
        }
    }
    for &f in &fsel {
        let img = if can_render {
            res_image(verbose, || ase.frame(f as u32).image())
        } else {
            "skipped".to_string()
        };
        o.push(format!("frameimg {} {}", f, img));
    }
    for &f in &fsel {
        for &l in &lsel {
            let r = guard(|| {
                let mut out: Vec<String> = Vec::new();
                if let Some(tm) = ase.tilemap(l as u32, f as u32) {
                    let (px, py) = tm.pixel_offsets();
                    let tofs = match guard(|| tm.tile_offsets()) {
                        Some((x, y)) => format!("{},{}", x, y),
                        None => "PANIC".to_string(),
                    };
                    let img = if can_render {
                        res_image(verbose, || tm.image())
                    } else {
                        "skipped".to_string()
                    };
                    let (tw, th) = tm.tile_size();
                    out.push(format!(
                        "tilemap {} {} w={} h={} tsize={},{} tofs={} pofs={},{} tsid={} img={}",
                        l,
                        f,
                        tm.width(),
                        tm.height(),
                        tw,
                        th,
                        tofs,
                        px,
                        py,
                        tm.tileset().id(),
                        img
                    ));
                    let mut xs: Vec<u32> = sel(tm.width() as usize + 3, 12).iter().map(|&x| x as u32).collect();
                    xs.extend_from_slice(&[32768, 65535, 65536, 65537, 69999, 70000, 98302, 2147483647, 2147483648, 4294967295]);
                    let mut ys: Vec<u32> = sel(tm.height() as usize + 3, 12).iter().map(|&x| x as u32).collect();
                    ys.extend_from_slice(&[65535, 65536, 69999, 70000, 2147483648, 4294967295]);
                    let mut cells: Vec<String> = Vec::new();
                    for &y in &ys {
                        for &x in &xs {
                            cells.push(match guard(|| tm.tile(x, y).id()) {
                                Some(id) => id.to_string(),
                                None => "PANIC".to_string(),
                            });
                        }
                    }
                    out.push(format!("tiles {} {} {}", l, f, cells.join(",")));
                }
                out
            });
            match r {
                Some(lines) => o.extend(lines),
                None => o.push(format!("tilemap {} {} PANIC", l, f)),
            }
        }
    }
    o.push(format!("sprite_ud {}", ud(ase.sprite_user_data())));
    if input_len <= 100_000 {
        match guard(|| format!("{:?}", ase).len()) {
            Some(_) => o.push("debug returned".to_string()),
            None => o.push("debug PANIC".to_string()),
        }
    } else {
        o.push("debug returned".to_string());
    }
}

pub fn io_kind_name(k: io::ErrorKind) -> String {
    match k {
        io::ErrorKind::UnexpectedEof => "UnexpectedEof".to_string(),
        other => sched::kind_code(other).to_string(),
    }
}

pub fn err_name(e: &AsepriteParseError) -> String {
    match e {
        AsepriteParseError::InvalidInput(_) => "invalid".to_string(),
        AsepriteParseError::UnsupportedFeature(_) => "unsupported".to_string(),
        AsepriteParseError::InternalError(_) => "internal".to_string(),
        AsepriteParseError::IoError(err) => {
            // the error must be exposed through Error::source() with the same kind
            let src_kind = std::error::Error::source(e)
                .and_then(|s| s.downcast_ref::<io::Error>())
                .map(|s| s.kind());
            if src_kind == Some(err.kind()) {
                format!("io:{}", io_kind_name(err.kind()))
            } else {
                format!("io:{}:source-mismatch", io_kind_name(err.kind()))
            }
        }
    }
}

pub fn load_case(verbose: bool, outcome_only: bool, bytes: &[u8]) -> Vec<String> {
    let mut o = Vec::new();
    let r = guard(|| AsepriteFile::read(Cursor::new(bytes)));
    match r {
        None => o.push("load panic".to_string()),
        Some(Err(e)) => {
            // the error value must be usable: Display, Debug and source() return
            let shown = guard(|| {
                use std::error::Error;
                let _ = format!("{} {:?}", e, e);
                let _ = e.source().map(|s| s.to_string());
            });
            match shown {
                Some(()) => o.push(format!("load err {}", err_name(&e))),
                None => o.push("load panic (while formatting the error value)".to_string()),
            }
        }
        Some(Ok(ase)) => {
            o.push("load ok".to_string());
            if outcome_only {
                return o;
            }
            let r = guard(|| {
                let mut lines = Vec::new();
                observe(verbose, &ase, bytes.len(), &mut lines);
                lines
            });
            match r {
                Some(lines) => o.extend(lines),
                None => o.push("observe PANIC".to_string()),
            }
        }
    }
    o
}

/// Run one case on a fresh 2 MiB thread (an "ordinary thread" for the stack claims).
fn on_small_thread<T: Send + 'static>(f: impl FnOnce() -> T + Send + 'static) -> Option<T> {
    std::thread::Builder::new()
        .stack_size(2 * 1024 * 1024)
        .spawn(f)
        .ok()?
        .join()
        .ok()
}

fn assert_send_sync<T: Send + Sync>() {}

/// milliseconds since start at which the current case began (0 = idle)
static CASE_START: std::sync::atomic::AtomicU64 = std::sync::atomic::AtomicU64::new(0);

fn case_begin(t0: std::time::Instant) {
    CASE_START.store(t0.elapsed().as_millis() as u64 + 1, std::sync::atomic::Ordering::SeqCst);
}

fn case_end() {
    CASE_START.store(0, std::sync::atomic::Ordering::SeqCst);
}

/// A case that does not return within the limit ("fails to return") is reported and the worker
/// exits; the orchestrator restarts it after that case.
fn start_watchdog(t0: std::time::Instant) {
    let limit_ms: u64 = std::env::var("OBSERVE_CASE_TIMEOUT_MS").ok().and_then(|v| v.parse().ok()).unwrap_or(15_000);
    std::thread::spawn(move || loop {
        std::thread::sleep(std::time::Duration::from_millis(250));
        let st = CASE_START.load(std::sync::atomic::Ordering::SeqCst);
        if st != 0 && (t0.elapsed().as_millis() as u64 + 1).saturating_sub(st) > limit_ms {
            // the main thread holds the stdout lock for its whole life: write to the descriptor
            let msg = b"load timeout\nEND\n";
            use std::os::unix::io::FromRawFd;
            let mut f = unsafe { std::fs::File::from_raw_fd(1) };
            let _ = f.write_all(msg);
            let _ = f.flush();
            std::process::exit(3);
        }
    });
}

/// A `log` logger that admits every level and formats every record: an embedding application
/// may have logging enabled, and the arguments of the library's log statements are only evaluated
/// then.
struct SinkLogger;

impl log::Log for SinkLogger {
    fn enabled(&self, _: &log::Metadata) -> bool {
        true
    }
    fn log(&self, record: &log::Record) {
        let s = format!("{}", record.args());
        std::hint::black_box(s.len());
    }
    fn flush(&self) {}
}

static SINK_LOGGER: SinkLogger = SinkLogger;

fn main() {
    let _ = log::set_logger(&SINK_LOGGER);
    log::set_max_level(log::LevelFilter::Trace);
    assert_send_sync::<AsepriteFile>();
    panic::set_hook(Box::new(|_| {}));
    let t0 = std::time::Instant::now();
    start_watchdog(t0);
    let stdin = io::stdin();
    let stdout = io::stdout();
    let mut out = io::BufWriter::new(stdout.lock());
    for line in stdin.lock().lines() {
        let line = match line {
            Ok(l) => l,
            Err(_) => break,
        };
        let parts: Vec<&str> = line.trim().split(' ').collect();
        if parts.is_empty() || parts[0].is_empty() {
            continue;
        }
        match parts[0] {
            "PROFILE" => {}
            "LOAD" | "LOADV" | "LOADO" if parts.len() == 3 => {
                let verbose = parts[0] == "LOADV";
                let outcome_only = parts[0] == "LOADO";
                writeln!(out, "CASE {}", parts[1]).unwrap();
                // flush so that a crash of this process can be attributed to this case
                out.flush().unwrap();
                match unhex(parts[2]) {
                    None => writeln!(out, "bad-hex").unwrap(),
                    Some(bytes) => {
                        case_begin(t0);
                        let lines = on_small_thread(move || load_case(verbose, outcome_only, &bytes));
                        case_end();
                        match lines {
                            Some(lines) => {
                                for l in lines {
                                    writeln!(out, "{}", l).unwrap();
                                }
                            }
                            None => writeln!(out, "load thread-died").unwrap(),
                        }
                    }
                }
                writeln!(out, "END").unwrap();
                out.flush().unwrap();
            }
            "INFLATE" if parts.len() == 3 => {
                writeln!(out, "CASE {}", parts[1]).unwrap();
                match unhex(parts[2]) {
                    None => writeln!(out, "bad-hex").unwrap(),
                    Some(bytes) => {
                        use std::io::Read;
                        let mut d = flate2::read::ZlibDecoder::new(Cursor::new(&bytes));
                        let mut buf = Vec::new();
                        match d.read_to_end(&mut buf) {
                            Ok(_) => writeln!(out, "ok {}", hex(&buf)).unwrap(),
                            Err(e) => writeln!(out, "err io:{}", io_kind_name(e.kind())).unwrap(),
                        }
                    }
                }
                writeln!(out, "END").unwrap();
                out.flush().unwrap();
            }
            "SCHED" => {
                case_begin(t0);
                sched::handle(&parts, &mut out);
                case_end();
            }
            "ALLOC" => {
                case_begin(t0);
                alloc::handle(&parts, &mut out);
                case_end();
            }
            "UTIL" => util_obs::handle(&parts, &mut out),
            "THREADS" => sched::handle_threads(&parts, &mut out),
            "HISTORY" => sched::handle_history(&parts, &mut out),
            _ => {
                writeln!(out, "bad-op").unwrap();
                out.flush().unwrap();
            }
        }
    }
}
