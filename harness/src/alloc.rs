//! Counting global allocator (C12): live bytes, peak, largest single request.
use std::alloc::{GlobalAlloc, Layout, System};
use std::io::{Cursor, Write};
use std::sync::atomic::{AtomicUsize, Ordering};

pub struct Counting;

static LIVE: AtomicUsize = AtomicUsize::new(0);
static PEAK: AtomicUsize = AtomicUsize::new(0);
static LARGEST: AtomicUsize = AtomicUsize::new(0);

/// A single request above this is refused: the request is logged and the process aborts
/// (so that a hostile reservation is recorded instead of taking the sandbox down).
const REFUSE_ABOVE: usize = 3 << 30;

fn note(size: usize) {
    if size > REFUSE_ABOVE {
        let msg = format!("\nALLOC-REFUSED {}\n", size);
        unsafe {
            libc_write(1, msg.as_ptr(), msg.len());
        }
        std::process::abort();
    }
    let live = LIVE.fetch_add(size, Ordering::Relaxed) + size;
    PEAK.fetch_max(live, Ordering::Relaxed);
    LARGEST.fetch_max(size, Ordering::Relaxed);
}

extern "C" {
    #[link_name = "write"]
    fn libc_write(fd: i32, buf: *const u8, count: usize) -> isize;
}

unsafe impl GlobalAlloc for Counting {
    unsafe fn alloc(&self, layout: Layout) -> *mut u8 {
        note(layout.size());
        System.alloc(layout)
    }
    unsafe fn dealloc(&self, ptr: *mut u8, layout: Layout) {
        LIVE.fetch_sub(layout.size(), Ordering::Relaxed);
        System.dealloc(ptr, layout)
    }
    unsafe fn alloc_zeroed(&self, layout: Layout) -> *mut u8 {
        note(layout.size());
        System.alloc_zeroed(layout)
    }
    unsafe fn realloc(&self, ptr: *mut u8, layout: Layout, new_size: usize) -> *mut u8 {
        if new_size > layout.size() {
            note(new_size - layout.size());
            LARGEST.fetch_max(new_size, Ordering::Relaxed);
            if new_size > REFUSE_ABOVE {
                note(new_size);
            }
        } else {
            LIVE.fetch_sub(layout.size() - new_size, Ordering::Relaxed);
        }
        System.realloc(ptr, layout, new_size)
    }
}

#[global_allocator]
static GLOBAL: Counting = Counting;

/// `ALLOC <id> <hex>`: peak live bytes above the baseline while `AsepriteFile::read` runs
/// (the input buffer itself is allocated before the baseline is taken).
pub fn handle(parts: &[&str], out: &mut impl Write) {
    if parts.len() != 3 {
        writeln!(out, "bad-op").unwrap();
        return;
    }
    writeln!(out, "CASE {}", parts[1]).unwrap();
    out.flush().unwrap();
    match crate::unhex(parts[2]) {
        None => writeln!(out, "bad-hex").unwrap(),
        Some(bytes) => {
            let len = bytes.len();
            let base = LIVE.load(Ordering::SeqCst);
            PEAK.store(base, Ordering::SeqCst);
            LARGEST.store(0, Ordering::SeqCst);
            let r = crate::guard(|| asefile::AsepriteFile::read(Cursor::new(&bytes)).map(|f| {
                // keep the sprite alive until the peak has been read
                let peak = PEAK.load(Ordering::SeqCst);
                drop(f);
                peak
            }));
            let peak = PEAK.load(Ordering::SeqCst);
            let largest = LARGEST.load(Ordering::SeqCst);
            let res = match r {
                None => "panic",
                Some(Ok(_)) => "ok",
                Some(Err(_)) => "err",
            };
            writeln!(
                out,
                "alloc len={} peak={} largest={} result={}",
                len,
                peak.saturating_sub(base),
                largest,
                res
            )
            .unwrap();
        }
    }
    writeln!(out, "END").unwrap();
    out.flush().unwrap();
}
