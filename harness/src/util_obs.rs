//! Observation of `asefile::util` (C18).
use asefile::util::{extrude_border, to_indexed_image, MappingOptions, PaletteMapper};
use asefile::AsepriteFile;
use std::io::{Cursor, Write};

fn image_from(w: u32, h: u32, px: &[u8]) -> Option<image::RgbaImage> {
    image::RgbaImage::from_raw(w, h, px.to_vec())
}

fn options(failure: &str, transparent: &str) -> Option<MappingOptions> {
    Some(MappingOptions {
        failure: failure.parse().ok()?,
        transparent: if transparent == "-" {
            None
        } else {
            Some(transparent.parse().ok()?)
        },
    })
}

/// `UTIL <id> extrude <w> <h> <hexpixels>`
/// `UTIL <id> mapper <hexfile> <failure> <transparent|-> <hex rgba queries>`
/// `UTIL <id> indexed <hexfile> <failure> <transparent|-> <w> <h> <hexpixels> [<hex spare bytes>]`
pub fn handle(parts: &[&str], out: &mut impl Write) {
    if parts.len() < 3 {
        writeln!(out, "bad-op").unwrap();
        return;
    }
    writeln!(out, "CASE {}", parts[1]).unwrap();
    out.flush().unwrap();
    let r = crate::guard(|| -> Option<String> {
        match parts[2] {
            "extrude" if parts.len() == 6 || parts.len() == 7 => {
                let w: u32 = parts[3].parse().ok()?;
                let h: u32 = parts[4].parse().ok()?;
                // optional 7th field: spare bytes appended to the backing buffer (RgbaImage::from_raw
                // accepts a buffer that is larger than the image)
                let mut buf = crate::unhex(parts[5])?;
                if parts.len() == 7 {
                    buf.extend(crate::unhex(parts[6])?);
                }
                let img = image_from(w, h, &buf)?;
                Some(format!("extrude {}", crate::image_str(true, &extrude_border(img))))
            }
            "mapper" if parts.len() == 7 => {
                let file = AsepriteFile::read(Cursor::new(crate::unhex(parts[3])?)).ok()?;
                let pal = file.palette()?;
                // a failure index written `f1>f2`: a first mapper with failure index f1 is built on the same
                // palette, used once and dropped; the answers come from a second mapper with f2
                let failure = match parts[4].split_once('>') {
                    Some((f1, f2)) => {
                        let first = PaletteMapper::new(pal, options(f1, parts[5])?);
                        let _ = first.lookup(0, 0, 0, 255);
                        f2
                    }
                    None => parts[4],
                };
                let mapper = PaletteMapper::new(pal, options(failure, parts[5])?);
                let q = crate::unhex(parts[6])?;
                let res: Vec<String> = q
                    .chunks_exact(4)
                    .map(|c| mapper.lookup(c[0], c[1], c[2], c[3]).to_string())
                    .collect();
                Some(format!("mapper {}", res.join(",")))
            }
            "indexed" if parts.len() == 9 || parts.len() == 10 => {
                let file = AsepriteFile::read(Cursor::new(crate::unhex(parts[3])?)).ok()?;
                let pal = file.palette()?;
                let mapper = PaletteMapper::new(pal, options(parts[4], parts[5])?);
                let w: u32 = parts[6].parse().ok()?;
                let h: u32 = parts[7].parse().ok()?;
                // optional 10th field: spare bytes behind the pixels in the backing buffer
                let mut buf = crate::unhex(parts[8])?;
                if parts.len() == 10 {
                    buf.extend(crate::unhex(parts[9])?);
                }
                let img = image_from(w, h, &buf)?;
                let ((rw, rh), data) = to_indexed_image(img, &mapper);
                Some(format!("indexed {}x{} {}", rw, rh, crate::hex(&data)))
            }
            _ => None,
        }
    });
    match r {
        None => writeln!(out, "util PANIC").unwrap(),
        Some(None) => writeln!(out, "bad-request").unwrap(),
        Some(Some(s)) => writeln!(out, "{}", s).unwrap(),
    }
    writeln!(out, "END").unwrap();
    out.flush().unwrap();
}
