//! Instrumented readers (C14) and concurrent / repeated observation (C16).
use asefile::AsepriteFile;
use std::io::{self, Read, Write};

pub fn kind_code(k: io::ErrorKind) -> u32 {
    use io::ErrorKind::*;
    match k {
        InvalidInput => 1,
        InvalidData => 2,
        Other => 3,
        BrokenPipe => 4,
        TimedOut => 5,
        PermissionDenied => 6,
        ConnectionReset => 7,
        WouldBlock => 8,
        OutOfMemory => 9,
        NotFound => 10,
        _ => 99,
    }
}

pub fn code_kind(c: u32) -> io::ErrorKind {
    use io::ErrorKind::*;
    match c {
        0 => UnexpectedEof,
        1 => InvalidInput,
        2 => InvalidData,
        3 => Other,
        4 => BrokenPipe,
        5 => TimedOut,
        6 => PermissionDenied,
        7 => ConnectionReset,
        8 => WouldBlock,
        9 => OutOfMemory,
        10 => NotFound,
        _ => Other,
    }
}

#[derive(Clone, Debug)]
pub enum Ev {
    Deliver(usize),
    Interrupted,
    /// a hard error whose payload has a cause of its own (`source()` of the io::Error is Some)
    Fail(u32),
    /// a hard error without payload (`io::Error::from(kind)`)
    FailPlain(u32),
}

/// error payload with a nested cause: the library must still expose the reader's io::Error (not
/// the cause) as the source of its IoError value
#[derive(Debug)]
pub struct Transport {
    cause: std::fmt::Error,
}

impl std::fmt::Display for Transport {
    fn fmt(&self, f: &mut std::fmt::Formatter<'_>) -> std::fmt::Result {
        write!(f, "injected transport failure")
    }
}

impl std::error::Error for Transport {
    fn source(&self) -> Option<&(dyn std::error::Error + 'static)> {
        Some(&self.cause)
    }
}

pub fn parse_events(s: &str) -> Option<Vec<Ev>> {
    let mut v = Vec::new();
    if s == "-" {
        return Some(v);
    }
    for tok in s.split(',') {
        if tok == "i" {
            v.push(Ev::Interrupted);
        } else if let Some(n) = tok.strip_prefix('d') {
            v.push(Ev::Deliver(n.parse().ok()?));
        } else if let Some(n) = tok.strip_prefix('f') {
            v.push(Ev::Fail(n.parse().ok()?));
        } else if let Some(n) = tok.strip_prefix('F') {
            v.push(Ev::FailPlain(n.parse().ok()?));
        } else {
            return None;
        }
    }
    Some(v)
}

/// A reader that consumes one event per `read` call; after the events it delivers fully.
pub struct SchedReader {
    data: Vec<u8>,
    pos: usize,
    events: std::collections::VecDeque<Ev>,
}

impl SchedReader {
    pub fn new(data: Vec<u8>, events: Vec<Ev>) -> Self {
        SchedReader {
            data,
            pos: 0,
            events: events.into(),
        }
    }
}

impl Read for SchedReader {
    fn read(&mut self, buf: &mut [u8]) -> io::Result<usize> {
        if buf.is_empty() {
            return Ok(0);
        }
        let limit = match self.events.pop_front() {
            None => usize::MAX,
            Some(Ev::Deliver(n)) => n.max(1),
            Some(Ev::Interrupted) => return Err(io::Error::from(io::ErrorKind::Interrupted)),
            Some(Ev::Fail(c)) => {
                return Err(io::Error::new(
                    code_kind(c),
                    Transport {
                        cause: std::fmt::Error,
                    },
                ))
            }
            Some(Ev::FailPlain(c)) => return Err(io::Error::from(code_kind(c))),
        };
        let avail = self.data.len() - self.pos;
        let n = buf.len().min(limit).min(avail);
        buf[..n].copy_from_slice(&self.data[self.pos..self.pos + n]);
        self.pos += n;
        Ok(n)
    }
}

/// A reader that delivers the first `limit` bytes normally (however many calls that takes) and
/// then fails every call with a hard error.
pub struct FailAfter {
    data: Vec<u8>,
    pos: usize,
    limit: usize,
}

impl Read for FailAfter {
    fn read(&mut self, buf: &mut [u8]) -> io::Result<usize> {
        if buf.is_empty() {
            return Ok(0);
        }
        if self.pos >= self.limit {
            return Err(io::Error::new(
                io::ErrorKind::Other,
                Transport {
                    cause: std::fmt::Error,
                },
            ));
        }
        let n = buf.len().min(self.limit - self.pos).min(self.data.len() - self.pos);
        buf[..n].copy_from_slice(&self.data[self.pos..self.pos + n]);
        self.pos += n;
        Ok(n)
    }
}

/// A minimal loadable sprite (1x1 RGBA, one empty frame), written as `<stem>.ase` next to every
/// temporary `<stem>.aseprite` handed to `read_file`: what a path-based load returns must come from
/// the named file only.
pub(crate) fn sibling_sprite() -> Vec<u8> {
    let mut h = vec![0u8; 128];
    h[4] = 0xE0;
    h[5] = 0xA5;
    h[6] = 1; // frames
    h[8] = 1; // width
    h[10] = 1; // height
    h[12] = 32; // depth
    h[14] = 1; // flags
    h[18] = 100; // speed
    h.extend_from_slice(&[16, 0, 0, 0, 0xFA, 0xF1, 0, 0, 100, 0, 0, 0, 0, 0, 0, 0]);
    h
}

pub(crate) fn with_sibling<T>(path: &std::path::Path, f: impl FnOnce() -> T) -> T {
    let sib = path.with_extension("ase");
    let _ = std::fs::write(&sib, sibling_sprite());
    let r = f();
    let _ = std::fs::remove_file(&sib);
    r
}

fn print_result(out: &mut impl Write, r: Option<asefile::Result<AsepriteFile>>, len: usize) {
    match r {
        None => writeln!(out, "load panic").unwrap(),
        Some(Err(e)) => writeln!(out, "load err {}", crate::err_name(&e)).unwrap(),
        Some(Ok(ase)) => {
            writeln!(out, "load ok").unwrap();
            let mut lines = Vec::new();
            match crate::guard(|| {
                crate::observe(false, &ase, len, &mut lines);
            }) {
                Some(()) => {
                    for l in lines {
                        writeln!(out, "{}", l).unwrap();
                    }
                }
                None => writeln!(out, "observe PANIC").unwrap(),
            }
        }
    }
}

/// `SCHED <id> <hex> <events>` — load through a scheduled reader.
/// `SCHED <id> <hex> bufreader:<cap>` — `BufReader::with_capacity(cap, Cursor)`.
/// `SCHED <id> <hex> file` — write to a temp file and use `AsepriteFile::read_file`.
pub fn handle(parts: &[&str], out: &mut impl Write) {
    if parts.len() != 4 {
        writeln!(out, "bad-op").unwrap();
        return;
    }
    writeln!(out, "CASE {}", parts[1]).unwrap();
    out.flush().unwrap();
    match crate::unhex(parts[2]) {
        None => writeln!(out, "bad-hex").unwrap(),
        Some(bytes) => {
            let len = bytes.len();
            if let Some(cap) = parts[3].strip_prefix("bufreader:") {
                let cap: usize = cap.parse().unwrap_or(1).max(1);
                let r = crate::guard(|| {
                    AsepriteFile::read(io::BufReader::with_capacity(cap, io::Cursor::new(&bytes)))
                });
                print_result(out, r, len);
            } else if parts[3] == "file" {
                let path = std::env::temp_dir().join(format!(
                    "observe-{}-{}.aseprite",
                    std::process::id(),
                    parts[1].replace('/', "_")
                ));
                std::fs::write(&path, &bytes).unwrap();
                let r = with_sibling(&path, || crate::guard(|| AsepriteFile::read_file(&path)));
                let _ = std::fs::remove_file(&path);
                // a failing file-backed load must carry the same error value as loading the same
                // bytes from memory does (compared through the Debug text of the source)
                let src_text = |e: &asefile::AsepriteParseError| {
                    std::error::Error::source(e).map(|s| format!("{:?}", s))
                };
                let differs = match &r {
                    Some(Err(e @ asefile::AsepriteParseError::IoError(_))) => {
                        match crate::guard(|| AsepriteFile::read(io::Cursor::new(&bytes))) {
                            Some(Err(m @ asefile::AsepriteParseError::IoError(_))) => src_text(e) != src_text(&m),
                            _ => false,
                        }
                    }
                    _ => false,
                };
                if differs {
                    writeln!(out, "load err io:file-error-differs-from-memory (read_file carries another error value than read on the same bytes)").unwrap();
                } else {
                    print_result(out, r, len);
                }
            } else if let Some(n) = parts[3].strip_prefix("fifo:") {
                // read_file on a named pipe whose writer delivers the first n bytes, pauses, then
                // delivers the rest: the file-backed result must not depend on how the bytes arrive
                let n: usize = n.parse().unwrap_or(1).min(bytes.len());
                let path = std::env::temp_dir().join(format!(
                    "observe-fifo-{}-{}.aseprite",
                    std::process::id(),
                    parts[1].replace('/', "_")
                ));
                let _ = std::fs::remove_file(&path);
                let made = std::process::Command::new("mkfifo").arg(&path).status().map(|s| s.success()).unwrap_or(false);
                if !made {
                    writeln!(out, "no-fifo").unwrap();
                } else {
                    let (wp, data) = (path.clone(), bytes.clone());
                    let writer = std::thread::spawn(move || {
                        if let Ok(mut f) = std::fs::OpenOptions::new().write(true).open(&wp) {
                            let _ = f.write_all(&data[..n]);
                            let _ = f.flush();
                            std::thread::sleep(std::time::Duration::from_millis(60));
                            let _ = f.write_all(&data[n..]);
                        }
                    });
                    let r = crate::guard(|| AsepriteFile::read_file(&path));
                    // unblock the writer if the loader stopped reading early
                    let drain = {
                        use std::os::unix::fs::OpenOptionsExt;
                        std::fs::OpenOptions::new().read(true).custom_flags(0o4000).open(&path) // O_NONBLOCK
                    };
                    drop(drain);
                    let _ = writer.join();
                    let _ = std::fs::remove_file(&path);
                    print_result(out, r, len);
                }
            } else if parts[3] == "missingfile" || parts[3] == "dirfile" {
                // read_file on a path that does not exist / on a directory: the error the OS reported
                // (compared with what std::fs reports for the same path) must be the one carried as source
                let path = if parts[3] == "dirfile" {
                    std::env::temp_dir()
                } else {
                    std::env::temp_dir().join(format!("observe-missing-{}-{}.aseprite", std::process::id(), parts[1].replace('/', "_")))
                };
                let expected: Option<io::Error> = match std::fs::File::open(&path) {
                    Err(e) => Some(e),
                    Ok(mut f) => {
                        let mut b = [0u8; 16];
                        io::Read::read(&mut f, &mut b).err()
                    }
                };
                let r = crate::guard(|| AsepriteFile::read_file(&path));
                match (&r, &expected) {
                    (None, _) => writeln!(out, "load panic").unwrap(),
                    (Some(Ok(_)), _) => writeln!(out, "load ok").unwrap(),
                    (Some(Err(e)), Some(x)) => {
                        let got = std::error::Error::source(e).and_then(|s| s.downcast_ref::<io::Error>());
                        match got {
                            Some(g) if g.raw_os_error() == x.raw_os_error() && g.kind() == x.kind() && format!("{:?}", g) == format!("{:?}", x) =>
                                writeln!(out, "load err io:os-error-carried").unwrap(),
                            Some(g) => writeln!(out, "load err io:os-error-replaced (source {:?}, the OS reported {:?})", g, x).unwrap(),
                            None => writeln!(out, "load err {} (not the IoError variant with an io::Error source)", crate::err_name(e)).unwrap(),
                        }
                    }
                    (Some(Err(e)), None) => writeln!(out, "load err {} (std::fs reports no error for this path)", crate::err_name(e)).unwrap(),
                }
            } else {
                match parse_events(parts[3]) {
                    None => writeln!(out, "bad-events").unwrap(),
                    Some(evs) => {
                        let nested = evs.iter().any(|e| matches!(e, Ev::Fail(_)));
                        let r = crate::guard(|| AsepriteFile::read(SchedReader::new(bytes, evs)));
                        // the reader's own error (with its payload) must be the one carried as source
                        let lost = match &r {
                            Some(Err(e @ asefile::AsepriteParseError::IoError(_))) if nested => {
                                let payload_ok = std::error::Error::source(e)
                                    .and_then(|s| s.downcast_ref::<io::Error>())
                                    .and_then(|ioe| ioe.get_ref())
                                    .map(|p| p.is::<Transport>())
                                    .unwrap_or(false);
                                !payload_ok
                            }
                            _ => false,
                        };
                        if lost {
                            writeln!(out, "load err io:reader-error-replaced (the IoError does not carry the reader's error value)").unwrap();
                        } else {
                            print_result(out, r, len);
                        }
                    }
                }
            }
        }
    }
    writeln!(out, "END").unwrap();
    out.flush().unwrap();
}

/// Observation of the sprite plus (impl-only, `mapperx`) what `util::PaletteMapper` built from
/// its palette answers for every palette colour: the answer for a colour stored at several
/// indices depends on the iteration order of the palette's map.
fn observe_all(ase: &AsepriteFile, len: usize) -> Vec<String> {
    let mut lines = Vec::new();
    crate::observe(false, ase, len, &mut lines);
    if let Some(pal) = ase.palette() {
        let mapper = asefile::util::PaletteMapper::new(
            pal,
            asefile::util::MappingOptions {
                failure: 0,
                transparent: None,
            },
        );
        let mut v = Vec::new();
        let mut t = Vec::new();
        for i in 0..1024u32 {
            if let Some(e) = pal.color(i) {
                v.push(mapper.lookup(e.red(), e.green(), e.blue(), 255).to_string());
                // the same colour, translucent, right after its opaque lookup: the transparent
                // index (= failure = 0) whatever was looked up before
                if i < 64 {
                    t.push(mapper.lookup(e.red(), e.green(), e.blue(), 0).to_string());
                    t.push(mapper.lookup(e.red(), e.green(), e.blue(), 128).to_string());
                }
            }
        }
        lines.push(format!("mapperx {} | {}", v.join(","), t.join(",")));
    }
    lines
}

/// `HISTORY <id> <hexA> <hexB>` — on ONE thread: load A, observe it, drop it, then load B and
/// observe it; prints B's observation and a `differs` line when it is not the observation of B
/// made on a fresh thread with no history.
pub fn handle_history(parts: &[&str], out: &mut impl Write) {
    // an optional fifth word `keep`: sprite A stays alive while B is loaded and observed;
    // `fail:<n>`: A is read through a reader that fails with a hard error after n bytes
    let keep = parts.len() == 5 && parts[4] == "keep";
    // `files`: A and B are both loaded through `AsepriteFile::read_file` (temp files); B may be a
    // file that does not load: then the outcome after the history must equal the fresh outcome
    let files = parts.len() == 5 && parts[4] == "files";
    // `alt`: A and B are loaded, observed and dropped alternately 16 times on one thread; every
    // observation of B must equal the fresh one (state keyed by a freed object's address)
    if parts.len() == 5 && parts[4] == "alt" {
        history_alt(parts, out);
        return;
    }
    let fail_at: Option<usize> = if parts.len() == 5 {
        parts[4].strip_prefix("fail:").and_then(|n| n.parse().ok())
    } else {
        None
    };
    if files {
        history_files(parts, out);
        return;
    }
    if parts.len() != 4 && !keep && fail_at.is_none() {
        writeln!(out, "bad-op").unwrap();
        return;
    }
    writeln!(out, "CASE {}", parts[1]).unwrap();
    out.flush().unwrap();
    match (crate::unhex(parts[2]), crate::unhex(parts[3])) {
        (Some(a), Some(b)) => {
            let b2 = b.clone();
            let fresh = std::thread::spawn(move || {
                crate::guard(|| {
                    let ase = AsepriteFile::read(io::Cursor::new(&b2)).ok()?;
                    Some(observe_all(&ase, b2.len()))
                })
                .flatten()
            })
            .join()
            .ok()
            .flatten();
            let after = std::thread::spawn(move || {
                crate::guard(|| {
                    let mut alive = Vec::new();
                    if let Some(n) = fail_at {
                        for _ in 0..2 {
                            let _ = AsepriteFile::read(FailAfter {
                                data: a.clone(),
                                pos: 0,
                                limit: n.min(a.len()),
                            });
                        }
                    }
                    for _ in 0..(if fail_at.is_some() { 0 } else { 2 }) {
                        if let Ok(first) = AsepriteFile::read(io::Cursor::new(&a)) {
                            let _ = observe_all(&first, a.len());
                            if keep {
                                alive.push(first);
                            } else {
                                drop(first);
                            }
                        }
                    }
                    let ase = AsepriteFile::read(io::Cursor::new(&b)).ok()?;
                    let o = observe_all(&ase, b.len());
                    drop(alive);
                    Some(o)
                })
                .flatten()
            })
            .join()
            .ok()
            .flatten();
            match (&fresh, &after) {
                (Some(f), Some(h)) => {
                    writeln!(out, "load ok").unwrap();
                    for l in h {
                        writeln!(out, "{}", l).unwrap();
                    }
                    if f != h {
                        let k = f.iter().zip(h.iter()).position(|(x, y)| x != y).unwrap_or(0);
                        let show = |v: &Vec<String>| v.get(k).map(|s| s.chars().take(160).collect::<String>()).unwrap_or_default();
                        writeln!(out, "differs after-history line {} fresh=[{}] after=[{}]", k, show(f), show(h)).unwrap();
                    }
                }
                _ => writeln!(out, "load failed-or-panicked").unwrap(),
            }
        }
        _ => writeln!(out, "bad-hex").unwrap(),
    }
    writeln!(out, "END").unwrap();
    out.flush().unwrap();
}

fn history_alt(parts: &[&str], out: &mut impl Write) {
    writeln!(out, "CASE {}", parts[1]).unwrap();
    out.flush().unwrap();
    let (a, b) = match (crate::unhex(parts[2]), crate::unhex(parts[3])) {
        (Some(a), Some(b)) => (a, b),
        _ => {
            writeln!(out, "bad-hex\nEND").unwrap();
            return;
        }
    };
    let b2 = b.clone();
    let fresh = std::thread::spawn(move || {
        crate::guard(|| {
            let ase = AsepriteFile::read(io::Cursor::new(&b2)).ok()?;
            Some(observe_all(&ase, b2.len()))
        })
        .flatten()
    })
    .join()
    .ok()
    .flatten();
    let fresh2 = fresh.clone();
    let verdict = std::thread::spawn(move || {
        crate::guard(|| {
            for round in 0..16 {
                if let Ok(first) = AsepriteFile::read(io::Cursor::new(&a)) {
                    let _ = observe_all(&first, a.len());
                    drop(first);
                }
                let ase = AsepriteFile::read(io::Cursor::new(&b)).ok()?;
                let o = observe_all(&ase, b.len());
                drop(ase);
                if let Some(f) = &fresh2 {
                    if &o != f {
                        let k = f.iter().zip(o.iter()).position(|(x, y)| x != y).unwrap_or(0);
                        let show = |v: &Vec<String>| v.get(k).map(|s| s.chars().take(160).collect::<String>()).unwrap_or_default();
                        return Some(format!("differs after-history round {} line {} fresh=[{}] after=[{}]", round, k, show(f), show(&o)));
                    }
                }
            }
            Some("same".to_string())
        })
        .flatten()
    })
    .join()
    .ok()
    .flatten();
    match (fresh, verdict) {
        (Some(_), Some(v)) => {
            writeln!(out, "load ok").unwrap();
            if v != "same" {
                writeln!(out, "{}", v).unwrap();
            }
        }
        _ => writeln!(out, "load failed-or-panicked").unwrap(),
    }
    writeln!(out, "END").unwrap();
    out.flush().unwrap();
}

fn history_files(parts: &[&str], out: &mut impl Write) {
    writeln!(out, "CASE {}", parts[1]).unwrap();
    out.flush().unwrap();
    let (a, b) = match (crate::unhex(parts[2]), crate::unhex(parts[3])) {
        (Some(a), Some(b)) => (a, b),
        _ => {
            writeln!(out, "bad-hex\nEND").unwrap();
            return;
        }
    };
    let dir = std::env::temp_dir();
    let tag = format!("{}-{}", std::process::id(), parts[1].replace('/', "_"));
    let pa = dir.join(format!("observe-hist-a-{}.aseprite", tag));
    let pb = dir.join(format!("observe-hist-b-{}.aseprite", tag));
    std::fs::write(&pa, &a).unwrap();
    std::fs::write(&pb, &b).unwrap();
    let blen = b.len();
    let load_b = move |pb: &std::path::Path| -> Vec<String> {
        match with_sibling(pb, || crate::guard(|| AsepriteFile::read_file(pb))) {
            None => vec!["load panic".to_string()],
            Some(Err(e)) => vec![format!("load err {}", crate::err_name(&e))],
            Some(Ok(ase)) => {
                let mut v = vec!["load ok".to_string()];
                match crate::guard(|| observe_all(&ase, blen)) {
                    Some(o) => v.extend(o),
                    None => v.push("observe PANIC".to_string()),
                }
                v
            }
        }
    };
    let pb1 = pb.clone();
    let lb1 = load_b.clone();
    let fresh = std::thread::spawn(move || lb1(&pb1)).join().unwrap_or_else(|_| vec!["load panic".to_string()]);
    let (pa2, pb2) = (pa.clone(), pb.clone());
    let after = std::thread::spawn(move || {
        for _ in 0..2 {
            if let Some(Ok(first)) = crate::guard(|| AsepriteFile::read_file(&pa2)) {
                let _ = crate::guard(|| observe_all(&first, 0));
            }
        }
        load_b(&pb2)
    })
    .join()
    .unwrap_or_else(|_| vec!["load panic".to_string()]);
    let _ = std::fs::remove_file(&pa);
    let _ = std::fs::remove_file(&pb);
    for l in &after {
        writeln!(out, "{}", l).unwrap();
    }
    if fresh != after {
        let k = fresh.iter().zip(after.iter()).position(|(x, y)| x != y).unwrap_or(fresh.len().min(after.len()));
        let show = |v: &Vec<String>| v.get(k).map(|s| s.chars().take(160).collect::<String>()).unwrap_or_default();
        writeln!(out, "differs after-history line {} fresh=[{}] after=[{}]", k, show(&fresh), show(&after)).unwrap();
    }
    writeln!(out, "END").unwrap();
    out.flush().unwrap();
}

/// `THREADS <id> <hex> <n>` — load once, observe from `n` threads sharing one
/// `&AsepriteFile`, then load a second time and observe again; prints the first
/// observation and, for every other one that differs, a `differs` line.
pub fn handle_threads(parts: &[&str], out: &mut impl Write) {
    if parts.len() != 4 {
        writeln!(out, "bad-op").unwrap();
        return;
    }
    writeln!(out, "CASE {}", parts[1]).unwrap();
    out.flush().unwrap();
    let n: usize = parts[3].parse().unwrap_or(2);
    match crate::unhex(parts[2]) {
        None => writeln!(out, "bad-hex").unwrap(),
        Some(bytes) => {
            let len = bytes.len();
            match crate::guard(|| AsepriteFile::read(io::Cursor::new(&bytes))) {
                None => writeln!(out, "load panic").unwrap(),
                Some(Err(e)) => writeln!(out, "load err {}", crate::err_name(&e)).unwrap(),
                Some(Ok(ase)) => {
                    writeln!(out, "load ok").unwrap();
                    let ase_ref = &ase;
                    let obs: Vec<Option<Vec<String>>> = std::thread::scope(|s| {
                        let hs: Vec<_> = (0..n)
                            .map(|_| {
                                s.spawn(move || {
                                    crate::guard(|| observe_all(ase_ref, len))
                                })
                            })
                            .collect();
                        hs.into_iter().map(|h| h.join().ok().flatten()).collect()
                    });
                    // same sprite observed again sequentially, and a second load
                    let again = crate::guard(|| observe_all(&ase, len));
                    let second = crate::guard(|| {
                        let ase2 = AsepriteFile::read(io::Cursor::new(&bytes)).ok()?;
                        Some(observe_all(&ase2, len))
                    })
                    .flatten();
                    // a third load queried in the OPPOSITE order first (layers, frames and cels
                    // descending), then observed normally: the order of earlier calls must not matter
                    let reversed = crate::guard(|| {
                        let ase3 = AsepriteFile::read(io::Cursor::new(&bytes)).ok()?;
                        let nl = ase3.num_layers();
                        let nf = ase3.num_frames();
                        let small = (ase3.width() as u64) * (ase3.height() as u64) <= 65536;
                        for l in (0..nl.min(64)).rev() {
                            let layer = ase3.layer(l);
                            let _ = layer.is_visible();
                            let _ = layer.parent().map(|p| p.id());
                            let _ = layer.user_data().is_some();
                        }
                        for f in (0..nf.min(12)).rev() {
                            for l in (0..nl.min(24)).rev() {
                                let cel = ase3.cel(f, l);
                                let _ = cel.is_empty();
                                let _ = cel.user_data().is_some();
                                if small {
                                    let _ = cel.image();
                                }
                                if let Some(tm) = ase3.tilemap(l, f) {
                                    let _ = tm.tile(tm.width().saturating_sub(1), tm.height().saturating_sub(1)).id();
                                    let _ = tm.tile(0, 0).id();
                                }
                            }
                            if small {
                                let _ = ase3.frame(f).image();
                            }
                        }
                        Some(observe_all(&ase3, len))
                    })
                    .flatten();
                    match &obs[0] {
                        None => writeln!(out, "observe PANIC").unwrap(),
                        Some(first) => {
                            for l in first {
                                writeln!(out, "{}", l).unwrap();
                            }
                            for (i, o) in obs.iter().enumerate().skip(1) {
                                if o.as_ref() != Some(first) {
                                    writeln!(out, "differs thread {}", i).unwrap();
                                }
                            }
                            if again.as_ref() != Some(first) {
                                writeln!(out, "differs repeated").unwrap();
                            }
                            if second.as_ref() != Some(first) {
                                writeln!(out, "differs second-load").unwrap();
                            }
                            if reversed.as_ref() != Some(first) {
                                writeln!(out, "differs after-reversed-call-order").unwrap();
                            }
                        }
                    }
                }
            }
        }
    }
    writeln!(out, "END").unwrap();
    out.flush().unwrap();
}
