"""Shared machinery of /verif/bin/check: builds, audit, running model and implementation,
diffing observations, mutation of inputs, evidence and replay files.  Python 3 stdlib only."""
import fcntl, glob, hashlib, json, os, random, re, shutil, struct, subprocess, sys, tempfile, time

VERIF = os.path.dirname(os.path.dirname(os.path.abspath(__file__)))
REPO = os.environ.get("VERIF_REPO", "/repo")
LEAN = os.path.join(VERIF, "lean")
HARNESS = os.path.join(VERIF, "harness")
ASEDRV = os.path.join(LEAN, ".lake", "build", "bin", "asedrv")
CORES = os.cpu_count() or 4
ALLOWED_AXIOMS = {"propext", "Classical.choice", "Quot.sound"}

ENV = dict(os.environ, CARGO_NET_OFFLINE="true")


class Broken(Exception):
    """the check itself cannot run (build failure etc.)"""


def log(*a):
    print(*a, file=sys.stderr, flush=True)


# ----------------------------------------------------------------------------------------
# builds

_lock_fd = None


def lock():
    global _lock_fd
    os.makedirs(os.path.join(VERIF, ".locks"), exist_ok=True)
    _lock_fd = open(os.path.join(VERIF, ".locks", "build.lock"), "w")
    fcntl.flock(_lock_fd, fcntl.LOCK_EX)


def unlock():
    global _lock_fd
    if _lock_fd:
        fcntl.flock(_lock_fd, fcntl.LOCK_UN)
        _lock_fd.close()
        _lock_fd = None


def build_lean(targets=("AseProofs", "asedrv")):
    t = time.time()
    r = subprocess.run(["lake", "build", *targets], cwd=LEAN, capture_output=True, text=True)
    if r.returncode != 0:
        return False, (r.stdout + r.stderr)[-6000:], time.time() - t
    return True, "", time.time() - t


def harness_bin(profile):
    # bin/coverage substitutes a coverage-instrumented build of the same harness
    if os.environ.get("VERIF_OBSERVE_BIN"):
        return os.environ["VERIF_OBSERVE_BIN"]
    return os.path.join(HARNESS, "target", profile, "observe")


def build_harness(profiles=("release",)):
    """cargo build of the harness against /repo's current working tree"""
    lockfile = os.path.join(REPO, "Cargo.lock")
    if os.path.exists(lockfile):
        shutil.copyfile(lockfile, os.path.join(HARNESS, "Cargo.lock"))
    for p in profiles:
        r = subprocess.run(["cargo", "build", "--offline", "--profile", p], cwd=HARNESS,
                           capture_output=True, text=True, env=ENV)
        if r.returncode != 0:
            return False, p, r.stderr[-8000:]
    return True, "", ""


def props_registry():
    with open(os.path.join(LEAN, "props.json")) as f:
        return json.load(f)


SOURCE_BAN = re.compile(r"\b(sorry|admit|native_decide|bv_decide|implemented_by)\b|^\s*axiom\s|\bunsafe\s|maxHeartbeats\s+0")


def strip_comments(src):
    # remove block comments (nested) and line comments
    out = []
    i = 0
    depth = 0
    n = len(src)
    while i < n:
        if src.startswith("/-", i):
            depth += 1
            i += 2
        elif depth and src.startswith("-/", i):
            depth -= 1
            i += 2
        elif depth:
            i += 1
        elif src.startswith("--", i):
            j = src.find("\n", i)
            i = n if j < 0 else j
        else:
            out.append(src[i])
            i += 1
    return "".join(out)


def leancheck(prop_id):
    """thorough tier: `leanchecker` (the toolchain's independent re-checker of compiled .olean files)
    replays the declarations of the property's theorem modules through the kernel.  Returns problems."""
    mods = sorted("AseProofs.Props." + os.path.basename(f)[:-5]
                  for f in glob.glob(os.path.join(LEAN, "AseProofs", "Props", prop_id + "*.lean")))
    if not mods:
        return []
    r = subprocess.run(["lake", "env", "leanchecker"] + mods, cwd=LEAN, capture_output=True, text=True)
    if r.returncode != 0:
        return [f"leanchecker rejects {' '.join(mods)}: {(r.stdout + r.stderr)[-600:]}"]
    return []


def audit(prop_id, whitelist_native=()):
    """#print axioms on every theorem registered for the property + source grep.
    Returns (obligations, discharged, problems, theorem names)."""
    reg = props_registry().get(prop_id, {})
    thms = reg.get("theorems", [])
    module = reg.get("module", "AseProofs.Props." + prop_id)
    problems = []
    # source grep over every proof/model file
    for path in glob.glob(os.path.join(LEAN, "Ase*", "**", "*.lean"), recursive=True) + \
            glob.glob(os.path.join(LEAN, "Ase*.lean")):
        src = strip_comments(open(path).read())
        for ln in src.splitlines():
            m = SOURCE_BAN.search(ln)
            if m:
                tok = m.group(0).strip()
                if tok == "native_decide" and any(w in path for w in whitelist_native):
                    continue
                problems.append(f"forbidden token {tok!r} in {os.path.relpath(path, LEAN)}: {ln.strip()[:80]}")
    if not thms:
        return 0, 0, problems + ["no theorems registered"], []
    lines = [f"import {module}"]
    for t in thms:
        lines.append(f"#print axioms {t}")
    fd, tmp = tempfile.mkstemp(suffix=".lean", prefix="Audit_", dir=os.path.join(LEAN, ".lake"))
    os.write(fd, "\n".join(lines).encode() + b"\n")
    os.close(fd)
    try:
        r = subprocess.run(["lake", "env", "lean", tmp], cwd=LEAN, capture_output=True, text=True)
    finally:
        os.unlink(tmp)
    out = r.stdout + r.stderr
    discharged = 0
    blocks = re.split(r"(?=')", out)
    found = {}
    for m in re.finditer(r"'(\S+)' (does not depend on any axioms|depends on axioms: \[([^\]]*)\])", out, re.S):
        name = m.group(1)
        axs = set(a.strip() for a in (m.group(3) or "").replace("\n", " ").split(",") if a.strip())
        found[name] = axs
    for t in thms:
        if t not in found:
            problems.append(f"theorem {t} not found / did not compile: {out[-400:]}")
            continue
        extra = found[t] - ALLOWED_AXIOMS
        if t in reg.get("native_ok", []):
            extra -= {"Lean.ofReduceBool", "Lean.trustCompiler"}
        if extra:
            problems.append(f"theorem {t} depends on non-standard axioms {sorted(extra)}")
        else:
            discharged += 1
    return len(thms), discharged, problems, thms


# ----------------------------------------------------------------------------------------
# running the two sides

def parse_cases(text):
    """stdout of driver/harness -> (dict id -> list of lines, list of INPUT (id, hex), order)"""
    cases = {}
    inputs = []
    order = []
    cur = None
    for l in text.split("\n"):
        if l.startswith("INPUT "):
            _, cid, hx = l.split(" ", 2)
            inputs.append((cid, hx))
        elif l.startswith("CASE "):
            cur = l[5:]
            cases[cur] = []
            order.append(cur)
        elif l == "END":
            if cur is not None:
                cases[cur].append("END")
            cur = None
        elif cur is not None and l != "":
            cases[cur].append(l)
    return cases, inputs, order


def _run_shard(cmd, lines, timeout, preamble=()):
    """run `cmd` on request lines; survive a dying worker by attributing the death to the
    case that was running and restarting after it. Returns dict id -> lines."""
    results = {}
    inputs = []
    pending = list(lines)
    while pending:
        data = "".join(p + "\n" for p in preamble) + "".join(l + "\n" for l in pending)
        try:
            r = subprocess.run(cmd, input=data, capture_output=True, text=True, timeout=timeout)
            out, rc, timed_out = r.stdout, r.returncode, False
        except subprocess.TimeoutExpired as e:
            out = e.stdout.decode() if isinstance(e.stdout, bytes) else (e.stdout or "")
            rc, timed_out = -9, True
        cases, inp, order = parse_cases(out)
        inputs.extend(inp)
        complete = [c for c in order if cases[c] and cases[c][-1] == "END"]
        for c in complete:
            results[c] = cases[c][:-1]
        if rc == 0 and not timed_out:
            break
        # worker died: find the request that was running
        done = set(complete)
        idx = None
        for i, l in enumerate(pending):
            parts = l.split(" ")
            if len(parts) >= 2 and parts[0] not in ("PROFILE",) and parts[1] not in done:
                idx = i
                break
        if idx is None:
            break
        cid = pending[idx].split(" ")[1]
        partial = cases.get(cid, [])
        refused = [x for x in out.split("\n") if x.startswith("ALLOC-REFUSED")]
        results[cid] = partial + ["load timeout" if timed_out else
                                  ("load abort " + (refused[-1] if refused else f"rc={rc}"))]
        pending = pending[idx + 1:]
    return results, inputs


def run_parallel(cmd, lines, timeout=600, preamble=(), shards=None):
    """split request lines over worker processes"""
    import concurrent.futures
    if not lines:
        return {}, []
    n = shards or min(CORES, max(1, len(lines) // 50))
    chunks = [lines[i::n] for i in range(n)]
    results = {}
    inputs = []
    with concurrent.futures.ThreadPoolExecutor(max_workers=n) as ex:
        for res, inp in ex.map(lambda ch: _run_shard(cmd, ch, timeout, preamble), chunks):
            results.update(res)
            inputs.extend(inp)
    return results, inputs


def run_model(lines, profile="release", timeout=900, shards=None):
    pre = ["PROFILE " + ("checked" if profile == "relchk" else "release")]
    cmd = ["bash", "-c", "ulimit -s unlimited 2>/dev/null; exec " + ASEDRV]
    return run_parallel(cmd, lines, timeout, pre, shards)


def run_impl(lines, profile="release", timeout=900, shards=None):
    # a case that does not return within this limit is reported by the harness ("load timeout")
    os.environ.setdefault("OBSERVE_CASE_TIMEOUT_MS", "8000")
    return run_parallel([harness_bin(profile)], lines, timeout, (), shards)


# ----------------------------------------------------------------------------------------
# comparison

def outcome(lines):
    """normalised load outcome: ok / err / panic / abort / timeout (error variants collapsed)"""
    for l in lines:
        if l.startswith("load "):
            w = l.split(" ")
            return w[1]
    return "none"


def outcome_detail(lines):
    for l in lines:
        if l.startswith("load "):
            return l[5:]
    return "none"


def section(lines, prefixes):
    return [l for l in lines if l.split(" ", 1)[0] in prefixes]


def first_diff(a, b):
    for i in range(max(len(a), len(b))):
        x = a[i] if i < len(a) else "<missing>"
        y = b[i] if i < len(b) else "<missing>"
        if x != y:
            return i, x, y
    return None


# ----------------------------------------------------------------------------------------
# inputs

def corpus_files(max_size=None):
    out = []
    for f in sorted(glob.glob(os.path.join(REPO, "tests", "data", "*.aseprite"))):
        b = open(f, "rb").read()
        if max_size is None or len(b) <= max_size:
            out.append((os.path.basename(f), b))
    return out


def verif_corpus():
    """minimised past disagreements and hand-made defect inputs: always run first"""
    out = []
    for f in sorted(glob.glob(os.path.join(VERIF, "corpus", "*.hex"))):
        hx = "".join(open(f).read().split())
        out.append(("corpus/" + os.path.basename(f)[:-4], bytes.fromhex(hx)))
    return out


def verif_corpus_wf(include_big=()):
    """well-formed regression inputs (must load); files named big_<tag>_* are slow to observe
    (tens of thousands of layers or frames) and only used by the routines that ask for that tag"""
    if include_big is True:
        include_big = ("layers", "frames")
    out = []
    for c, b in _verif_corpus_wf():
        name = c[len("corpus/wf/"):]
        tag = name.split("_")[1] if name.startswith("big_") else None
        if tag in ("layers", "frames") and tag not in (include_big or ()):
            continue
        out.append((c, b))
    return out


def _verif_corpus_wf():
    out = []
    for f in sorted(glob.glob(os.path.join(VERIF, "corpus", "wf", "*.hex"))):
        hx = "".join(open(f).read().split())
        out.append(("corpus/wf/" + os.path.basename(f)[:-4], bytes.fromhex(hx)))
    for f in sorted(glob.glob(os.path.join(VERIF, "corpus", "wf", "*.zhex"))):
        import zlib
        hx = "".join(open(f).read().split())
        out.append(("corpus/wf/" + os.path.basename(f)[:-5], zlib.decompress(bytes.fromhex(hx))))
    return out


def gen_cases(profile, seed, count, model_profile="release"):
    """ask the driver for generated well-formed files; returns (list of (id, bytes), model obs)"""
    per = max(1, (count + CORES - 1) // CORES)
    reqs = []
    n = 0
    k = 0
    while n < count:
        c = min(per, count - n)
        reqs.append(f"GEN {profile} {seed * 977 + k} {c}")
        n += c
        k += 1
    pre = "PROFILE " + ("checked" if model_profile == "relchk" else "release") + "\n"
    import concurrent.futures
    def one(req):
        r = subprocess.run(["bash", "-c", "ulimit -s unlimited 2>/dev/null; exec " + ASEDRV],
                           input=pre + req + "\n", capture_output=True, text=True)
        if r.returncode != 0:
            raise Broken("driver failed on " + req + ": " + r.stderr[-500:])
        bad = [l for l in r.stdout.split("\n") if l.startswith("SEMCHECK ") and not l.endswith(" same")]
        if bad:
            raise Broken("the two sides of theorem decode_encode disagree on a generated program (generator emits a "
                         "program outside ProgramWF, or the driver is wrong): " + bad[0])
        return parse_cases(r.stdout)
    files = []
    obs = {}
    with concurrent.futures.ThreadPoolExecutor(max_workers=CORES) as ex:
        for cases, inputs, order in ex.map(one, reqs):
            for cid, hx in inputs:
                files.append((cid, bytes.fromhex(hx)))
            for c in order:
                obs[c] = cases[c][:-1] if cases[c] and cases[c][-1] == "END" else cases[c]
    return files, obs


def load_lines(files, verbose=False, outcome_only=False):
    cmd = "LOADO" if outcome_only else ("LOADV" if verbose else "LOAD")
    return [f"{cmd} {cid} {b.hex() or '-'}" for cid, b in files]


def walk_chunks(b):
    """offsets of the structural pieces of a (well-formed enough) file:
    list of (kind, offset, length) with kind in header/frame/chunk:<type>"""
    out = [("header", 0, min(128, len(b)))]
    if len(b) < 128:
        return out
    nframes = struct.unpack_from("<H", b, 6)[0]
    off = 128
    for _ in range(nframes):
        if off + 16 > len(b):
            break
        nb, magic, old, dur, ph, new = struct.unpack_from("<IHHHHI", b, off)
        out.append(("frame", off, 16))
        off += 16
        n = new if new else old
        for _ in range(n):
            if off + 6 > len(b):
                break
            sz, ty = struct.unpack_from("<IH", b, off)
            if sz < 6 or off + sz > len(b):
                break
            out.append((f"chunk:{ty:04x}", off, sz))
            off += sz
    out.append(("end", off, 0))
    return out


BOUNDARY = {
    1: [0, 1, 2, 3, 4, 18, 19, 31, 32, 63, 64, 127, 128, 254, 255],
    2: [0, 1, 2, 3, 7, 8, 16, 31, 32, 33, 255, 256, 32767, 32768, 65534, 65535],
    4: [0, 1, 2, 5, 6, 7, 255, 65535, 65536, 0x7fffffff, 0x80000000, 0xfffffffe, 0xffffffff],
}


def mutation_sites(b, depth=48):
    """(offset, width) pairs worth mutating: every offset of the file header's used part,
    of each frame header, and of the first `depth` bytes of every chunk (header + payload)"""
    sites = []
    for kind, off, ln in walk_chunks(b):
        if kind == "header":
            span = range(0, 44)
        elif kind == "frame":
            span = range(off, off + 16)
        elif kind.startswith("chunk"):
            span = range(off, off + min(ln, 6 + depth))
        else:
            continue
        for o in span:
            for w in (1, 2, 4):
                if o + w <= len(b):
                    sites.append((o, w, kind))
    return sites


def mutate(b, off, width, value):
    m = bytearray(b)
    m[off:off + width] = int(value).to_bytes(width, "little")
    return bytes(m)


def sample_mutants(files, rng, count, pairs=0.15):
    """field-aware malformed stream: single and paired boundary mutations"""
    out = []
    sites_cache = {}
    for i in range(count):
        cid, b = files[rng.randrange(len(files))]
        if cid not in sites_cache:
            sites_cache[cid] = mutation_sites(b)
        sites = sites_cache[cid]
        if not sites:
            continue
        o, w, kind = sites[rng.randrange(len(sites))]
        v = rng.choice(BOUNDARY[w]) if rng.random() < 0.85 else rng.randrange(1 << (8 * w))
        m = mutate(b, o, w, v)
        tag = f"{o}:{w}:{v}"
        if rng.random() < pairs:
            o2, w2, _ = sites[rng.randrange(len(sites))]
            v2 = rng.choice(BOUNDARY[w2])
            m = mutate(m, o2, w2, v2)
            tag += f"+{o2}:{w2}:{v2}"
        out.append((f"mut/{cid}/{tag}", m))
    return out


def noise_cases(files, rng, count):
    out = []
    for i in range(count):
        k = rng.randrange(4)
        if k == 0:
            n = rng.randrange(0, 300)
            out.append((f"noise/{i}", bytes(rng.randrange(256) for _ in range(n))))
        elif k == 1:
            cid, b = files[rng.randrange(len(files))]
            n = rng.randrange(0, 200)
            out.append((f"hdrnoise/{i}", b[:128] + bytes(rng.randrange(256) for _ in range(n))))
        elif k == 2:
            cid, b = files[rng.randrange(len(files))]
            m = bytearray(b)
            for _ in range(rng.randrange(1, 6)):
                m[rng.randrange(len(m))] = rng.randrange(256)
            out.append((f"flip/{cid}/{i}", bytes(m)))
        else:
            cid, b = files[rng.randrange(len(files))]
            out.append((f"trunc/{cid}/{i}", b[:rng.randrange(len(b) + 1)]))
    return out


# ----------------------------------------------------------------------------------------
# evidence / replay / known findings

def known_findings():
    p = os.path.join(VERIF, "known_findings.json")
    if not os.path.exists(p):
        return []
    return json.load(open(p)).get("findings", [])


def signature(data):
    if isinstance(data, bytes):
        return hashlib.sha256(data).hexdigest()[:16]
    return hashlib.sha256(json.dumps(data, sort_keys=True).encode()).hexdigest()[:16]


def write_replay(prop_id, payload):
    d = os.path.join(VERIF, "replays")
    os.makedirs(d, exist_ok=True)
    sig = signature(payload)
    path = os.path.join(d, f"{prop_id}-{sig}.json")
    with open(path, "w") as f:
        json.dump(payload, f, indent=1)
    return path


def write_evidence(prop_id, tier, seed, coverage, wall, violations, assumptions):
    d = os.path.join(VERIF, "evidence")
    os.makedirs(d, exist_ok=True)
    ev = {"property_id": prop_id, "tier": tier, "seed": seed, "level": "proof",
          "coverage": coverage, "assumptions": assumptions, "wall_s": round(wall, 2),
          "violations": violations}
    with open(os.path.join(d, f"{prop_id}.json"), "w") as f:
        json.dump(ev, f, indent=1)
