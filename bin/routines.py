"""Per-property correspondence routines and property oracles (DESIGN section 7)."""
import os
import json, os, random, struct, subprocess, time
import vlib
from vlib import log


class Ctx:
    def __init__(self, pid, tier, seed):
        self.pid, self.tier, self.seed = pid, tier, seed
        self.quick = tier != "thorough"


class Result:
    def __init__(self, rule=""):
        self.evaluations = 0
        self.compared = 0
        self.rule = rule
        self.samples = []
        self.oracle_failures = []
        self.corr_diffs = []
        self.distribution = {}
        self.sections = []
        self.exhaustive = False
        self._distinct = set()

    def distinct(self):
        return len(self._distinct)

    def note(self, key):
        self.distribution[key] = self.distribution.get(key, 0) + 1

    def merge(self, o):
        self.evaluations += o.evaluations
        self.compared += o.compared
        self.oracle_failures += o.oracle_failures
        self.corr_diffs += o.corr_diffs
        self._distinct |= o._distinct
        for k, v in o.distribution.items():
            self.distribution[k] = self.distribution.get(k, 0) + v
        self.samples = (self.samples + o.samples)[:8]


STRUCT = ["size", "format", "accx", "frames", "layers", "frame", "layer", "byname", "iter", "iterx", "tags", "tag",
          "gettag", "tagbyname", "slices", "slice", "key", "palette", "pal", "extfiles", "extfile",
          "tilesets", "tileset", "sprite_ud"]
CELS = ["celA", "celB", "celC"]
RENDER = ["frameimg"]
TILES = ["tilemap", "tiles", "tsimg", "tileimg"]
ALL = STRUCT + CELS + RENDER + TILES + ["debug"]


def strip_layer_ud(l):
    return l


import re as _re
# dimensions are u16 (or their sum): bounded repetitions keep the scan linear on long hex fields
_IMG = _re.compile(r"(?<![0-9a-fx])(\d{1,6}x\d{1,6}):[0-9a-f]{16}:([0-9a-f]{16})(:[0-9a-f]*)?")


def canon_line(l):
    """observation line with every image reduced to dimensions + the hash over pixels in which
    fully transparent pixels are canonicalised (the properties compare transparent pixels equal
    regardless of their RGB)"""
    return _IMG.sub(lambda m: m.group(1) + ":" + m.group(2), l)


def compare_cases(res, files, model_obs, impl_obs, prefixes, oracle=None, what="", load_only=False,
                  spec_backed=None):
    """`spec_backed`: name of the theorem(s) proving that the model's value on these sections IS the
    value the property specifies; a difference there (modulo RGB of transparent pixels) is then a
    concrete failing input of the property, not just a broken correspondence."""
    """three-way bookkeeping for a batch: correspondence (model vs impl on the chosen sections
    plus the load outcome) and the property oracle on the implementation's observation."""
    res.sections = sorted(set(res.sections) | set(prefixes))
    for cid, data in files:
        res.evaluations += 1
        m = model_obs.get(cid)
        i = impl_obs.get(cid)
        if m is None or i is None:
            raise vlib.Broken(f"no observation for case {cid} (model={m is not None}, impl={i is not None})")
        res.compared += 1
        mo, io = vlib.outcome(m), vlib.outcome(i)
        res.note("outcome:" + io)
        key = "|".join(vlib.section(i, prefixes) if not load_only else [io])
        if io == "ok" or load_only:
            res._distinct.add(hash((io, key)))
        if len(res.samples) < 4:
            res.samples.append({"id": cid, "bytes": len(data), "outcome": vlib.outcome_detail(i),
                                "input_hex_prefix": data[:48].hex()})
        # property oracle first: it needs no model
        if oracle is not None:
            msg = oracle(cid, data, i, m)
            if msg:
                res.oracle_failures.append({"id": cid, "what": msg, "input_hex": data.hex(),
                                            "impl_outcome": vlib.outcome_detail(i),
                                            "model_outcome": vlib.outcome_detail(m),
                                            "call": what})
                continue
        if mo != io:
            res.corr_diffs.append({"correspondence": "Ase.parse <-> AsepriteFile::read (load outcome)",
                                   "id": cid, "input_hex": data.hex(), "model": vlib.outcome_detail(m),
                                   "impl": vlib.outcome_detail(i)})
            continue
        if load_only or io != "ok":
            continue
        a, b = vlib.section(m, prefixes), vlib.section(i, prefixes)
        if spec_backed and a != b:
            # the theorems fix every channel of every pixel (also the RGB of fully transparent ones,
            # which the repository's own image comparison ignores): say so when only those differ
            only_hidden = [canon_line(x) for x in a] == [canon_line(x) for x in b]
            d = vlib.first_diff(a, b)
            res.oracle_failures.append({
                "id": cid, "input_hex": data.hex(), "call": what,
                "what": f"the implementation reports `{d[2][:300]}` where the property specifies `{d[1][:300]}` "
                        f"(expected value computed by the Lean model, proved equal to the specification by {spec_backed})"
                        + ("; the images differ only in the RGB of fully transparent pixels" if only_hidden else "")})
            continue
        if a != b:
            d = vlib.first_diff(a, b)
            res.corr_diffs.append({"correspondence": f"Ase model <-> public API on sections {what or prefixes}",
                                   "id": cid, "input_hex": data.hex(), "first_difference": {
                                       "line": d[0], "model": d[1][:600], "impl": d[2][:600]}})


def no_panic_oracle(cid, data, impl, model):
    o = vlib.outcome(impl)
    if o not in ("ok", "err"):
        return f"loading did not return a sprite or an error: {vlib.outcome_detail(impl)}"
    return None


def usable_oracle(cid, data, impl, model):
    if vlib.outcome(impl) != "ok":
        return None
    bad = [l for l in impl if "PANIC" in l or l.startswith("observe") or l.startswith("differs")]
    if bad:
        return "a sprite that loaded panicked in an accessor: " + bad[0][:300]
    return None


def must_load_oracle(cid, data, impl, model):
    o = vlib.outcome(impl)
    if o != "ok":
        return f"a well-formed file did not load: {vlib.outcome_detail(impl)}"
    return usable_oracle(cid, data, impl, model)


def must_fail_oracle(cid, data, impl, model):
    o = vlib.outcome(impl)
    if o != "err":
        return f"expected an error value, got: {vlib.outcome_detail(impl)}"
    return None


def compare_batched(res, files, prefixes, oracle, what, batch=30000, verbose=False, outcome_only=False,
                    load_only=False, spec_backed=None, profile="release"):
    """run_both + compare_cases in batches (bounds the memory of the thorough tiers)"""
    for start in range(0, len(files), batch):
        part = files[start:start + batch]
        m, i = run_both(part, profile, verbose=verbose, outcome_only=outcome_only)
        compare_cases(res, part, m, i, prefixes, oracle, what=what, load_only=load_only, spec_backed=spec_backed)
        del m, i


def run_both(files, profile="release", verbose=False, outcome_only=False):
    lines = vlib.load_lines(files, verbose, outcome_only)
    m, _ = vlib.run_model(lines, profile)
    i, _ = vlib.run_impl(lines, profile)
    return m, i


# ------------------------------------------------------------------------------------------
# well-formed families

def order_cases(ctx, scale):
    """sprites that make the ORDER of composition visible: many layers, in each frame a sparse
    subset of them carries a 1x1 opaque cel of the layer's own colour (Normal mode), so the frame
    pixel must be the colour of the highest layer of the subset.  Subset sizes and layer ids are
    chosen around the sizes at which hash tables grow (3/4, 7/8, 14/15 entries; ids 8, 16, 32, 64)."""
    rng = random.Random(ctx.seed * 4409 + scale)
    files, expect = [], {}
    def colour(l):
        return bytes([(l * 37) % 256, (l * 91 + 5) % 256, (l * 13 + 101) % 256, 255])
    for nl in (5, 9, 17, 33, 70):
        for rep in range(2 if ctx.quick else 12):
            nf = 12
            frames = []
            tops = []
            for f in range(nf):
                k = rng.choice([1, 2, 2, 3, 3, 4, 5, 7, 8, 9, 14, 15, 16])
                subset = sorted(rng.sample(range(nl), min(k, nl)))
                if f == 1:
                    subset = sorted(set([1, nl - 1]))            # a low and the highest layer
                if f == 2 and nl > 8:
                    subset = [1, 8]
                order = subset[:]
                rng.shuffle(order)                               # chunk order is irrelevant
                cels = [mk_chunk(0x2005, struct.pack("<HhhBH", l, 0, 0, 255, 0) + bytes(7) + struct.pack("<HH", 1, 1) + colour(l)) for l in order]
                frames.append(cels)
                tops.append(max(subset))
            layers = [mk_layer(name=b"L%d" % l) for l in range(nl)]
            cid = f"order/{nl}/{rep}"
            files.append((cid, mk_header(nf, 1, 1) + mk_frame(layers + frames[0]) + b"".join(mk_frame(c) for c in frames[1:])))
            expect[cid] = [colour(t) for t in tops]
    return files, expect


def bait_cases():
    """EXHAUSTIVE interaction family for skip-style shortcuts in the compositor: one layer X whose
    features are enumerated - where it sits (top level / in a visible group / in a hidden group), the
    BACKGROUND flag, its own visible flag, cel geometry (exactly the canvas / a 1x1 cel / larger than
    the canvas / canvas-sized but shifted off it), opaque or translucent pixels, layer opacity 255 / 128, cel opacity 255 / 0 / 77,
    Normal or Multiply, raw or linked - between an optional translucent layer below and an optional
    dot above, on a 2x2 canvas."""
    out = []
    W = H = 2
    def cel(layer, x, y, w, h, px, opacity=255):
        return mk_chunk(0x2005, struct.pack("<HhhBH", layer, x, y, opacity, 0) + bytes(7) + struct.pack("<HH", w, h) + px)
    def lay(flags, ltype=0, level=0, blend=0, opacity=255):
        return mk_chunk(0x2004, struct.pack("<HHHHHHBBH", flags, ltype, level, 0, 0, blend, opacity, 0, 0) + struct.pack("<H", 1) + b"L")
    for container in (0, 1, 2):
        for bg in (0, 8):
            for vis in (0, 1):
                for geo in (0, 1, 2, 3):
                    for opaque in (0, 1):
                        for lop in (255, 128):
                            for cop in (255, 0, 77):
                                for blend in (0, 1):
                                    for below in (0, 1):
                                        for above in (0, 1):
                                            for linked in (0, 1):
                                                layers, cels0, cels1 = [], [], []
                                                if below:
                                                    layers.append(lay(1))
                                                    cels0.append(cel(len(layers) - 1, 0, 0, 2, 2, bytes([10, 200, 30, 150]) * 4))
                                                level = 0
                                                if container:
                                                    layers.append(lay(1 if container == 1 else 0, ltype=1))
                                                    level = 1
                                                layers.append(lay(vis | bg, level=level, blend=blend, opacity=lop))
                                                xi = len(layers) - 1
                                                a = 255 if opaque else 90
                                                if geo == 0:
                                                    g = (0, 0, 2, 2)
                                                elif geo == 1:
                                                    g = (1, 0, 1, 1)
                                                elif geo == 2:
                                                    g = (-1, -1, 4, 4)
                                                else:
                                                    g = (-1, -1, 2, 2)        # canvas-sized but shifted: covers (0,0) only
                                                px = b"".join(bytes([200, (7 * k) % 256, 90, a]) for k in range(g[2] * g[3]))
                                                cels0.append(cel(xi, g[0], g[1], g[2], g[3], px, cop))
                                                if above:
                                                    layers.append(lay(1))
                                                    cels0.append(cel(len(layers) - 1, 1, 1, 1, 1, bytes([1, 2, 250, 128])))
                                                frames = mk_frame(layers + cels0)
                                                nf = 1
                                                if linked:
                                                    lk = mk_chunk(0x2005, struct.pack("<HhhBH", xi, 0, 0, 255, 1) + bytes(7) + struct.pack("<H", 0))
                                                    frames += mk_frame([lk])
                                                    nf = 2
                                                cid = f"bait/{container}{bg}{vis}{geo}{opaque}/{lop}-{cop}-{blend}/{below}{above}{linked}"
                                                out.append((cid, mk_header(nf, W, H) + frames))
    return out


def memo_cases():
    """cels that repeat the SAME (canvas pixel, cel pixel) pair with different opacities or blend
    modes one after the other: a result cached across cels or pixels would be reused wrongly"""
    out = []
    def cel(layer, x, px, opacity):
        return mk_chunk(0x2005, struct.pack("<HhhBH", layer, x, 0, opacity, 0) + bytes(7) + struct.pack("<HH", 1, 1) + px)
    def lay(blend, opacity):
        return mk_chunk(0x2004, struct.pack("<HHHHHHBBH", 1, 0, 0, 0, 0, blend, opacity, 0, 0) + struct.pack("<H", 1) + b"L")
    col = bytes([200, 60, 20, 255])
    for mode in range(19):
        for (lo1, co1), (lo2, co2) in (((255, 255), (255, 77)), ((255, 77), (255, 255)), ((255, 255), (0, 255)), ((128, 255), (255, 128)), ((255, 0), (255, 255))):
            for base in (0, 1):
                layers, cels = [], []
                if base:
                    layers.append(lay(0, 255))
                    cels.append(mk_chunk(0x2005, struct.pack("<HhhBH", 0, 0, 0, 255, 0) + bytes(7) + struct.pack("<HH", 3, 1) + bytes([9, 90, 200, 255]) * 3))
                k = len(layers)
                layers += [lay(mode, lo1), lay(mode, lo2), lay((mode + 1) % 19, lo2)]
                cels += [cel(k, 0, col, co1), cel(k + 1, 1, col, co2), cel(k + 2, 2, col, co2)]
                out.append((f"memo/{mode}/{lo1}.{co1}-{lo2}.{co2}/{base}", mk_header(1, 3, 1) + mk_frame(layers + cels)))
    return out


def recolour_palette(b):
    """the same file with every colour of its new-format palette chunks changed (same shapes and ids)"""
    bb = bytearray(b)
    changed = False
    for kind, off, sz in vlib.walk_chunks(b):
        if kind == "chunk:2019" and sz >= 26:
            n = struct.unpack_from("<I", b, off + 6)[0]
            p = off + 6 + 20
            for _ in range(min(n, 4096)):
                if p + 6 > off + sz:
                    break
                flags = struct.unpack_from("<H", b, p)[0]
                for j in (2, 3, 4):
                    bb[p + j] ^= 0x5a
                changed = True
                p += 6
                if flags & 1:
                    if p + 2 > off + sz:
                        break
                    p += 2 + struct.unpack_from("<H", b, p)[0]
    return bytes(bb) if changed else None


def hist_extra(ctx, scale, res, files, model_obs, impl_obs):
    """call histories for the pixel conversions: an indexed sprite A' (A with all palette colours changed: same
    palette / tileset ids and geometry) and A are loaded, observed and dropped alternately on one thread; A must
    always be observed as on a fresh thread"""
    reqs, meta = [], {}
    for cid, b in files:
        if len(b) > 140 and b[12:14] == b"\x08\x00" and len(b) < 60000 and len(reqs) < (60 if ctx.quick else 600):
            a2 = recolour_palette(b)
            if a2 is not None and vlib.outcome(impl_obs.get(cid) or []) == "ok":
                hid = f"althist/{cid}"
                reqs.append(f"HISTORY {hid} {a2.hex()} {b.hex()} alt")
                meta[hid] = b
    if not reqs:
        return
    for profile in ("release", "relchk"):
        o, _ = vlib.run_impl(reqs, profile)
        for hid, b in meta.items():
            res.evaluations += 1
            res.compared += 1
            lines = o.get(hid) or ["missing"]
            bad = [l for l in lines if l.startswith("differs") or "failed-or-panicked" in l or l == "missing"]
            if bad:
                res.oracle_failures.append({"id": hid, "build_profile": profile, "input_hex": b.hex(),
                                            "call": "HISTORY alt: recoloured copy and original loaded, observed and dropped alternately on one thread",
                                            "what": "a sprite is observed differently after another sprite was loaded and dropped on the same thread: " + bad[0][:300]})
    res.distribution["alternating histories"] = len(reqs)


def blend_sheets():
    """for each of the 19 blend modes a 256x256 sprite whose two layers put EVERY (backdrop, source) pair of channel
    values under that mode (red: x over y, green: y over x, blue: x over 255-y), once with everything opaque and
    once with a translucent backdrop and a layer opacity of 200"""
    import zlib
    out = []
    for balpha, opacity in ((255, 255), (128, 200)):
        back = b"".join(bytes([x, y, x, balpha]) for y in range(256) for x in range(256))
        src = b"".join(bytes([y, x, 255 - y, 255]) for y in range(256) for x in range(256))
        zb, zs = zlib.compress(back, 6), zlib.compress(src, 6)
        zc = lambda l, z: mk_chunk(0x2005, struct.pack("<HhhBH", l, 0, 0, 255, 2) + bytes(7) + struct.pack("<HH", 256, 256) + z)
        lay = lambda blend, op: mk_chunk(0x2004, struct.pack("<HHHHHHBBH", 1, 0, 0, 0, 0, blend, op, 0, 0) + struct.pack("<H", 1) + b"L")
        for mode in range(19):
            out.append((f"sheet/{mode}/{balpha}-{opacity}", mk_header(1, 256, 256) + mk_frame([lay(0, 255), zc(0, zb), lay(mode, opacity), zc(1, zs)])))
    return out


def order_extra(ctx, scale, res, files, model_obs, impl_obs):
    if scale == 1:
        sheets = blend_sheets()
        sm, _ = vlib.run_model(vlib.load_lines(sheets))
        for profile in ("release", "relchk"):
            si, _ = vlib.run_impl(vlib.load_lines(sheets), profile)
            sub = Result()
            compare_cases(sub, sheets, sm, si, ["frameimg", "celA"], must_load_oracle, what=f"every channel pair under every blend mode [{profile}]",
                          spec_backed="C02.frameImage_spec with C03.blend_eq_ref")
            for f in sub.oracle_failures + sub.corr_diffs:
                f["build_profile"] = profile
                if "input_hex" in f and len(f["input_hex"]) > 400000:
                    f["input_hex"] = f["input_hex"][:400000]
            res.merge(sub)
        res.distribution["blend sheets"] = len(sheets)
    extra = bait_cases() + memo_cases()
    for profile in ("release", "relchk"):
        sub = Result()
        compare_batched(sub, extra, ["frameimg", "celA", "layer"], usable_oracle, verbose=False, profile=profile,
                        what=f"shortcut bait / repeated pixel pairs [{profile}]",
                        spec_backed="C02.frameImage_spec / C06.celImage_spec / C09.isVisible_spec with C03.blend_eq_ref")
        for f in sub.oracle_failures + sub.corr_diffs:
            f["build_profile"] = profile
        res.merge(sub)
    res.distribution["bait sprites"] = len(extra)
    ofiles, expect = order_cases(ctx, scale)
    m, i = run_both(ofiles, verbose=True)
    def orc(cid, data, impl, model):
        if vlib.outcome(impl) != "ok":
            return "a well-formed file did not load: " + vlib.outcome_detail(impl)
        for l in impl:
            w = l.split(" ")
            if w[0] == "frameimg":
                f = int(w[1])
                px = bytes.fromhex(w[2].split(":")[3])[:4]
                if px != expect[cid][f]:
                    return f"frame {f}: pixel {px.hex()}, expected {expect[cid][f].hex()} (the colour of the highest layer with a cel)"
        return None
    compare_cases(res, ofiles, m, i, ["frameimg"], orc, what="composition order (sparse cels on many layers)")
    res.distribution["order sprites"] = len(ofiles)


def wf_routine(prefixes, gens, rule, oracle=must_load_oracle, corpus=True, extra=None, spec_backed=None, big=("layers", "frames"), shared=True):
    def run(ctx, scale):
        res = Result(rule)
        rng = random.Random(ctx.seed * 7919 + scale)
        files = []
        model_obs = {}
        files += vlib.verif_corpus_wf(include_big=big)
        if corpus and scale == 1:
            files += vlib.corpus_files()
        pre_n = len(files)
        for profile, nq, nt in gens:
            n = (nq if ctx.quick else nt) * scale
            fs, obs = vlib.gen_cases(profile, ctx.seed * 31 + scale, n)
            files += fs
            model_obs.update(obs)
            res.note(f"gen:{profile}")
            res.distribution[f"gen:{profile}"] = n
        # corpus / regression files are observed by the model through LOAD
        pre = files[:pre_n]
        if pre:
            m, _ = vlib.run_model(vlib.load_lines(pre))
            model_obs.update(m)
        impl_obs, _ = vlib.run_impl(vlib.load_lines(files))
        def orc(cid, data, impl, model):
            if cid == "color-curve.aseprite":
                return None      # the repository's own negative example (ICC profile)
            return oracle(cid, data, impl, model) if oracle else None
        compare_cases(res, files, model_obs, impl_obs, prefixes, orc, what=",".join(prefixes[:4]) + ",…",
                      spec_backed=spec_backed)
        # the same files in the build with overflow checks and debug assertions: same observation
        # (a wrapped or checked arithmetic difference is a difference in what the API reports)
        chk_obs, _ = vlib.run_impl(vlib.load_lines(files), "relchk")
        for cid, data in files:
            if cid == "color-curve.aseprite":
                continue
            a = vlib.section(impl_obs[cid], prefixes + ["load"])
            b = vlib.section(chk_obs.get(cid) or ["load missing"], prefixes + ["load"])
            res.evaluations += 1
            if a != b:
                d = vlib.first_diff(a, b)
                res.oracle_failures.append({"id": cid, "input_hex": data.hex(), "build_profile": "relchk",
                                            "call": "whole-API observation, optimised build vs build with overflow checks + debug assertions",
                                            "what": f"the build with overflow checks and debug assertions reports `{d[2][:300]}` "
                                                    f"where the optimised build reports `{d[1][:300]}`"})
        # families shared by every routine that looks at images: composition order, shortcut bait,
        # repeated pixel pairs (a change anywhere in the compositor breaks each of these properties)
        if shared and scale == 1 and extra is not order_extra and any(p in prefixes for p in ("frameimg", "celA")):
            order_extra(ctx, scale, res, files, model_obs, impl_obs)
        if extra:
            extra(ctx, scale, res, files, model_obs, impl_obs)
        return res
    return run


# ------------------------------------------------------------------------------------------
# malformed stream (C04, C05)

def malformed_inputs(ctx, scale, rng):
    base = [(c, b) for c, b in vlib.corpus_files(max_size=9000)]
    gen, _ = vlib.gen_cases("struct", ctx.seed * 13 + scale, 40 if ctx.quick else 200)
    gen2, _ = vlib.gen_cases("tiles", ctx.seed * 17 + scale, 20 if ctx.quick else 100)
    leg, _, gapbad = gap_index_cases(ctx, scale, 40 if ctx.quick else 400)
    base += gen + gen2 + leg[:20]
    n = (6000 if ctx.quick else 300000) * scale
    files = vlib.verif_corpus() + vlib.verif_corpus_wf(include_big=True) + gapbad + structure_cases()
    files += vlib.sample_mutants(base, rng, n)
    files += vlib.noise_cases(base, rng, n // 6)
    # byte changes deep inside compressed payloads (cels, tilemaps, tilesets): corrupt deflate data
    zsites = []
    for cid, b in base:
        for kind, off, sz in vlib.walk_chunks(b):
            if kind in ("chunk:2005", "chunk:2023") and sz > 60:
                zsites.append((cid, b, off + 26, off + sz))
    for k in range(min(n // 4, 40000) if zsites else 0):
        cid, b, lo, hi = zsites[rng.randrange(len(zsites))]
        m = bytearray(b)
        for _ in range(1 if rng.random() < 0.7 else 2):
            o = rng.randrange(lo, hi)
            m[o] = rng.randrange(256) if rng.random() < 0.5 else m[o] ^ (1 << rng.randrange(8))
        files.append((f"zdeep/{cid}/{k}", bytes(m)))
    if not ctx.quick and scale == 1:
        # thorough: EVERY single-field boundary mutation of every small corpus file
        for cid, b in vlib.corpus_files(max_size=1600):
            for o, w, kind in vlib.mutation_sites(b):
                for v in vlib.BOUNDARY[w]:
                    files.append((f"all/{cid}/{o}:{w}:{v}", vlib.mutate(b, o, w, v)))
        # the deep-nesting input of D15: 65536 layers nested 65535 deep
        chunks = [mk_layer(name=b"", ltype=1, level=min(i, 65535)) for i in range(65536)]
        files.append(("deep/65535", mk_header(1, 1, 1) + mk_frame(chunks)))
    # de-duplicate ids
    seen = {}
    out = []
    for cid, b in files:
        if cid in seen:
            cid = f"{cid}#{len(out)}"
        seen[cid] = 1
        out.append((cid, b))
    return out


def structure_cases():
    """EXHAUSTIVE small enumeration of the cross-references a file can get wrong: which tilesets
    are present (with how many tiles), what a layer is (image / group / tilemap naming tileset
    0, 1 or 7), and what cel sits on it (none, image, linked, tilemap of w x h tiles with tile
    ids inside / outside the tileset, for w, h in 0..2)."""
    import zlib
    out = []
    def tileset(tid, ntiles):
        px = zlib.compress(bytes([50, 60, 70, 255]) * ntiles)
        return mk_chunk(0x2023, struct.pack("<IIIHHh", tid, 2, ntiles, 1, 1, 1) + bytes(14) + struct.pack("<H", 0)
                        + struct.pack("<I", len(px)) + px)
    def tileset_dims(tid, ntiles, tw, th):
        px = zlib.compress(bytes([50, 60, 70, 255]) * (ntiles * tw * th))
        return mk_chunk(0x2023, struct.pack("<IIIHHh", tid, 2, ntiles, tw, th, 1) + bytes(14) + struct.pack("<H", 0)
                        + struct.pack("<I", len(px)) + px)
    def layer(ltype, tsid):
        b = struct.pack("<HHHHHHBBH", 1, ltype, 0, 0, 0, 0, 255, 0, 0) + struct.pack("<H", 1) + b"L"
        if ltype == 2:
            b += struct.pack("<I", tsid)
        return mk_chunk(0x2004, b)
    def tm_cel(w, h, ids):
        z = zlib.compress(b"".join(struct.pack("<I", t) for t in ids))
        return mk_chunk(0x2005, struct.pack("<HhhBH", 0, 0, 0, 255, 3) + bytes(7)
                        + struct.pack("<HHHIIII", w, h, 32, 0x1fffffff, 0x20000000, 0x40000000, 0x80000000) + bytes(10) + z)
    img_cel = mk_chunk(0x2005, struct.pack("<HhhBH", 0, 0, 0, 255, 0) + bytes(7) + struct.pack("<HH", 1, 1) + bytes([1, 2, 3, 255]))
    def tm_cel_mask(ids, mask):
        z = zlib.compress(b"".join(struct.pack("<I", t) for t in ids))
        return mk_chunk(0x2005, struct.pack("<HhhBH", 0, 0, 0, 255, 3) + bytes(7)
                        + struct.pack("<HHHIIII", len(ids), 1, 32, mask, 0x20000000, 0x40000000, 0x80000000) + bytes(10) + z)
    cels = [("none", [])] + [("img", [img_cel])]
    for mask in (0xFFFFFFFF, 0x0000FFFF, 0):
        for tid in (0xFFFFFFFF, 0xFFFFFFFE, 0x80000001, 0x10000, 1):
            cels.append((f"tmm{mask:x}i{tid:x}", [tm_cel_mask([tid], mask)]))
    for w in range(3):
        for h in range(3):
            for fill in (0, 1, 2, 0xFFFFFFFF, 0x1FFFFFFF):
                if w * h == 0 and fill:
                    continue
                if fill > 2 and w * h > 1:
                    continue
                cels.append((f"tm{w}x{h}f{fill}", [tm_cel(w, h, [fill] * (w * h))]))
    # tilemap cels declaring 8 or 16 bits per tile with data of exactly that size (only 32 is supported)
    def tm_cel_bits(bits, ids):
        fmt = {8: "<B", 16: "<H", 32: "<I", 64: "<Q"}[bits]
        z = zlib.compress(b"".join(struct.pack(fmt, t) for t in ids))
        return mk_chunk(0x2005, struct.pack("<HhhBH", 0, 0, 0, 255, 3) + bytes(7)
                        + struct.pack("<HHHIIII", len(ids), 1, bits, 0x1fffffff, 0x20000000, 0x40000000, 0x80000000) + bytes(10) + z)
    for bits in (8, 16, 64):
        for ids in ([0], [1], [0, 1], [1, 1, 0, 1]):
            cels.append((f"tmb{bits}n{len(ids)}i{ids[0]}", [tm_cel_bits(bits, ids)]))
    tilesets = [("ts-", []), ("ts0n1", [tileset(0, 1)]), ("ts0n2", [tileset(0, 2)]), ("ts1n2", [tileset(1, 2)]),
                ("ts0n0", [tileset(0, 0)]), ("ts0n2+1n1", [tileset(0, 2), tileset(1, 1)]),
                ("ts7n1+1n2+0n2", [tileset(7, 1), tileset(1, 2), tileset(0, 2)]),
                ("ts0n0w0", [tileset_dims(0, 0, 0, 3)]), ("ts0n0h0", [tileset_dims(0, 0, 3, 0)]), ("ts0n0w0h0", [tileset_dims(0, 0, 0, 0)])]
    layers = [("img", layer(0, 0)), ("grp", layer(1, 0)), ("tm0", layer(2, 0)), ("tm1", layer(2, 1)), ("tm7", layer(2, 7))]
    def img(w, h, ctype=0):
        px = bytes([5, 6, 7, 255]) * (w * h)
        body = px if ctype == 0 else zlib.compress(px)
        return mk_chunk(0x2005, struct.pack("<HhhBH", 0, 0, 0, 255, ctype) + bytes(7) + struct.pack("<HH", w, h) + body)
    ud = mk_chunk(0x2020, struct.pack("<I", 1) + struct.pack("<H", 2) + b"ud")
    for w, h in ((0, 0), (0, 3), (2, 0)):
        for ctype in (0, 2):
            cels.append((f"img{w}x{h}t{ctype}", [img(w, h, ctype)]))
            cels.append((f"img{w}x{h}t{ctype}+ud", [img(w, h, ctype), ud]))
    link = mk_chunk(0x2005, struct.pack("<HhhBH", 0, 0, 0, 255, 1) + bytes(7) + struct.pack("<H", 0))
    for tn, ts in tilesets:
        for ln, l in layers:
            for cn, c in cels:
                # a second frame whose cel links to the first frame's (image, tilemap or nothing)
                out.append((f"xref2/{tn}/{ln}/{cn}", mk_header(2, 2, 2) + mk_frame(ts + [l] + c) + mk_frame([link])))
    # chains of linked cels: frame a links to frame 0 (fine), frame b links to frame a (a link to a
    # link: must be refused at load or be usable); positions around multiples of 32 / 64 and several layer counts
    raw1 = lambda l: mk_chunk(0x2005, struct.pack("<HhhBH", l, 0, 0, 255, 0) + bytes(7) + struct.pack("<HH", 1, 1) + bytes([1, 2, 3, 255]))
    lnk = lambda l, f: mk_chunk(0x2005, struct.pack("<HhhBH", l, 0, 0, 255, 1) + bytes(7) + struct.pack("<H", f))
    for nl in (1, 2, 3):
        for a in list(range(1, 70)) + [95, 96, 127, 128, 129]:
            for b in (a + 1, a + 32 // nl if 32 % nl == 0 else a + 2):
                nf = b + 1
                fr = [[] for _ in range(nf)]
                fr[0] = [mk_layer()] * nl + [raw1(nl - 1)]
                fr[a].append(lnk(nl - 1, 0))
                fr[b].append(lnk(nl - 1, a))
                out.append((f"linkchain/{nl}/{a}-{b}", mk_header(nf, 1, 1) + b"".join(mk_frame(f) for f in fr)))
    # every assignment of {image cel, link to frame g} to the frames of one layer, for 2..4 frames:
    # self links, cycles, links to later frames, links to links
    import itertools
    for nf in (2, 3, 4):
        for combo in itertools.product(range(nf + 1), repeat=nf):
            if all(c == nf for c in combo):
                continue
            fr = []
            for f, c in enumerate(combo):
                ch = [mk_layer()] if f == 0 else []
                ch.append(raw1(0) if c == nf else lnk(0, c))
                fr.append(mk_frame(ch))
            out.append((f"linkcycle/{nf}/{''.join(map(str, combo))}", mk_header(nf, 1, 1) + b"".join(fr)))
    # tilesets that only link to an external file (refused), with the external-files entry present or
    # absent, used by a layer or not; two tileset chunks with the same id in both orders
    def ts_chunk(tid, flags, ntiles=1, extid=7):
        body = struct.pack("<IIIHHh", tid, flags, ntiles, 1, 1, 1) + bytes(14) + struct.pack("<H", 0)
        if flags & 1:
            body += struct.pack("<II", extid, 0)
        if flags & 2:
            z = zlib.compress(bytes([50, 60, 70, 255]) * ntiles)
            body += struct.pack("<I", len(z)) + z
        return mk_chunk(0x2023, body)
    extf = lambda ids: mk_chunk(0x2008, struct.pack("<I", len(ids)) + bytes(8) + b"".join(struct.pack("<I", i) + bytes(8) + struct.pack("<H", 1) + b"f" for i in ids))
    for flags in (1, 5, 3, 7, 0, 4):
        for ext in ([], [7], [8]):
            for user in (0, 1):
                for nt in (1, 0):
                    chunks = ([extf(ext)] if ext else []) + [ts_chunk(0, flags, nt)] + [layer(2 if user else 0, 0)]
                    out.append((f"exttileset/{flags}/{'-'.join(map(str, ext)) or 'none'}/{user}/{nt}", mk_header(1, 2, 2) + mk_frame(chunks)))
    # indexed sprites: a tileset whose pixels use an index outside the palette / without any palette,
    # referenced by a tilemap layer or by nothing
    for haspal in (0, 1):
        for idx in (0, 1, 5):
            for user in (0, 1):
                zt = zlib.compress(bytes([0, idx]))
                tsi = mk_chunk(0x2023, struct.pack("<IIIHHh", 0, 2, 2, 1, 1, 1) + bytes(14) + struct.pack("<H", 0) + struct.pack("<I", len(zt)) + zt)
                chunks = ([mk_chunk(0x2019, struct.pack("<III", 2, 0, 1) + bytes(8) + struct.pack("<HBBBB", 0, 1, 2, 3, 255) * 2)] if haspal else []) \
                    + [tsi, layer(2 if user else 0, 0)]
                out.append((f"tsidx/{haspal}/{idx}/{user}", mk_header(1, 2, 2, 8) + mk_frame(chunks)))
    for first, second in ((2, 1), (1, 2), (2, 2), (2, 5), (5, 2)):
        for user in (0, 1):
            for split in (0, 1):
                c1 = [ts_chunk(0, first, 1), ] + ([] if split else [ts_chunk(0, second, 2)]) + [layer(2 if user else 0, 0)]
                if user:
                    c1.append(tm_cel(1, 1, [0]))
                c2 = [ts_chunk(0, second, 2)] if split else []
                out.append((f"tsdup/{first}-{second}/{user}{split}", mk_header(2, 2, 2) + mk_frame(c1) + mk_frame(c2)))
    # user data with nothing to attach to (must be refused), and with only context-neutral chunks before it
    pal = mk_chunk(0x2019, struct.pack("<III", 1, 0, 0) + bytes(8) + struct.pack("<HBBBB", 0, 1, 2, 3, 255))
    prof = mk_chunk(0x2007, struct.pack("<HHI", 1, 0, 0) + bytes(8))
    ext = mk_chunk(0x2008, struct.pack("<I", 0) + bytes(8))
    for tag, pre in (("first", []), ("after-palette", [pal]), ("after-profile", [prof]), ("after-extfiles", [ext]),
                     ("after-ignorable", [mk_chunk(0x2017, b"")]), ("after-layer", [mk_layer()])):
        out.append((f"dangling-ud/{tag}", mk_header(1, 2, 2) + mk_frame(pre + [ud, mk_layer(name=b"Z")])))
        out.append((f"dangling-ud/{tag}/frame1", mk_header(2, 2, 2) + mk_frame(pre) + mk_frame([ud, mk_layer(name=b"Z")])))
    # user data whose properties block (flags bit 4; skipped by the parser) holds a value nested
    # 100000 vectors deep (a parser that walks it recursively overflows a 2 MiB stack)
    for depth in (3, 100000):
        props = struct.pack("<III", 1, 0, 1) + struct.pack("<H", 1) + b"p" + struct.pack("<H", 0x11)
        props += struct.pack("<IH", 1, 0x11) * (depth - 1) + struct.pack("<IH", 1, 3) + b"\x07"
        udp = mk_chunk(0x2020, struct.pack("<I", 1 | 4) + struct.pack("<H", 5) + b"hello" + struct.pack("<I", len(props) + 4) + props)
        out.append((f"ud-props-nested/{depth}", mk_header(1, 2, 2) + mk_frame([mk_layer(), udp, mk_layer(name=b"Z")])))
    # a Tags chunk only in a LATER frame (ignored by the loader), followed by user data; with / without tags in frame 0
    def tagsk(n):
        p = struct.pack("<H", n) + bytes(8)
        for t in range(n):
            p += struct.pack("<HHBH", 0, 0, 0, 0) + bytes(6) + struct.pack("<I", 0) + struct.pack("<H", 1) + b"t"
        return mk_chunk(0x2018, p)
    for n0 in (0, 1, 2):
        for n1 in (1, 2):
            for nud in (0, 1, 2, 3):
                for pre in (0, 1):
                    f0 = [mk_layer()] + ([tagsk(n0)] if n0 else []) + ([ud] if pre else [])
                    f1 = [tagsk(n1)] + [ud] * nud
                    out.append((f"latetags/{n0}/{n1}/{nud}/{pre}", mk_header(2, 2, 2) + mk_frame(f0) + mk_frame(f1)))
    # an external-only / pixel-less tileset chunk followed by 1..3 user-data records (nothing to attach per-tile data to)
    for flags in (1, 5, 0, 2):
        for nt in (0, 1, 3):
            for nud in (1, 2, 3):
                out.append((f"tileset-ud/{flags}/{nt}/{nud}", mk_header(1, 2, 2) + mk_frame([mk_layer(), ts_chunk(0, flags, nt)] + [ud] * nud + [mk_layer(name=b"Z")])))
    # more user-data records after a Tags chunk than it has tags (the per-tag cursor runs past the last tag)
    for n in (0, 1, 2, 3):
        for k in (n + 1, n + 2):
            for tail in (0, 1):
                ch = [mk_layer(), tagsk(n)] + [ud] * k + ([mk_layer(name=b"Z"), ud] if tail else [])
                out.append((f"tags-overrun/{n}/{k}/{tail}", mk_header(1, 2, 2) + mk_frame(ch)))
    # tileset chunks whose declared sizes are extreme in all three fields at once
    for depth in (8, 16, 32):
        for count in (0xFFFFFFFF, 0x80000000, 0x40008001, 0x10000, 1):
            for tw, th in ((65535, 65535), (65535, 1), (1, 65535), (256, 256)):
                z = zlib.compress(bytes(16))
                t = mk_chunk(0x2023, struct.pack("<IIIHHh", 0, 2, count, tw, th, 1) + bytes(14) + struct.pack("<H", 0)
                             + struct.pack("<I", len(z)) + z)
                out.append((f"tsx/{depth}/{count:x}/{tw}x{th}", mk_header(1, 2, 2, depth) + mk_frame([t, mk_layer()])))
    for tn, ts in tilesets:
        for ln, l in layers:
            for cn, c in cels:
                for order in (0, 1):
                    # tileset chunks before or after the layer
                    chunks = (ts + [l] if order == 0 else [l] + ts) + c
                    out.append((f"xref/{tn}/{ln}/{cn}/{order}", mk_header(1, 2, 2) + mk_frame(chunks)))
    return out


def inflate_correspondence(ctx, scale, res, n):
    """the driver's instance of the model's `inflate` parameter against flate2 (the harness'
    INFLATE request), on valid streams of every compression level and on corrupted ones
    (byte changes anywhere in the stream, truncations, trailing bytes)"""
    import zlib
    rng = random.Random(ctx.seed * 7919 + scale)
    raws = []
    for cid, b in vlib.corpus_files(max_size=20000):
        for kind, off, sz in vlib.walk_chunks(b):
            if kind == "chunk:2005" and sz > 26 and struct.unpack_from("<H", b, off + 6 + 7)[0] == 2:
                try:
                    raws.append(zlib.decompressobj().decompress(b[off + 26:off + sz]))
                except Exception:
                    pass
    raws = [r for r in raws if 0 < len(r) <= 8192][:40]
    raws += [bytes(rng.randrange(4) for _ in range(rng.randrange(1, 600))) for _ in range(10)]
    raws += [bytes(rng.randrange(256) for _ in range(rng.randrange(1, 300))) for _ in range(5)]
    raws += [b"", bytes(1), bytes(70000), bytes(range(256)) * 3]
    streams = []
    for k, r in enumerate(raws):
        for lvl in (0, 1, 6, 9):
            streams.append((f"z/{k}/l{lvl}", zlib.compress(r, lvl)))
    cases = list(streams)
    small = [(c, z) for c, z in streams if len(z) < 3000]
    truncated = set()
    for i in range(n):
        cid, z = small[rng.randrange(len(small))]
        m = bytearray(z)
        k = rng.randrange(6)
        if k <= 2 and len(m) > 2:
            # a byte change, biased towards the block headers / Huffman tables at the front
            o = rng.randrange(min(len(m), 24)) if rng.random() < 0.4 else rng.randrange(len(m))
            m[o] = rng.randrange(256) if rng.random() < 0.5 else m[o] ^ (1 << rng.randrange(8))
        elif k == 3:
            m = m[:rng.randrange(len(m) + 1)]
            truncated.add(f"zmut/{i}")
        elif k == 4:
            m += bytes(rng.randrange(256) for _ in range(rng.randrange(1, 8)))
        else:
            for _ in range(rng.randrange(2, 5)):
                m[rng.randrange(len(m))] = rng.randrange(256)
        cases.append((f"zmut/{i}", bytes(m)))
    reqs = [f"INFLATE {cid} {z.hex() if z else '-'}" for cid, z in cases]
    mo, _ = vlib.run_model(reqs)
    io, _ = vlib.run_impl(reqs)
    outcomes = {}
    for cid, z in cases:
        a, b = mo.get(cid), io.get(cid)
        res.evaluations += 1
        res.compared += 1
        key = (b or ["?"])[0].split(" ")[0] + (":" + (b or ["?"])[0].split(" ")[1][:20] if (b or ["?"])[0].startswith("err") else "")
        outcomes[key] = outcomes.get(key, 0) + 1
        # exact for valid streams and plain truncations; for corrupted streams the two decoders
        # must agree on success and on the bytes, while the error class (end of input vs corrupt)
        # depends on miniz_oxide's buffering and is compared only as "an error"
        exact = cid.startswith("z/") or cid in truncated
        same = (a == b) if exact else ((a == b) or ((a or ["?"])[0].startswith("err") and (b or ["?"])[0].startswith("err")))
        if not same:
            res.corr_diffs.append({"correspondence": "Ase.Zlib.inflate (the driver's instance of the model's inflate parameter) <-> flate2::read::ZlibDecoder",
                                   "id": cid, "input_hex": z.hex(),
                                   "first_difference": {"model": str(a)[:200], "impl": str(b)[:200]}})
    res.distribution.update({"inflate:" + k: v for k, v in outcomes.items()})


def malformed_routine(oracle, prefixes, rule, load_only):
    def run(ctx, scale):
        res = Result(rule)
        rng = random.Random(ctx.seed * 104729 + scale)
        files = malformed_inputs(ctx, scale, rng)
        kinds = {}
        for cid, _ in files:
            k = cid.split("/")[0]
            kinds[k] = kinds.get(k, 0) + 1
        batch = 40000
        for start in range(0, len(files), batch):
            part = files[start:start + batch]
            for profile in ("release", "relchk"):
                m, i = run_both(part, profile, outcome_only=load_only)
                sub = Result()
                compare_cases(sub, part, m, i, prefixes, oracle, what=f"malformed stream [{profile}]",
                              load_only=load_only)
                for f in sub.oracle_failures + sub.corr_diffs:
                    f["build_profile"] = profile
                res.merge(sub)
                res.sections = sub.sections
                del m, i
        res.distribution.update({"input:" + k: v for k, v in kinds.items()})
        inflate_correspondence(ctx, scale, res, (3000 if ctx.quick else 150000) * scale)
        return res
    return run


# ------------------------------------------------------------------------------------------
# replay

def replay(ctx, path):
    p = json.load(open(path))
    hx = p.get("input_hex")
    if not hx and p.get("broken_correspondence"):
        hx = p["broken_correspondence"][0].get("input_hex")
    if not hx:
        print(json.dumps(p, indent=1)[:4000])
        return 0
    files = [("replay", bytes.fromhex(hx))]
    m, i = run_both(files, p.get("build_profile", "release"), verbose=True)
    print("--- implementation")
    print("\n".join(i.get("replay", [])))
    print("--- model")
    print("\n".join(m.get("replay", [])))
    return 0


ROUTINES = {}


def register(pid, run, **kw):
    ROUTINES[pid] = dict(run=run, **kw)


register("C01", wf_routine(STRUCT, [("struct", 300, 20000), ("plain", 100, 2000), ("large", 6, 150)],
         "corpus files + type-directed generated well-formed programs (all attribute ranges); "
         "distinct = distinct structure observations of loaded sprites",
         spec_backed="C01.decode_encode / loaded_layers / loaded_slices / loaded_tags / sprite_frameTimes and the per-chunk round trips"))
register("C02", wf_routine(RENDER, [("render", 300, 10000), ("struct", 100, 2000), ("large", 6, 100)],
         "generated layer stacks (19 blend modes, opacities, hidden layers/groups, linked, tilemap, "
         "off-canvas cels); distinct = distinct frame-image observations",
         spec_backed="C02.frameImage_spec (point-wise composition) with C03.blend_eq_ref", extra=order_extra))
register("C06", wf_routine(CELS, [("rgba", 120, 3000), ("gray", 120, 3000), ("indexed", 160, 4000), ("large", 6, 100)],
         "generated sprites in each pixel format (sparse palettes, alpha<255, all transparent-index "
         "values, background flag, raw and zlib, links); distinct = distinct cel observations",
         spec_backed="C06.celImage_spec / indexed_conversion / linked_cel_eq_target / absent_cel", extra=hist_extra))
register("C08", wf_routine(TILES, [("tiles", 300, 10000)],
         "generated tilesets/tilemaps (tile sizes 1..5 non-square, all formats, aligned offsets "
         "-3..+3 tiles, extended lookup grid); distinct = distinct tilemap/tileset observations",
         spec_backed="C08.tilemapImage_spec / tile_inside / tile_outside_empty / tilemap_size / tileImage_spec / tilesetImage_spec", extra=hist_extra))
def c19_extra(ctx, scale, res, files, model_obs, impl_obs):
    """more than 65536 layers: layer ids no longer fit the u16 cel coordinate, and the three routes
    must still denote the same cel"""
    if scale != 1:
        return
    n = 65537
    layers = [mk_layer(name=b"") for _ in range(n)]
    def cel(l, rgba):
        return mk_chunk(0x2005, struct.pack("<HhhBH", l, 0, 0, 255, 0) + bytes(7) + struct.pack("<HH", 1, 1) + bytes(rgba))
    f0 = mk_frame(layers + [cel(0, (9, 8, 7, 255)), cel(7, (1, 2, 3, 255)), cel(65535, (4, 5, 6, 255))])
    f1 = mk_frame([cel(0, (50, 60, 70, 255)), cel(65535, (40, 50, 60, 200))])
    big = [("manylayers/65537", mk_header(2, 2, 2) + f0 + f1)]
    m, i = run_both(big)
    compare_cases(res, big, m, i, CELS + RENDER, must_load_oracle, what="three routes with 65537 layers",
                  spec_backed="the model's single cel function of (frame as u16, layer as u16)")
    res.distribution["many-layer sprites"] = 1
    # single-cel sprites carrying a colour profile chunk of every type / gamma flag / gamma value: those the
    # model loads are compared with it; for ANY of them the implementation loads (the unsupported ones
    # should be refused, which is C15's business) the frame must still render exactly its only cel
    prof = []
    for ptype in (0, 1, 2):
        for flags in (0, 1):
            for gamma in (0x10000, 0x23333, 0x7333, 0):
                body = struct.pack("<HHI", ptype, flags, gamma) + bytes(8) + (struct.pack("<I", 4) + b"icc!" if ptype == 2 else b"")
                px = bytes([10, 100, 200, 255, 128, 64, 32, 200, 7, 8, 9, 0, 250, 128, 3, 90])
                c = mk_chunk(0x2005, struct.pack("<HhhBH", 0, 0, 0, 255, 0) + bytes(7) + struct.pack("<HH", 2, 2) + px)
                prof.append((f"profile/{ptype}/{flags}/{gamma:x}", mk_header(1, 2, 2) + mk_frame([mk_chunk(0x2007, body), mk_layer(), c])))
    pm, pi_ = run_both(prof)
    def porc(cid, data, impl, model):
        if vlib.outcome(impl) != "ok":
            return None
        fi = next((l.split(" ")[2] for l in impl if l.startswith("frameimg 0 ")), None)
        ci = next((w[4:] for l in impl if l.startswith("celA 0 0 ") for w in l.split(" ") if w.startswith("img=")), None)
        if fi is None or ci is None or fi.split(":")[:2] != ci.split(":")[:2]:
            return f"frame 0 ({fi}) does not render exactly the image of its only visible cel ({ci})"
        return None
    loadable = [(c, b) for c, b in prof if vlib.outcome(pm[c]) == "ok"]
    compare_cases(res, loadable, pm, pi_, CELS + RENDER, must_load_oracle, what="single-cel sprites with a colour profile chunk")
    rest = [(c, b) for c, b in prof if vlib.outcome(pm[c]) != "ok"]
    for cid, b in rest:
        res.evaluations += 1
        why = porc(cid, b, pi_.get(cid) or [], pm[cid])
        if why:
            res.oracle_failures.append({"id": cid, "input_hex": b.hex(), "what": why, "call": "Frame::image vs Cel::image on a sprite with a colour profile chunk"})


register("C19", wf_routine(CELS + RENDER + ["tilemap", "iter", "iterx", "layers", "frames"], [("render", 200, 5000), ("tiles", 100, 3000), ("large", 4, 60)],
         "generated sprites with frames != layers; the three cel routes (the layer route also through the layer iterator and "
         "its adaptors: skip, step_by, next then nth), single-layer frames, tilemap images",
         spec_backed="the model's single cel function of (frame, layer) + C19.single_layer_frame_eq_cel / tilemap_view_cel",
         extra=c19_extra))
register("C04", malformed_routine(no_panic_oracle, [], "field-aware boundary mutations (single and paired) of "
         "corpus and generated files, truncations, noise, in release and release+overflow-checks+"
         "debug-assertions builds; distinct = distinct (input kind, outcome) pairs", True),
         profiles=("release", "relchk"))
register("C05", malformed_routine(usable_oracle, ALL, "the malformed stream of C04; every input that loads gets "
         "the whole-API walk under catch_unwind; distinct = distinct observations of loaded sprites", False),
         profiles=("release", "relchk"))
register("C09", wf_routine(["layers", "layer", "frameimg"], [("forest", 400, 20000), ("render", 100, 2000)],
         "random layer forests up to 8 layers with all visibility assignments (exhaustive enumeration in "
         "thorough tier); parent / is_visible of every layer and the frame image"))


# ------------------------------------------------------------------------------------------
# blend enumerations (C03, C17)

def mul_un8(a, b):
    t = a * b + 0x80
    return ((t >> 8) + t) >> 8


def run_driver_raw(reqs, profile="release"):
    """run raw driver requests in parallel; returns (cases, inputs, extra lines by prefix)"""
    import concurrent.futures
    pre = "PROFILE " + ("checked" if profile == "relchk" else "release") + "\n"
    n = min(vlib.CORES, max(1, len(reqs)))
    chunks = [reqs[i::n] for i in range(n)]
    def one(ch):
        r = subprocess.run(["bash", "-c", "ulimit -s unlimited 2>/dev/null; exec " + vlib.ASEDRV],
                           input=pre + "".join(x + "\n" for x in ch), capture_output=True, text=True)
        if r.returncode != 0:
            raise vlib.Broken("driver failed: " + r.stderr[-500:])
        return r.stdout
    cases, inputs, extra = {}, [], []
    with concurrent.futures.ThreadPoolExecutor(max_workers=n) as ex:
        for out in ex.map(one, chunks):
            c, i, order = vlib.parse_cases(out)
            for k in order:
                cases[k] = c[k][:-1] if c[k] and c[k][-1] == "END" else c[k]
            inputs += i
            extra += [l for l in out.split("\n") if l.startswith("PIXELS ")]
    return cases, inputs, extra


def frame_pixels(lines):
    for l in lines:
        if l.startswith("frameimg 0 "):
            parts = l.split(" ")[2].split(":")
            if len(parts) >= 4:
                return bytes.fromhex(parts[3])
            return None
    return None


OPACITIES = [(255, 255), (255, 128), (0, 255), (255, 0), (1, 255), (127, 200), (254, 254), (128, 128)]


def blend_routine(laws, rule):
    def run(ctx, scale):
        res = Result(rule)
        res.sections = ["frameimg", "celA"]
        side = 40
        seeds = range(ctx.seed * 100 + scale * 10, ctx.seed * 100 + scale * 10 + (2 if ctx.quick else 24) * scale)
        ops = OPACITIES[:6] if ctx.quick else OPACITIES
        reqs = [f"GENBLEND {mode} {sd} {lo} {co} {side} {side} 1"
                for mode in range(19) for sd in seeds for (lo, co) in ops]
        for profile in ("release", "relchk"):
            cases, inputs, extra = run_driver_raw(reqs, profile)
            files = [(cid, bytes.fromhex(hx)) for cid, hx in inputs]
            impl, _ = vlib.run_impl(vlib.load_lines(files, verbose=True), profile)
            pix = {}
            for l in extra:
                _, cid, bh, sh = l.split(" ")
                pix[cid] = (bytes.fromhex(bh), bytes.fromhex(sh))
            sub = Result()
            compare_cases(sub, files, cases, impl, ["frameimg", "celA"], usable_oracle,
                          what=f"Frame::image of two-layer blend sprites [{profile}]",
                          spec_backed="C03.blend_eq_ref (model = Aseprite's blend functions) with C02.frameImage_spec")
            for f in sub.oracle_failures + sub.corr_diffs:
                f["build_profile"] = profile
            res.merge(sub)
            if not laws:
                continue
            # the mode-independent laws, checked on the implementation's pixels
            for cid, data in files:
                _, mode, sd, lo, co = cid.split("-")
                mode, lo, co = int(mode), int(lo), int(co)
                op = mul_un8(lo, co)
                out = frame_pixels(impl.get(cid, []))
                nrm = frame_pixels(impl.get(f"blend-0-{sd}-{lo}-{co}", []))
                if out is None or nrm is None:
                    continue
                back, src = pix[cid]
                for k in range(len(out) // 4):
                    b = back[4 * k:4 * k + 4]
                    s = src[4 * k:4 * k + 4]
                    r = out[4 * k:4 * k + 4]
                    res.evaluations += 1
                    res._distinct.add(hash((mode, b, s, op)))
                    bad = None
                    if r[3] != nrm[4 * k + 3]:
                        bad = f"alpha {r[3]} differs from Normal-mode alpha {nrm[4 * k + 3]}"
                    elif b[3] != 0 and (s[3] == 0 or op == 0) and r != b:
                        bad = "transparent source / zero opacity changed a visible backdrop"
                    elif b[3] == 0 and r != s[:3] + bytes([mul_un8(s[3], op)]):
                        bad = "over a transparent backdrop the result is not the source with scaled alpha"
                    elif mode == 0 and op == 255 and s[3] == 255 and r != s:
                        bad = "Normal at full opacity with an opaque source is not the source"
                    if bad:
                        res.oracle_failures.append({
                            "id": cid, "what": bad, "input_hex": data.hex(), "build_profile": profile,
                            "pixel": k, "mode": mode, "backdrop": b.hex(), "source": s.hex(),
                            "opacity": op, "result": r.hex(), "call": "Frame::image"})
                        break
        # generated multi-layer sprites (several cels per frame, groups, tilemaps, background flags,
        # sparse high layer indices): the blend functions as the compositor calls them
        if scale == 1:
            gen = wf_routine(["frameimg", "celA", "tilemap", "tileimg"], [("render", 120, 3000), ("tiles", 60, 1500), ("rgba", 40, 1000)], "",
                             corpus=False, shared=False, spec_backed="C02.frameImage_spec / C06.celImage_spec / C08.tilemapImage_spec with C03.blend_eq_ref")(ctx, scale)
            res.merge(gen)
            order_extra(ctx, scale, res, None, None, None)
        # the same pixel pairs with the source stored as a tilemap layer (the tilemap renderer has
        # its own blend dispatch)
        if scale == 1:
            treqs = [f"GENBLEND {mode} {ctx.seed * 100 + 7} {lo} {co} 24 24 t" for mode in range(19)
                     for (lo, co) in ops[:3]]
            for profile in ("release", "relchk"):
                cases, inputs, _ = run_driver_raw(treqs, profile)
                tfiles = [(cid, bytes.fromhex(hx)) for cid, hx in inputs]
                timpl, _ = vlib.run_impl(vlib.load_lines(tfiles), profile)
                sub = Result()
                compare_cases(sub, tfiles, cases, timpl, ["frameimg"], usable_oracle,
                              what=f"Frame::image with the source in a tilemap layer [{profile}]",
                              spec_backed="C03.blend_eq_ref with C02.frameImage_spec / C08.writeTiles_pointwise")
                for f in sub.oracle_failures + sub.corr_diffs:
                    f["build_profile"] = profile
                res.merge(sub)
            res.distribution["tilemap_blend_sprites"] = len(treqs)
        # complete channel squares: every (backdrop channel, source channel) pair, all 19 modes
        if scale == 1:
            alphas = [(255, 255), (128, 255)] if ctx.quick else [(255, 255), (128, 255), (255, 128), (1, 254), (254, 1), (77, 200)]
            sq = [f"GENSQUARE {mode} {ba} {sa} {lo} {co}" for mode in range(19) for (ba, sa) in alphas
                  for (lo, co) in ([(255, 255)] if ctx.quick else [(255, 255), (200, 127)])]
            for profile in ("release", "relchk"):
                cases, inputs, _ = run_driver_raw(sq, profile)
                files = [(cid, bytes.fromhex(hx)) for cid, hx in inputs]
                impl, _ = vlib.run_impl(vlib.load_lines(files), profile)
                sub = Result()
                compare_cases(sub, files, cases, impl, ["frameimg"], usable_oracle,
                              what=f"complete channel squares [{profile}]",
                              spec_backed="C03.blend_eq_ref (model = Aseprite's blend functions)")
                for f in sub.oracle_failures + sub.corr_diffs:
                    f["build_profile"] = profile
                    f["input_hex"] = f.get("input_hex", "")[:4000] + "…(256x256 square, regenerate with GENSQUARE)"
                res.merge(sub)
                res.evaluations += 65536 * len(files)
            res.distribution["channel_squares"] = len(sq)
        res.distribution["modes"] = 19
        res.distribution["opacity_pairs"] = len(ops)
        res.distribution["pixels_per_sprite"] = side * side
        return res
    return run


register("C17", blend_routine(True, "two-layer sprites enumerating (backdrop, source) pixel pairs (boundary-biased, "
         "greys, r==g<b) for all 19 modes x opacity pairs, in release and overflow-checks+debug-assertions "
         "builds; the four laws are evaluated on the implementation's pixels; distinct = distinct "
         "(mode, backdrop, source, opacity) tuples"), profiles=("release", "relchk"))


def cpp_oracle():
    """compile ref/blend_ref.cc (which includes /repo/ref/dummy.cc textually) on demand"""
    exe = os.path.join(vlib.VERIF, "ref", "blend_ref")
    src = os.path.join(vlib.VERIF, "ref", "blend_ref.cc")
    dummy = os.path.join(vlib.REPO, "ref", "dummy.cc")
    if not os.path.exists(dummy):
        return None
    if (not os.path.exists(exe)) or os.path.getmtime(exe) < max(os.path.getmtime(src), os.path.getmtime(dummy)):
        r = subprocess.run(["clang++", "-O1", "-ffp-contract=off", "-w", f'-DREPO_DUMMY="{dummy}"',
                            "-o", exe, src], capture_output=True, text=True)
        if r.returncode != 0:
            log("C++ blend oracle does not compile: " + r.stderr[-800:])
            return None
    return exe


def c03_run(ctx, scale):
    base = blend_routine(False, "")
    res = base(ctx, scale)
    res.rule = ("(i) Rust vs model through Frame::image on two-layer sprites enumerating pixel pairs for all 19 "
                "modes x opacity pairs, both build profiles; (ii) model vs the Lean transcription of Aseprite's C++ "
                "(REFCHECK, executes both sides of theorem blend_eq_ref on IEEE doubles); (iii) that transcription vs "
                "the compiled C++ of ref/dummy.cc + blend_ref.cc; distinct = distinct frame images")
    n = (20000 if ctx.quick else 400000) * scale
    reqs = [f"REFCHECK {mode} {ctx.seed * 50 + scale} {n}" for mode in range(19)]
    import concurrent.futures
    def one(req):
        r = subprocess.run([vlib.ASEDRV], input=req + "\n", capture_output=True, text=True)
        return r.stdout.strip()
    with concurrent.futures.ThreadPoolExecutor(max_workers=vlib.CORES) as ex:
        outs = list(ex.map(one, reqs))
    bad_ref = [o for o in outs if "mismatches=0" not in o]
    res.evaluations += n * 19
    res.distribution["refcheck_pixels_per_mode"] = n
    res.distribution["refcheck_mismatching_modes"] = len(bad_ref)
    if bad_ref:
        # the spec side of the theorem disagrees with the model on Float: FLaws fails for IEEE
        # doubles or the driver is wrong -- a defect of the machinery, never of /repo
        raise vlib.Broken("model and BlendRef disagree on Float although blend_eq_ref is proved: " + bad_ref[0])
    exe = cpp_oracle()
    if exe:
        m = 4000 if ctx.quick else 100000
        def cpp(mode):
            r = subprocess.run([vlib.ASEDRV], input=f"REFPIX {mode} {ctx.seed * 70 + scale} {m}\n",
                               capture_output=True, text=True)
            rows = [l.split(" ") for l in r.stdout.split("\n") if l.startswith("REFPIX ")]
            inp = "".join(f"{x[1]} {x[2]} {x[3]} {x[4]}\n" for x in rows)
            c = subprocess.run([exe], input=inp, capture_output=True, text=True)
            got = c.stdout.split("\n")
            return [(rows[i], got[i]) for i in range(len(rows)) if got[i] != rows[i][5]]
        with concurrent.futures.ThreadPoolExecutor(max_workers=vlib.CORES) as ex:
            diffs = [d for ds in ex.map(cpp, range(19)) for d in ds]
        res.distribution["cpp_oracle_pixels"] = m * 19
        res.distribution["cpp_oracle_differences"] = len(diffs)
        res.evaluations += m * 19
        if diffs:
            raise vlib.Broken("the Lean transcription BlendRef differs from the compiled C++ reference "
                              f"(defect of the spec transcription, not of /repo): {diffs[0]}")
    else:
        res.distribution["cpp_oracle_pixels"] = 0
    return res


register("C03", c03_run, profiles=("release", "relchk"))


# ------------------------------------------------------------------------------------------
# C15: switch one unsupported feature on at every position where it can occur

def feature_mutants(cid, b):
    out = []
    def add(tag, off, width, val):
        out.append((f"feat/{tag}/{cid}@{off}={val}", vlib.mutate(b, off, width, val)))
    for pw, ph in ((2, 1), (1, 2), (3, 3), (255, 255), (2, 2)):
        m = bytearray(b); m[34] = pw; m[35] = ph
        out.append((f"feat/ratio/{cid}={pw}:{ph}", bytes(m)))
    for d in (0, 1, 7, 9, 15, 24, 31, 33, 64, 256 + 8, 256 + 16, 256 + 32, 0x2000, 65535):
        add("depth", 12, 2, d)
    for kind, off, ln in vlib.walk_chunks(b):
        if not kind.startswith("chunk:"):
            continue
        ty = int(kind[6:], 16)
        p = off + 6
        if ty == 0x2007:
            for v in (2, 3, 256, 257, 258, 0xFF00, 65535):
                add("profile-type", p, 2, v)
            flags = struct.unpack_from("<H", b, p + 2)[0]
            add("profile-gamma", p + 2, 2, flags | 1)
            # the fixed-gamma flag together with meaningful 16.16 gamma values and every profile type
            for gamma in (0x00023333, 0x00010000, 0x00008000, 0x0001CCCC, 0x00026666, 0x0000745D, 0, 0xFFFFFFFF):
                for ptype in (0, 1):
                    m2 = bytearray(b)
                    struct.pack_into("<HHI", m2, p, ptype, flags | 1, gamma)
                    out.append((f"feat/profile-gamma-value/{cid}@{p}={ptype}:{gamma:x}", bytes(m2)))
        elif ty == 0x2004:
            for v in (3, 4, 255, 256, 257, 258, 0xFF00, 65535):
                add("layer-type", p + 2, 2, v)
            for v in (19, 20, 255, 256, 256 + 18, 0xFF00, 0x8000, 65535):
                add("blend", p + 10, 2, v)
        elif ty == 0x2005:
            ctype = struct.unpack_from("<H", b, p + 7)[0]
            for v in (4, 5, 255, 256, 257, 258, 259, 0x0100 | ctype, 0xFF00 | ctype, 0x8000 | ctype, 65535):
                add("cel-type", p + 7, 2, v)
            if ctype == 3:
                for v in (0, 8, 16, 31, 33, 64, 256 + 32, 0x2000, 65535):
                    add("bits-per-tile", p + 20, 2, v)
        elif ty == 0x2018:
            n = struct.unpack_from("<H", b, p)[0]
            q = p + 10
            for _ in range(n):
                for v in (3, 4, 128, 255):
                    add("anim-dir", q + 4, 1, v)
                ln_name = struct.unpack_from("<H", b, q + 17)[0]
                q += 19 + ln_name
        elif ty == 0x2023:
            flags = struct.unpack_from("<I", b, p + 4)[0]
            add("tileset-not-embedded", p + 4, 4, flags & ~2)
        for v in (0x2021, 0x2024, 0x0005, 0x9999, 0):
            add("chunk-type", off + 4, 2, v)
    return out


def insert_chunk(b, frame_idx, chunk):
    """append `chunk` to frame `frame_idx` (counts and sizes adjusted)"""
    out = bytearray(b[:128])
    pos = 128
    nframes = struct.unpack_from("<H", b, 6)[0]
    for f in range(nframes):
        nb, magic, old, dur, ph, new = struct.unpack_from("<IHHHHI", b, pos)
        n = new if new else old
        q = pos + 16
        for _ in range(n):
            q += struct.unpack_from("<I", b, q)[0]
        body = b[pos + 16:q]
        if f == frame_idx:
            body += chunk
            n += 1
            nb += len(chunk)
            if new:
                new = n
            else:
                old = n
        out += struct.pack("<IHHHHI", nb, magic, old, dur, ph, new) + body
        pos = q
    out += b[pos:]
    return bytes(out)


def tags_chunk(direction):
    p = struct.pack("<H", 1) + bytes(8) + struct.pack("<HHBH", 0, 0, direction, 0) + bytes(6) + struct.pack("<I", 0) + struct.pack("<H", 1) + b"t"
    return mk_chunk(0x2018, p)


def c15_run(ctx, scale):
    res = Result("every documented-unsupported feature switched on, one at a time, at every position where it can "
                 "occur in corpus and generated files (pixel ratio, colour depth, profile type / gamma flag, layer type, "
                 "blend mode, cel type, bits per tile, animation direction, tileset without embedded pixels, unknown "
                 "chunk type); oracle: the load returns an error value; distinct = distinct mutated inputs")
    base = [(c, b) for c, b in vlib.corpus_files(max_size=9000) if c != "color-curve.aseprite"]
    for prof, n in (("struct", 25), ("tiles", 15)):
        fs, _ = vlib.gen_cases(prof, ctx.seed * 19 + scale, (n if ctx.quick else n * 20) * scale)
        base += fs
    files = []
    controls = []
    for cid, b in base:
        files += feature_mutants(cid, b)
        # a tags chunk in a later frame is decoded (and then ignored): an unknown direction there
        # must be refused as well; the same chunk with a known direction is the control
        nframes = struct.unpack_from("<H", b, 6)[0]
        if nframes >= 2 and not cid.endswith(".aseprite"):
            try:
                for fr in (1, nframes - 1):
                    controls.append((f"ctl/latetags/{cid}#f{fr}", insert_chunk(b, fr, tags_chunk(1))))
                    for d in (3, 255):
                        files.append((f"feat/late-anim-dir/{cid}#f{fr}={d}", insert_chunk(b, fr, tags_chunk(d))))
            except struct.error:
                pass
    if controls:
        cm, ci = run_both(controls, outcome_only=True)
        compare_cases(res, controls, cm, ci, [], lambda c, d, i, m: None if vlib.outcome(i) == "ok" else
                      "control (tags chunk with a known direction in a later frame) does not load: " + vlib.outcome_detail(i),
                      what="control", load_only=True)
    # the tileset that "survives per id": a later tileset chunk with the same id replaces it, so a
    # not-embedded tileset that is replaced is legitimately accepted -> our generator uses unique ids
    # tilesets without embedded pixels in every cross-reference shape (external-file entry present or
    # not, used by a layer or not, a second tileset chunk with the same id before or after): the model
    # decides which of them use the unsupported feature (refusal lemmas of C15), the implementation
    # must refuse exactly those
    for nt in (2, 11, 12, 13, 40):
        for bad in (nt - 1, 0, nt // 2):
            tg = struct.pack("<H", nt) + bytes(8) + b"".join(
                struct.pack("<HHBH", 0, 0, 3 if i == bad else i % 3, 0) + bytes(6) + bytes(4) + struct.pack("<H", 0) for i in range(nt))
            files.append((f"feat/anim-dir-unnamed/{nt}/{bad}", mk_header(1, 1, 1) + mk_frame([mk_layer(), mk_chunk(0x2018, tg)])))
    # an unsupported feature in a chunk beyond the 65535th / 65536th of one frame (the 32-bit chunk count)
    empty_path = mk_chunk(0x2017, b"")
    late = {
        "icc-profile": mk_chunk(0x2007, struct.pack("<HHI", 2, 0, 0) + bytes(8) + struct.pack("<I", 4) + b"icc!"),
        "fixed-gamma": mk_chunk(0x2007, struct.pack("<HHI", 1, 1, 0x00023333) + bytes(8)),
        "layer-type-3": mk_layer(ltype=3),
        "blend-mode-19": mk_chunk(0x2004, struct.pack("<HHHHHHBBH", 1, 0, 0, 0, 0, 19, 255, 0, 0) + struct.pack("<H", 1) + b"L"),
        "anim-dir-3": tags_chunk(3),
        "chunk-type-2030": mk_chunk(0x2030, bytes(4)),
    }
    for nfill in (65534, 65535, 65536):
        for what, ch in late.items():
            chunks = [mk_layer()] + [empty_path] * nfill + [ch]
            body = b"".join(chunks)
            fr = struct.pack("<IHHHHI", 16 + len(body), 0xF1FA, 0xFFFF, 100, 0, len(chunks)) + body
            files.append((f"feat/late-chunk/{what}/{len(chunks)}", mk_header(1, 1, 1) + fr))
    # an ICC colour profile whose data length is 0 / 1 / missing, in the first and in a later frame
    for tail_name, tail in (("len0", struct.pack("<I", 0)), ("len1", struct.pack("<I", 1) + b"x"), ("nolen", b"")):
        pc = mk_chunk(0x2007, struct.pack("<HHI", 2, 0, 0) + bytes(8) + tail)
        files.append((f"feat/icc/{tail_name}/frame0", mk_header(1, 1, 1) + mk_frame([pc, mk_layer()])))
        files.append((f"feat/icc/{tail_name}/frame1", mk_header(2, 1, 1) + mk_frame([mk_layer()]) + mk_frame([pc])))
    # an unsupported cel (unknown cel type, tilemap with 8 / 16 bits per tile) on a layer with the REFERENCE flag / hidden layer
    for lflags in (0x41, 0x40, 0x00, 0x43):
        lay = mk_chunk(0x2004, struct.pack("<HHHHHHBBH", lflags, 0, 0, 0, 0, 0, 255, 0, 0) + struct.pack("<H", 1) + b"R")
        for ct in (4, 7, 255):
            c = mk_chunk(0x2005, struct.pack("<HhhBH", 0, 0, 0, 255, ct) + bytes(7) + struct.pack("<HH", 1, 1) + bytes(4))
            files.append((f"feat/cel-type-on-layer-flags/{lflags:x}/{ct}", mk_header(1, 1, 1) + mk_frame([lay, c])))
        for bits in (8, 16):
            import zlib as _zz
            c = mk_chunk(0x2005, struct.pack("<HhhBH", 0, 0, 0, 255, 3) + bytes(7)
                         + struct.pack("<HHHIIII", 1, 1, bits, 0x1fffffff, 0x20000000, 0x40000000, 0x80000000) + bytes(10) + _zz.compress(bytes(bits // 8)))
            files.append((f"feat/tile-bits-on-layer-flags/{lflags:x}/{bits}", mk_header(1, 1, 1) + mk_frame([lay, c])))
    for pw, ph in ((1, 2), (1, 3), (1, 255), (2, 1), (255, 1), (2, 2), (3, 2), (2, 255)):
        hb = bytearray(mk_header(1, 1, 1)); hb[34] = pw; hb[35] = ph
        files.append((f"feat/pixel-ratio/{pw}:{ph}", bytes(hb) + mk_frame([mk_layer()])))
    # an unknown direction on a tag that spans several frames / one frame / has from > to
    for fr, to in ((0, 1), (0, 2), (1, 1), (2, 2), (2, 0), (0, 0)):
        for d in (3, 4, 7, 200, 255):
            tg = struct.pack("<H", 2) + bytes(8) + b"".join(
                struct.pack("<HHBH", f_, t_, d_, 0) + bytes(6) + bytes(4) + struct.pack("<H", 1) + b"t" for f_, t_, d_ in ((0, 0, 1), (fr, to, d)))
            files.append((f"feat/anim-dir-span/{fr}-{to}/{d}", mk_header(3, 1, 1) + mk_frame([mk_layer(), mk_chunk(0x2018, tg)]) + mk_frame([]) * 2))
    xr = [(c, b) for c, b in structure_cases() if c.split("/")[0] in ("exttileset", "tsdup")]
    xm, xi = run_both(xr, outcome_only=True)
    def xorc(cid, data, impl, model):
        if vlib.outcome(model) == "err" and vlib.outcome(impl) != "err":
            return "a tileset without embedded pixels was not refused: " + vlib.outcome_detail(impl)
        return None
    compare_cases(res, xr, xm, xi, [], xorc, what="tileset cross-reference shapes", load_only=True)
    m, i = run_both(files, outcome_only=True)
    compare_cases(res, files, m, i, [], must_fail_oracle, what="feature switch", load_only=True)
    for cid, data in files:
        res._distinct.add(hash(data))
    kinds = {}
    for cid, _ in files:
        k = cid.split("/")[1]
        kinds[k] = kinds.get(k, 0) + 1
    res.distribution.update({"feature:" + k: v for k, v in kinds.items()})
    return res


register("C15", c15_run)


# ------------------------------------------------------------------------------------------
# C11: palettes

def gap_index_cases(ctx, scale, n):
    """indexed sprites over a legacy-only sparse palette with one pixel moved into a gap of the
    palette (must be refused at load time); returns (well-formed files, their model obs, bad files)"""
    leg, leg_model = vlib.gen_cases("legacyindexed", ctx.seed * 27 + scale, n)
    bad = []
    for cid, b in leg:
        ids = set()
        cel_sites = []
        for kind, off, ln in vlib.walk_chunks(b):
            p = off + 6
            if kind in ("chunk:0004", "chunk:0011"):
                npk = struct.unpack_from("<H", b, p)[0]
                q, skip = p + 2, 0
                for _ in range(npk):
                    skip += b[q]
                    cnt = b[q + 1] or 256
                    ids.update(range(skip, skip + cnt))
                    q += 2 + 3 * cnt
            if kind == "chunk:2005" and struct.unpack_from("<H", b, p + 7)[0] == 0:
                w, h = struct.unpack_from("<HH", b, p + 16)
                if w * h:
                    cel_sites.append(p + 20 + (w * h) // 2)
        gaps = [g for g in range(0, max(ids) + 1) if g not in ids] if ids else []
        if gaps and cel_sites:
            for g in (gaps[0], gaps[-1]):
                bad.append((f"gapindex/{cid}@{cel_sites[0]}={g}", vlib.mutate(b, cel_sites[0], 1, g)))
    return leg, leg_model, bad


def c11_extra(ctx, scale, res, files, model_obs, impl_obs):
    """indexed pixel buffers with an index outside the palette, and indexed sprites whose
    palette chunk is removed: both must fail to load"""
    gen, _ = vlib.gen_cases("indexedplain", ctx.seed * 23 + scale, (60 if ctx.quick else 1500) * scale)
    bad = []
    for cid, b in gen:
        pal_off = None
        for kind, off, ln in vlib.walk_chunks(b):
            if kind == "chunk:2019":
                pal_off = off
            if kind == "chunk:2005":
                p = off + 6
                ctype = struct.unpack_from("<H", b, p + 7)[0]
                if ctype == 0:
                    w, h = struct.unpack_from("<HH", b, p + 16)
                    n = w * h
                    for k in (sorted(set([0, n // 2, n - 1])) if n else []):
                        bad.append((f"badindex/{cid}@{p + 20 + k}", vlib.mutate(b, p + 20 + k, 1, 255)))
        has_pixels = any(k in ("chunk:2005", "chunk:2023") for k, _, _ in vlib.walk_chunks(b))
        if pal_off is not None and has_pixels:
            bad.append((f"nopalette/{cid}", vlib.mutate(b, pal_off + 4, 2, 0x2006)))
    # legacy-only (possibly sparse) palettes: a pixel index inside a gap of the palette must be refused
    leg, leg_model, gapbad = gap_index_cases(ctx, scale, (150 if ctx.quick else 3000) * scale)
    leg_impl, _ = vlib.run_impl(vlib.load_lines(leg))
    compare_cases(res, leg, leg_model, leg_impl, ["palette", "pal", "format", "celA", "frameimg"], must_load_oracle,
                  what="indexed sprites over a legacy-only palette",
                  spec_backed="C01.oldPalette_roundtrip + C11.indexed_complete + C06.indexed_conversion")
    # a sparse palette with ids beyond 255 (10..=300) and cels of 31x31 / 32x32 / 64x64 pixels in which
    # exactly one pixel uses an absent low index whose alias (index + 256) is present
    import zlib
    ents = b"".join(struct.pack("<HBBBB", 0, (i * 7) % 256, (i * 3) % 256, i % 256, 255) for i in range(291))
    palc = mk_chunk(0x2019, struct.pack("<III", 291, 10, 300) + bytes(8) + ents)
    for side in (31, 32, 64):
        for absent in (5, 0, 9):
            for pos in (0, side * side // 2, side * side - 1):
                px = bytearray([20] * (side * side))
                px[pos] = absent
                for ctype, body in ((0, bytes(px)), (2, zlib.compress(bytes(px)))):
                    celc = mk_chunk(0x2005, struct.pack("<HhhBH", 0, 0, 0, 255, ctype) + bytes(7) + struct.pack("<HH", side, side) + body)
                    bad.append((f"aliasindex/{side}/{absent}@{pos}/{ctype}", mk_header(1, 4, 4, 8) + mk_frame([palc, mk_layer(), celc])))
    # tilesets of indexed sprites whose pixels use an index outside the palette / have no palette
    # (referenced by a layer or not): the model decides which must be refused
    tsx = [(c, b) for c, b in structure_cases() if c.startswith("tsidx/")]
    tm_, ti_ = run_both(tsx, outcome_only=True)
    def tsorc(cid, data, impl, model):
        if vlib.outcome(model) == "err" and vlib.outcome(impl) != "err":
            return "an indexed tileset with an index outside the palette (or without a palette) was not refused: " + vlib.outcome_detail(impl)
        return None
    compare_cases(res, tsx, tm_, ti_, [], tsorc, what="indexed tilesets vs palette", load_only=True)
    bad += gapbad
    ngap = len(gapbad)
    res.distribution["gap-index cases"] = ngap
    if bad:
        m, i = run_both(bad)
        def orc(cid, data, impl, model):
            # a cel-less sprite without palette may legitimately load
            if cid.startswith("nopalette/") and vlib.outcome(model) == "ok":
                return None
            return must_fail_oracle(cid, data, impl, model)
        compare_cases(res, bad, m, i, [], orc, what="indexed pixels vs palette", load_only=True)
        res.distribution["bad-index cases"] = sum(1 for c, _ in bad if c.startswith("badindex"))
        res.distribution["no-palette cases"] = sum(1 for c, _ in bad if c.startswith("nopalette"))


register("C11", wf_routine(["palette", "pal", "format"], [("indexed", 150, 4000), ("struct", 150, 4000)],
         "generated palettes (new-format with first index > 0, names, alpha < 255; legacy 0x0004/0x0011 with "
         "multi-packet skips and count byte 0; both chunk orders); indexed buffers with one index outside the "
         "palette at first/middle/last position; indexed sprites with the palette chunk removed",
         extra=c11_extra, spec_backed="C01.palette_roundtrip / oldPalette_roundtrip and C11.new_palette_replaces / old_palette_keeps_existing"))


# ------------------------------------------------------------------------------------------
# C18: utilities

def pal_file(first, entries):
    """minimal RGBA sprite holding a new-format palette chunk with the given (r,g,b,a) entries"""
    hdr = struct.pack("<IHHHHHIHIIBBHHBBhhHH", 0, 0xA5E0, 1, 1, 1, 32, 1, 100, 0, 0, 0, 0, 0, 0, 1, 1, 0, 0, 16, 16)
    hdr += bytes(128 - len(hdr))
    p = struct.pack("<III", len(entries), first, first + len(entries) - 1) + bytes(8)
    for (r, g, b, a) in entries:
        p += struct.pack("<HBBBB", 0, r, g, b, a)
    ch = struct.pack("<IH", 6 + len(p), 0x2019) + p
    fr = struct.pack("<IHHHHI", 16 + len(ch), 0xF1FA, 1, 100, 0, 1) + ch
    return hdr + fr


def c18_run(ctx, scale):
    res = Result("extrude_border on random images 1x1..9x7 (compared with the model and with the clamp law); "
                 "PaletteMapper / to_indexed_image on palettes with duplicate colours and ids >= 256, all option "
                 "combinations, queries = palette colours, random colours, alpha != 255 (compared with the law: any "
                 "palette index of that RGB is acceptable because the map's iteration order is unspecified; the model "
                 "is run with both extreme orders); distinct = distinct requests")
    rng = random.Random(ctx.seed * 31337 + scale)
    n = (150 if ctx.quick else 4000) * scale
    reqs, meta = [], {}
    for k in range(n):
        w, h = rng.randrange(1, 10), rng.randrange(1, 8)
        px = bytes(rng.randrange(256) for _ in range(4 * w * h))
        cid = f"ex{k}"
        if k % 3 == 2:
            # an image whose backing buffer is larger than w*h*4 (allowed by RgbaImage::from_raw)
            spare = bytes(rng.randrange(256) for _ in range(4 * rng.randrange(1, 8)))
            reqs.append(f"UTIL {cid} extrude {w} {h} {px.hex()} {spare.hex()}")
        else:
            reqs.append(f"UTIL {cid} extrude {w} {h} {px.hex()}")
        meta[cid] = ("extrude", w, h, px)
    # widths and heights around internal buffer sizes (powers of two and one or two pixels either side)
    k = n
    for w in (255, 256, 257, 1022, 1023, 1024, 1025, 1026, 2047, 2048, 2049, 4095, 4096, 4097):
        for (ww, hh) in ((w, 1), (1, w)) if w <= 1026 or not ctx.quick else ((w, 1),):
            px = bytes((i * 31 + w) % 256 for i in range(4 * ww * hh))
            cid = f"ex{k}"
            k += 1
            reqs.append(f"UTIL {cid} extrude {ww} {hh} {px.hex()}")
            meta[cid] = ("extrude", ww, hh, px)
    # boundary colours (white packs to 0xFFFFFF / 0xFFFFFFFF with alpha, black to 0) + random ones
    colours = [(255, 255, 255), (0, 0, 0)] + [(rng.randrange(256), rng.randrange(256), rng.randrange(256)) for _ in range(4)]
    mreqs_model = []
    for k in range(n):
        first = rng.choice([0, 0, 1, 250, 254])
        cnt = rng.randrange(1, 12)
        entries = [rng.choice(colours) + (rng.choice([0, 128, 255]),) for _ in range(cnt)]
        f = pal_file(first, entries)
        failure = rng.randrange(256)
        # the transparent index often is an index the palette uses (and differs from the failure index)
        transp = rng.choice(["-", str(rng.randrange(256)), str((first + rng.randrange(cnt)) % 256), str((first + rng.randrange(cnt)) % 256)])
        qs = [c + (255,) for c in colours] + [c + (rng.randrange(255),) for c in colours[:2]] + \
             [(rng.randrange(256), rng.randrange(256), rng.randrange(256), 255) for _ in range(3)]
        # the same colour opaque and then translucent, back to back (call history must not matter)
        for c in colours[2:5]:
            qs += [c + (255,), c + (rng.choice([0, 1, 128, 254]),), c + (255,)]
        qb = bytes(x for q in qs for x in q)
        cid = f"map{k}"
        reqs.append(f"UTIL {cid} mapper {f.hex()} {failure} {transp} {qb.hex()}")
        mreqs_model.append(f"UTIL {cid}:fwd mapper {f.hex()} {failure} {transp} fwd {qb.hex()}")
        mreqs_model.append(f"UTIL {cid}:rev mapper {f.hex()} {failure} {transp} rev {qb.hex()}")
        meta[cid] = ("mapper", first, entries, failure, transp, qs)
        # indexed image made of the same queries
        w, h = 4, 3
        rot = 4 * rng.randrange(len(qs))        # any query may be the first pixel
        img = ((qb[rot:] + qb[:rot]) * 2)[: 4 * w * h]
        cid2 = f"idx{k}"
        # every other request hands over a backing buffer with spare bytes behind the w*h pixels
        spare = "" if k % 2 == 0 else " " + bytes(rng.randrange(256) for _ in range(rng.choice([1, 3, 4, 8, 13, 16]))).hex()
        reqs.append(f"UTIL {cid2} indexed {f.hex()} {failure} {transp} {w} {h} {img.hex()}{spare}")
        mreqs_model.append(f"UTIL {cid2}:fwd indexed {f.hex()} {failure} {transp} fwd {w} {h} {img.hex()}")
        meta[cid2] = ("indexed", first, entries, failure, transp, [tuple(img[4 * j:4 * j + 4]) for j in range(w * h)], w, h)
    # palettes far larger than any index the mapper can return (u16 / u32 counters of entries)
    nomodel = set()
    for nbig in (65535 + 256, 65536 + 256, 70000) if not ctx.quick else (65536 + 256,):
        ents = [((i >> 16) & 255, (i >> 8) & 255, i & 255, 255) for i in range(nbig)]
        qs = [(0, 0, 5, 255), (0, 0, 255, 255), (0, 1, 0, 255), (0, 255, 255, 255), (1, 1, 1, 255), (0, 0, 5, 100),
              (1, 0, 9, 255), (1, 0, 0, 255), (1, 0, 255, 255), (1, 0, 254, 255)]
        cid = f"mapbig{nbig}"
        reqs.append(f"UTIL {cid} mapper {pal_file(0, ents).hex()} 7 - {bytes(x for q in qs for x in q).hex()}")
        meta[cid] = ("mapper", 0, ents, 7, "-", qs)
        nomodel.add(cid)
    # two mappers on ONE loaded palette whose ids pass 255: the second one's failure index is its own
    for k2, (first, cnt) in enumerate(((254, 4), (250, 10), (0, 300))):
        ents = [((17 * j + 3) % 256, (29 * j + 5) % 256, (j * 7) % 256, 255) for j in range(cnt)]
        qs = [e[:3] + (255,) for e in ents[:12]] + [e[:3] + (255,) for e in ents[-6:]] + [(1, 1, 1, 255), ents[-1][:3] + (100,)]
        qb = bytes(x for q in qs for x in q)
        for f1, f2 in ((3, 7), (7, 3), (0, 255)):
            cid = f"map2/{k2}/{f1}>{f2}"
            reqs.append(f"UTIL {cid} mapper {pal_file(first, ents).hex()} {f1}>{f2} - {qb.hex()}")
            meta[cid] = ("mapper", first, ents, f2, "-", qs)
            nomodel.add(cid)
    impl, _ = vlib.run_impl(reqs)
    # the same requests in the build with overflow checks and debug assertions
    impl_chk, _ = vlib.run_impl(reqs, "relchk")
    for r in reqs:
        cid = r.split(" ")[1]
        if impl.get(cid) != impl_chk.get(cid):
            res.oracle_failures.append({"id": cid, "what": f"the build with overflow checks reports `{str(impl_chk.get(cid))[:200]}` where the "
                                        f"optimised build reports `{str(impl.get(cid))[:200]}`", "request": r[:600], "build_profile": "relchk",
                                        "call": "asefile::util, both build profiles"})
    model_reqs = [" ".join(r.split(" ")[:6]) for r in reqs if " extrude " in r] + mreqs_model
    model, _ = vlib.run_model(model_reqs)

    def allowed(first, entries, failure, transp, q):
        r, g, b, a = q
        if a != 255:
            return {failure if transp == "-" else int(transp)}
        ids = [first + j for j, e in enumerate(entries) if e[:3] == (r, g, b)]
        if not ids:
            return {failure}
        return {(i if i < 256 else failure) for i in ids}

    for cid, mt in meta.items():
        res.evaluations += 1
        res.compared += 1
        res._distinct.add(hash(str(mt)))
        il = impl.get(cid, ["missing"])
        line = il[0] if il else "missing"
        fail = None
        if mt[0] == "extrude":
            _, w, h, px = mt
            ml = model.get(cid, ["missing"])[0]
            parts = line.split(":")
            if not line.startswith(f"extrude {w + 2}x{h + 2}:"):
                fail = "wrong dimensions or failure: " + line[:80]
            elif ml != line:
                # the model's image IS the specified image (theorem C18.extrude_spec)
                fail = f"the implementation returns `{line[:120]}` where the property specifies `{ml[:120]}` (model value, proved by C18.extrude_spec)"
            elif len(parts) >= 4:
                out = bytes.fromhex(parts[3])
                for y in range(h + 2):
                    for x in range(w + 2):
                        sx, sy = min(max(x - 1, 0), w - 1), min(max(y - 1, 0), h - 1)
                        if out[4 * (y * (w + 2) + x):][:4] != px[4 * (sy * w + sx):][:4]:
                            fail = f"pixel ({x},{y}) is not input pixel ({sx},{sy})"
            if len(res.samples) < 2:
                res.samples.append({"request": f"extrude {w}x{h}", "result": line[:60]})
        elif mt[0] == "mapper":
            _, first, entries, failure, transp, qs = mt
            if not line.startswith("mapper "):
                fail = "mapper failed: " + line[:80]
            else:
                got = [int(x) for x in line[7:].split(",")]
                for q, v in zip(qs, got):
                    if v not in allowed(first, entries, failure, transp, q):
                        fail = f"lookup{q} = {v}, allowed {sorted(allowed(first, entries, failure, transp, q))}"
                for sfx in ((":fwd", ":rev") if cid not in nomodel else ()):
                    ml = model.get(cid + sfx, ["missing"])[0]
                    mg = [int(x) for x in ml[7:].split(",")] if ml.startswith("mapper ") else None
                    if mg is None or any(v not in allowed(first, entries, failure, transp, q) for q, v in zip(qs, mg)):
                        raise vlib.Broken("the model of PaletteMapper violates the law: " + ml[:200])
            if len(res.samples) < 4:
                res.samples.append({"request": f"mapper first={first} entries={entries[:3]}…", "result": line[:60]})
        else:
            _, first, entries, failure, transp, qs, w, h = mt
            if not line.startswith(f"indexed {w}x{h} "):
                fail = "to_indexed_image: wrong dimensions or failure: " + line[:80]
            else:
                data = bytes.fromhex(line.split(" ")[2])
                if len(data) != w * h:
                    fail = f"{len(data)} indices for {w * h} pixels"
                else:
                    for q, v in zip(qs, data):
                        if v not in allowed(first, entries, failure, transp, q):
                            fail = f"pixel {q} -> {v}, allowed {sorted(allowed(first, entries, failure, transp, q))}"
        if fail:
            res.oracle_failures.append({"id": cid, "what": fail, "request": [str(x)[:400] for x in mt],
                                        "impl": line[:400], "call": "asefile::util"})
    res.sections = ["extrude", "mapper", "indexed"]
    return res


register("C18", c18_run, profiles=("release", "relchk"))


# ------------------------------------------------------------------------------------------
# C13: truncation;  C14: reader schedules

def end_of_last_frame(b):
    for kind, off, ln in vlib.walk_chunks(b):
        if kind == "end":
            return off
    return None


def small_wf_files(ctx, scale, n_gen):
    files = [(c, b) for c, b in vlib.corpus_files(max_size=2600) if c != "color-curve.aseprite"]
    gen, _ = vlib.gen_cases("struct", ctx.seed * 29 + scale, n_gen)
    gen2, _ = vlib.gen_cases("tiles", ctx.seed * 37 + scale, max(1, n_gen // 3))
    return files + gen + gen2


def c13_run(ctx, scale):
    res = Result("every cut offset (thorough) / a seeded sample of cut offsets plus all offsets of the file header and "
                 "of each frame and chunk header (quick) of corpus and generated files; oracle: a prefix that ends before "
                 "the end of the last frame does not load; distinct = distinct (file, cut) pairs")
    rng = random.Random(ctx.seed * 271 + scale)
    base = small_wf_files(ctx, scale, (30 if ctx.quick else 400) * scale)
    base += [(c, b) for c, b in vlib.verif_corpus_wf() if len(b) < 20000]
    # frames with hundreds of chunks
    big, _ = vlib.gen_cases("large", ctx.seed * 41 + scale, 2 if ctx.quick else 12)
    base += [(c, b) for c, b in big if len(b) < 600000]
    def orc(cid, data, impl, model):
        if cid.startswith("whole/"):
            return None if vlib.outcome(impl) == "ok" else "the untruncated file does not load: " + vlib.outcome_detail(impl)
        if vlib.outcome(impl) != "err":
            return "a truncated file did not fail to load: " + vlib.outcome_detail(impl)
        return None
    ncuts = 0
    def flush(files):
        # one group of base files at a time bounds the memory of the thorough tier
        for profile in ("release", "relchk"):
            sub = Result()
            compare_batched(sub, files, [], orc, what=f"truncated prefix [{profile}]", load_only=True, outcome_only=True,
                            batch=100000, profile=profile)
            for f in sub.oracle_failures + sub.corr_diffs:
                f["build_profile"] = profile
            res.merge(sub)
        for cid, data in files:
            res._distinct.add(hash(cid))
    files = []
    for cid, b in base:
        if sum(len(d) for _, d in files) > 400_000_000:
            ncuts += len(files)
            flush(files)
            files = []
        end = end_of_last_frame(b)
        if end is None or end > len(b):
            continue
        if len(b) > 30000:
            # large files (hundreds of chunks per frame): cuts inside the last frame, mostly near its end
            pieces = vlib.walk_chunks(b)
            cuts = set(range(max(0, end - 80), end))
            for kind, off, ln in pieces[-40:]:
                cuts.update(range(max(0, off - 1), min(end, off + 8)))
            for kind, off, ln in rng.sample(pieces, min(len(pieces), 60 if ctx.quick else 400)):
                cuts.add(min(end - 1, off + rng.randrange(0, max(1, ln))))
            cuts.update(rng.randrange(end) for _ in range(20))
        elif ctx.quick:
            cuts = set(range(0, min(end, 160)))
            for kind, off, ln in vlib.walk_chunks(b):
                cuts.update(range(max(0, off - 1), min(end, off + 8)))
            cuts.update(rng.randrange(end) for _ in range(40))
            cuts.update([end - 1, end - 2])
        else:
            cuts = set(range(end))
        for k in sorted(c for c in cuts if 0 <= c < end):
            files.append((f"cut/{cid}@{k}", b[:k]))
        # the complete file and the file cut exactly at the end of the last frame do load
        files.append((f"whole/{cid}", b[:end]))
    ncuts += len(files)
    flush(files)
    # AsepriteFile::read_file (the path-based entry point) on truncated files: files with raw cels,
    # where a zero-filled tail would still parse
    freqs, fmeta = [], {}
    fbase = [(c, b) for c, b in base if len(b) < 1500][:25] + [(c, b) for c, b in vlib.verif_corpus_wf() if "cel_before_layer" in c or "ends_with" in c or "tiny_chunks" in c]
    for cid, b in fbase:
        end = end_of_last_frame(b)
        if end is None or end > len(b):
            continue
        cuts = set(range(max(0, end - 45), end)) | set(rng.randrange(end) for _ in range(12)) | {128, 132, 134, 144} | set(range(0, 8))
        for k in sorted(c for c in cuts if 0 <= c < end):
            rid = f"filecut/{cid}@{k}"
            freqs.append(f"SCHED {rid} {b[:k].hex() or '-'} file")
            fmeta[rid] = b[:k]
    fo, _ = vlib.run_impl(freqs)
    for rid, data in fmeta.items():
        res.evaluations += 1
        res.compared += 1
        o = fo.get(rid) or ["missing"]
        if not o[0].startswith("load err"):
            res.oracle_failures.append({"id": rid, "input_hex": data.hex(), "call": "AsepriteFile::read_file(path)",
                                        "what": "a truncated file did not fail to load through read_file: " + o[0][:100]})
    # call histories through read_file: the whole file (twice), then a prefix of it on the same thread
    hreqs, hmeta = [], {}
    for cid, b in fbase[:30]:
        end = end_of_last_frame(b)
        if end is None or end > len(b):
            continue
        for k in sorted({end - 1, end - 2, end // 2, 128, max(0, end - 17)}):
            if 0 <= k < end:
                rid = f"filehist/{cid}@{k}"
                hreqs.append(f"HISTORY {rid} {b.hex()} {b[:k].hex() or '-'} files")
                hmeta[rid] = b[:k]
    for profile in ("release", "relchk"):
        ho, _ = vlib.run_impl(hreqs, profile)
        for rid, data in hmeta.items():
            res.evaluations += 1
            res.compared += 1
            o = ho.get(rid) or ["missing"]
            if not o[0].startswith("load err") or any(l.startswith("differs") for l in o):
                res.oracle_failures.append({"id": rid, "input_hex": data.hex(), "build_profile": profile,
                                            "call": "AsepriteFile::read_file(whole file) twice, then read_file(prefix) on the same thread",
                                            "what": "a truncated file did not fail to load through read_file after the whole file had been loaded on the same thread: "
                                                    + " | ".join(o[:1] + [l for l in o if l.startswith("differs")])[:300]})
    res.distribution["read_file histories"] = len(hreqs)
    # the big corpus files: they load, and cuts near their end do not
    bigf = [(c, b) for c, b in vlib.verif_corpus_wf(include_big=True) if len(b) >= 20000]
    bcases = []
    for cid, b in bigf:
        end = end_of_last_frame(b)
        if end is None or end > len(b):
            continue
        bcases.append((f"whole/{cid}", b[:end]))
        for k in sorted(set([end - 1, end - 7, end - 30, max(0, end - 200)] + [rng.randrange(end) for _ in range(4)])):
            if 0 <= k < end:
                bcases.append((f"cut/{cid}@{k}", b[:k]))
    ncuts += len(bcases)
    flush(bcases)
    res.distribution["read_file cuts"] = len(freqs)
    res.distribution["files"] = len(base)
    res.distribution["cuts"] = ncuts - len(base)
    return res


register("C13", c13_run, profiles=("release", "relchk"))


def c14_run(ctx, scale):
    res = Result("corpus and generated files loaded through instrumented Read implementations: 1-byte reads, random "
                 "partitions, Interrupted before every call, a hard error of each kind injected at byte offsets "
                 "(every offset in thorough), BufReader capacities and read_file; oracle: without a hard error the "
                 "observation equals that of the plain bytes; with a hard error before the end of the last frame the "
                 "result is the IoError variant carrying that kind (checked through Error::source); "
                 "distinct = distinct (file, schedule) pairs")
    rng = random.Random(ctx.seed * 613 + scale)
    base = small_wf_files(ctx, scale, (12 if ctx.quick else 150) * scale)
    base = [(c, b) for c, b in base if len(b) <= 2600]
    reqs = []
    meta = {}
    # Other, BrokenPipe, TimedOut, PermissionDenied, UnexpectedEof, InvalidInput, ConnectionReset, WouldBlock,
    # InvalidData, OutOfMemory, NotFound
    kinds = [3, 4, 5, 6, 0, 1, 7, 8, 2, 9, 10]
    for cid, b in base:
        hx = b.hex()
        end = end_of_last_frame(b) or len(b)
        def add(tag, ev, expect):
            rid = f"{cid}|{tag}"
            reqs.append(f"SCHED {rid} {hx} {ev}")
            meta[rid] = (cid, expect)
        add("plain", "-", "same")
        add("bytewise", ",".join(["d1"] * len(b)), "same")
        for r in range(2 if ctx.quick else 6):
            parts = []
            while len(parts) < 4000 and sum(p for p in parts) < len(b):
                parts.append(rng.choice([1, 1, 2, 3, 4, 7, 8, 16, 100]))
            add(f"rand{r}", ",".join(f"d{p}" for p in parts), "same")
        add("interrupted", ",".join(["i,d3"] * (len(b) // 3 + 2)), "same")
        add("interrupted2", ",".join(["i,i,d1000"] * 40), "same")
        for cap in ([1, 2, 7, 64] if ctx.quick else [1, 2, 3, 5, 7, 8, 16, 31, 64]):
            add(f"bufreader{cap}", f"bufreader:{cap}", "same")
        add("file", "file", "same")
        # read_file on a named pipe whose first read is short
        for n in (1, 3, 5, 64, 129):
            add(f"fifo{n}", f"fifo:{n}", "same")
        step = max(1, end // (25 if ctx.quick else end))
        for k in list(range(0, end, step)) + [end - 1]:
            code = kinds[(k // step) % len(kinds)]
            ev = ",".join(["d1"] * k + [f"f{code}"])
            add(f"fail{code}@{k}", ev, f"io:{'UnexpectedEof' if code == 0 else code}")
        # events after everything needed was delivered must not matter: the loader has no reason to
        # call read() again (the result depends on the bytes only)
        add("fail-after-end", ",".join(["d1"] * len(b) + ["f3"]) if end == len(b) else
            ",".join(["d1"] * end + ["d1000000", "f3"]), "same" if end == len(b) else "same-or-io")
        if end == len(b):
            add("interrupted-at-end", ",".join(["d1"] * len(b) + ["i"]), "same")
            add("wouldblock-at-end", ",".join(["d1"] * len(b) + ["f8"]), "same")
        # every kind at one fixed offset inside the data, as an error with a payload that has its own
        # cause (f) and as a bare kind (F)
        for code in kinds:
            k = min(end - 1, 130 + code)
            add(f"kind{code}@{k}", ",".join(["d1"] * k + [f"f{code}"]), f"io:{'UnexpectedEof' if code == 0 else code}")
            add(f"plainkind{code}@{k}", ",".join(["d1"] * k + [f"F{code}"]), f"io:{'UnexpectedEof' if code == 0 else code}")
    # the last frame declares 8 more bytes than its chunks use and the stream has them: a hard error at
    # or inside that padding comes after everything needed was delivered
    datas = dict(base)
    for cid, b in list(base)[:40]:
        fr = [off for kind, off, ln in vlib.walk_chunks(b) if kind == "frame"]
        end = end_of_last_frame(b)
        if not fr or end != len(b):
            continue
        sz = struct.unpack_from("<I", b, fr[-1])[0]
        pb = b[:fr[-1]] + struct.pack("<I", sz + 8) + b[fr[-1] + 4:] + bytes([0xAA] * 8)
        pcid = f"{cid}~pad"
        datas[pcid] = pb
        for tag, ev in [("plain", "-")] + [(f"fail-in-padding@{k}", ",".join(["d1"] * k + ["f3"])) for k in (end, end + 1, end + 7, end + 8)] \
                + [(f"interrupted-in-padding@{end}", ",".join(["d1"] * end + ["i", "d1"] * 9))]:
            rid = f"{pcid}|{tag}"
            reqs.append(f"SCHED {rid} {pb.hex()} {ev}")
            meta[rid] = (pcid, "same")
    # files that would be refused (pixel ratio 2:1, colour depth 24; not a bad magic number, which the loader
    # rejects as soon as it has those six bytes) read through a reader that fails
    # inside the 128-byte header, after the offending field: the header was not delivered, so the I/O error is the result
    for rn, (off, val) in (("ratio2x1", (34, bytes([2, 1]))), ("depth24", (12, bytes([24, 0])))):
        cid0, b0 = base[0]
        rb = b0[:off] + val + b0[off + len(val):]
        rcid = f"{cid0}~refused-{rn}"
        datas[rcid] = rb
        for k in (off + len(val), 36, 40, 64, 127):
            if k < off + len(val):
                continue
            for code, ev in ((3, "f3"), (0, "f0"), (6, "F6")):
                rid = f"{rcid}|fail{code}@{k}"
                reqs.append(f"SCHED {rid} {rb.hex()} {','.join(['d1'] * k + [ev])}")
                meta[rid] = (rcid, f"io:{'UnexpectedEof' if code == 0 else code}")
    # truncated files through read_file: the same result (also the same error value) as the same
    # bytes from memory
    for cid, b in list(base):
        end = end_of_last_frame(b) or len(b)
        for cut in sorted({0, 50, 127, 136, end // 2, end - 1}):
            tcid = f"{cid}~{cut}"
            datas[tcid] = b[:cut]
            for tag, ev in (("plain", "-"), ("file", "file"), ("bufreader3", "bufreader:3")):
                rid = f"{tcid}|{tag}"
                reqs.append(f"SCHED {rid} {b[:cut].hex() or '-'} {ev}")
                meta[rid] = (tcid, "same")
    m, _ = vlib.run_model(reqs)
    i, _ = vlib.run_impl(reqs)
    # read_file on a missing path and on a directory (implementation only; the expectation is stated
    # by the harness: the error std::fs reports for that path is the one carried as source)
    for profile in ("release", "relchk"):
        o, _ = vlib.run_impl(["SCHED osmissing - missingfile", "SCHED osdir - dirfile"], profile)
        for rid in ("osmissing", "osdir"):
            res.evaluations += 1
            got = (o.get(rid) or ["missing"])[0]
            if got != "load err io:os-error-carried":
                res.oracle_failures.append({"id": rid, "build_profile": profile, "call": "AsepriteFile::read_file(" + ("a path that does not exist" if rid == "osmissing" else "a directory") + ")",
                                            "what": "the I/O error reported for the path is not the one returned as the IoError's source: " + got[:400]})
    res.sections = ALL
    plain = {}
    for rid, (cid, expect) in meta.items():
        if rid.endswith("|plain"):
            plain[cid] = i.get(rid)
    for rid, (cid, expect) in meta.items():
        res.evaluations += 1
        res.compared += 1
        res._distinct.add(hash(rid))
        il, ml = i.get(rid), m.get(rid)
        if il is None or ml is None:
            raise vlib.Broken("no observation for " + rid)
        data_hex = datas[cid].hex()
        fail = None
        if il and il[0] == "no-fifo":
            # the sandbox has no `mkfifo`: the named-pipe schedule cannot be set up (counted, not judged)
            res.distribution["fifo-unavailable"] = res.distribution.get("fifo-unavailable", 0) + 1
            continue
        if expect == "same":
            if il != plain[cid]:
                d = vlib.first_diff(plain[cid], il)
                fail = f"result depends on the reader ({rid.split('|')[1][:40]}): {d}"
        elif expect.startswith("io:"):
            want = "load err " + expect
            if not il or il[0] != want:
                fail = f"hard I/O error not returned as IoError of that kind: expected '{want}', got '{il[0] if il else None}'"
        elif expect == "same-or-io":
            if il != plain[cid] and not (il and il[0].startswith("load err io:")):
                fail = "unexpected result with an error event after the needed data: " + (il[0] if il else "none")
        if fail:
            res.oracle_failures.append({"id": rid, "what": fail[:600], "input_hex": data_hex,
                                        "schedule": rid.split("|")[1], "call": "AsepriteFile::read(custom Read)"})
        elif il != ml:
            d = vlib.first_diff(ml, il)
            res.corr_diffs.append({"correspondence": "Ase.parseStream <-> AsepriteFile::read over a scheduled reader",
                                   "id": rid, "input_hex": data_hex,
                                   "first_difference": {"line": d[0], "model": d[1][:300], "impl": d[2][:300]}})
        if len(res.samples) < 5 and ("fail" in rid or "rand" in rid):
            res.samples.append({"id": rid[:80], "outcome": il[0] if il else None})
    res.distribution["files"] = len(base)
    res.distribution["schedules"] = len(reqs)
    # a load that FAILED with a hard error part-way through a large chunk payload must leave nothing
    # behind: the same thread then loads a file (the same one, and another one) and must observe it
    # like a fresh thread does
    big = mk_header(1, 8, 8) + mk_frame([mk_layer(), mk_chunk(0x2005, struct.pack("<HhhBH", 0, -3, -2, 255, 0) + bytes(7)
                                        + struct.pack("<HH", 520, 520) + bytes((i * 7 + (i >> 9)) % 256 for i in range(520 * 520 * 4)))])
    mid = mk_header(1, 8, 8) + mk_frame([mk_layer(), mk_chunk(0x2005, struct.pack("<HhhBH", 0, 1, 1, 255, 0) + bytes(7)
                                        + struct.pack("<HH", 150, 130) + bytes((i * 11) % 256 for i in range(150 * 130 * 4)))])
    hreqs, hmeta = [], {}
    for an, a in (("big", big), ("mid", mid)):
        for off in (200, 5000, 70000, 300000, 1048700, len(a) - 10):
            if off >= len(a):
                continue
            for bn, b in (("big", big), ("mid", mid)):
                hid = f"failhist/{an}@{off}->{bn}"
                hreqs.append(f"HISTORY {hid} {a.hex()} {b.hex()} fail:{off}")
                hmeta[hid] = (a, b)
    # a load that failed inside a damaged deflate stream, then a well-formed compressed file on the same thread
    import zlib as _z
    zpx = bytes((i * 13) % 256 for i in range(40 * 30 * 4))
    good = mk_header(1, 8, 8) + mk_frame([mk_layer(), mk_chunk(0x2005, struct.pack("<HhhBH", 0, 0, 0, 255, 2) + bytes(7)
                                         + struct.pack("<HH", 40, 30) + _z.compress(zpx))])
    zbad = bytearray(_z.compress(zpx))
    for pos, name in ((2, "blockhdr"), (len(zbad) // 2, "middle"), (len(zbad) - 2, "adler")):
        zb = bytearray(zbad)
        zb[pos] ^= 0xFF
        bad = mk_header(1, 8, 8) + mk_frame([mk_layer(), mk_chunk(0x2005, struct.pack("<HhhBH", 0, 0, 0, 255, 2) + bytes(7)
                                            + struct.pack("<HH", 40, 30) + bytes(zb))])
        for bn, b in (("big", big), ("mid", mid), ("good", good)):
            hid = f"corrupthist/{name}->{bn}"
            hreqs.append(f"HISTORY {hid} {bad.hex()} {b.hex()}")
            hmeta[hid] = (bad, b)
    mh, _ = vlib.run_model(vlib.load_lines([("big", big), ("mid", mid), ("good", good)]))
    for profile in ("release", "relchk"):
        ho, _ = vlib.run_impl(hreqs, profile)
        for hid, (a, b) in hmeta.items():
            res.evaluations += 1
            res.compared += 1
            o = ho.get(hid) or ["missing"]
            want = mh[hid.rsplit("->", 1)[1]]
            plain = [l for l in o if not l.startswith("mapperx")]
            bad = [l for l in o if l.startswith("differs") or "PANIC" in l or "failed-or-panicked" in l]
            if bad or plain != want:
                res.oracle_failures.append({"id": hid, "build_profile": profile, "input_hex": b.hex()[:200000],
                                            "call": f"HISTORY (first load through a reader failing after N bytes): {hid}",
                                            "what": "after a load that failed with an I/O error, a later load on the same thread is observed differently: "
                                                    + (bad[0][:300] if bad else str(vlib.first_diff(want, plain))[:300])})
    res.distribution["failed-load histories"] = len(hreqs)
    return res


register("C14", c14_run, profiles=("release", "relchk"))


# ------------------------------------------------------------------------------------------
# C12: memory

def mk_header(nframes, w, h, depth=32):
    b = struct.pack("<IHHHHHIHIIBBHHBBhhHH", 0, 0xA5E0, nframes, w, h, depth, 1, 100, 0, 0, 0, 0, 0, 0, 1, 1, 0, 0, 16, 16)
    return b + bytes(128 - len(b))


def mk_chunk(ty, payload):
    return struct.pack("<IH", 6 + len(payload), ty) + payload


def mk_frame(chunks):
    body = b"".join(chunks)
    return struct.pack("<IHHHHI", 16 + len(body), 0xF1FA, min(len(chunks), 65535), 100, 0, len(chunks)) + body


def mk_layer(name=b"L", ltype=0, level=0):
    return mk_chunk(0x2004, struct.pack("<HHHHHHBBH", 1, ltype, level, 0, 0, 0, 255, 0, 0) + struct.pack("<H", len(name)) + name)


def hostile_memory_inputs(ctx, scale):
    import zlib
    out = []
    # deflate bombs: a cel whose declared size matches a huge run of zeros
    for side in ((512, 512), (2000, 2000)) if ctx.quick else ((512, 512), (2000, 2000), (4000, 4000)):
        w, h = side
        z = zlib.compress(bytes(w * h * 4), 9)
        cel = mk_chunk(0x2005, struct.pack("<HhhBH", 0, 0, 0, 255, 2) + bytes(7) + struct.pack("<HH", w, h) + z)
        out.append((f"bomb/{w}x{h}", mk_header(1, 4, 4) + mk_frame([mk_layer(), cel])))
        # the same stream under a small declared size (rejected only after inflation)
        cel2 = mk_chunk(0x2005, struct.pack("<HhhBH", 0, 0, 0, 255, 2) + bytes(7) + struct.pack("<HH", 1, 1) + z)
        out.append((f"bomb-small-decl/{w}x{h}", mk_header(1, 4, 4) + mk_frame([mk_layer(), cel2])))
    # a deflate bomb inside a tilemap cel (tiles are 4 bytes in the file, 8 in memory)
    for side in ((2048, 2048), (4096, 4096)):
        w, h = side
        z = zlib.compress(bytes(w * h * 4), 9)
        ts_px = zlib.compress(bytes(4))
        tileset = mk_chunk(0x2023, struct.pack("<IIIHHh", 0, 2 | 4, 1, 1, 1, 1) + bytes(14) + struct.pack("<H", 0)
                           + struct.pack("<I", len(ts_px)) + ts_px)
        layer = mk_chunk(0x2004, struct.pack("<HHHHHHBBH", 1, 2, 0, 0, 0, 0, 255, 0, 0) + struct.pack("<H", 1) + b"T"
                         + struct.pack("<I", 0))
        cel = mk_chunk(0x2005, struct.pack("<HhhBH", 0, 0, 0, 255, 3) + bytes(7)
                       + struct.pack("<HHHIIII", w, h, 32, 0x1fffffff, 0x20000000, 0x40000000, 0x80000000) + bytes(10) + z)
        out.append((f"bomb-tilemap/{w}x{h}", mk_header(1, 4, 4) + mk_frame([tileset, layer, cel])))
    # frame headers whose byte count and both chunk counts are raised TOGETHER
    for nb in (0x10000000, 0xFFFFFFFF, 0x7FFFFFFF):
        for cnt in (0x01000000, 0xFFFFFFFF, 0x00100000):
            hdr = struct.pack("<IHHHHI", nb, 0xF1FA, 0xFFFF, 100, 0, cnt)
            out.append((f"framehdr/{nb:x}/{cnt:x}", mk_header(1, 4, 4) + hdr))
            out.append((f"framehdr+layer/{nb:x}/{cnt:x}", mk_header(1, 4, 4) + hdr + mk_layer()))
    # a stream that really inflates to more than 1 MiB under a declared size that is far larger
    zmid = zlib.compress(bytes(1310720), 9)
    for dw, dh in ((8192, 8192), (65535, 65535), (20000, 3)):
        celb = mk_chunk(0x2005, struct.pack("<HhhBH", 0, 0, 0, 255, 2) + bytes(7) + struct.pack("<HH", dw, dh) + zmid)
        out.append((f"bomb-large-decl/{dw}x{dh}", mk_header(1, 4, 4) + mk_frame([mk_layer(), celb])))
        tsb = mk_chunk(0x2023, struct.pack("<IIIHHh", 0, 2, dh, dw, 1, 1) + bytes(14) + struct.pack("<H", 0) + struct.pack("<I", len(zmid)) + zmid)
        out.append((f"bomb-large-decl-tileset/{dw}x{dh}", mk_header(1, 4, 4) + mk_frame([tsb, mk_layer()])))
    # a tilemap bomb whose tile count is just past a power of two (growth by doubling at its worst)
    zt = zlib.compress(bytes((4096 * 4096 + 1) * 4), 9)
    ts1 = mk_chunk(0x2023, struct.pack("<IIIHHh", 0, 2 | 4, 1, 1, 1, 1) + bytes(14) + struct.pack("<H", 0)
                   + struct.pack("<I", len(zlib.compress(bytes(4)))) + zlib.compress(bytes(4)))
    lt = mk_chunk(0x2004, struct.pack("<HHHHHHBBH", 1, 2, 0, 0, 0, 0, 255, 0, 0) + struct.pack("<H", 1) + b"T" + struct.pack("<I", 0))
    ct = mk_chunk(0x2005, struct.pack("<HhhBH", 0, 0, 0, 255, 3) + bytes(7)
                  + struct.pack("<HHHIIII", 24929, 673, 32, 0x1fffffff, 0x20000000, 0x40000000, 0x80000000) + bytes(10)
                  + zlib.compress(bytes(24929 * 673 * 4), 9))
    out.append(("bomb-tilemap/24929x673", mk_header(1, 4, 4) + mk_frame([ts1, lt, ct])))
    # user data chunks with the properties flag (4) and a declared properties size far beyond the chunk
    for fl in (4, 5, 7):
        for sz in (0x10000000, 0xFFFFFFFF, 0x7FFFFFFF):
            body = struct.pack("<I", fl) + (struct.pack("<H", 1) + b"t" if fl & 1 else b"") + (bytes([1, 2, 3, 255]) if fl & 2 else b"") \
                + struct.pack("<II", sz, 1) + bytes(6)
            out.append((f"ud-properties/{fl}/{sz:x}", mk_header(1, 4, 4) + mk_frame([mk_layer(), mk_chunk(0x2020, body)])))
    # tilesets without embedded pixels whose declared size is large (nothing may be reserved for them)
    for flags in (1, 5, 0, 4):
        for cnt, tw, th in ((1 << 20, 8, 8), (0xFFFFFFFF, 1, 1), (65536, 256, 256), (1 << 24, 2, 2)):
            body = struct.pack("<IIIHHh", 0, flags, cnt, tw, th, 1) + bytes(14) + struct.pack("<H", 0)
            if flags & 1:
                body += struct.pack("<II", 7, 0)
            extc = mk_chunk(0x2008, struct.pack("<I", 1) + bytes(8) + struct.pack("<I", 7) + bytes(8) + struct.pack("<H", 1) + b"f")
            out.append((f"ext-tileset-declared/{flags}/{cnt:x}x{tw}x{th}", mk_header(1, 4, 4) + mk_frame([extc, mk_chunk(0x2023, body), mk_layer()])))
    # one large compressible cel and many frames linking to it (links must stay links)
    zb = zlib.compress(bytes([7, 7, 7, 255]) * (2048 * 2048), 9)
    f0 = mk_frame([mk_layer(), mk_chunk(0x2005, struct.pack("<HhhBH", 0, 0, 0, 255, 2) + bytes(7) + struct.pack("<HH", 2048, 2048) + zb)])
    lk = mk_chunk(0x2005, struct.pack("<HhhBH", 0, 0, 0, 255, 1) + bytes(7) + struct.pack("<H", 0))
    out.append(("bomb-linked/2048x40", mk_header(41, 4, 4) + f0 + mk_frame([lk]) * 40))
    # a deflate bomb inside a tileset made of very many 1x1 tiles (per-tile bookkeeping)
    for depth, ntiles in ((8, 1 << 22), (32, 1 << 20)):
        z = zlib.compress(bytes(ntiles * (depth // 8)), 9)
        tileset = mk_chunk(0x2023, struct.pack("<IIIHHh", 0, 2 | 4, ntiles, 1, 1, 1) + bytes(14) + struct.pack("<H", 0)
                           + struct.pack("<I", len(z)) + z)
        pal = mk_chunk(0x2019, struct.pack("<III", 1, 0, 0) + bytes(8) + struct.pack("<HBBBB", 0, 1, 2, 3, 255))
        out.append((f"bomb-tileset/{depth}/{ntiles}", mk_header(1, 4, 4, depth) + mk_frame([pal, tileset, mk_layer()])))
    # a valid sparse palette at a huge colour id (first == last): the ids are declared, not supplied
    for idx in (0x18000000, 0xfffffff0):
        pal = mk_chunk(0x2019, struct.pack("<III", 1, idx, idx) + bytes(8) + struct.pack("<HBBBB", 0, 1, 2, 3, 255))
        out.append((f"sparse-palette/{idx:x}", mk_header(1, 4, 4) + mk_frame([pal, mk_layer()])))
    # frame-count skeletons
    for nf in (1000, 65535):
        out.append((f"frames/{nf}", mk_header(nf, 4, 4) + mk_frame([mk_layer()]) + mk_frame([]) * (nf - 1)))
    # many layers x many frames with one linked cel each on the last layer (dense-table shape)
    for nl, nf in ((300, 300), (2000, 500)) if ctx.quick else ((300, 300), (2000, 500), (6000, 3000)):
        px = bytes([1, 2, 3, 255])
        f0 = mk_frame([mk_layer()] * nl + [mk_chunk(0x2005, struct.pack("<HhhBH", nl - 1, 0, 0, 255, 0) + bytes(7) + struct.pack("<HH", 1, 1) + px)])
        link = mk_chunk(0x2005, struct.pack("<HhhBH", nl - 1, 0, 0, 255, 1) + bytes(7) + struct.pack("<H", 0))
        out.append((f"dense/{nl}x{nf}", mk_header(nf, 4, 4) + f0 + mk_frame([link]) * (nf - 1)))
    # tilesets with a large declared tile count followed by several user data chunks (a per-tile
    # user-data table must not be sized by the declared count)
    udc = mk_chunk(0x2020, struct.pack("<I", 1) + struct.pack("<H", 1) + b"u")
    for flags, cnt in ((1, 0xFFFFFFF0), (1, 1 << 26), (5, 1 << 28), (0, 1 << 30), (2, 1 << 22)):
        body = struct.pack("<IIIHHh", 0, flags, cnt, 1, 1, 1) + bytes(14) + struct.pack("<H", 0)
        if flags & 1:
            body += struct.pack("<II", 7, 0)
        if flags & 2:
            z = zlib.compress(bytes(cnt * 4), 9)
            body += struct.pack("<I", len(z)) + z
        for nud in (1, 2, 5):
            out.append((f"tileset-then-ud/{flags}/{cnt:x}/{nud}", mk_header(1, 4, 4) + mk_frame([mk_layer(), mk_chunk(0x2023, body)] + [udc] * nud + [mk_layer()])))
    # many tags each spanning frames 0..=65534 in a file of 1 frame / 65535 frames (a frame -> tags
    # index must not be sized by to_frame x tags); tags with from > to
    for ntags, fr, to in ((512, 0, 65534), (2000, 65534, 65535), (512, 65535, 0)):
        p = struct.pack("<H", ntags) + bytes(8)
        for t in range(ntags):
            p += struct.pack("<HHBH", fr, to, 0, 0) + bytes(6) + struct.pack("<I", 0) + struct.pack("<H", 0)
        out.append((f"tags-span/{ntags}/{fr}-{to}", mk_header(1, 4, 4) + mk_frame([mk_layer(), mk_chunk(0x2018, p)])))
    # one large compressed cel followed by many tiny compressed cels (a buffer sized by the largest
    # stream seen so far must not be reserved again for each); indexed and RGBA
    for depth in (8, 32):
        bpp = depth // 8
        zbig = zlib.compress(bytes(2048 * 2048 * bpp), 9)
        pal = [mk_chunk(0x2019, struct.pack("<III", 1, 0, 0) + bytes(8) + struct.pack("<HBBBB", 0, 1, 2, 3, 255))] if depth == 8 else []
        f0 = mk_frame(pal + [mk_layer(), mk_chunk(0x2005, struct.pack("<HhhBH", 0, 0, 0, 255, 2) + bytes(7) + struct.pack("<HH", 2048, 2048) + zbig)])
        tiny = mk_chunk(0x2005, struct.pack("<HhhBH", 0, 0, 0, 255, 2) + bytes(7) + struct.pack("<HH", 1, 1) + zlib.compress(bytes(bpp)))
        out.append((f"big-then-tiny/{depth}", mk_header(101, 4, 4, depth) + f0 + mk_frame([tiny]) * 100))
    # an indexed deflate bomb slightly above a power of two of pixels (8200 x 8200 = 2^26 + 131136)
    zb = zlib.compress(bytes(8200 * 8200), 9)
    pal = mk_chunk(0x2019, struct.pack("<III", 1, 0, 0) + bytes(8) + struct.pack("<HBBBB", 0, 1, 2, 3, 255))
    out.append(("bomb-indexed/8200x8200", mk_header(1, 4, 4, 8) + mk_frame([pal, mk_layer(), mk_chunk(0x2005, struct.pack("<HhhBH", 0, 0, 0, 255, 2) + bytes(7)
                                                                                     + struct.pack("<HH", 8200, 8200) + zb)])))
    # ignorable chunks (cel extra, mask, path) declaring 1 GiB / 4 GiB inside a frame that declares as much
    for ty in (0x2006, 0x2016, 0x2017):
        for sz in (1 << 30, 0xFFFFFF00, 1 << 26):
            body = mk_layer() + struct.pack("<IH", sz, ty) + bytes(20)
            fr = struct.pack("<IHHHHI", min(0xFFFFFFFF, 16 + len(mk_layer()) + sz), 0xF1FA, 2, 100, 0, 2) + body
            out.append((f"ignored-chunk-declared/{ty:x}/{sz:x}", mk_header(1, 4, 4) + fr))
    # tilemap cels declaring 8 / 16 bits per tile over a deflate bomb (unsupported: nothing may be built from them)
    for bits in (8, 16):
        zt = zlib.compress(bytes(4097 * 4096 * (bits // 8)), 9)
        ts1b = mk_chunk(0x2023, struct.pack("<IIIHHh", 0, 2, 1, 1, 1, 1) + bytes(14) + struct.pack("<H", 0)
                        + struct.pack("<I", len(zlib.compress(bytes(4)))) + zlib.compress(bytes(4)))
        ltb = mk_chunk(0x2004, struct.pack("<HHHHHHBBH", 1, 2, 0, 0, 0, 0, 255, 0, 0) + struct.pack("<H", 1) + b"T" + struct.pack("<I", 0))
        ctb = mk_chunk(0x2005, struct.pack("<HhhBH", 0, 0, 0, 255, 3) + bytes(7)
                       + struct.pack("<HHHIIII", 4097, 4096, bits, 0x1fffffff, 0x20000000, 0x40000000, 0x80000000) + bytes(10) + zt)
        out.append((f"bomb-tilemap-bits/{bits}", mk_header(1, 4, 4) + mk_frame([ts1b, ltb, ctb])))
    # a valid sprite with a 4096x4096 transparent cel, wrapped as a whole in gzip / zlib / raw deflate (the two
    # deflate ratios must not multiply: such input is not a sprite)
    import gzip
    inner = mk_header(1, 4, 4) + mk_frame([mk_layer(), mk_chunk(0x2005, struct.pack("<HhhBH", 0, 0, 0, 255, 2) + bytes(7)
                                          + struct.pack("<HH", 4096, 4096) + zlib.compress(bytes(4096 * 4096 * 4), 9))])
    co = zlib.compressobj(9, zlib.DEFLATED, -15)
    out.append(("wrapped/gzip", gzip.compress(inner, 9, mtime=0)))
    out.append(("wrapped/zlib", zlib.compress(inner, 9)))
    out.append(("wrapped/deflate", co.compress(inner) + co.flush()))
    # an indexed deflate bomb whose pixels all use an index the palette does not have (refused; the refusal must stay small)
    zb5 = zlib.compress(bytes([5]) * (4096 * 4096), 9)
    pal1 = mk_chunk(0x2019, struct.pack("<III", 1, 0, 0) + bytes(8) + struct.pack("<HBBBB", 0, 1, 2, 3, 255))
    out.append(("bomb-indexed-invalid/4096x4096", mk_header(1, 4, 4, 8) + mk_frame([pal1, mk_layer(), mk_chunk(0x2005, struct.pack("<HhhBH", 0, 0, 0, 255, 2) + bytes(7)
                                                                                                 + struct.pack("<HH", 4096, 4096) + zb5)])))
    # slice chunks declaring 4 Mi / 2^32-1 keys with data for one
    for nk in (1 << 22, 0xFFFFFFFF, 65536):
        for fl in (0, 1, 3):
            sl = mk_chunk(0x2022, struct.pack("<III", nk, fl, 0) + struct.pack("<H", 1) + b"s" + struct.pack("<IiiII", 0, 0, 0, 1, 1) + bytes(24))
            out.append((f"slice-keys-declared/{nk:x}/{fl}", mk_header(1, 4, 4) + mk_frame([mk_layer(), sl])))
    # many tags chunks each declaring 65535 tags
    tags = mk_chunk(0x2018, struct.pack("<H", 65535) + bytes(8))
    out.append(("tags-declared", mk_header(1, 4, 4) + mk_frame([mk_layer()] + [tags] * 50)))
    return out


def c12_run(ctx, scale):
    res = Result("corpus and generated files with every declared size / count field (u16 and u32 at every offset of "
                 "header, frame headers and chunk prefixes) raised to large boundary values, deflate bombs, 65535-frame "
                 "skeletons, layers x frames shapes, the D13/D14 defect inputs; a counting global allocator measures the "
                 "peak live bytes of AsepriteFile::read; oracle: peak <= 64 MiB + 8192 x input length; correspondence: "
                 "peak <= the model's allocation account; distinct = distinct inputs")
    rng = random.Random(ctx.seed * 911 + scale)
    base = [(c, b) for c, b in vlib.corpus_files(max_size=9000)]
    gen, _ = vlib.gen_cases("struct", ctx.seed * 41 + scale, 30 if ctx.quick else 300)
    gen2, _ = vlib.gen_cases("tiles", ctx.seed * 43 + scale, 15 if ctx.quick else 150)
    base += gen + gen2
    files = vlib.verif_corpus() + hostile_memory_inputs(ctx, scale)
    big = {2: [255, 256, 4096, 32767, 32768, 65534, 65535],
           4: [65535, 65536, 1 << 20, 1 << 24, 0x7fffffff, 0x80000000, 0xfffffffe, 0xffffffff]}
    n = (2500 if ctx.quick else 120000) * scale
    cache = {}
    for k in range(n):
        cid, b = base[rng.randrange(len(base))]
        if cid not in cache:
            cache[cid] = [s for s in vlib.mutation_sites(b) if s[1] in (2, 4)]
        sites = cache[cid]
        o, w, kind = sites[rng.randrange(len(sites))]
        v = rng.choice(big[w])
        mb = vlib.mutate(b, o, w, v)
        tag = f"{o}:{w}:{v}"
        if rng.random() < 0.25:
            # two declared fields raised together (e.g. a frame size and a chunk size, first and last index)
            o2, w2, _ = sites[rng.randrange(len(sites))]
            v2 = v if w2 == w else rng.choice(big[w2])
            mb = vlib.mutate(mb, o2, w2, v2)
            tag += f"+{o2}:{w2}:{v2}"
        files.append((f"decl/{cid}/{tag}", mb))
    seen = set()
    uniq = []
    for cid, b in files:
        if cid not in seen:
            seen.add(cid)
            uniq.append((cid, b))
    files = uniq
    reqs = [f"ALLOC {cid} {b.hex() or '-'}" for cid, b in files]
    model, _ = vlib.run_model(reqs, timeout=1200)
    res.sections = ["alloc"]
    worst = (0, None)
    impls = {"release": vlib.run_impl(reqs, "release", timeout=1200)[0],
             "relchk": vlib.run_impl(reqs, "relchk", timeout=1200)[0]}
    for profile, cid, data in [(p_, c_, d_) for p_ in ("release", "relchk") for c_, d_ in files]:
        impl = impls[profile]
        res.evaluations += 1
        res.compared += 1
        res._distinct.add(hash(data))
        il = impl.get(cid, [])
        ml = model.get(cid, [])
        line = next((l for l in il if l.startswith("alloc ")), None)
        mline = next((l for l in ml if l.startswith("alloc ")), None)
        bound = 64 * 1048576 + 8192 * len(data)
        if line is None:
            # the worker died: an allocation above the refusal threshold or an abort
            detail = " ".join(il)[-300:]
            res.oracle_failures.append({"id": cid, "what": "loading aborted the process / exceeded the allocation guard: " + detail,
                                        "input_hex": data.hex() if len(data) < 300000 else data[:2000].hex() + "...",
                                        "call": "AsepriteFile::read under the counting allocator", "build_profile": profile})
            continue
        kv = dict(x.split("=") for x in line.split(" ")[1:])
        peak = int(kv["peak"])
        res.note("result:" + kv["result"])
        if peak * 1000 // bound > worst[0]:
            worst = (peak * 1000 // bound, cid)
        if len(res.samples) < 6 and (cid.startswith("bomb") or cid.startswith("dense") or cid.startswith("frames")):
            res.samples.append({"id": cid, "input_bytes": len(data), "peak_live_bytes": peak,
                                "largest_request": int(kv["largest"]), "bound": bound})
        if peak > bound:
            res.oracle_failures.append({"id": cid, "what": f"peak live heap {peak} exceeds 64 MiB + 8192 x {len(data)} = {bound}",
                                        "input_hex": data.hex() if len(data) < 300000 else data[:2000].hex() + "...",
                                        "largest_request": int(kv["largest"]), "build_profile": profile,
                                        "call": "AsepriteFile::read under the counting allocator"})
            continue
        if mline is None:
            raise vlib.Broken("model gave no account for " + cid)
        mkv = dict(x.split("=") for x in mline.split(" ")[1:])
        if peak > int(mkv["reserved"]):
            res.corr_diffs.append({"correspondence": "Ase.Alloc.reserved >= measured peak of AsepriteFile::read",
                                   "id": cid, "input_hex": data[:4000].hex(), "measured_peak": peak,
                                   "model_reserved": int(mkv["reserved"])})
    res.distribution["worst_peak_permille_of_bound"] = worst[0]
    res.distribution["worst_case"] = worst[1]
    return res


register("C12", c12_run, profiles=("release", "relchk"))


# ------------------------------------------------------------------------------------------
# C07: encodings of the same sprite

def recompress(b, level, wbits=15):
    """rewrite the zlib payload of every compressed cel (type 2) with another compression level;
    chunk and frame sizes are adjusted; the meaning is unchanged"""
    import zlib
    out = bytearray(b[:128])
    pos = 128
    nframes = struct.unpack_from("<H", b, 6)[0]
    for _ in range(nframes):
        nb, magic, old, dur, ph, new = struct.unpack_from("<IHHHHI", b, pos)
        n = new if new else old
        chunks = []
        q = pos + 16
        for _ in range(n):
            sz, ty = struct.unpack_from("<IH", b, q)
            payload = b[q + 6:q + sz]
            if ty == 0x2005 and struct.unpack_from("<H", payload, 7)[0] == 2:
                d = zlib.decompressobj()
                raw = d.decompress(payload[20:])
                pad = d.unused_data
                co = zlib.compressobj(level, zlib.DEFLATED, wbits)
                payload = payload[:20] + co.compress(raw) + co.flush() + pad
            chunks.append(struct.pack("<IH", 6 + len(payload), ty) + payload)
            q += sz
        body = b"".join(chunks)
        slack = nb - (q - pos)
        out += struct.pack("<IHHHHI", 16 + len(body) + max(0, slack), magic, old, dur, ph, new) + body
        pos = q
    out += b[pos:]
    return bytes(out)


def c07_run(ctx, scale):
    res = Result("generated programs, each re-encoded k times with fresh representational choices (raw/zlib per cel, "
                 "which chunk-count field, padding after chunks and after the last frame, frame-size slack, unused header "
                 "/ layer / cel / tag / slice / palette / tileset fields and flag bits, pixel ratio with a zero component, "
                 "ignorable chunks and colour profiles inserted anywhere) plus flate2-level recompression 0..9 of every "
                 "compressed cel; oracle: all encodings of one program give the same whole-API observation; "
                 "distinct = distinct encodings")
    k = 6 if ctx.quick else 24
    n = (40 if ctx.quick else 800) * scale
    reqs = []
    per = max(1, n // vlib.CORES)
    for prof in ("struct", "tiles"):
        for j in range(0, n, per):
            reqs.append(f"GENVAR {prof} {ctx.seed * 1000 + scale * 100 + j} {min(per, n - j)} {k}")
    cases, inputs, _ = run_driver_raw(reqs)
    files = [(cid, bytes.fromhex(hx)) for cid, hx in inputs]
    # flate2 levels: recompress the zlib cels of the base encoding
    extra = []
    for cid, b in files:
        if cid.endswith("-1"):
            for level in ((0, 1, 3, 5, 6, 9) if ctx.quick else range(10)):     # zlib headers 78 01 / 5e / 9c / da
                try:
                    extra.append((cid[:-2] + f"-z{level}", recompress(b, level)))
                except Exception:
                    pass
            # zlib streams written for a smaller window (first header byte 0x08..0x68)
            for wb in ((9, 12) if ctx.quick else range(9, 15)):
                try:
                    extra.append((cid[:-2] + f"-zw{wb}", recompress(b, 6, wb)))
                except Exception:
                    pass
            # the header's deprecated speed word and its file-size dword at values below the frame count /
            # the real length; an ignorable chunk without any payload (declared size 6) in the first and last frame
            nfr = struct.unpack_from("<H", b, 6)[0]
            for sp in sorted({0, 1, max(0, nfr - 1)}):
                extra.append((cid[:-2] + f"-speed{sp}", b[:18] + struct.pack("<H", sp) + b[20:]))
            for sz in (0, 128, max(0, len(b) - 1)):
                extra.append((cid[:-2] + f"-fsize{sz}", struct.pack("<I", sz) + b[4:]))
            try:
                for ty in (0x2017, 0x2016, 0x2006):
                    extra.append((cid[:-2] + f"-empty{ty:x}first", insert_chunk(b, 0, mk_chunk(ty, b""))))
                    extra.append((cid[:-2] + f"-empty{ty:x}last", insert_chunk(b, nfr - 1, mk_chunk(ty, b""))))
            except struct.error:
                pass
            # bytes after the last frame, among them a stale copy of the last frame / of its header
            fr = [off for kind, off, ln in vlib.walk_chunks(b) if kind == "frame"]
            end = end_of_last_frame(b)
            if fr and end is not None and end <= len(b):
                last = b[fr[-1]:end]
                for tn, tr in (("frame", last), ("fhdr", last[:10]), ("file", b), ("magic", bytes(4) + b"\xfa\xf1" + bytes(10))):
                    extra.append((cid[:-2] + f"-trail{tn}", b + tr))
    # the hand-built well-formed corpus (redundant legacy chunks between entities and their user data, spare bytes, …)
    extra += [(c + "-1", b) for c, b in vlib.verif_corpus_wf() if len(b) < 20000]
    if extra:
        m2, _ = vlib.run_model(vlib.load_lines(extra))
        cases.update(m2)
    files += extra
    impl, _ = vlib.run_impl(vlib.load_lines(files))
    compare_cases(res, files, cases, impl, ALL, must_load_oracle, what="whole-API observation",
                  spec_backed="C01.decode_encode + C07.encoding_choices_irrelevant")
    # a large solid-colour cel: deflate reaches its maximal ratio (about 1030:1) at levels >= 6
    if scale == 1:
        import zlib
        w, h = 2048, 1024
        px = bytes([40, 90, 200, 255]) * (w * h)
        solid = []
        for tag, body, ctype in [("raw", px, 0)] + [(f"z{l}", zlib.compress(px, l), 2) for l in (1, 6, 9)]:
            cel = mk_chunk(0x2005, struct.pack("<HhhBH", 0, -5, -7, 255, ctype) + bytes(7) + struct.pack("<HH", w, h) + body)
            solid.append((f"solid/2048x1024-{tag}", mk_header(1, 4, 3) + mk_frame([mk_layer(), cel])))
        ms, is_ = run_both(solid)
        compare_cases(res, solid, ms, is_, ALL, must_load_oracle, what="a 2048x1024 solid cel, raw and at zlib levels 1, 6, 9",
                      spec_backed="C01.decode_encode + C07.encoding_choices_irrelevant")
        files += solid
        impl.update(is_)
    if scale == 1:
        import zlib
        w2, h2 = 2048, 2049
        px2 = bytes([90, 40, 200, 255]) * (w2 * h2)
        pair = []
        for tag, body, ctype in (("raw", px2, 0), ("z6", zlib.compress(px2, 6), 2)):
            cel = mk_chunk(0x2005, struct.pack("<HhhBH", 0, -3, -2000, 255, ctype) + bytes(7) + struct.pack("<HH", w2, h2) + body)
            pair.append((f"huge/2048x2049-{tag}", mk_header(1, 5, 60) + mk_frame([mk_layer(), cel])))
        po, _ = vlib.run_impl(vlib.load_lines(pair), timeout=600)
        a_, b_ = po.get(pair[0][0]), po.get(pair[1][0])
        res.evaluations += 2
        if vlib.outcome(a_ or []) != "ok" or a_ != b_:
            res.oracle_failures.append({"id": pair[0][0], "input_hex": pair[1][1].hex(), "call": "a 2048x2049 RGBA cel stored raw (16.8 MB chunk) and zlib-compressed",
                                        "what": "raw and zlib storage of the same cel are observed differently: "
                                                + str(vlib.first_diff(b_ or [], a_ or []))[:300]})
    groups = {}
    for cid, b in files:
        groups.setdefault(cid.rsplit("-", 1)[0], []).append((cid, b))
    for g, members in groups.items():
        ref_id, ref_b = members[0]
        ref = impl.get(ref_id)
        for cid, b in members[1:]:
            o = impl.get(cid)
            if o != ref:
                d = vlib.first_diff(ref, o)
                res.oracle_failures.append({"id": cid, "what": "two encodings of the same sprite are observed differently: "
                                            f"line {d[0]}: {d[1][:200]} | {d[2][:200]}",
                                            "input_hex": b.hex(), "other_encoding_hex": ref_b.hex(),
                                            "call": "whole-API observation of two encodings"})
                break
    res.distribution["programs"] = len(groups)
    res.distribution["encodings_per_program"] = k
    return res


register("C07", c07_run)


# ------------------------------------------------------------------------------------------
# C10: user data attachment, exhaustive over chunk sequences

def ud_chunk(text):
    t = text.encode()
    return mk_chunk(0x2020, struct.pack("<I", 1) + struct.pack("<H", len(t)) + t)


def c10_sequences(maxlen):
    """all sequences over the 8 chunk kinds up to length maxlen that satisfy the quantifier's side
    conditions; yields (kinds, expected attachments)"""
    kinds = ["layer", "cel", "celz", "slice", "tags2", "oldpal", "pal", "ign", "ud", "ude", "brk"]
    def rec(seq, ctx, used, nlayers, ncels, pending_tags, depth):
        if seq:
            yield list(seq)
        if depth == 0:
            return
        for k in kinds:
            if k in ("ud", "ude"):
                if ctx is None:
                    continue
                tgt = ctx
                if tgt[0] == "tag":
                    if tgt[1] >= 2:
                        continue
                    newctx = ("tag", tgt[1] + 1)
                else:
                    newctx = ctx
                if tgt in used:
                    continue
                seq.append(k)
                yield from rec(seq, newctx, used | {tgt}, nlayers, ncels, pending_tags, depth - 1)
                seq.pop()
            elif k == "brk":
                # a frame boundary: the attachment context carries over; at most 2 breaks
                if not seq or seq[-1] == "brk" or seq.count("brk") >= 2:
                    continue
                seq.append(k)
                yield from rec(seq, ctx, used, nlayers, 0, pending_tags, depth - 1)
                seq.pop()
            elif k == "layer":
                if "brk" in seq:
                    continue       # layers are declared in the first frame
                seq.append(k)
                yield from rec(seq, ("layer", nlayers), used, nlayers + 1, ncels, pending_tags, depth - 1)
                seq.pop()
            elif k == "celz":
                # a cel without pixels (zero width): an entity like any other cel
                if ncels >= nlayers or "celz" in seq:
                    continue
                seq.append(k)
                yield from rec(seq, ("cel", seq.count("brk"), ncels), used, nlayers, ncels + 1, pending_tags, depth - 1)
                seq.pop()
            elif k == "cel":
                if ncels >= nlayers:
                    continue       # one cel per existing layer, in layer order
                seq.append(k)
                yield from rec(seq, ("cel", seq.count("brk"), ncels), used, nlayers, ncels + 1, pending_tags, depth - 1)
                seq.pop()
            elif k == "slice":
                ns = sum(1 for x in seq if x == "slice")
                seq.append(k)
                yield from rec(seq, ("slice", ns), used, nlayers, ncels, pending_tags, depth - 1)
                seq.pop()
            elif k == "tags2":
                if "tags2" in seq or "brk" in seq:
                    continue
                seq.append(k)
                yield from rec(seq, ("tag", 0), used, nlayers, ncels, pending_tags, depth - 1)
                seq.pop()
            elif k == "oldpal":
                seq.append(k)
                yield from rec(seq, ("sprite",), used, nlayers, ncels, pending_tags, depth - 1)
                seq.pop()
            else:
                seq.append(k)
                yield from rec(seq, ctx, used, nlayers, ncels, pending_tags, depth - 1)
                seq.pop()
    yield from rec([], None, frozenset(), 0, 0, 0, maxlen)


def c10_build(seq):
    """file for a kind sequence and the declaratively expected attachments"""
    frames = [[]]
    expected = {}
    ctx = None
    nl = ncel = ns = 0
    for idx, k in enumerate(seq):
        chunks = frames[-1]
        if k == "brk":
            frames.append([])
            ncel = 0
        elif k == "layer":
            chunks.append(mk_layer(name=b"L%d" % nl)); ctx = ("layer", nl); nl += 1
        elif k == "cel":
            chunks.append(mk_chunk(0x2005, struct.pack("<HhhBH", ncel, 0, 0, 255, 0) + bytes(7) + struct.pack("<HH", 1, 1) + bytes([1, 2, 3, 255])))
            ctx = ("cel", len(frames) - 1, ncel); ncel += 1
        elif k == "celz":
            chunks.append(mk_chunk(0x2005, struct.pack("<HhhBH", ncel, 0, 0, 255, 0) + bytes(7) + struct.pack("<HH", 0, 3)))
            ctx = ("cel", len(frames) - 1, ncel); ncel += 1
        elif k == "slice":
            chunks.append(mk_chunk(0x2022, struct.pack("<III", 0, 0, 0) + struct.pack("<H", 1) + b"s")); ctx = ("slice", ns); ns += 1
        elif k == "tags2":
            p = struct.pack("<H", 2) + bytes(8)
            for t in range(2):
                p += struct.pack("<HHBH", 0, 0, 0, 0) + bytes(6) + struct.pack("<I", 0) + struct.pack("<H", 1) + b"t"
            chunks.append(mk_chunk(0x2018, p)); ctx = ("tag", 0)
        elif k == "oldpal":
            chunks.append(mk_chunk(0x0004, struct.pack("<H", 1) + bytes([0, 1, 9, 9, 9]))); ctx = ("sprite",)
        elif k == "pal":
            chunks.append(mk_chunk(0x2019, struct.pack("<III", 1, 0, 0) + bytes(8) + struct.pack("<HBBBB", 0, 1, 2, 3, 255)))
        elif k == "ign":
            chunks.append(mk_chunk(0x2006, bytes(20)))
        elif k in ("ud", "ude"):
            if k == "ud":
                text = f"u{idx}"
                chunks.append(ud_chunk(text))
            else:
                text = None          # an empty record (flags 0): attached all the same
                chunks.append(mk_chunk(0x2020, struct.pack("<I", 0)))
            expected[ctx] = text
            if ctx[0] == "tag":
                ctx = ("tag", ctx[1] + 1)
    return mk_header(len(frames), 2, 2) + b"".join(mk_frame(f) for f in frames), expected, (nl, ncel, ns)


def c10_run(ctx, scale):
    res = Result("EXHAUSTIVELY every chunk sequence over {layer, cel, slice, tags(2), legacy palette, palette, ignorable, "
                 "user data} up to length 5 (quick) / 6 (thorough) in which every user-data chunk has a preceding "
                 "attachable entity, no entity receives two records, at most 2 records follow tags(2) (records with text and empty "
                 "records with flags 0; up to two frame boundaries anywhere, across which the context carries), plus the generated "
                 "well-formed programs of the struct profile; oracle: each record is reported by the entity whose chunk "
                 "most recently preceded it and by no other entity; distinct = distinct sequences")
    maxlen = 5 if ctx.quick else 6
    files, exp = [], {}
    for seq in c10_sequences(maxlen):
        if "ud" not in seq and "ude" not in seq:
            continue
        b, expected, counts = c10_build(seq)
        cid = "seq/" + ",".join(seq)
        files.append((cid, b))
        exp[cid] = (expected, counts)
    res.exhaustive = True
    m, i = run_both(files)
    def hexname(t):
        return "h:" + t.encode().hex()
    def orc(cid, data, impl, model):
        if vlib.outcome(impl) != "ok":
            return "a well-formed chunk sequence did not load: " + vlib.outcome_detail(impl)
        expected, (nl, ncel, ns) = exp[cid]
        got = {}
        for l in impl:
            w = l.split(" ")
            ud = next((x[3:] for x in w if x.startswith("ud=")), None)
            if w[0] == "layer":
                got[("layer", int(w[1]))] = ud
            elif w[0] == "celA":
                got[("cel", int(w[1]), int(w[2]))] = ud
            elif w[0] == "slice":
                got[("slice", int(w[1]))] = ud
            elif w[0] == "tag":
                got[("tag", int(w[1]))] = ud
            elif w[0] == "sprite_ud":
                got[("sprite",)] = w[1]
        for tgt, ud in got.items():
            if tgt in expected:
                want = expected[tgt]
                wants = "t:-,c:-" if want is None else f"t:{hexname(want)},c:-"
            else:
                wants = "-"
            if ud != wants:
                return f"entity {tgt} reports user data {ud}, expected {wants}"
        for tgt in expected:
            if tgt not in got:
                return f"entity {tgt} was expected to carry a record but is not observable"
        return None
    compare_cases(res, files, m, i, ["layer", "celA", "slice", "tag", "sprite_ud"], orc, what="user data of every entity")
    res.distribution["sequences"] = len(files)
    res.distribution["max_length"] = maxlen
    # two Tags chunks in one file (same frame or a later frame): the later chunk REPLACES the tag
    # list; records that followed the earlier chunk went to tags that no longer exist
    def tagsn(n, prefix):
        p = struct.pack("<H", n) + bytes(8)
        for t in range(n):
            nm = (prefix + str(t)).encode()
            p += struct.pack("<HHBH", 0, 0, 0, 0) + bytes(6) + struct.pack("<I", 0) + struct.pack("<H", len(nm)) + nm
        return mk_chunk(0x2018, p)
    files2, exp2 = [], {}
    for n1 in (1, 2, 3):
        for a in range(n1 + 1):
            for n2 in (1, 2, 3):
                for b in range(n2 + 1):
                    for split in (0, 1):
                        for mid in (0, 1):
                            first = [mk_layer(name=b"L0"), tagsn(n1, "a")] + [ud_chunk(f"A{k}") for k in range(a)]
                            if mid:
                                first += [mk_layer(name=b"L1"), ud_chunk("M")]
                            second = [tagsn(n2, "b")] + [ud_chunk(f"B{k}") for k in range(b)]
                            data = mk_header(2, 2, 2) + (mk_frame(first) + mk_frame(second) if split else mk_frame(first + second) + mk_frame([]))
                            cid = f"tags-twice/{n1}.{a}/{n2}.{b}/{split}{mid}"
                            files2.append((cid, data))
                            exp2[cid] = (n2, b, mid)
    m2, i2 = run_both(files2)
    def orc2(cid, data, impl, model):
        if cid.endswith(("/10", "/11")):
            # a Tags chunk outside the first frame is ignored by the loader (by design: "Ignoring tags
            # outside of frame 0"); such files are compared with the model only
            return None
        if vlib.outcome(impl) != "ok":
            return "a well-formed chunk sequence did not load: " + vlib.outcome_detail(impl)
        n2, b, mid = exp2[cid]
        tags = [l.split(" ") for l in impl if l.startswith("tag ")]
        if len(tags) != n2:
            return f"{len(tags)} tags reported; the last Tags chunk declares {n2}"
        for k, w in enumerate(tags):
            ud = next((x[3:] for x in w if x.startswith("ud=")), None)
            name = next((x[5:] for x in w if x.startswith("name=")), None)
            want = f"t:{hexname('B%d' % k)},c:-" if k < b else "-"
            if ud != want:
                return f"tag {k} reports user data {ud}, expected {want} (records after the last Tags chunk attach to its tags in order)"
            if name is not None and name != hexname("b%d" % k) and name != "b%d" % k:
                return f"tag {k} is named {name}, expected b{k} of the last Tags chunk"
        lay = [l for l in impl if l.startswith("layer ")]
        for l in lay:
            w = l.split(" ")
            ud = next((x[3:] for x in w if x.startswith("ud=")), None)
            want = f"t:{hexname('M')},c:-" if (mid and w[1] == "1") else "-"
            if ud != want:
                return f"layer {w[1]} reports user data {ud}, expected {want}"
        return None
    compare_cases(res, files2, m2, i2, ["layer", "celA", "slice", "tag", "sprite_ud"], orc2, what="user data with two Tags chunks")
    res.distribution["two_tags_chunk_files"] = len(files2)
    # random longer programs from the type-directed generator (three-way via the model)
    gen = wf_routine(["layer", "celA", "celB", "celC", "slice", "tag", "sprite_ud"],
                     [("struct", 200, 5000)], "", corpus=True,
                     spec_backed="C10.userData_spec / processChunk_sim with C01.userData_roundtrip")(ctx, scale)
    res.merge(gen)
    return res


register("C10", c10_run)


# ------------------------------------------------------------------------------------------
# C16: repetition, threads, build profiles

def c16_run(ctx, scale):
    res = Result("loadable corpus and generated files: the whole-API observation computed from 16 threads sharing one "
                 "&AsepriteFile, repeated sequentially, and from a second load, in the release build and in the build with "
                 "overflow checks and debug assertions; oracle: all observations of one file are identical (also across the "
                 "two builds; the observation includes what util::PaletteMapper answers for every palette colour); call "
                 "histories across sprites: load, observe and drop sprite A, then load and observe sprite B on the same thread "
                 "must give B's fresh observation; the harness asserts AsepriteFile: Send + Sync at compile time; "
                 "distinct = distinct files")
    files = [(c, b) for c, b in vlib.corpus_files(max_size=9000) if c != "color-curve.aseprite"]
    files += vlib.verif_corpus_wf(include_big=True)
    for prof, nq, nt in (("struct", 40, 1500), ("render", 40, 1500), ("tiles", 25, 800)):
        fs, _ = vlib.gen_cases(prof, ctx.seed * 53 + scale, (nq if ctx.quick else nt) * scale)
        files += fs
    reqs = [f"THREADS {cid} {b.hex()} 16" for cid, b in files]
    # call history across sprites: on one thread load + observe + drop A, then load and observe B
    # (indexed sprites first: they are the ones that share palette machinery)
    idx_files = [(c, b) for c, b in files if len(b) > 140 and b[12:14] == b"\x08\x00"]
    for prof, nq, nt in (("indexed", 30, 600), ("indexedplain", 15, 300), ("legacyindexed", 10, 200)):
        fs, _ = vlib.gen_cases(prof, ctx.seed * 59 + scale, (nq if ctx.quick else nt) * scale)
        idx_files += fs
    loadable_idx = idx_files
    hist = {}
    for k in range(len(loadable_idx)):
        (ca, a), (cb, b) = loadable_idx[k], loadable_idx[(k + 1) % len(loadable_idx)]
        hist[f"hist/{k}"] = (ca, a, cb, b)
    # the same sprite with every palette colour changed (same shape, so the same allocation
    # pattern), observed first: A' -> drop -> A
    def recolour(b):
        bb = bytearray(b)
        changed = False
        for kind, off, sz in vlib.walk_chunks(b):
            if kind == "chunk:2019" and sz >= 26:
                n, first, last = struct.unpack_from("<III", b, off + 6)
                p = off + 6 + 20
                for _ in range(min(n, 4096)):
                    if p + 6 > off + sz:
                        break
                    flags = struct.unpack_from("<H", b, p)[0]
                    for j in (2, 3, 4):
                        bb[p + j] ^= 0x5a
                    changed = True
                    p += 6
                    if flags & 1:
                        if p + 2 > off + sz:
                            break
                        p += 2 + struct.unpack_from("<H", b, p)[0]
            elif kind in ("chunk:0004", "chunk:0011") and sz >= 8:
                np_ = struct.unpack_from("<H", b, off + 6)[0]
                p = off + 8
                for _ in range(np_):
                    if p + 2 > off + sz:
                        break
                    cnt = b[p + 1] or 256
                    p += 2
                    for j in range(min(3 * cnt, off + sz - p)):
                        bb[p + j] ^= 0x15
                        changed = True
                    p += 3 * cnt
        return bytes(bb) if changed else None
    # the same sprite with every palette entry NAME changed (colours equal), kept alive meanwhile
    def rename(b):
        bb = bytearray(b)
        changed = False
        for kind, off, sz in vlib.walk_chunks(b):
            if kind == "chunk:2019" and sz >= 26:
                n = struct.unpack_from("<I", b, off + 6)[0]
                p = off + 6 + 20
                for _ in range(min(n, 4096)):
                    if p + 6 > off + sz:
                        break
                    flags = struct.unpack_from("<H", b, p)[0]
                    p += 6
                    if flags & 1:
                        if p + 2 > off + sz:
                            break
                        ln = struct.unpack_from("<H", b, p)[0]
                        for j in range(p + 2, min(p + 2 + ln, off + sz)):
                            if 0x41 <= bb[j] <= 0x5a or 0x61 <= bb[j] <= 0x7a:
                                bb[j] ^= 0x20
                                changed = True
                            elif 0x30 <= bb[j] <= 0x38:
                                bb[j] += 1
                                changed = True
                        p += 2 + ln
        return bytes(bb) if changed else None
    keep_ids = set()
    for k, (cb, b) in enumerate(loadable_idx + [f for f in files if f not in loadable_idx][:60]):
        a = recolour(b)
        if a is not None and k < len(loadable_idx):
            hist[f"histc/{k}"] = (cb + "(recoloured)", a, cb, b)
        r = rename(b)
        if r is not None:
            hist[f"histn/{k}"] = (cb + "(palette names changed, kept alive)", r, cb, b)
            keep_ids.add(f"histn/{k}")
        if k % 3 == 0 and a is not None:
            hist[f"histk/{k}"] = (cb + "(recoloured, kept alive)", a, cb, b)
            keep_ids.add(f"histk/{k}")
    other = [f for f in files if f not in idx_files][:40]
    for k in range(len(other)):
        (ca, a), (cb, b) = other[k], other[(k + 1) % len(other)]
        hist[f"histo/{k}"] = (ca, a, cb, b)
    # a history that starts with a REJECTED file: loads failing at different depths (framing,
    # decompression with partial output, validation), then a valid file on the same thread
    bad = [(c, b) for c, b in vlib.verif_corpus() if len(b) < 20000]
    zfiles = [(c, b) for c, b in files if any(k in ("chunk:2005", "chunk:2023") and sz > 60 for k, off, sz in vlib.walk_chunks(b))][:12]
    for c, b in zfiles[:6]:
        # the same file with its compressed payloads damaged: a truncated stream, a stream of the wrong size
        for kind, off, sz in vlib.walk_chunks(b):
            if kind == "chunk:2005" and sz > 60 and struct.unpack_from("<H", b, off + 6 + 7)[0] == 2:
                m1 = bytearray(b); m1[off + sz - 5] ^= 0x41
                bad.append((c + "(damaged stream)", bytes(m1)))
                m2 = bytearray(b); w = struct.unpack_from("<H", b, off + 6 + 16)[0]
                struct.pack_into("<H", m2, off + 6 + 16, (w + 1) & 0xffff)
                bad.append((c + "(wrong size)", bytes(m2)))
                break
    good = (zfiles + files[:8])[:16]
    for k, (ca, a) in enumerate(bad):
        cb, b = good[k % len(good)]
        hist[f"histbad/{k}"] = (ca, a, cb, b)
    hreqs = [f"HISTORY {hid} {a.hex()} {b.hex()}" + (" keep" if hid in keep_ids else "") for hid, (ca, a, cb, b) in hist.items()]
    # "loading the same bytes twice gives equal observations" also when the reader delivers them differently
    sreqs, smeta = [], {}
    for cid, b in [f for f in files if len(f[1]) < 4000][:30]:
        for tag, ev in (("bytewise", ",".join(["d1"] * len(b))), ("sevens", ",".join(["d7"] * (len(b) // 7 + 2))), ("at100", f"d100,d{len(b)}")):
            rid = f"{cid}|{tag}"
            sreqs.append(f"SCHED {rid} {b.hex()} {ev}")
            smeta[rid] = (cid, b)
    outs = {}
    houts = {}
    for profile in ("release", "relchk"):
        outs[profile], _ = vlib.run_impl(reqs, profile)
        houts[profile], _ = vlib.run_impl(hreqs, profile)
    for profile in ("release", "relchk"):
        so, _ = vlib.run_impl(sreqs, profile)
        for rid, (cid, b) in smeta.items():
            res.evaluations += 1
            res.compared += 1
            ref = [l for l in (outs[profile].get(cid) or []) if not l.startswith("mapperx") and not l.startswith("differs")]
            got = so.get(rid) or ["missing"]
            if got != ref:
                d = vlib.first_diff(ref, got)
                res.oracle_failures.append({"id": rid, "build_profile": profile, "input_hex": b.hex(),
                                            "call": "SCHED " + rid.split("|")[1],
                                            "what": f"the same bytes delivered in pieces ({rid.split('|')[1]}) are observed differently: {str(d)[:300]}"})
    model, _ = vlib.run_model(vlib.load_lines(files + [(hid, b) for hid, (ca, a, cb, b) in hist.items()]))
    for hid, (ca, a, cb, b) in hist.items():
        res.evaluations += 1
        res.compared += 1
        m = model.get(hid)
        if vlib.outcome(m) != "ok":
            continue
        for prof in ("release", "relchk"):
            o = houts[prof].get(hid)
            if o is None:
                raise vlib.Broken("no observation for " + hid)
            bad = [l for l in o if l.startswith("differs") or "PANIC" in l or "panicked" in l]
            plain = [l for l in o if not l.startswith("mapperx")]
            if bad or plain != m:
                what = bad[0][:400] if bad else "observation after a history differs from the model's: " + str(vlib.first_diff(m, plain))[:300]
                res.oracle_failures.append({"id": hid, "what": f"[{prof}] after loading, observing and dropping sprite A ({ca}) on the "
                                            f"same thread, sprite B ({cb}) is observed differently: {what}",
                                            "input_hex": b.hex(), "history_first_input_hex": a.hex(),
                                            "call": f"HISTORY {hid} <A> <B>", "build_profile": prof})
                break
    res.distribution["history_pairs"] = len(hist)
    res.sections = ALL
    for cid, data in files:
        res.evaluations += 1
        res.compared += 1
        res._distinct.add(hash(data))
        a, b = outs["release"].get(cid), outs["relchk"].get(cid)
        m = model.get(cid)
        fail = None
        for prof, o in (("release", a), ("relchk", b)):
            if o is None:
                raise vlib.Broken("no observation for " + cid)
            mx = [l for l in o if l.startswith("mapperx ")]
            if mx and "|" in mx[0]:
                tl = [x for x in mx[0].split("|", 1)[1].strip().split(",") if x]
                if any(x != "0" for x in tl):
                    fail = (f"[{prof}] PaletteMapper::lookup of a translucent colour right after the opaque lookup of the same colour "
                            f"returns {tl[:12]} instead of the transparent index 0")
            diff = [l for l in o if l.startswith("differs") or "PANIC" in l or l == "load panic"]
            if diff:
                fail = f"[{prof}] observation not stable / panicked: {diff[0][:200]}"
        if fail is None and a != b:
            d = vlib.first_diff(a, b)
            fail = f"optimised and checked builds observe different results: line {d[0]}: {d[1][:200]} | {d[2][:200]}"
        if fail:
            res.oracle_failures.append({"id": cid, "what": fail, "input_hex": data.hex(),
                                        "call": "THREADS (16 threads, repeated, second load), both build profiles"})
        elif [l for l in a if not l.startswith("mapperx")] != m:
            d = vlib.first_diff(m, [l for l in a if not l.startswith("mapperx")])
            res.corr_diffs.append({"correspondence": "Ase model observation <-> concurrent observation of the implementation",
                                   "id": cid, "input_hex": data.hex(),
                                   "first_difference": {"line": d[0], "model": d[1][:300], "impl": d[2][:300]}})
        if len(res.samples) < 4:
            res.samples.append({"id": cid, "bytes": len(data), "threads": 16, "observation_lines": len(a)})
    # the unoptimised build (`dbg`: opt-level 0 for the library and the harness, every debug check on): the
    # well-formed corpus must be observed exactly as in the optimised build (stack depth of recursive code,
    # arithmetic that only the optimiser makes harmless)
    dfiles = [(c, b) for c, b in vlib.verif_corpus_wf(include_big=("layers",)) if len(b) < 20000 or "nested" in c]
    dfiles += [(c, b) for c, b in vlib.corpus_files(max_size=3000)]
    # tilemap cels with unusual id masks / bits per tile, tilesets in every cross-reference shape (loadable or not:
    # the OUTCOME must not depend on the profile either)
    dfiles += [(c, b) for c, b in structure_cases() if c.startswith("xref/") and ("/tmm" in c or "/tmb" in c or c.endswith("/0"))][::2]
    dfiles += [(c, b) for c, b in structure_cases() if c.startswith(("tsx/", "latetags/", "tags-overrun/", "tileset-ud/"))]
    # a tileset whose declared pixel count passes 2^62 (tile count x width x height) over 160 bytes of data
    import zlib as _zl
    for cnt, tw, th in ((1574487853, 44797, 65384), (0xFFFFFFFF, 65535, 65535), (1 << 31, 1 << 15, 1 << 15)):
        zz = _zl.compress(bytes(160))
        for depth in (8, 16, 32):
            tchunk = mk_chunk(0x2023, struct.pack("<IIIHHh", 0, 2, cnt, tw, th, 1) + bytes(14) + struct.pack("<H", 0) + struct.pack("<I", len(zz)) + zz)
            dfiles.append((f"tshuge/{cnt:x}x{tw}x{th}/{depth}", mk_header(1, 2, 2, depth) + mk_frame([tchunk, mk_layer()])))
    dl = vlib.load_lines(dfiles)
    robs, _ = vlib.run_impl(dl, "release")
    for prof in ("dbg", "relchk"):
        os.environ["OBSERVE_CASE_TIMEOUT_MS"] = "60000"
        try:
            dobs, _ = vlib.run_impl(dl, prof, timeout=1200)
        finally:
            os.environ["OBSERVE_CASE_TIMEOUT_MS"] = "8000"
        for cid, b in dfiles:
            res.evaluations += 1
            res.compared += 1
            if dobs.get(cid) != robs.get(cid):
                d = vlib.first_diff(robs.get(cid) or ["missing"], dobs.get(cid) or ["missing"])
                res.oracle_failures.append({"id": cid, "input_hex": b.hex()[:400000], "build_profile": prof,
                                            "call": "whole-API observation, " + ("unoptimised build" if prof == "dbg" else "build with overflow checks") + " vs optimised build",
                                            "what": f"the {prof} build observes line {d[0]} as `{d[2][:200]}` where the optimised build observes `{d[1][:200]}`"})
    res.distribution["profile-comparison files"] = len(dfiles)
    return res


register("C16", c16_run, profiles=("release", "relchk", "dbg"), build_failure_is_violation=True)


# ------------------------------------------------------------------------------------------
# C09: exhaustive forests

def forests(n):
    """all level sequences of length n: first 0, each at most one more than its predecessor"""
    def rec(seq):
        if len(seq) == n:
            yield tuple(seq)
            return
        for l in range(0, seq[-1] + 2):
            seq.append(l)
            yield from rec(seq)
            seq.pop()
    yield from rec([0])


def c09_run(ctx, scale):
    maxn = 6 if ctx.quick else 8
    res = Result(f"EXHAUSTIVELY every layer forest of 1..{maxn} layers (level of the first layer 0, each level at most "
                 "one more than its predecessor's) x every assignment of visible flags; layer i is a group or image layer "
                 "with an opaque 1x1 cel at pixel (i, 0) (a third variant leaves the group layers without cels); oracle (computed independently in Python): parent = nearest "
                 "preceding smaller level, is_visible = own flag and all ancestors' flags, frame pixel i = the cel's colour "
                 "iff the layer is visible else transparent; distinct = distinct (forest, flags) pairs; plus random deeper "
                 "forests from the generator")
    files, exp = [], {}
    for n in range(1, maxn + 1):
        for lv in forests(n):
            for mask in range(1 << n):
              for all_image in ((False, True, None) if n <= 6 else (False,)):
                # all_image None: variant 3 = variant 1 without cels on the group layers (so that the cels of the
                # children of two different groups follow each other directly)
                nogrpcel = all_image is None
                all_image = bool(all_image)
                chunks = []
                groups = set()
                for i in range(n):
                    vis = (mask >> i) & 1
                    # variant 1: a layer is a group iff the next layer is its child;
                    # variant 2: every layer is an image layer (the parent rule does not depend on the type)
                    is_group = (not all_image) and i + 1 < n and lv[i + 1] == lv[i] + 1
                    if is_group:
                        groups.add(i)
                    name = b"L%d" % i
                    chunks.append(mk_chunk(0x2004, struct.pack("<HHHHHHBBH", vis, 1 if is_group else 0, lv[i], 0, 0, 0, 255, 0, 0)
                                           + struct.pack("<H", len(name)) + name))
                if nogrpcel and not groups:
                    continue
                for i in range(n):
                    if nogrpcel and i in groups:
                        continue
                    chunks.append(mk_chunk(0x2005, struct.pack("<HhhBH", i, i, 0, 255, 0) + bytes(7) + struct.pack("<HH", 1, 1)
                                           + bytes([10 + i, 20 + i, 30 + i, 255])))
                cid = f"forest/{''.join(map(str, lv))}/{mask:0{n}b}/{'img' if all_image else ('nogrpcel' if nogrpcel else 'grp')}"
                if all_image and n == 1:
                    continue
                files.append((cid, mk_header(1, n, 1) + mk_frame(chunks)))
                parents, visible = [], []
                for i in range(n):
                    p = None
                    if lv[i] > 0:
                        j = i - 1
                        while lv[j] >= lv[i]:
                            j -= 1
                        p = j
                    parents.append(p)
                    visible.append(bool((mask >> i) & 1) and (p is None or visible[p]))
                exp[cid] = (parents, visible, (groups if nogrpcel else set()))
    # deep chains: nesting beyond 255 levels, the innermost group (or one in the middle) hidden
    for depth, hidden in ((255, 200), (256, 255), (300, 255), (300, 299), (1000, 1)):
        n = depth + 1
        chunks = [mk_chunk(0x2004, struct.pack("<HHHHHHBBH", 0 if i == hidden else 1, 1 if i < depth else 0, i, 0, 0, 0, 255, 0, 0)
                           + struct.pack("<H", 0)) for i in range(n)]
        chunks.append(mk_chunk(0x2005, struct.pack("<HhhBH", depth, 0, 0, 255, 0) + bytes(7) + struct.pack("<HH", 1, 1) + bytes([9, 9, 9, 255])))
        cid = f"chain/{depth}/hidden{hidden}"
        files.append((cid, mk_header(1, 1, 1) + mk_frame(chunks)))
        exp[cid] = ([None] + list(range(depth)), [i < hidden for i in range(n)], set())
    res.exhaustive = True
    def orc(cid, data, impl, model):
        if vlib.outcome(impl) != "ok":
            return "a forest did not load: " + vlib.outcome_detail(impl)
        parents, visible, nocel = exp[cid]
        n = len(parents)
        for l in impl:
            w = l.split(" ")
            if w[0] == "layer":
                k = int(w[1])
                if k >= n:
                    continue
                kv = dict(x.split("=", 1) for x in w[2:])
                wantp = "-" if parents[k] is None else str(parents[k])
                if kv["parent"] != wantp:
                    return f"layer {k}: parent {kv['parent']}, expected {wantp}"
                if kv["visible"] != ("1" if visible[k] else "0"):
                    return f"layer {k}: is_visible {kv['visible']}, expected {int(visible[k])}"
            elif w[0] == "frameimg" and cid.startswith("chain/"):
                px = bytes.fromhex(w[2].split(":")[3])
                want = bytes([9, 9, 9, 255]) if visible[n - 1] else bytes(4)
                if px[:4] != want:
                    return f"frame pixel is {px[:4].hex()}, expected {want.hex()} (innermost layer visible={visible[n - 1]})"
            elif w[0] == "frameimg":
                px = bytes.fromhex(w[2].split(":")[3])
                for k in range(n):
                    want = bytes([10 + k, 20 + k, 30 + k, 255]) if (visible[k] and k not in nocel) else bytes(4)
                    if px[4 * k:4 * k + 4] != want:
                        return f"frame pixel {k} is {px[4 * k:4 * k + 4].hex()}, expected {want.hex()} (layer visible={visible[k]})"
        return None
    compare_batched(res, files, ["layers", "layer", "frameimg"], orc, what="parents / visibility / frame image", verbose=True)
    if scale == 1:
        order_extra(ctx, scale, res, None, None, None)
    res.distribution["forests"] = len(files)
    res.distribution["max_layers"] = maxn
    gen = wf_routine(["layers", "layer", "frameimg"], [("forest", 150, 20000), ("render", 60, 2000)], "", corpus=False, shared=False,
                     spec_backed="C09.parents_spec / isVisible_spec with C02.frameImage_spec (hidden layers contribute nothing)")(ctx, scale)
    res.merge(gen)
    res.exhaustive = True
    return res


register("C09", c09_run)
