"""Per-property correspondence routines and property oracles (DESIGN section 7)."""
import json, os, random, struct, subprocess, time
import vlib
from vlib import log


class Ctx:
    def __init__(self, pid, tier, seed):
        self.pid, self.tier, self.seed = pid, tier, seed
        self.quick = tier != "thorough"


class Result:
    def __init__(self, rule=""):
        self.evaluations = 0
        self.compared = 0
        self.rule = rule
        self.samples = []
        self.oracle_failures = []
        self.corr_diffs = []
        self.distribution = {}
        self.sections = []
        self.exhaustive = False
        self._distinct = set()

    def distinct(self):
        return len(self._distinct)

    def note(self, key):
        self.distribution[key] = self.distribution.get(key, 0) + 1

    def merge(self, o):
        self.evaluations += o.evaluations
        self.compared += o.compared
        self.oracle_failures += o.oracle_failures
        self.corr_diffs += o.corr_diffs
        self._distinct |= o._distinct
        for k, v in o.distribution.items():
            self.distribution[k] = self.distribution.get(k, 0) + v
        self.samples = (self.samples + o.samples)[:8]


STRUCT = ["size", "format", "frames", "layers", "frame", "layer", "byname", "iter", "tags", "tag",
          "gettag", "tagbyname", "slices", "slice", "key", "palette", "pal", "extfiles", "extfile",
          "tilesets", "tileset", "sprite_ud"]
CELS = ["celA", "celB", "celC"]
RENDER = ["frameimg"]
TILES = ["tilemap", "tiles", "tsimg", "tileimg"]
ALL = STRUCT + CELS + RENDER + TILES + ["debug"]


def strip_layer_ud(l):
    return l


def compare_cases(res, files, model_obs, impl_obs, prefixes, oracle=None, what="", load_only=False):
    """three-way bookkeeping for a batch: correspondence (model vs impl on the chosen sections
    plus the load outcome) and the property oracle on the implementation's observation."""
    res.sections = sorted(set(res.sections) | set(prefixes))
    for cid, data in files:
        res.evaluations += 1
        m = model_obs.get(cid)
        i = impl_obs.get(cid)
        if m is None or i is None:
            raise vlib.Broken(f"no observation for case {cid} (model={m is not None}, impl={i is not None})")
        res.compared += 1
        mo, io = vlib.outcome(m), vlib.outcome(i)
        res.note("outcome:" + io)
        key = "|".join(vlib.section(i, prefixes) if not load_only else [io])
        if io == "ok" or load_only:
            res._distinct.add(hash((io, key)))
        if len(res.samples) < 4:
            res.samples.append({"id": cid, "bytes": len(data), "outcome": vlib.outcome_detail(i),
                                "input_hex_prefix": data[:48].hex()})
        # property oracle first: it needs no model
        if oracle is not None:
            msg = oracle(cid, data, i, m)
            if msg:
                res.oracle_failures.append({"id": cid, "what": msg, "input_hex": data.hex(),
                                            "impl_outcome": vlib.outcome_detail(i),
                                            "model_outcome": vlib.outcome_detail(m),
                                            "call": what})
                continue
        if mo != io:
            res.corr_diffs.append({"correspondence": "Ase.parse <-> AsepriteFile::read (load outcome)",
                                   "id": cid, "input_hex": data.hex(), "model": vlib.outcome_detail(m),
                                   "impl": vlib.outcome_detail(i)})
            continue
        if load_only or io != "ok":
            continue
        a, b = vlib.section(m, prefixes), vlib.section(i, prefixes)
        if a != b:
            d = vlib.first_diff(a, b)
            res.corr_diffs.append({"correspondence": f"Ase model <-> public API on sections {what or prefixes}",
                                   "id": cid, "input_hex": data.hex(), "first_difference": {
                                       "line": d[0], "model": d[1][:600], "impl": d[2][:600]}})


def no_panic_oracle(cid, data, impl, model):
    o = vlib.outcome(impl)
    if o not in ("ok", "err"):
        return f"loading did not return a sprite or an error: {vlib.outcome_detail(impl)}"
    return None


def usable_oracle(cid, data, impl, model):
    if vlib.outcome(impl) != "ok":
        return None
    bad = [l for l in impl if "PANIC" in l or l.startswith("observe") or l.startswith("differs")]
    if bad:
        return "a sprite that loaded panicked in an accessor: " + bad[0][:300]
    return None


def must_load_oracle(cid, data, impl, model):
    o = vlib.outcome(impl)
    if o != "ok":
        return f"a well-formed file did not load: {vlib.outcome_detail(impl)}"
    return usable_oracle(cid, data, impl, model)


def must_fail_oracle(cid, data, impl, model):
    o = vlib.outcome(impl)
    if o != "err":
        return f"expected an error value, got: {vlib.outcome_detail(impl)}"
    return None


def run_both(files, profile="release", verbose=False):
    lines = vlib.load_lines(files, verbose)
    m, _ = vlib.run_model(lines, profile)
    i, _ = vlib.run_impl(lines, profile)
    return m, i


# ------------------------------------------------------------------------------------------
# well-formed families

def wf_routine(prefixes, gens, rule, oracle=must_load_oracle, corpus=True, extra=None):
    def run(ctx, scale):
        res = Result(rule)
        rng = random.Random(ctx.seed * 7919 + scale)
        files = []
        model_obs = {}
        files += vlib.verif_corpus_wf()
        if corpus and scale == 1:
            files += vlib.corpus_files()
        pre_n = len(files)
        for profile, nq, nt in gens:
            n = (nq if ctx.quick else nt) * scale
            fs, obs = vlib.gen_cases(profile, ctx.seed * 31 + scale, n)
            files += fs
            model_obs.update(obs)
            res.note(f"gen:{profile}")
            res.distribution[f"gen:{profile}"] = n
        # corpus / regression files are observed by the model through LOAD
        pre = files[:pre_n]
        if pre:
            m, _ = vlib.run_model(vlib.load_lines(pre))
            model_obs.update(m)
        impl_obs, _ = vlib.run_impl(vlib.load_lines(files))
        def orc(cid, data, impl, model):
            if cid == "color-curve.aseprite":
                return None      # the repository's own negative example (ICC profile)
            return oracle(cid, data, impl, model) if oracle else None
        compare_cases(res, files, model_obs, impl_obs, prefixes, orc, what=",".join(prefixes[:4]) + ",…")
        if extra:
            extra(ctx, scale, res, files, model_obs, impl_obs)
        return res
    return run


# ------------------------------------------------------------------------------------------
# malformed stream (C04, C05)

def malformed_inputs(ctx, scale, rng):
    base = [(c, b) for c, b in vlib.corpus_files(max_size=9000)]
    gen, _ = vlib.gen_cases("struct", ctx.seed * 13 + scale, 40 if ctx.quick else 200)
    gen2, _ = vlib.gen_cases("tiles", ctx.seed * 17 + scale, 20 if ctx.quick else 100)
    base += gen + gen2
    n = (6000 if ctx.quick else 300000) * scale
    files = vlib.verif_corpus()
    files += vlib.sample_mutants(base, rng, n)
    files += vlib.noise_cases(base, rng, n // 6)
    # de-duplicate ids
    seen = {}
    out = []
    for cid, b in files:
        if cid in seen:
            cid = f"{cid}#{len(out)}"
        seen[cid] = 1
        out.append((cid, b))
    return out


def malformed_routine(oracle, prefixes, rule, load_only):
    def run(ctx, scale):
        res = Result(rule)
        rng = random.Random(ctx.seed * 104729 + scale)
        files = malformed_inputs(ctx, scale, rng)
        for profile in ("release", "relchk"):
            m, i = run_both(files, profile)
            sub = Result()
            compare_cases(sub, files, m, i, prefixes, oracle, what=f"malformed stream [{profile}]",
                          load_only=load_only)
            for f in sub.oracle_failures + sub.corr_diffs:
                f["build_profile"] = profile
            res.merge(sub)
            res.sections = sub.sections
        kinds = {}
        for cid, _ in files:
            k = cid.split("/")[0]
            kinds[k] = kinds.get(k, 0) + 1
        res.distribution.update({"input:" + k: v for k, v in kinds.items()})
        return res
    return run


# ------------------------------------------------------------------------------------------
# replay

def replay(ctx, path):
    p = json.load(open(path))
    hx = p.get("input_hex")
    if not hx and p.get("broken_correspondence"):
        hx = p["broken_correspondence"][0].get("input_hex")
    if not hx:
        print(json.dumps(p, indent=1)[:4000])
        return 0
    files = [("replay", bytes.fromhex(hx))]
    m, i = run_both(files, p.get("build_profile", "release"), verbose=True)
    print("--- implementation")
    print("\n".join(i.get("replay", [])))
    print("--- model")
    print("\n".join(m.get("replay", [])))
    return 0


ROUTINES = {}


def register(pid, run, **kw):
    ROUTINES[pid] = dict(run=run, **kw)


register("C01", wf_routine(STRUCT, [("struct", 300, 20000), ("plain", 100, 2000)],
         "corpus files + type-directed generated well-formed programs (all attribute ranges); "
         "distinct = distinct structure observations of loaded sprites"))
register("C02", wf_routine(RENDER, [("render", 300, 10000), ("struct", 100, 2000)],
         "generated layer stacks (19 blend modes, opacities, hidden layers/groups, linked, tilemap, "
         "off-canvas cels); distinct = distinct frame-image observations"))
register("C06", wf_routine(CELS, [("rgba", 120, 3000), ("gray", 120, 3000), ("indexed", 160, 4000)],
         "generated sprites in each pixel format (sparse palettes, alpha<255, all transparent-index "
         "values, background flag, raw and zlib, links); distinct = distinct cel observations"))
register("C08", wf_routine(TILES, [("tiles", 300, 10000)],
         "generated tilesets/tilemaps (tile sizes 1..5 non-square, all formats, aligned offsets "
         "-3..+3 tiles, extended lookup grid); distinct = distinct tilemap/tileset observations"))
register("C19", wf_routine(CELS + RENDER + ["tilemap"], [("render", 200, 5000), ("tiles", 100, 3000)],
         "generated sprites with frames != layers; the three cel routes, single-layer frames, tilemap images"))
register("C04", malformed_routine(no_panic_oracle, [], "field-aware boundary mutations (single and paired) of "
         "corpus and generated files, truncations, noise, in release and release+overflow-checks+"
         "debug-assertions builds; distinct = distinct (input kind, outcome) pairs", True),
         profiles=("release", "relchk"))
register("C05", malformed_routine(usable_oracle, ALL, "the malformed stream of C04; every input that loads gets "
         "the whole-API walk under catch_unwind; distinct = distinct observations of loaded sprites", False),
         profiles=("release", "relchk"))
register("C09", wf_routine(["layers", "layer", "frameimg"], [("forest", 400, 20000), ("render", 100, 2000)],
         "random layer forests up to 8 layers with all visibility assignments (exhaustive enumeration in "
         "thorough tier); parent / is_visible of every layer and the frame image"))


# ------------------------------------------------------------------------------------------
# blend enumerations (C03, C17)

def mul_un8(a, b):
    t = a * b + 0x80
    return ((t >> 8) + t) >> 8


def run_driver_raw(reqs, profile="release"):
    """run raw driver requests in parallel; returns (cases, inputs, extra lines by prefix)"""
    import concurrent.futures
    pre = "PROFILE " + ("checked" if profile == "relchk" else "release") + "\n"
    n = min(vlib.CORES, max(1, len(reqs)))
    chunks = [reqs[i::n] for i in range(n)]
    def one(ch):
        r = subprocess.run(["bash", "-c", "ulimit -s unlimited 2>/dev/null; exec " + vlib.ASEDRV],
                           input=pre + "".join(x + "\n" for x in ch), capture_output=True, text=True)
        if r.returncode != 0:
            raise vlib.Broken("driver failed: " + r.stderr[-500:])
        return r.stdout
    cases, inputs, extra = {}, [], []
    with concurrent.futures.ThreadPoolExecutor(max_workers=n) as ex:
        for out in ex.map(one, chunks):
            c, i, order = vlib.parse_cases(out)
            for k in order:
                cases[k] = c[k][:-1] if c[k] and c[k][-1] == "END" else c[k]
            inputs += i
            extra += [l for l in out.split("\n") if l.startswith("PIXELS ")]
    return cases, inputs, extra


def frame_pixels(lines):
    for l in lines:
        if l.startswith("frameimg 0 "):
            parts = l.split(" ")[2].split(":")
            if len(parts) >= 4:
                return bytes.fromhex(parts[3])
            return None
    return None


OPACITIES = [(255, 255), (255, 128), (0, 255), (255, 0), (1, 255), (127, 200), (254, 254), (128, 128)]


def blend_routine(laws, rule):
    def run(ctx, scale):
        res = Result(rule)
        res.sections = ["frameimg", "celA"]
        side = 40
        seeds = range(ctx.seed * 100 + scale * 10, ctx.seed * 100 + scale * 10 + (2 if ctx.quick else 24) * scale)
        ops = OPACITIES[:6] if ctx.quick else OPACITIES
        reqs = [f"GENBLEND {mode} {sd} {lo} {co} {side} {side} 1"
                for mode in range(19) for sd in seeds for (lo, co) in ops]
        for profile in ("release", "relchk"):
            cases, inputs, extra = run_driver_raw(reqs, profile)
            files = [(cid, bytes.fromhex(hx)) for cid, hx in inputs]
            impl, _ = vlib.run_impl(vlib.load_lines(files, verbose=True), profile)
            pix = {}
            for l in extra:
                _, cid, bh, sh = l.split(" ")
                pix[cid] = (bytes.fromhex(bh), bytes.fromhex(sh))
            sub = Result()
            compare_cases(sub, files, cases, impl, ["frameimg", "celA"], usable_oracle,
                          what=f"Frame::image of two-layer blend sprites [{profile}]")
            for f in sub.oracle_failures + sub.corr_diffs:
                f["build_profile"] = profile
            res.merge(sub)
            if not laws:
                continue
            # the mode-independent laws, checked on the implementation's pixels
            for cid, data in files:
                _, mode, sd, lo, co = cid.split("-")
                mode, lo, co = int(mode), int(lo), int(co)
                op = mul_un8(lo, co)
                out = frame_pixels(impl.get(cid, []))
                nrm = frame_pixels(impl.get(f"blend-0-{sd}-{lo}-{co}", []))
                if out is None or nrm is None:
                    continue
                back, src = pix[cid]
                for k in range(len(out) // 4):
                    b = back[4 * k:4 * k + 4]
                    s = src[4 * k:4 * k + 4]
                    r = out[4 * k:4 * k + 4]
                    res.evaluations += 1
                    res._distinct.add(hash((mode, b, s, op)))
                    bad = None
                    if r[3] != nrm[4 * k + 3]:
                        bad = f"alpha {r[3]} differs from Normal-mode alpha {nrm[4 * k + 3]}"
                    elif b[3] != 0 and (s[3] == 0 or op == 0) and r != b:
                        bad = "transparent source / zero opacity changed a visible backdrop"
                    elif b[3] == 0 and r != s[:3] + bytes([mul_un8(s[3], op)]):
                        bad = "over a transparent backdrop the result is not the source with scaled alpha"
                    elif mode == 0 and op == 255 and s[3] == 255 and r != s:
                        bad = "Normal at full opacity with an opaque source is not the source"
                    if bad:
                        res.oracle_failures.append({
                            "id": cid, "what": bad, "input_hex": data.hex(), "build_profile": profile,
                            "pixel": k, "mode": mode, "backdrop": b.hex(), "source": s.hex(),
                            "opacity": op, "result": r.hex(), "call": "Frame::image"})
                        break
        res.distribution["modes"] = 19
        res.distribution["opacity_pairs"] = len(ops)
        res.distribution["pixels_per_sprite"] = side * side
        return res
    return run


register("C17", blend_routine(True, "two-layer sprites enumerating (backdrop, source) pixel pairs (boundary-biased, "
         "greys, r==g<b) for all 19 modes x opacity pairs, in release and overflow-checks+debug-assertions "
         "builds; the four laws are evaluated on the implementation's pixels; distinct = distinct "
         "(mode, backdrop, source, opacity) tuples"), profiles=("release", "relchk"))


def cpp_oracle():
    """compile ref/blend_ref.cc (which includes /repo/ref/dummy.cc textually) on demand"""
    exe = os.path.join(vlib.VERIF, "ref", "blend_ref")
    src = os.path.join(vlib.VERIF, "ref", "blend_ref.cc")
    dummy = os.path.join(vlib.REPO, "ref", "dummy.cc")
    if not os.path.exists(dummy):
        return None
    if (not os.path.exists(exe)) or os.path.getmtime(exe) < max(os.path.getmtime(src), os.path.getmtime(dummy)):
        r = subprocess.run(["clang++", "-O1", "-ffp-contract=off", "-w", f'-DREPO_DUMMY="{dummy}"',
                            "-o", exe, src], capture_output=True, text=True)
        if r.returncode != 0:
            log("C++ blend oracle does not compile: " + r.stderr[-800:])
            return None
    return exe


def c03_run(ctx, scale):
    base = blend_routine(False, "")
    res = base(ctx, scale)
    res.rule = ("(i) Rust vs model through Frame::image on two-layer sprites enumerating pixel pairs for all 19 "
                "modes x opacity pairs, both build profiles; (ii) model vs the Lean transcription of Aseprite's C++ "
                "(REFCHECK, executes both sides of theorem blend_eq_ref on IEEE doubles); (iii) that transcription vs "
                "the compiled C++ of ref/dummy.cc + blend_ref.cc; distinct = distinct frame images")
    n = (20000 if ctx.quick else 400000) * scale
    reqs = [f"REFCHECK {mode} {ctx.seed * 50 + scale} {n}" for mode in range(19)]
    import concurrent.futures
    def one(req):
        r = subprocess.run([vlib.ASEDRV], input=req + "\n", capture_output=True, text=True)
        return r.stdout.strip()
    with concurrent.futures.ThreadPoolExecutor(max_workers=vlib.CORES) as ex:
        outs = list(ex.map(one, reqs))
    bad_ref = [o for o in outs if "mismatches=0" not in o]
    res.evaluations += n * 19
    res.distribution["refcheck_pixels_per_mode"] = n
    res.distribution["refcheck_mismatching_modes"] = len(bad_ref)
    if bad_ref:
        # the spec side of the theorem disagrees with the model on Float: FLaws fails for IEEE
        # doubles or the driver is wrong -- a defect of the machinery, never of /repo
        raise vlib.Broken("model and BlendRef disagree on Float although blend_eq_ref is proved: " + bad_ref[0])
    exe = cpp_oracle()
    if exe:
        m = 4000 if ctx.quick else 100000
        def cpp(mode):
            r = subprocess.run([vlib.ASEDRV], input=f"REFPIX {mode} {ctx.seed * 70 + scale} {m}\n",
                               capture_output=True, text=True)
            rows = [l.split(" ") for l in r.stdout.split("\n") if l.startswith("REFPIX ")]
            inp = "".join(f"{x[1]} {x[2]} {x[3]} {x[4]}\n" for x in rows)
            c = subprocess.run([exe], input=inp, capture_output=True, text=True)
            got = c.stdout.split("\n")
            return [(rows[i], got[i]) for i in range(len(rows)) if got[i] != rows[i][5]]
        with concurrent.futures.ThreadPoolExecutor(max_workers=vlib.CORES) as ex:
            diffs = [d for ds in ex.map(cpp, range(19)) for d in ds]
        res.distribution["cpp_oracle_pixels"] = m * 19
        res.distribution["cpp_oracle_differences"] = len(diffs)
        res.evaluations += m * 19
        if diffs:
            raise vlib.Broken("the Lean transcription BlendRef differs from the compiled C++ reference "
                              f"(defect of the spec transcription, not of /repo): {diffs[0]}")
    else:
        res.distribution["cpp_oracle_pixels"] = 0
    return res


register("C03", c03_run, profiles=("release", "relchk"))
