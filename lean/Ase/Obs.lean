import Ase.Render
import Ase.Inflate
/-
  The canonical whole-API observation (DESIGN 4.2): one text block computed from a `Sprite`
  by the model's accessors, line for line what the Rust harness prints from the public API.
-/
namespace Ase

/-- IEEE binary64 instance of the floating-point parameter (Rust `f64`). -/
def floatOps : FOps Float where
  add := (· + ·)
  sub := (· - ·)
  mul := (· * ·)
  div := (· / ·)
  sqrt := Float.sqrt
  max := fun a b => if a.isNaN then b else if b.isNaN then a else if a < b then b else a
  min := fun a b => if a.isNaN then b else if b.isNaN then a else if b < a then b else a
  lt := fun a b => a < b
  le := fun a b => a ≤ b
  ofInt := fun i => Float.ofInt i
  toI32 := fun x => (Float.toInt32 x).toInt
  toU32 := fun x => (Float.toUInt32 x).toNat
  c0_25 := 0.25
  c0_5 := 0.5
  c0_3 := 0.3
  c0_59 := 0.59
  c0_11 := 0.11

namespace Obs

def hexDigit (n : Nat) : Char :=
  if n < 10 then Char.ofNat (48 + n) else Char.ofNat (87 + n)

def hexByte (b : UInt8) : String :=
  String.ofList [hexDigit (b.toNat / 16), hexDigit (b.toNat % 16)]

def hex (bs : Bytes) : String := String.join (bs.map hexByte)

def hexVal (c : Char) : Option Nat :=
  if '0' ≤ c && c ≤ '9' then some (c.toNat - 48)
  else if 'a' ≤ c && c ≤ 'f' then some (c.toNat - 87)
  else if 'A' ≤ c && c ≤ 'F' then some (c.toNat - 55)
  else none

def unhexList : List Char → Option Bytes
  | [] => some []
  | a :: b :: t => do
      let x ← hexVal a
      let y ← hexVal b
      let r ← unhexList t
      pure (UInt8.ofNat (x * 16 + y) :: r)
  | _ => none

def unhex (s : String) : Option Bytes := if s == "-" then some [] else unhexList s.toList

def name (bs : Bytes) : String := "h:" ++ hex bs
def optName : Option Bytes → String
  | none => "-"
  | some b => name b

def rgbaHex (c : RGBA) : String := hexByte c.r ++ hexByte c.g ++ hexByte c.b ++ hexByte c.a

def ud : Option UserData → String
  | none => "-"
  | some u => "t:" ++ optName u.text ++ ",c:" ++ (match u.color with | none => "-" | some c => rgbaHex c)

def optNat : Option Nat → String
  | none => "-"
  | some n => toString n

/-- FNV-1a 64 over the RGBA bytes -/
def fnvStep (h : UInt64) (b : UInt8) : UInt64 := (h ^^^ b.toUInt64) * 0x100000001b3

def fnvPixels (canon : Bool) (px : Array RGBA) : UInt64 :=
  px.foldl (fun h c =>
    let c := if canon && c.a == 0 then RGBA.zero else c
    fnvStep (fnvStep (fnvStep (fnvStep h c.r) c.g) c.b) c.a) 0xcbf29ce484222325

def hex64 (x : UInt64) : String :=
  String.ofList ((List.range 16).map (fun i => hexDigit ((x.toNat >>> (4 * (15 - i))) % 16)))

def image (verbose : Bool) (img : Image) : String :=
  let px := img.px.extract 0 (img.w * img.h)
  s!"{img.w}x{img.h}:{hex64 (fnvPixels false px)}:{hex64 (fnvPixels true px)}" ++
    (if verbose && img.w * img.h ≤ 4096 then ":" ++ String.join (px.toList.map rgbaHex) else "")

def resImage (verbose : Bool) : Res Image → String
  | .ok img => image verbose img
  | .err _ => "ERR"
  | .panic _ => "PANIC"

/-- which of `n` entities are observed when there are more than `k`: the first `k/2`, the last
    two, and `k - k/2 - 2` positions spread evenly over the middle -/
def sel (n k : Nat) : List Nat :=
  if n ≤ k then List.range n else
    let a := k / 2
    let b := k - a - 2
    let mid := (List.range b).map (fun i => a + ((i + 1) * (n - a - 2)) / (b + 1))
    (List.range a ++ mid ++ [n - 2, n - 1]).eraseDups

def maxRenderPixels : Nat := 1048576

def probeIds : List Nat :=
  List.range 300 ++ [1000, 1001, 65535, 65536, 2147483647, 2147483648] ++
    (List.range 8).map (· + 4294967288)

def fmtName : PixelFormat → String
  | .rgba => "rgba"
  | .grayscale => "gray"
  | .indexed t => s!"indexed:{t.toNat}"

def layerType : LayerType → String
  | .image => "image"
  | .group => "group"
  | .tilemap id => s!"tilemap:{id.toNat}"

def resStr {α} (f : α → String) : Res α → String
  | .ok a => f a
  | .err _ => "ERR"
  | .panic _ => "PANIC"

def dedup (l : List Bytes) : List Bytes :=
  l.foldl (fun acc x => if acc.contains x then acc else acc ++ [x]) []

def sortByKey {α} (l : List (Nat × α)) : List (Nat × α) :=
  (l.toArray.qsort (fun a b => a.1 < b.1)).toList

def absentName : Bytes := "__absent__".toUTF8.data.toList

def celLine (verbose : Bool) (m : Profile) (s : Sprite) (tag : String) (f l0 : Nat) : String :=
  let canRender := s.width.toNat * s.height.toNat ≤ maxRenderPixels
  -- all three routes build `CelId { frame: f as u16, layer: l as u16 }`: with more than 65536
  -- layers the layer coordinate wraps, identically on every route
  let l := l0 % 65536
  match s.cel f l with
  | .ok c =>
      let empty := c.isNone
      let tl := match c with | none => "0,0" | some c => s!"{c.data.x.toInt},{c.data.y.toInt}"
      let tm := match c with
        | some c => (match c.content with | .tilemap _ => true | _ => false)
        | none => false
      let u := match c with | none => "-" | some c => ud c.userData
      let img := if canRender then resImage verbose (s.celImage floatOps m f l) else "skipped"
      s!"{tag} {f} {l} empty={if empty then 1 else 0} topleft={tl} tilemap={if tm then 1 else 0} ud={u} img={img}"
  | _ => s!"{tag} {f} {l} PANIC"

/-- the observation of a loaded sprite -/
def sprite (verbose : Bool) (m : Profile) (s : Sprite) : Array String := Id.run do
  let mut o : Array String := #[]
  let nL := s.numLayers
  let nF := s.numFrames.toNat
  let canRender := s.width.toNat * s.height.toNat ≤ maxRenderPixels
  o := o.push s!"size {s.width.toNat} {s.height.toNat}"
  let (idx, tci) := match s.format with
    | .indexed t => ("1", toString t.toNat)
    | _ => ("0", "-")
  o := o.push s!"format {fmtName s.format} idx={idx} tci={tci}"
  o := o.push s!"frames {nF}"
  o := o.push s!"layers {nL}"
  let fsel := sel nF 10
  let lsel := sel nL 24
  -- accessors that duplicate information: size(), PixelFormat::transparent_color_index(),
  -- TilesetsById::is_empty(), Frame::id(), Layer::is_tilemap()
  let istm := lsel.map (fun i => match (s.layers.getD i default).layerType with
    | .tilemap _ => "1" | _ => "0")
  o := o.push s!"accx size={s.width.toNat}x{s.height.toNat} tci={tci} tsempty={if s.tilesets.isEmpty then 1 else 0} frameids={String.intercalate "," (fsel.map toString)} istm={String.intercalate "," istm}"
  for f in fsel do
    o := o.push s!"frame {f} dur {(s.frameTimes.getD f 0).toNat}"
  for i in lsel do
    let l := s.layers.getD i default
    let parent := match s.parents.getD i none with | none => "-" | some p => toString p
    let vis := resStr (fun b : Bool => if b then "1" else "0") (s.isVisible i)
    o := o.push s!"layer {i} name={name l.name} flags={l.flags} blend={l.blendMode} opacity={l.opacity.toNat} type={layerType l.layerType} parent={parent} visible={vis} ud={ud l.userData}"
  for n in dedup ((lsel.map (fun i => (s.layers.getD i default).name)) ++ [absentName]) do
    o := o.push s!"byname {name n} -> {optNat (s.layerByName n)}"
  -- the layers() iterator: count and the ids it yields (selected positions)
  o := o.push s!"iter {nL} {String.intercalate "," (lsel.map toString)}"
  -- std's iterator adaptors over `layers()`: skip(1), step_by(2), next / nth(1) / next, last, count
  let ids := List.range nL
  let show12 (l : List Nat) := String.intercalate "," ((l.take 12).map toString)
  let skip1 := ids.drop 1
  let step2 := ids.filter (fun i => i % 2 == 0)
  let on (x : Option Nat) := match x with | none => "-" | some v => toString v
  let first := ids[0]?
  let nth1 := if nL ≥ 1 then ids[2]? else none
  let after := if nL ≥ 1 && nth1.isSome then ids[3]? else none
  o := o.push s!"iterx skip1={skip1.length}:{show12 skip1} step2={step2.length}:{show12 step2} next={on first} nth1={on nth1} next={on after} last={on ids.getLast?} count={nL}"
  o := o.push s!"tags {s.tags.size}"
  let tsel := sel s.tags.size 24
  for i in tsel do
    let t := s.tags.getD i default
    let rep := if t.repeatCount.toNat == 0 then "-" else toString t.repeatCount.toNat
    o := o.push s!"tag {i} name={name t.name} from={t.fromFrame.toNat} to={t.toFrame.toNat} dir={t.direction} repeat={rep} ud={ud t.userData}"
  o := o.push s!"gettag {s.tags.size} -> -"
  for n in dedup ((tsel.map (fun i => (s.tags.getD i default).name)) ++ [absentName]) do
    o := o.push s!"tagbyname {name n} -> {optNat (s.tagByName n)}"
  o := o.push s!"slices {s.slices.size}"
  for i in sel s.slices.size 24 do
    let sl := s.slices.getD i default
    o := o.push s!"slice {i} name={name sl.name} keys={sl.keys.length} ud={ud sl.userData}"
    let ks := sl.keys.toArray
    for j in sel ks.size 24 do
      let k := ks.getD j default
      let s9 := match k.slice9 with
        | none => "-"
        | some q => s!"{q.cx.toInt},{q.cy.toInt},{q.cw.toNat},{q.ch.toNat}"
      let pv := match k.pivot with | none => "-" | some (x, y) => s!"{x.toInt},{y.toInt}"
      o := o.push s!"key {i} {j} from={k.fromFrame.toNat} origin={k.ox.toInt},{k.oy.toInt} size={k.w.toNat},{k.h.toNat} s9={s9} pivot={pv}"
  match s.palette with
  | none => o := o.push "palette none"
  | some p =>
      o := o.push s!"palette {p.numColors}"
      for i in probeIds do
        match p.color i with
        | none => pure ()
        | some e => o := o.push s!"pal {i} id={e.id} {rgbaHex e.rgba} name={optName e.name}"
  o := o.push s!"extfiles {s.extFiles.length}"
  for (k, e) in (sortByKey s.extFiles).take 64 do
    o := o.push s!"extfile {k} id={e.id.toNat} name={name e.name}"
  o := o.push s!"tilesets {s.tilesets.length}"
  for (k, t) in (sortByKey s.tilesets).take 16 do
    let ext := match t.extFile with | none => "-" | some (a, b) => s!"{a.toNat},{b.toNat}"
    o := o.push s!"tileset {k} id={t.id.toNat} empty0={if t.emptyTileIsZero then 1 else 0} count={t.tileCount.toNat} tw={t.tileW.toNat} th={t.tileH.toNat} base={t.baseIndex.toInt} name={name t.name} ext={ext}"
    let npx := t.tileCount.toNat * t.tileW.toNat * t.tileH.toNat
    if npx ≤ maxRenderPixels then
      o := o.push s!"tsimg {k} {resImage verbose (t.image m s.palette)}"
      for i in sel t.tileCount.toNat 12 do
        o := o.push s!"tileimg {k} {i} {resImage verbose (t.tileImage s.palette i)}"
    else
      o := o.push s!"tsimg {k} skipped"
  for f in fsel do
    for l in lsel do
      -- three routes: AsepriteFile::cel(f, l), Frame::layer(l), Layer::frame(f)
      o := o.push (celLine verbose m s "celA" f l)
      o := o.push (celLine verbose m s "celB" f l)
      o := o.push (celLine verbose m s "celC" f l)
  for f in fsel do
    let img := if canRender then resImage verbose (s.frameImage floatOps m f) else "skipped"
    o := o.push s!"frameimg {f} {img}"
  for f in fsel do
    for l in lsel do
      match s.tilemap l f with
      | .ok none => pure ()
      | .ok (some v) =>
          let (px, py) := v.pixelOffsets
          let tofs := resStr (fun (p : Int × Int) => s!"{p.1},{p.2}") v.tileOffsets
          let img := if canRender then resImage verbose (s.celImage floatOps m f l) else "skipped"
          o := o.push s!"tilemap {l} {f} w={v.logicalW} h={v.logicalH} tsize={v.tileset.tileW.toNat},{v.tileset.tileH.toNat} tofs={tofs} pofs={px},{py} tsid={v.tileset.id.toNat} img={img}"
          let xs := sel (v.logicalW + 3) 12 ++ [32768, 65535, 65536, 65537, 69999, 70000, 98302, 2147483647, 2147483648, 4294967295]
          let ys := sel (v.logicalH + 3) 12 ++ [65535, 65536, 69999, 70000, 2147483648, 4294967295]
          let mut cells : Array String := #[]
          for y in ys do
            for x in xs do
              cells := cells.push (resStr (fun (n : Nat) => toString n) (v.tile x y))
          o := o.push s!"tiles {l} {f} {String.intercalate "," cells.toList}"
      | _ => o := o.push s!"tilemap {l} {f} PANIC"
  o := o.push s!"sprite_ud {ud s.spriteUserData}"
  o := o.push "debug returned"
  return o

def errName : Err → String
  | .invalid => "invalid"
  | .unsupported => "unsupported"
  | .internal => "internal"
  | .io .unexpectedEof => "io:UnexpectedEof"
  | .io (.other n) => s!"io:{n}"

/-- outcome line + observation -/
def load (verbose : Bool) (m : Profile) (r : Res Sprite) : Array String :=
  match r with
  | .ok s => #["load ok"] ++ sprite verbose m s
  | .err e => #[s!"load err {errName e}"]
  | .panic _ => #["load panic"]

end Obs
end Ase
