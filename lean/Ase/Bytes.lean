import Ase.Res
/-
  Byte sources and little-endian primitive readers (mirror of `src/reader.rs`).

  A reader is a state function `σ → Res (α × σ)` over an abstract source `σ` that offers
  one operation `read n` = "deliver exactly the next n bytes or fail" (`read_exact`,
  `take(n).read_to_end`).  Two sources exist: plain bytes (a chunk's own buffer, an in-memory
  file) and a scheduled stream (`Ase/Stream.lean`, property C14).
-/
namespace Ase

abbrev Bytes := List UInt8

/-- A byte source. `read n s` delivers exactly `n` bytes or an error. -/
structure Src (σ : Type) where
  read : Nat → σ → Res (Bytes × σ)

/-- Reader monad over a source state. -/
def RdS (σ α : Type) := σ → Res (α × σ)

namespace RdS
@[inline] def pure {σ α} (a : α) : RdS σ α := fun s => .ok (a, s)
@[inline] def bind {σ α β} (x : RdS σ α) (f : α → RdS σ β) : RdS σ β :=
  fun s => match x s with
    | .ok (a, s') => f a s'
    | .err e => .err e
    | .panic p => .panic p
instance {σ} : Monad (RdS σ) where
  pure := RdS.pure
  bind := RdS.bind
/-- Abort with an error. -/
@[inline] def fail {σ α} (e : Err) : RdS σ α := fun _ => .err e
/-- Lift a pure result. -/
@[inline] def lift {σ α} (r : Res α) : RdS σ α := fun s => r.map (·, s)

@[simp] theorem pure_run {σ α} (a : α) (s : σ) : (Pure.pure a : RdS σ α) s = .ok (a, s) := rfl
theorem bind_run {σ α β} (x : RdS σ α) (f : α → RdS σ β) (s : σ) :
    (x >>= f) s = match x s with
      | .ok (a, s') => f a s'
      | .err e => .err e
      | .panic p => .panic p := rfl
/-- The one rewriting lemma used by round-trip proofs. -/
theorem bind_ok {σ α β} {x : RdS σ α} {f : α → RdS σ β} {s s' : σ} {a : α}
    (h : x s = .ok (a, s')) : (x >>= f) s = f a s' := by
  simp [bind_run, h]
theorem bind_err {σ α β} {x : RdS σ α} {f : α → RdS σ β} {s : σ} {e : Err}
    (h : x s = .err e) : (x >>= f) s = .err e := by
  simp [bind_run, h]
theorem bind_panic {σ α β} {x : RdS σ α} {f : α → RdS σ β} {s : σ} {p : Site}
    (h : x s = .panic p) : (x >>= f) s = .panic p := by
  simp [bind_run, h]
@[simp] theorem fail_run {σ α} (e : Err) (s : σ) : (fail e : RdS σ α) s = .err e := rfl
@[simp] theorem lift_ok {σ α} (a : α) (s : σ) : (lift (.ok a) : RdS σ α) s = .ok (a, s) := rfl
@[simp] theorem lift_err {σ α} (e : Err) (s : σ) : (lift (.err e) : RdS σ α) s = .err e := rfl
end RdS

/-- Plain bytes as a source: `read_exact` on a `Cursor<&[u8]>`. -/
def bytesRead (n : Nat) (bs : Bytes) : Res (Bytes × Bytes) :=
  if n ≤ bs.length then .ok (bs.take n, bs.drop n) else .err (.io .unexpectedEof)

/-- single-pass implementation of `bytesRead` (the definition above measures the whole
    remaining input on every read); installed for compiled code by the `csimp` theorem below -/
def takeExactAux : Nat → Bytes → Bytes → Option (Bytes × Bytes)
  | 0, acc, bs => some (acc.reverse, bs)
  | _ + 1, _, [] => none
  | n + 1, acc, b :: bs => takeExactAux n (b :: acc) bs

def bytesReadFast (n : Nat) (bs : Bytes) : Res (Bytes × Bytes) :=
  match takeExactAux n [] bs with
  | some r => .ok r
  | none => .err (.io .unexpectedEof)

theorem takeExactAux_eq : ∀ (n : Nat) (acc bs : Bytes),
    takeExactAux n acc bs =
      if n ≤ bs.length then some (acc.reverse ++ bs.take n, bs.drop n) else none := by
  intro n
  induction n with
  | zero => intro acc bs; simp [takeExactAux]
  | succ n ih =>
      intro acc bs
      cases bs with
      | nil => simp [takeExactAux]
      | cons b t =>
          simp only [takeExactAux, ih, List.length_cons, Nat.add_le_add_iff_right, List.reverse_cons,
            List.append_assoc, List.singleton_append, List.take_succ_cons, List.drop_succ_cons]

@[csimp] theorem bytesRead_eq_fast : @bytesRead = @bytesReadFast := by
  funext n bs
  unfold bytesRead bytesReadFast
  rw [takeExactAux_eq]
  split <;> simp

def bytesSrc : Src Bytes := ⟨bytesRead⟩

/-- Readers over a chunk's own buffer. -/
abbrev Rd (α : Type) := RdS Bytes α

def le16 (a b : UInt8) : UInt16 := UInt16.ofNat (a.toNat + 256 * b.toNat)
def le32 (a b c d : UInt8) : UInt32 :=
  UInt32.ofNat (a.toNat + 256 * b.toNat + 65536 * c.toNat + 16777216 * d.toNat)

section readers
variable {σ : Type} (S : Src σ)

def readN (n : Nat) : RdS σ Bytes := S.read n

def readU8 : RdS σ UInt8 := do
  let b ← S.read 1
  pure (b.getD 0 0)

def readU16 : RdS σ UInt16 := do
  let b ← S.read 2
  pure (le16 (b.getD 0 0) (b.getD 1 0))

def readI16 : RdS σ Int16 := do
  let v ← readU16 S
  pure v.toInt16

def readU32 : RdS σ UInt32 := do
  let b ← S.read 4
  pure (le32 (b.getD 0 0) (b.getD 1 0) (b.getD 2 0) (b.getD 3 0))

def readI32 : RdS σ Int32 := do
  let v ← readU32 S
  pure v.toInt32

/-- `skip_reserved(n)`: reads and discards. -/
def skip (n : Nat) : RdS σ Unit := do
  let _ ← S.read n
  pure ()

/-- Rust's `String::from_utf8` accepts exactly well-formed UTF-8. -/
def validUtf8 (bs : Bytes) : Bool := ByteArray.validateUTF8 ⟨bs.toArray⟩

/-- `AseReader::string`: u16 length, bytes, UTF-8 validation (`InvalidInput` on failure).
    The string is kept as its bytes. -/
def readString : RdS σ Bytes := do
  let len ← readU16 S
  let b ← S.read len.toNat
  if validUtf8 b then pure b else RdS.fail .invalid

end readers

/-- Everything that is left (`take_bytes` / the input handed to the inflater). -/
def readRest : Rd Bytes := fun bs => .ok (bs, [])

/-- Little-endian encoders (used by the spec layer and by round-trip lemmas). -/
def u8 (x : UInt8) : Bytes := [x]
def u16le (x : UInt16) : Bytes := [UInt8.ofNat (x.toNat % 256), UInt8.ofNat (x.toNat / 256)]
def i16le (x : Int16) : Bytes := u16le x.toUInt16
def u32le (x : UInt32) : Bytes :=
  [UInt8.ofNat (x.toNat % 256), UInt8.ofNat (x.toNat / 256 % 256),
   UInt8.ofNat (x.toNat / 65536 % 256), UInt8.ofNat (x.toNat / 16777216)]
def i32le (x : Int32) : Bytes := u32le x.toUInt32
def zeros (n : Nat) : Bytes := List.replicate n 0
/-- length-prefixed string; the caller guarantees `s.length < 65536`. -/
def strle (s : Bytes) : Bytes := u16le (UInt16.ofNat s.length) ++ s

end Ase
