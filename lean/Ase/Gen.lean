import Ase.Spec.Encode
import Ase.Inflate
/-
  Type-directed generator of well-formed `Program`s (DESIGN 4.3).  Every random choice derives
  from one splitmix64 state, so a case regenerates exactly from (profile, seed, index).
-/
namespace Ase.Gen
open Ase Ase.Spec

structure Rng where
  s : UInt64

def Rng.next (r : Rng) : UInt64 × Rng :=
  let s := r.s + 0x9E3779B97F4A7C15
  let z := (s ^^^ (s >>> 30)) * 0xBF58476D1CE4E5B9
  let z := (z ^^^ (z >>> 27)) * 0x94D049BB133111EB
  (z ^^^ (z >>> 31), ⟨s⟩)

abbrev G := StateM Rng

def u64 : G UInt64 := modifyGet Rng.next
def below (n : Nat) : G Nat := do
  let x ← u64
  pure (if n == 0 then 0 else x.toNat % n)
def range (lo hi : Nat) : G Nat := do
  let x ← below (hi - lo + 1)
  pure (lo + x)
def chance (num den : Nat) : G Bool := do
  let x ← below den
  pure (x < num)
def pick {α} [Inhabited α] (xs : List α) : G α := do
  let i ← below xs.length
  pure (xs.getD i default)
def byte : G UInt8 := do
  let x ← u64
  pure (UInt8.ofNat (x.toNat % 256))
/-- bytes biased to boundary values -/
def edgeByte : G UInt8 := do
  if ← chance 1 2 then pick [0, 1, 127, 128, 254, 255] else byte
def bytesN : Nat → G Bytes
  | 0 => pure []
  | n + 1 => do
      let b ← byte
      let r ← bytesN n
      pure (b :: r)
def u16 : G UInt16 := do
  if ← chance 1 3 then pick [0, 1, 255, 256, 32767, 32768, 65534, 65535]
  else do let x ← u64; pure (UInt16.ofNat (x.toNat % 65536))
def i16 : G Int16 := do
  let x ← u16
  pure x.toInt16
def u32 : G UInt32 := do
  if ← chance 1 3 then pick [0, 1, 65535, 65536, 2147483647, 2147483648, 4294967294, 4294967295]
  else do let x ← u64; pure (UInt32.ofNat (x.toNat % 4294967296))
def i32 : G Int32 := do
  let x ← u32
  pure x.toInt32
def rgbaG : G RGBA := do
  pure ⟨← edgeByte, ← edgeByte, ← edgeByte, ← edgeByte⟩

def utf8 (s : String) : Bytes := s.toUTF8.data.toList

def nameG : G Bytes := do
  let k ← below 23
  match k with
  -- strings a normalising decoder would change: byte order mark, surrounding white space, NUL,
  -- case-mapping and normalisation-sensitive characters, the ends of the scalar-value ranges
  | 12 => pure (utf8 "\uFEFFdup")
  | 13 => pure (utf8 "\uFEFF")
  | 14 => pure (utf8 "  padded \t")
  | 15 => pure (utf8 "a\x00b")
  | 16 => pure (utf8 "İSTANBUL ß ǅ")
  | 17 => pure (utf8 "e\u0301")
  | 18 => pure (utf8 "\r\n")
  | 19 => pure (utf8 (String.ofList [Char.ofNat 0xD7FF, Char.ofNat 0xE000, Char.ofNat 0xFFFF, Char.ofNat 0x10FFFF]))
  | 20 => pure (utf8 "dup\uFEFF")
  | 21 => pure (utf8 "sky\x00")
  | 22 => pure (utf8 "\x00\x00")
  | 0 => pure []
  | 1 => pure (utf8 "a")
  | 2 => pure (utf8 "Layer 1")
  | 3 => pure (utf8 "é")
  | 4 => pure (utf8 "€uro")
  | 5 => pure (utf8 "😀x")
  | 6 => pure (List.replicate 300 120)
  | 7 => pure (utf8 "dup")
  | 8 => pure (utf8 "dup")
  | 10 => pure (utf8 "日本語のノートはここに長く書かれています、四十バイトを超えて")   -- multi-byte text > 40 bytes
  | 11 => pure (utf8 "ab日本語のノートはここに長く書かれています")
  | _ => do
      let n ← range 1 12
      let cs ← (List.range n).mapM (fun _ => do let c ← range 32 126; pure (UInt8.ofNat c))
      pure cs

def padG (allow : Bool) : G Bytes := do
  if allow then
    if ← chance 1 4 then do let n ← range 1 5; bytesN n else pure []
  else pure []

structure Cfg where
  maxW : Nat := 12
  maxH : Nat := 10
  maxFrames : Nat := 4
  maxLayers : Nat := 5
  maxTags : Nat := 16
  maxSlices : Nat := 2
  maxKeys : Nat := 3
  tilesets : Bool := true
  tags : Bool := true
  slices : Bool := true
  userData : Bool := true
  oldPalette : Bool := true
  extFiles : Bool := true
  padding : Bool := true
  ignorable : Bool := true
  permuteCels : Bool := true
  zlib : Bool := true
  groups : Bool := true
  /-- force this pixel format (0 any, 8, 16, 32) -/
  depth : Nat := 0
  /-- all 19 blend modes (else Normal only) -/
  blendModes : Bool := true
  /-- indexed sprites whose only palette is a (possibly sparse, multi-packet) legacy chunk -/
  legacyOnly : Bool := false
  deriving Repr, Inhabited

def bppOf (depth : Nat) : Nat := depth / 8

/-- raw pixel bytes for `n` pixels; indexed pixels drawn from the palette ids `first..first+count-1` -/
def pixelsG (depth : Nat) (ids : List Nat) (n : Nat) : G Bytes := do
  if depth == 8 then
    (List.range n).mapM (fun _ => do
      let i ← below ids.length
      pure (UInt8.ofNat (ids.getD i 0)))
  else if depth == 16 then do
    let l ← (List.range n).mapM (fun _ => do
      let v ← edgeByte
      let a ← edgeByte
      pure [v, a])
    pure l.flatten
  else do
    let l ← (List.range n).mapM (fun _ => do
      let c ← rgbaG
      pure [c.r, c.g, c.b, c.a])
    pure l.flatten

def userDataG : G Item := do
  let flags ← below 4
  let hi ← if ← chance 1 4 then (do let x ← below 1000; pure (x * 4)) else pure 0
  pure (.userData (UInt32.ofNat (flags + hi)) (← nameG) (← rgbaG))

def maybeUD (cfg : Cfg) (pad : Bool) : G (List ChunkSpec) := do
  if cfg.userData then
    if ← chance 1 3 then do
      let ig ← if cfg.ignorable then
          (do if ← chance 1 4 then
                pure [ChunkSpec.mk (.ignorable (← pick [0x2006, 0x2016, 0x2017]) (← bytesN (← below 9))) []]
              else pure []) else pure []
      pure (ig ++ [⟨← userDataG, ← padG pad⟩])
    else pure []
  else pure []

/-- child levels of a forest: first 0, each at most one more than its predecessor -/
def levelsG : Nat → Nat → G (List Nat)
  | 0, _ => pure []
  | n + 1, prev => do
      let l ← below (prev + 2)
      let rest ← levelsG n l
      pure (l :: rest)

def shuffle {α} [Inhabited α] (xs : List α) : G (List α) := do
  let mut arr := xs.toArray
  let n := arr.size
  for i in [0:n] do
    let j ← range i (n - 1)
    let a := arr[i]!
    let b := arr[j]!
    arr := (arr.set! i b).set! j a
  pure arr.toList

structure LayerPlan where
  ltype : Nat
  tileset : Nat
  deriving Repr, Inhabited

/-- A well-formed program. -/
def programG (cfg : Cfg) : G Program := do
  let depth ← if cfg.depth != 0 then pure cfg.depth else pick [8, 16, 32, 32]
  let w ← if ← chance 1 20 then pure 1 else range 1 cfg.maxW
  let h ← if ← chance 1 20 then pure 1 else range 1 cfg.maxH
  let nFrames ← range 1 cfg.maxFrames
  let pad := cfg.padding
  -- sometimes every tag / slice / layer name is empty (the smallest possible entries)
  let noNames ← chance 1 10
  let nm : G Bytes := if noNames then pure [] else nameG
  -- palette
  let palFirst ← if depth == 8 then (do if ← chance 1 3 then range 1 40 else pure 0) else pure 0
  let palCount ← range 1 20
  let tci ← if ← chance 1 2 then (do let i ← below palCount; pure (UInt8.ofNat (palFirst + i))) else byte
  let hasNewPal ← if cfg.legacyOnly then pure false else if depth == 8 then pure true else chance 1 2
  let hasOldPal ← if cfg.legacyOnly then pure true else if cfg.oldPalette then chance 1 3 else pure false
  let palEntries ← (List.range palCount).mapM (fun _ => do
    let hasName ← chance 1 4
    let hi ← if ← chance 1 4 then (do let x ← below 100; pure (x * 2)) else pure 0
    pure (PalEntrySpec.mk (UInt16.ofNat ((if hasName then 1 else 0) + hi)) (← rgbaG) (← nameG)))
  -- sometimes several palette ids carry the same colour (also the colour of the transparent index)
  let dupColours ← chance 1 3
  let palEntries : List PalEntrySpec := if dupColours then
      (palEntries.zipIdx.map (fun ((e : PalEntrySpec), (i : Nat)) =>
        if i % 3 == 1 then PalEntrySpec.mk e.flags (palEntries.getD (i - 1) e).rgba e.name else e))
    else palEntries
  let newPal : Item := .palette (← u32) (UInt32.ofNat palFirst) (← bytesN 8) palEntries
  let oldScaled ← chance 1 2
  let oldPackets ← (do
    let np ← range 1 3
    (List.range np).mapM (fun _ => do
      let skip ← below 7
      let cnt ← if ← chance 1 10 then pure 256 else range 1 6
      let cols ← (List.range cnt).mapM (fun _ => do
        if oldScaled then
          pure (UInt8.ofNat (← pick [0, 1, 31, 32, 62, 63, (← below 64)]),
                UInt8.ofNat (← below 64), UInt8.ofNat (← below 64))
        else pure (← edgeByte, ← byte, ← byte))
      pure (UInt8.ofNat skip, cols)))
  let oldPal : Item := .oldPalette oldScaled oldPackets
  -- palette ids usable by indexed pixels: the new palette's range, or (legacy only) the union of
  -- the packets' ranges at the cumulative skip offsets, restricted to byte-sized ids
  let legacyIds : List Nat := Id.run do
    let mut skip := 0
    let mut ids : List Nat := []
    for (sk, cols) in oldPackets do
      skip := skip + sk.toNat
      ids := ids ++ (List.range cols.length).map (· + skip)
    pure ((ids.filter (· < 256)).eraseDups)
  let palIds : List Nat :=
    if hasNewPal then (List.range palCount).map (· + palFirst) else legacyIds
  -- palette chunks may sit in a later frame (the last palette decoded is the sprite's)
  let newPalLate ← if nFrames > 1 then chance 1 5 else pure false
  let oldPalLate ← if nFrames > 1 && !hasNewPal then chance 1 5 else pure false
  -- tilesets
  let nTilesets ← if cfg.tilesets then (do if ← chance 1 2 then range 1 2 else pure 0) else pure 0
  let bpp := bppOf depth
  let tilesetSpecs ← (List.range nTilesets).mapM (fun i => do
    let tw ← range 1 5
    let th ← range 1 4
    let count ← range 1 5
    let px ← pixelsG depth palIds (count * tw * th)
    let hasExt ← chance 1 4
    let flagsHi ← if ← chance 1 4 then (do let x ← below 50; pure (x * 8)) else pure 0
    let emptyZero ← chance 3 4
    let id ← if ← chance 1 5 then range 100 70000 else pure i
    pure (TilesetSpec.mk (UInt32.ofNat id)
            (UInt32.ofNat ((if hasExt then 1 else 0) + 2 + (if emptyZero then 4 else 0) + flagsHi))
            (UInt32.ofNat count) (UInt16.ofNat tw) (UInt16.ofNat th) (← i16) (← bytesN 14) (← nameG)
            (← u32) (← u32) (← u32) px (Zlib.deflateStored px)))
  let _ := bpp
  -- layers
  let nLayers ← range 1 cfg.maxLayers
  let levels ← if cfg.groups then levelsG nLayers 0 else pure (List.replicate nLayers 0)
  let levels := match levels with | [] => [] | _ :: t => 0 :: t
  let layerPlans ← (List.range nLayers).mapM (fun _ => do
    let k ← below 10
    if k < 2 && cfg.groups then pure (LayerPlan.mk 1 0)
    else if k < 5 && nTilesets > 0 then do
      let t ← below nTilesets
      pure (LayerPlan.mk 2 t)
    else pure (LayerPlan.mk 0 0))
  let layerItems ← (List.range nLayers).mapM (fun i => do
    let plan := layerPlans.getD i default
    let vis ← chance 4 5
    let bg ← chance 1 6
    let other ← below 128
    let hiBits ← if ← chance 1 4 then (do let x ← below 512; pure (x * 128)) else pure 0
    let flags := (if vis then 1 else 0) + (if bg then 8 else 0) + (other / 2 % 4) * 2 +
                 (other / 16) * 16 + hiBits
    let blend ← if cfg.blendModes then below 19 else pure 0
    let tsId := ((tilesetSpecs.getD plan.tileset default).id)
    pure (LayerSpec.mk (UInt16.ofNat flags) (UInt16.ofNat plan.ltype)
            (UInt16.ofNat (levels.getD i 0)) (← u16) (← u16) (UInt16.ofNat blend) (← edgeByte)
            (← byte) (← u16) (← nm) tsId))
  -- cels: decide per (frame, layer) what exists; raw cels first so that links have targets
  let mut celKinds : Array (Array Nat) := Array.replicate nFrames (Array.replicate nLayers 0)
  for f in [0:nFrames] do
    for l in [0:nLayers] do
      let plan := layerPlans.getD l default
      let k ← below 10
      -- 0 none, 1 raw, 2 zlib, 3 linked, 4 tilemap
      let kind :=
        if plan.ltype == 2 then (if k < 7 then 4 else if k < 8 then 1 else 0)
        else if plan.ltype == 1 then (if k < 1 then 1 else 0)
        else (if k < 2 then 0 else if k < 5 then 1 else if k < 8 then 2 else 3)
      let kind := if kind == 2 && !cfg.zlib then 1 else kind
      celKinds := celKinds.set! f ((celKinds[f]!).set! l kind)
  -- a link needs a raw/zlib target in another frame of the same layer
  for f in [0:nFrames] do
    for l in [0:nLayers] do
      if (celKinds[f]!)[l]! == 3 then
        let targets := (List.range nFrames).filter (fun g => g != f &&
          ((celKinds[g]!)[l]! == 1 || (celKinds[g]!)[l]! == 2))
        if targets.isEmpty then
          celKinds := celKinds.set! f ((celKinds[f]!).set! l 1)
  let mut frames : Array FrameSpec := #[]
  for f in [0:nFrames] do
    let mut chunks : List ChunkSpec := []
    if f == 0 then
      if cfg.ignorable then
        if ← chance 1 2 then
          chunks := chunks ++ [⟨.colorProfile (UInt16.ofNat (← below 2)) (UInt16.ofNat ((← below 100) * 2)) (← u32) (← bytesN 8), ← padG pad⟩]
      let palFirstOrder ← chance 1 2
      if hasOldPal && palFirstOrder && !oldPalLate then
        chunks := chunks ++ [⟨oldPal, ← padG pad⟩] ++ (← maybeUD cfg pad)
      if hasNewPal && !newPalLate then chunks := chunks ++ [⟨newPal, ← padG pad⟩]
      if hasOldPal && !palFirstOrder && !oldPalLate then
        chunks := chunks ++ [⟨oldPal, ← padG pad⟩] ++ (← maybeUD cfg pad)
      if cfg.extFiles then
        if ← chance 1 4 then
          let n ← range 0 3
          let fs ← (List.range n).mapM (fun _ => do
            let id ← if ← chance 1 2 then below 3 else (do let x ← u32; pure x.toNat)
            pure (UInt32.ofNat id, ← bytesN 8, ← nameG))
          chunks := chunks ++ [⟨.extFiles (← bytesN 8) fs, ← padG pad⟩]
      for t in tilesetSpecs do
        chunks := chunks ++ [⟨.tileset t, ← padG pad⟩]
      -- external-file entries may be spread over several chunks
      if cfg.extFiles then
        if ← chance 1 6 then
          let fs ← (List.range (← range 1 3)).mapM (fun _ => do
            let id ← if ← chance 1 2 then below 5 else (do let x ← u32; pure x.toNat)
            pure (UInt32.ofNat id, ← bytesN 8, ← nameG))
          chunks := chunks ++ [⟨.extFiles (← bytesN 8) fs, ← padG pad⟩]
      for l in layerItems do
        chunks := chunks ++ [⟨.layer l, ← padG pad⟩] ++ (← maybeUD cfg pad)
      if cfg.tags then
        if ← chance 1 2 then
          let n ← range 0 cfg.maxTags
          let ts ← (List.range n).mapM (fun _ => do
            pure (TagSpec.mk (← u16) (← u16) (UInt8.ofNat (← below 3))
                    (← pick [0, 1, 65535, (← u16)]) (← bytesN 6) (← u32) (← nm)))
          chunks := chunks ++ [⟨.tags (← bytesN 8) ts, ← padG pad⟩]
          -- at most n user data records follow
          if cfg.userData then
            let k ← below (n + 1)
            for _ in [0:k] do
              chunks := chunks ++ [⟨← userDataG, ← padG pad⟩]
      if cfg.slices then
        let n ← below (cfg.maxSlices + 1)
        for _ in [0:n] do
          let flags ← below 4
          let hi ← if ← chance 1 4 then (do let x ← below 100; pure (x * 4)) else pure 0
          let nk ← below (cfg.maxKeys + 1)
          let keys ← (List.range nk).mapM (fun _ => do
            pure (← u32, ← i32, ← i32, ← u32, ← u32, Slice9.mk (← i32) (← i32) (← u32) (← u32),
                  (← i32, ← i32)))
          chunks := chunks ++ [⟨.slice ⟨UInt32.ofNat (flags + hi), ← u32, ← nm, keys⟩, ← padG pad⟩]
                      ++ (← maybeUD cfg pad)
    if f == 1 then
      if hasNewPal && newPalLate then chunks := chunks ++ [⟨newPal, ← padG pad⟩]
      if hasOldPal && oldPalLate then
        chunks := chunks ++ [⟨oldPal, ← padG pad⟩] ++ (← maybeUD cfg pad)
    -- a tags chunk outside the first frame is ignored (and does not touch the user-data context)
    let lateTags ← if f != 0 && cfg.tags then chance 1 8 else pure false
    let lateTagsFirst ← chance 1 2
    let lateTagChunk : List ChunkSpec ← if lateTags then (do
        let ts ← (List.range (← range 1 2)).mapM (fun _ => do
          pure (TagSpec.mk (← u16) (← u16) (UInt8.ofNat (← below 3)) (← u16) (← bytesN 6) (← u32) (← nameG)))
        pure [ChunkSpec.mk (.tags (← bytesN 8) ts) (← padG pad)]) else pure []
    if lateTagsFirst then chunks := chunks ++ lateTagChunk
    if f != 0 && cfg.extFiles then
      if ← chance 1 10 then
        let id ← below 6
        chunks := chunks ++ [⟨.extFiles (← bytesN 8) [(UInt32.ofNat id, ← bytesN 8, ← nameG)], ← padG pad⟩]
    -- cels of this frame
    let mut celGroups : List (List ChunkSpec) := []
    for l in [0:nLayers] do
      let kind := (celKinds[f]!)[l]!
      if kind != 0 then
        let plan := layerPlans.getD l default
        let fullCanvas ← chance 1 5
        let x ← if fullCanvas then pure 0 else if ← chance 1 6 then i16 else
          (do let v ← below (w + 8); pure (Int16.ofInt ((v : Int) - 4)))
        let y ← if fullCanvas then pure 0 else if ← chance 1 6 then i16 else
          (do let v ← below (h + 8); pure (Int16.ofInt ((v : Int) - 4)))
        let body ← (do
          if kind == 4 then do
            let ts := tilesetSpecs.getD plan.tileset default
            let mw ← range 0 4
            let mh ← range 0 3
            let hiMask ← chance 1 3
            let mask : TileBitmask :=
              if hiMask then ⟨0x1fffffff, 0x20000000, 0x40000000, 0x80000000⟩
              else ⟨0xffffffff, 0, 0, 0⟩
            let tiles ← (List.range (mw * mh)).mapM (fun _ => do
              let id ← below ts.count.toNat
              let fl ← if hiMask then below 8 else pure 0
              pure (UInt32.ofNat (id + fl * 0x20000000)))
            let raw := (tiles.map u32le).flatten
            pure (CelBody.tilemap (UInt16.ofNat mw) (UInt16.ofNat mh) mask tiles (Zlib.deflateStored raw))
          else if kind == 3 then do
            let targets := (List.range nFrames).filter (fun g => g != f &&
              ((celKinds[g]!)[l]! == 1 || (celKinds[g]!)[l]! == 2))
            pure (CelBody.linked (UInt16.ofNat (← pick targets)))
          else do
            -- rarely a cel without pixels (a zero dimension is allowed)
            let cw ← if ← chance 1 25 then pure 0 else range 1 (w + 3)
            let chh ← if ← chance 1 25 then pure 0 else range 1 (h + 3)
            -- often exactly the canvas (what Aseprite writes for a filled layer)
            let (cw, chh) := if fullCanvas then (w, h) else (cw, chh)
            let px ← pixelsG depth palIds (cw * chh)
            -- sometimes every pixel of the cel is opaque
            let opq ← chance 1 4
            let px := if !opq then px else
              if depth == 32 then px.zipIdx.map (fun (b, i) => if i % 4 == 3 then 255 else b)
              else if depth == 16 then px.zipIdx.map (fun (b, i) => if i % 2 == 1 then 255 else b)
              else px
            pure (CelBody.image (UInt16.ofNat cw) (UInt16.ofNat chh) px
                    (if kind == 2 then some (Zlib.deflateStored px) else none)))
        -- tile-aligned offsets for tilemap cels
        let (x, y) ← (do
          if kind == 4 then do
            let ts := tilesetSpecs.getD plan.tileset default
            let ox ← below 7
            let oy ← below 7
            -- mostly tile-aligned (C08's quantifier); sometimes any pixel offset (C02, C06)
            let jx ← if ← chance 1 4 then below ts.tw.toNat else pure 0
            let jy ← if ← chance 1 4 then below ts.th.toNat else pure 0
            pure (Int16.ofInt (((ox : Int) - 3) * ts.tw.toNat + jx), Int16.ofInt (((oy : Int) - 3) * ts.th.toNat + jy))
          else pure (x, y))
        let cel : ChunkSpec := ⟨.cel ⟨UInt16.ofNat l, x, y, ← edgeByte, ← bytesN 7, body⟩, ← padG pad⟩
        let extra ← (do
          if cfg.ignorable then
            if ← chance 1 5 then pure [ChunkSpec.mk (.ignorable 0x2006 (← bytesN 20)) []] else pure []
          else pure [])
        celGroups := celGroups ++ [[cel] ++ extra ++ (← maybeUD cfg pad)]
    let shuffled ← if cfg.permuteCels then shuffle celGroups else pure celGroups
    -- the late tags chunk in the middle of the cel chunks (chunks must keep being read after it)
    let flat := shuffled.flatten
    let cut ← below (flat.length + 1)
    chunks := chunks ++ (if lateTagsFirst then flat else flat.take cut ++ lateTagChunk ++ flat.drop cut)
    let oldOnly ← chance 1 2
    let slack ← if ← chance 1 4 then below 1000 else pure 0
    frames := frames.push ⟨← pick [0, 1, 100, 65535, (← u16)], oldOnly, ← u16, ← u16,
                           UInt32.ofNat slack, chunks⟩
  let ratio ← pick [(0, 0), (1, 1), (0, 5), (7, 0), (1, 1), (1, 1)]
  let header : HeaderSpec :=
    { fileSize := ← u32, width := UInt16.ofNat w, height := UInt16.ofNat h,
      depth := UInt16.ofNat depth, flags := ← u32, speed := ← u16, ph1 := ← u32, ph2 := ← u32,
      tci := tci, ign1 := ← byte, ign2 := ← u16, numColors := ← u16,
      pixelW := UInt8.ofNat ratio.1, pixelH := UInt8.ofNat ratio.2,
      gridX := ← i16, gridY := ← i16, gridW := ← u16, gridH := ← u16, reserved := ← bytesN 84 }
  let trailer ← if pad then (do if ← chance 1 4 then bytesN (← range 1 40) else pure []) else pure []
  pure ⟨header, frames.toList, trailer⟩

def run {α} (seed : Nat) (g : G α) : α := (g.run ⟨UInt64.ofNat seed⟩).1

end Ase.Gen

namespace Ase.Gen
open Ase Ase.Spec

def edgeOrAny : G UInt8 := do
  if ← chance 2 3 then pick [0, 1, 2, 63, 64, 127, 128, 129, 191, 192, 253, 254, 255] else byte

/-- pixel for blend enumerations: alpha often 0 / 255, channels biased to boundaries, grey and
    near-grey colours, and r == g < b (the set_sat aliasing case) -/
def blendPixel : G RGBA := do
  let k ← below 12
  let a ← (do let j ← below 6; if j == 0 then pure (0 : UInt8) else if j ≤ 2 then pure 255 else edgeOrAny)
  if k == 0 then do let v ← edgeOrAny; pure ⟨v, v, v, a⟩
  else if k == 1 then do
    let v ← edgeOrAny
    let w ← edgeOrAny
    pure ⟨v, v, w, a⟩
  else if k == 2 then do
    let v ← edgeOrAny
    let w ← edgeOrAny
    pure ⟨v, w, w, a⟩
  else if k == 3 then do
    let v ← range 1 254
    pure ⟨UInt8.ofNat v, UInt8.ofNat (v + 1), UInt8.ofNat (v - 1), a⟩
  else pure ⟨← edgeOrAny, ← edgeOrAny, ← edgeOrAny, a⟩

def rgbaBytes (px : List RGBA) : Bytes := (px.map (fun c => [c.r, c.g, c.b, c.a])).flatten

/-- two-layer RGBA sprite whose cels enumerate pixel pairs: layer 0 (Normal, opaque) holds the
    backdrops, layer 1 (blend mode `mode`, opacities `lop`/`cop`) the sources -/
def blendProgram (mode lop cop w h : Nat) (back src : List RGBA) : Program :=
  let hdr : HeaderSpec :=
    { fileSize := 0, width := UInt16.ofNat w, height := UInt16.ofNat h, depth := 32,
      -- the header flag word is not interpreted by the library: vary it
      flags := [1, 3, 7, 0, 0xFFFFFFFF].getD ((mode + lop + cop) % 5) 1,
      speed := 100, ph1 := 0, ph2 := 0, tci := 0, ign1 := 0, ign2 := 0, numColors := 0,
      pixelW := 1, pixelH := 1, gridX := 0, gridY := 0, gridW := 16, gridH := 16,
      reserved := zeros 84 }
  let layer (blend op : Nat) : ChunkSpec :=
    ⟨.layer ⟨1, 0, 0, 0, 0, UInt16.ofNat blend, UInt8.ofNat op, 0, 0, utf8 "L", 0⟩, []⟩
  let cel (l op : Nat) (px : List RGBA) : ChunkSpec :=
    ⟨.cel ⟨UInt16.ofNat l, 0, 0, UInt8.ofNat op, zeros 7,
           .image (UInt16.ofNat w) (UInt16.ofNat h) (rgbaBytes px) none⟩, []⟩
  ⟨hdr, [⟨100, false, 4, 0, 0, [layer 0 255, layer mode lop, cel 0 255 back, cel 1 cop src]⟩], []⟩

/-- the same enumeration with the source layer stored as a TILEMAP layer: one 1x1 tile per
    source pixel (tile 0 is the empty tile), so that the blend dispatch of the tilemap renderer is
    exercised with the same pixel pairs -/
def blendProgramTiles (mode lop cop w h : Nat) (back src : List RGBA) : Program :=
  let base := blendProgram mode lop cop w h back src
  let n := w * h
  let tilePx := rgbaBytes (RGBA.zero :: src)
  let ts : TilesetSpec :=
    { id := 0, flags := 2 + 4, count := UInt32.ofNat (n + 1), tw := 1, th := 1, base := 1,
      reserved := zeros 14, name := utf8 "ts", extFile := 0, extTileset := 0, clen := 0,
      pixels := tilePx, z := Zlib.deflateStored tilePx }
  let tiles : List UInt32 := (List.range n).map (fun i => UInt32.ofNat (i + 1))
  let tileBytes := (tiles.map u32le).flatten
  let layer (blend op ltype : Nat) : ChunkSpec :=
    ⟨.layer ⟨1, UInt16.ofNat ltype, 0, 0, 0, UInt16.ofNat blend, UInt8.ofNat op, 0, 0, utf8 "L", 0⟩, []⟩
  let cel0 : ChunkSpec :=
    ⟨.cel ⟨0, 0, 0, 255, zeros 7, .image (UInt16.ofNat w) (UInt16.ofNat h) (rgbaBytes back) none⟩, []⟩
  let cel1 : ChunkSpec :=
    ⟨.cel ⟨1, 0, 0, UInt8.ofNat cop, zeros 7,
           .tilemap (UInt16.ofNat w) (UInt16.ofNat h) ⟨0xffffffff, 0, 0, 0⟩ tiles (Zlib.deflateStored tileBytes)⟩, []⟩
  { base with frames := [⟨100, false, 5, 0, 0, [⟨.tileset ts, []⟩, layer 0 255 0, layer mode lop 2, cel0, cel1]⟩] }

def blendPixelsG (n : Nat) : G (List RGBA × List RGBA) := do
  let back ← (List.range n).mapM (fun _ => blendPixel)
  -- every sixth source is the backdrop itself, opaque or with its own alpha (a layer duplicated
  -- over itself: equal luminosity / saturation on both sides of the non-separable modes)
  let src ← back.mapM (fun b => do
    let k ← below 12
    if k == 0 then pure b
    else if k == 1 then pure { b with a := 255 }
    else blendPixel)
  pure (back, src)

end Ase.Gen

namespace Ase.Gen
open Ase Ase.Spec

/-- is this chunk free of user-data context effects (may be inserted / removed anywhere) -/
def isNoopItem : Item → Bool
  | .colorProfile _ _ _ _ => true
  | .ignorable _ _ => true
  | _ => false

def noopChunkG : G ChunkSpec := do
  if ← chance 1 3 then
    pure ⟨.colorProfile (UInt16.ofNat (← below 2)) (UInt16.ofNat ((← below 100) * 2)) (← u32) (← bytesN 8), ← padG true⟩
  else
    pure ⟨.ignorable (← pick [0x2006, 0x2016, 0x2017]) (← bytesN (← below 12)), []⟩

/-- re-draw every representational choice of an item, keeping its meaning -/
def reencodeItem (depth : Nat) : Item → G Item
  | .layer l => do
      let hi ← if ← chance 1 2 then (do let x ← below 512; pure (x * 128)) else pure 0
      let rnd ← u32
      pure (.layer { l with flags := UInt16.ofNat (l.flags.toNat % 128 + hi), defW := ← u16, defH := ← u16,
                            res1 := ← byte, res2 := ← u16,
                            tileset := if l.ltype.toNat == 2 then l.tileset else rnd })
  | .cel c => do
      let body ← (match c.body with
        | .image w h px _ => do
            if ← chance 1 2 then pure (CelBody.image w h px none)
            else pure (CelBody.image w h px (some (Zlib.deflateStored px)))
        | b => pure b)
      pure (.cel { c with reserved := ← bytesN 7, body := body })
  | .tags _ ts => do
      let ts' ← ts.mapM (fun t => do pure { t with reserved := ← bytesN 6, color := ← u32 })
      pure (.tags (← bytesN 8) ts')
  | .slice s => do
      let hi ← if ← chance 1 2 then (do let x ← below 100; pure (x * 4)) else pure 0
      pure (.slice { s with flags := UInt32.ofNat (s.flags.toNat % 4 + hi), reserved := ← u32 })
  | .palette _ first _ es => do
      let es' ← es.mapM (fun e => do
        let hi ← if ← chance 1 2 then (do let x ← below 100; pure (x * 2)) else pure 0
        let nm ← nameG
        pure { e with flags := UInt16.ofNat (e.flags.toNat % 2 + hi),
                      name := if e.flags.toNat % 2 == 1 then e.name else nm })
      pure (.palette (← u32) first (← bytesN 8) es')
  | .userData f t c => do
      let hi ← if ← chance 1 2 then (do let x ← below 1000; pure (x * 4)) else pure 0
      let nm ← nameG
      let col ← rgbaG
      pure (.userData (UInt32.ofNat (f.toNat % 4 + hi)) (if f.toNat % 2 == 1 then t else nm)
              (if (f.toNat / 2) % 2 == 1 then c else col))
  | .extFiles _ fs => do
      let fs' ← fs.mapM (fun f => do pure (f.1, ← bytesN 8, f.2.2))
      pure (.extFiles (← bytesN 8) fs')
  | .tileset t => do
      let hi ← if ← chance 1 2 then (do let x ← below 50; pure (x * 8)) else pure 0
      let r1 ← u32
      let r2 ← u32
      pure (.tileset { t with flags := UInt32.ofNat (t.flags.toNat % 8 + hi), reserved := ← bytesN 14,
                              clen := ← u32,
                              extFile := if t.flags.toNat % 2 == 1 then t.extFile else r1,
                              extTileset := if t.flags.toNat % 2 == 1 then t.extTileset else r2 })
  | other => let _ := depth; pure other

/-- a program with the same meaning and fresh encoding choices: padding, raw/zlib, count field,
    slack, unused fields, pixel ratio, ignorable chunks, trailer -/
def reencode (p : Program) : G Program := do
  let depth := p.header.depth.toNat
  let frames ← p.frames.mapM (fun f => do
    let kept := f.chunks.filter (fun c => !isNoopItem c.item)
    let mut out : List ChunkSpec := []
    for c in kept do
      -- noop chunks may go anywhere (also between an entity and its user data)
      if ← chance 1 6 then out := out ++ [← noopChunkG]
      out := out ++ [⟨← reencodeItem depth c.item, ← padG true⟩]
    if ← chance 1 6 then out := out ++ [← noopChunkG]
    pure { f with oldCountOnly := ← chance 1 2, oldField := ← u16, ph := ← u16,
                  slack := UInt32.ofNat (← below 2000), chunks := out })
  let ratio ← pick [(0, 0), (1, 1), (0, 5), (7, 0), (1, 1), (0, 1), (1, 0)]
  let h := p.header
  let rb ← byte
  let header : HeaderSpec :=
    { h with fileSize := ← u32, flags := ← u32, speed := ← u16, ph1 := ← u32, ph2 := ← u32,
             tci := if depth == 8 then h.tci else rb,
             ign1 := ← byte, ign2 := ← u16, numColors := ← u16,
             pixelW := UInt8.ofNat ratio.1, pixelH := UInt8.ofNat ratio.2,
             gridX := ← i16, gridY := ← i16, gridW := ← u16, gridH := ← u16, reserved := ← bytesN 84 }
  let trailer ← if ← chance 1 2 then bytesN (← range 1 60) else pure []
  pure ⟨header, frames, trailer⟩

end Ase.Gen
