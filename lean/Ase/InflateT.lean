import Ase.Chunks
/-
  A total, kernel-reducible zlib (RFC 1950/1951) inflater: the driver's instance of the model's
  `inflate` parameter.  It follows zlib's `contrib/puff/puff.c`, written as plain structural
  recursion with explicit state passing: the input is a `ByteArray` plus a bit position, the
  output a `ByteArray` accumulator.  The three input-bounded loops of `puff` (`codes`, the
  code-length reader, `blocks`) take a fuel argument; `AseProofs/Lemmas/InflateT.lean` proves
  that the fuel handed out here is never exhausted (`ZErr.fuel` is never returned), the
  1032:1 expansion bound and the round trip of stored-block streams.

  One deliberate deviation from zlib, taken from the real decoder: flate2's streaming decoder
  (miniz_oxide) inflates into a zero-initialised 32 KiB circular dictionary and rejects only
  distances above 32768 (which cannot be encoded), so a match distance reaching before the
  start of the output is not an error: such bytes read as 0.

  Huffman tables are built from lists by counting and filtering (`construct`), the code
  lengths are accumulated in a reversed list.  What ties this decoder to flate2 is the INFLATE
  correspondence of the check run (valid streams of every level, truncations, corrupted
  streams); an earlier monadic port of puff with `partial` loops, which it replaced, agreed
  with it on 2096 test streams.
-/
namespace Ase.ZlibT

inductive ZErr where
  | eof        -- ran out of input (flate2: UnexpectedEof)
  | corrupt    -- anything else (flate2: InvalidInput "corrupt deflate stream")
  | fuel       -- a fuel argument ran out (proved unreachable from `inflateZlib`)
  deriving Repr, DecidableEq

/-- result of a step of the bit reader: a value and the new bit position, or an error -/
inductive R (α : Type) where
  | ok (a : α) (pos : Nat)
  | err (e : ZErr)

@[inline] def byteAt (data : ByteArray) (i : Nat) : Nat := (data.get! i).toNat

@[inline] def getBit (data : ByteArray) (pos : Nat) : R Nat :=
  if pos / 8 < data.size then .ok ((byteAt data (pos / 8) >>> (pos % 8)) % 2) (pos + 1)
  else .err .eof

/-- `n` bits, least significant first -/
def getBits (data : ByteArray) : Nat → Nat → R Nat
  | 0, pos => .ok 0 pos
  | n + 1, pos =>
      match getBit data pos with
      | .err e => .err e
      | .ok b pos1 =>
          match getBits data n pos1 with
          | .err e => .err e
          | .ok rest pos2 => .ok (b + 2 * rest) pos2

structure Huff where
  count : Array Nat     -- number of codes of each length 0..15
  symbol : Array Nat    -- symbols ordered by code

/-- `left` after lengths `len .. len+n-1` (and whether it ever went negative) -/
def leftLoop (count : Array Nat) : Nat → Nat → Int → Bool → Int × Bool
  | 0, _, left, bad => (left, bad)
  | n + 1, len, left, bad =>
      let left' := left * 2 - (count[len]! : Int)
      leftLoop count n (len + 1) left' (bad || decide (left' < 0))

/-- the positions `i, i+1, ..` of the entries equal to `len` -/
def symsOfLen (len : Nat) : List Nat → Nat → List Nat
  | [], _ => []
  | l :: t, i => if l == len then i :: symsOfLen len t (i + 1) else symsOfLen len t (i + 1)

/-- returns the table and `left` (< 0 over-subscribed, > 0 incomplete).
    `count[len]` is the number of symbols of code length `len`; `symbol` lists the coded
    symbols by code length, in symbol order within one length (canonical Huffman order). -/
def construct (ls : List Nat) : Huff × Int :=
  let count := ((List.range 16).map (fun len => ls.countP (· == len))).toArray
  let (left, bad) := leftLoop count 15 1 1 false
  let symbol := ((List.range' 1 15).flatMap (fun len => symsOfLen len ls 0)).toArray
  (⟨count, symbol⟩, if bad then -1 else left)

/-- canonical Huffman decoding, one bit per round, code lengths `len .. len+n-1` -/
def decodeLoop (data : ByteArray) (h : Huff) : Nat → Nat → Nat → Nat → Nat → Nat → R Nat
  | 0, _, _, _, _, _ => .err .corrupt
  | n + 1, len, code, first, index, pos =>
      match getBit data pos with
      | .err e => .err e
      | .ok b pos1 =>
          let code := code + b
          let cnt := h.count[len]!
          if code < first + cnt then .ok h.symbol[index + (code - first)]! pos1
          else decodeLoop data h n (len + 1) (code * 2) ((first + cnt) * 2) (index + cnt) pos1

def decodeSym (data : ByteArray) (h : Huff) (pos : Nat) : R Nat :=
  decodeLoop data h 15 1 0 0 0 pos

def lbase : Array Nat := #[3,4,5,6,7,8,9,10,11,13,15,17,19,23,27,31,35,43,51,59,67,83,99,115,131,163,195,227,258]
def lext : Array Nat := #[0,0,0,0,0,0,0,0,1,1,1,1,2,2,2,2,3,3,3,3,4,4,4,4,5,5,5,5,0]
def dbase : Array Nat := #[1,2,3,4,5,7,9,13,17,25,33,49,65,97,129,193,257,385,513,769,1025,1537,2049,3073,4097,6145,8193,12289,16385,24577]
def dext : Array Nat := #[0,0,0,0,1,1,2,2,3,3,4,4,5,5,6,6,7,7,8,8,9,9,10,10,11,11,12,12,13,13]

/-- append `n` bytes, each copied from `dist` bytes back (byte by byte, so the copy may
    overlap its own output).  A distance reaching before the start of the output is not an
    error: the streaming decoder copies from a zero-initialised window, such bytes read as 0. -/
def copyMatch (dist : Nat) : Nat → ByteArray → ByteArray
  | 0, out => out
  | n + 1, out =>
      copyMatch dist n (out.push (if out.size ≥ dist then out.get! (out.size - dist) else 0))

/-- outcome of one round of a fuelled loop: go on, finished, or error -/
inductive Step (α : Type) where
  | more (a : α) (pos : Nat)
  | done (a : α) (pos : Nat)
  | err (e : ZErr)

/-- one literal, end-of-block symbol or match of a compressed block -/
def codeStep (data : ByteArray) (lencode distcode : Huff) (out : ByteArray) (pos : Nat) :
    Step ByteArray :=
  match decodeSym data lencode pos with
  | .err e => .err e
  | .ok sym pos1 =>
      if sym < 256 then .more (out.push (UInt8.ofNat sym)) pos1
      else if sym == 256 then .done out pos1
      else
        let si := sym - 257
        if si ≥ 29 then .err .corrupt else
        match getBits data lext[si]! pos1 with
        | .err e => .err e
        | .ok ext pos2 =>
            match decodeSym data distcode pos2 with
            | .err e => .err e
            | .ok ds pos3 =>
                if ds ≥ 30 then .err .corrupt else
                match getBits data dext[ds]! pos3 with
                | .err e => .err e
                | .ok dx pos4 =>
                    .more (copyMatch (dbase[ds]! + dx) (lbase[si]! + ext) out) pos4

/-- the literal/length/distance loop of one compressed block -/
def codes (data : ByteArray) (lencode distcode : Huff) : Nat → ByteArray → Nat → R ByteArray
  | 0, _, _ => .err .fuel
  | fuel + 1, out, pos =>
      match codeStep data lencode distcode out pos with
      | .err e => .err e
      | .done out' pos' => .ok out' pos'
      | .more out' pos' => codes data lencode distcode fuel out' pos'

def fixedTables : Huff × Huff :=
  let lens := List.replicate 144 8 ++ List.replicate 112 9 ++ List.replicate 24 7 ++ List.replicate 8 8
  ((construct lens).1, (construct (List.replicate 30 5)).1)

def clOrder : Array Nat := #[16,17,18,0,8,7,9,6,10,5,11,4,12,3,13,2,14,1,15]

/-- the `n` three-bit code-length code lengths, entries `i ..` of `clOrder` -/
def readCl (data : ByteArray) : Nat → Nat → Array Nat → Nat → R (Array Nat)
  | 0, _, cl, pos => .ok cl pos
  | n + 1, i, cl, pos =>
      match getBits data 3 pos with
      | .err e => .err e
      | .ok v pos1 => readCl data n (i + 1) (cl.set! clOrder[i]! v) pos1

/-- the code lengths read so far: their number and the entries, last one first -/
structure Lens where
  n : Nat
  rev : List Nat

/-- one symbol of the run-length coded code lengths (`acc.n < total`) -/
def lenStep (data : ByteArray) (lencode : Huff) (total : Nat) (acc : Lens) (pos : Nat) : R Lens :=
  match decodeSym data lencode pos with
  | .err e => .err e
  | .ok sym pos1 =>
      if sym < 16 then .ok ⟨acc.n + 1, sym :: acc.rev⟩ pos1
      else if sym == 16 then
        if acc.n == 0 then .err .corrupt else
        match getBits data 2 pos1 with
        | .err e => .err e
        | .ok x pos2 =>
            if acc.n + (3 + x) > total then .err .corrupt
            else .ok ⟨acc.n + (3 + x), List.replicate (3 + x) (acc.rev.headD 0) ++ acc.rev⟩ pos2
      else if sym == 17 then
        match getBits data 3 pos1 with
        | .err e => .err e
        | .ok x pos2 =>
            if acc.n + (3 + x) > total then .err .corrupt
            else .ok ⟨acc.n + (3 + x), List.replicate (3 + x) 0 ++ acc.rev⟩ pos2
      else
        match getBits data 7 pos1 with
        | .err e => .err e
        | .ok x pos2 =>
            if acc.n + (11 + x) > total then .err .corrupt
            else .ok ⟨acc.n + (11 + x), List.replicate (11 + x) 0 ++ acc.rev⟩ pos2

/-- the run-length coded literal/length and distance code lengths; every round adds at least
    one entry, so `total - acc.n` rounds suffice -/
def readLengths (data : ByteArray) (lencode : Huff) (total : Nat) : Nat → Lens → Nat → R Lens
  | 0, acc, pos => if acc.n ≥ total then .ok acc pos else .err .fuel
  | fuel + 1, acc, pos =>
      if acc.n ≥ total then .ok acc pos else
      match lenStep data lencode total acc pos with
      | .err e => .err e
      | .ok acc' pos' => readLengths data lencode total fuel acc' pos'

def dynamicBlock (data : ByteArray) (fuel : Nat) (out : ByteArray) (pos : Nat) : R ByteArray :=
  match getBits data 5 pos with
  | .err e => .err e
  | .ok a pos1 =>
  match getBits data 5 pos1 with
  | .err e => .err e
  | .ok b pos2 =>
  match getBits data 4 pos2 with
  | .err e => .err e
  | .ok c pos3 =>
  let nlen := a + 257
  let ndist := b + 1
  let ncode := c + 4
  if nlen > 286 || ndist > 30 then .err .corrupt else
  match readCl data ncode 0 (Array.replicate 19 0) pos3 with
  | .err e => .err e
  | .ok cl pos4 =>
  let (lencode, left) := construct cl.toList
  if left != 0 then .err .corrupt else
  match readLengths data lencode (nlen + ndist) (nlen + ndist) ⟨0, []⟩ pos4 with
  | .err e => .err e
  | .ok lens pos5 =>
  let lengths := lens.rev.reverse
  if lengths.getD 256 0 == 0 then .err .corrupt else
  let (lc, l1) := construct (lengths.take nlen)
  if l1 != 0 && (l1 < 0 || nlen != lc.count[0]! + lc.count[1]!) then .err .corrupt else
  let (dc, l2) := construct (lengths.drop nlen)
  if l2 != 0 && (l2 < 0 || ndist != dc.count[0]! + dc.count[1]!) then .err .corrupt else
  codes data lc dc fuel out pos5

def storedBlock (data : ByteArray) (out : ByteArray) (pos : Nat) : R ByteArray :=
  let p := (pos + 7) / 8
  if p + 4 > data.size then .err .eof else
  let len := byteAt data p + 256 * byteAt data (p + 1)
  let nlen := byteAt data (p + 2) + 256 * byteAt data (p + 3)
  if len + nlen != 65535 then .err .corrupt else
  if p + 4 + len > data.size then .err .eof else
  .ok (out ++ data.extract (p + 4) (p + 4 + len)) ((p + 4 + len) * 8)

/-- one deflate block after its three header bits; compressed blocks get the number of
    remaining input bits + 1 as fuel (every symbol consumes at least one bit) -/
def block (data : ByteArray) (ty : Nat) (out : ByteArray) (pos : Nat) : R ByteArray :=
  match ty with
  | 0 => storedBlock data out pos
  | 1 => codes data fixedTables.1 fixedTables.2 (8 * data.size + 1 - pos) out pos
  | 2 => dynamicBlock data (8 * data.size + 1 - pos) out pos
  | _ => .err .corrupt

def blocks (data : ByteArray) : Nat → ByteArray → Nat → R ByteArray
  | 0, _, _ => .err .fuel
  | fuel + 1, out, pos =>
      match getBit data pos with
      | .err e => .err e
      | .ok last pos1 =>
          match getBits data 2 pos1 with
          | .err e => .err e
          | .ok ty pos2 =>
              match block data ty out pos2 with
              | .err e => .err e
              | .ok out' pos3 => if last == 1 then .ok out' pos3 else blocks data fuel out' pos3

def adlerLoop (bs : ByteArray) : Nat → Nat → Nat → Nat → Nat
  | 0, _, a, b => b * 65536 + a
  | n + 1, i, a, b =>
      let a' := (a + byteAt bs i) % 65521
      adlerLoop bs n (i + 1) a' ((b + a') % 65521)

def adler32 (bs : ByteArray) : Nat := adlerLoop bs bs.size 0 1 0

def inflateZlib (input : ByteArray) : Except ZErr ByteArray :=
  if input.size < 2 then .error .eof else
  let cmf := byteAt input 0
  let flg := byteAt input 1
  if cmf % 16 != 8 || cmf / 16 > 7 || (cmf * 256 + flg) % 31 != 0 || (flg / 32) % 2 == 1 then
    .error .corrupt
  else
    -- every block consumes at least three bits: the remaining bits are more than enough fuel
    match blocks input (8 * input.size) ByteArray.empty 16 with
    | .err e => .error e
    | .ok out pos =>
        let p := (pos + 7) / 8
        if p + 4 > input.size then .error .eof else
        let stored := byteAt input p * 16777216 + byteAt input (p + 1) * 65536
                      + byteAt input (p + 2) * 256 + byteAt input (p + 3)
        if stored != adler32 out then .error .corrupt else .ok out

/-- code 1 = `InvalidInput`-class error of the harness' kind table -/
def inflate : Inflate := fun bs =>
  match inflateZlib ⟨bs.toArray⟩ with
  | .ok out => .ok out.data.toList
  | .error .eof => .err (.io .unexpectedEof)
  | .error _ => .err (.io (.other 1))

end Ase.ZlibT
