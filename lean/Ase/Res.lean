/-
  Result type of the model: every Rust function that can return `Err` or panic is
  modelled by a total function into `Res`.  A Rust panic site is an explicit value
  (`Res.panic site`), never an omission.
-/
namespace Ase

/-- `std::io::ErrorKind` as far as the properties distinguish it. `other n` is the
    n-th kind of the harness' kind table (C14 injects such errors). -/
inductive IoKind where
  | unexpectedEof
  | other (code : Nat)
  deriving DecidableEq, Repr, Inhabited

/-- `AsepriteParseError` variants (messages are not modelled). -/
inductive Err where
  | invalid
  | unsupported
  | internal
  | io (k : IoKind)
  deriving DecidableEq, Repr, Inhabited

/-- Kinds of Rust panic sites. -/
inductive Site where
  | index        -- slice / Vec index out of bounds
  | sliceRange   -- `&v[a..b]` out of range
  | assertFail   -- `assert!`
  | debugAssert  -- `debug_assert!` (only with debug assertions on)
  | overflow     -- arithmetic overflow (only with overflow checks on)
  | divZero
  | unwrapNone   -- `unwrap` / `expect` on `None`, explicit `panic!`
  | fromRawNone  -- `RgbaImage::from_raw(..)` returned `None` and was unwrapped
  deriving DecidableEq, Repr, Inhabited

inductive Res (α : Type) where
  | ok (a : α)
  | err (e : Err)
  | panic (s : Site)
  deriving Repr, Inhabited, DecidableEq

namespace Res

@[inline] def bind {α β} (x : Res α) (f : α → Res β) : Res β :=
  match x with
  | ok a => f a
  | err e => err e
  | panic s => panic s

@[inline] def map {α β} (f : α → β) (x : Res α) : Res β :=
  match x with
  | ok a => ok (f a)
  | err e => err e
  | panic s => panic s

instance : Monad Res where
  pure := ok
  bind := bind

def isOk {α} : Res α → Bool
  | ok _ => true
  | _ => false

def isPanic {α} : Res α → Bool
  | panic _ => true
  | _ => false

@[simp] theorem bind_ok {α β} (a : α) (f : α → Res β) : (ok a >>= f) = f a := rfl
@[simp] theorem bind_err {α β} (e : Err) (f : α → Res β) : (err e >>= f) = err e := rfl
@[simp] theorem bind_panic {α β} (s : Site) (f : α → Res β) : (panic s >>= f) = panic s := rfl
@[simp] theorem pure_eq {α} (a : α) : (pure a : Res α) = ok a := rfl
@[simp] theorem bind_ok' {α β} (a : α) (f : α → Res β) : (ok a).bind f = f a := rfl
@[simp] theorem bind_err' {α β} (e : Err) (f : α → Res β) : (err e : Res α).bind f = err e := rfl
@[simp] theorem bind_panic' {α β} (s : Site) (f : α → Res β) : (panic s : Res α).bind f = panic s := rfl
@[simp] theorem map_ok {α β} (f : α → β) (a : α) : (ok a).map f = ok (f a) := rfl
@[simp] theorem map_err {α β} (f : α → β) (e : Err) : (err e : Res α).map f = err e := rfl
@[simp] theorem map_panic {α β} (f : α → β) (s : Site) : (panic s : Res α).map f = panic s := rfl

/-- `x` is not a panic. -/
def NoPanic {α} (x : Res α) : Prop := ∀ s, x ≠ panic s

theorem NoPanic.bind {α β} {x : Res α} {f : α → Res β}
    (hx : NoPanic x) (hf : ∀ a, x = ok a → NoPanic (f a)) : NoPanic (x >>= f) := by
  cases x with
  | ok a => exact hf a rfl
  | err e => intro s h; cases h
  | panic s => exact absurd rfl (hx s)

theorem noPanic_ok {α} (a : α) : NoPanic (ok a) := by intro s h; cases h
theorem noPanic_err {α} (e : Err) : NoPanic (err e : Res α) := by intro s h; cases h

end Res

/-- Build profile: Rust's `overflow-checks` and `debug-assertions` switches. -/
structure Profile where
  overflowChecks : Bool
  debugAsserts : Bool
  deriving DecidableEq, Repr, Inhabited

def Profile.release : Profile := ⟨false, false⟩
def Profile.checked : Profile := ⟨true, true⟩

/-- `a + b` in `u32`: panics with overflow checks, wraps without. -/
def u32Add (m : Profile) (a b : Nat) : Res Nat :=
  if a + b < 4294967296 then .ok (a + b)
  else if m.overflowChecks then .panic .overflow else .ok ((a + b) % 4294967296)

def u32Mul (m : Profile) (a b : Nat) : Res Nat :=
  if a * b < 4294967296 then .ok (a * b)
  else if m.overflowChecks then .panic .overflow else .ok ((a * b) % 4294967296)

end Ase
