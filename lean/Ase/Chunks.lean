import Ase.Types
/-
  Chunk decoders, one per Rust decoder, field for field.
  Each runs on the chunk's own buffer (`Rd` = reader over plain bytes); what is left
  of the buffer afterwards is ignored by the caller, as in the Rust.
-/
namespace Ase

/-- `flate2::read::ZlibDecoder::new(rest).read_to_end(..)`: a parameter of the model. -/
abbrev Inflate := Bytes → Res Bytes

local notation "rU8" => readU8 bytesSrc
local notation "rU16" => readU16 bytesSrc
local notation "rI16" => readI16 bytesSrc
local notation "rU32" => readU32 bytesSrc
local notation "rI32" => readI32 bytesSrc
local notation "rStr" => readString bytesSrc
local notation "rSkip" => skip bytesSrc

/-! ### layer chunk (`layer.rs:225-298`) -/

def parseLayerType (id : UInt16) : Rd LayerType :=
  match id.toNat with
  | 0 => pure .image
  | 1 => pure .group
  | 2 => do let ts ← rU32; pure (.tilemap ts)
  | _ => RdS.fail .invalid

def parseBlendMode (id : UInt16) : Rd Nat :=
  if id.toNat ≤ 18 then pure id.toNat else RdS.fail .invalid

def parseLayerChunk : Rd LayerData := do
  let flags ← rU16
  let ltype ← rU16
  let childLevel ← rU16
  let _dw ← rU16
  let _dh ← rU16
  let blend ← rU16
  let opacity ← rU8
  let _r1 ← rU8
  let _r2 ← rU16
  let name ← rStr
  let lt ← parseLayerType ltype
  let bm ← parseBlendMode blend
  pure { flags := flags.toNat % 128, name := name, blendMode := bm, opacity := opacity,
         layerType := lt, childLevel := childLevel, userData := none }

/-! ### pixels (`pixel.rs`) -/

def groupRgba : Bytes → List RGBA
  | r :: g :: b :: a :: t => ⟨r, g, b, a⟩ :: groupRgba t
  | _ => []

def groupGray : Bytes → List (UInt8 × UInt8)
  | v :: a :: t => (v, a) :: groupGray t
  | _ => []

/-- `RawPixels::from_bytes` -/
def pixelsFromBytes (fmt : PixelFormat) (bytes : Bytes) : Res RawPixels :=
  match fmt with
  | .indexed _ => .ok (.indexed bytes.toArray)
  | .grayscale =>
      if bytes.length % 2 != 0 then .err .invalid else .ok (.gray (groupGray bytes).toArray)
  | .rgba =>
      if bytes.length % 4 != 0 then .err .invalid else .ok (.rgba (groupRgba bytes).toArray)

/-- `usize::MAX + 1` on the 64-bit targets the library is built for. -/
def usizeLimit : Nat := 18446744073709551616

/-- `output_size`: checked multiplication. -/
def outputSize (fmt : PixelFormat) (count : Nat) : Res Nat :=
  if fmt.bpp * count < usizeLimit then .ok (fmt.bpp * count) else .err .invalid

/-- `AseReader::take_bytes(limit)`: the first `limit` bytes of the rest, `InvalidInput` if
    fewer are present. -/
def takeBytes (limit : Nat) : Rd Bytes := fun bs =>
  if limit ≤ bs.length then .ok (bs.take limit, bs.drop limit) else .err .invalid

/-- `AseReader::unzip(expected)`: inflate everything that is left; the decoded length must
    equal the declared size. -/
def unzip (inflate : Inflate) (expected : Nat) : Rd Bytes := fun bs =>
  match inflate bs with
  | .ok out => if out.length != expected then .err .invalid else .ok (out, [])
  | .err e => .err e
  | .panic p => .panic p

def pixelsFromRaw (fmt : PixelFormat) (count : Nat) : Rd RawPixels := do
  let n ← RdS.lift (outputSize fmt count)
  let bytes ← takeBytes n
  RdS.lift (pixelsFromBytes fmt bytes)

def pixelsFromCompressed (inflate : Inflate) (fmt : PixelFormat) (count : Nat) : Rd RawPixels := do
  let n ← RdS.lift (outputSize fmt count)
  let bytes ← unzip inflate n
  RdS.lift (pixelsFromBytes fmt bytes)

/-! ### tilemap cel payload (`tilemap.rs:123-167`, `tile.rs`) -/

def groupTiles (mask : UInt32) : Bytes → List UInt32
  | a :: b :: c :: d :: t => (le32 a b c d &&& mask) :: groupTiles mask t
  | _ => []

def parseTilemap (inflate : Inflate) : Rd TilemapData := do
  let w ← rU16
  let h ← rU16
  let bits ← rU16
  if bits.toNat != 32 then RdS.fail .unsupported else
  let tileId ← rU32
  let xFlip ← rU32
  let yFlip ← rU32
  let rot ← rU32
  rSkip 10
  let bytes ← unzip inflate (4 * (w.toNat * h.toNat))
  pure { width := w, height := h, tiles := (groupTiles tileId bytes).toArray,
         mask := ⟨tileId, xFlip, yFlip, rot⟩ }

/-! ### cel chunk (`cel.rs:334-446`) -/

def parseCelContent (inflate : Inflate) (fmt : PixelFormat) (celType : UInt16) :
    Rd (CelContent RawPixels) :=
  match celType.toNat with
  | 0 => do
      let w ← rU16
      let h ← rU16
      let px ← pixelsFromRaw fmt (w.toNat * h.toNat)
      pure (.raw w h px)
  | 1 => do
      let f ← rU16
      pure (.linked f)
  | 2 => do
      let w ← rU16
      let h ← rU16
      let px ← pixelsFromCompressed inflate fmt (w.toNat * h.toNat)
      pure (.raw w h px)
  | 3 => do
      let t ← parseTilemap inflate
      pure (.tilemap t)
  | _ => RdS.fail .invalid

def parseCelChunk (inflate : Inflate) (fmt : PixelFormat) : Rd (RawCel RawPixels) := do
  let layerIndex ← rU16
  let x ← rI16
  let y ← rI16
  let opacity ← rU8
  let celType ← rU16
  rSkip 7
  let content ← parseCelContent inflate fmt celType
  pure { data := ⟨layerIndex, x, y, opacity⟩, content := content, userData := none }

/-! ### tags chunk (`tags.rs:68-108`) -/

def parseTag : Rd Tag := do
  let fromF ← rU16
  let toF ← rU16
  let dir ← rU8
  let rep ← rU16
  rSkip 6
  let _color ← rU32
  let name ← rStr
  if dir.toNat ≤ 2 then
    pure { name := name, fromFrame := fromF, toFrame := toF, repeatCount := rep,
           direction := dir.toNat, userData := none }
  else RdS.fail .invalid

/-- run `p` `n` times, collecting the results in order -/
def rdRepeat {α} (p : Rd α) : Nat → Rd (List α)
  | 0 => pure []
  | n + 1 => do
      let a ← p
      let rest ← rdRepeat p n
      pure (a :: rest)

def parseTagsChunk : Rd (List Tag) := do
  let n ← rU16
  rSkip 8
  rdRepeat parseTag n.toNat

/-! ### slice chunk (`slice.rs:66-113`) -/

def parseSliceKey (flags : UInt32) : Rd SliceKey := do
  let fromFrame ← rU32
  let ox ← rI32
  let oy ← rI32
  let w ← rU32
  let h ← rU32
  let s9 ← if flags.toNat % 2 == 1 then (do
      let cx ← rI32
      let cy ← rI32
      let cw ← rU32
      let ch ← rU32
      pure (some (Slice9.mk cx cy cw ch)) : Rd (Option Slice9)) else pure none
  let pivot ← if (flags.toNat / 2) % 2 == 1 then (do
      let px ← rI32
      let py ← rI32
      pure (some (px, py)) : Rd (Option (Int32 × Int32))) else pure none
  pure { fromFrame := fromFrame, ox := ox, oy := oy, w := w, h := h, slice9 := s9, pivot := pivot }

def parseSliceChunk : Rd Slice := do
  let n ← rU32
  let flags ← rU32
  let _res ← rU32
  let name ← rStr
  let keys ← rdRepeat (parseSliceKey flags) n.toNat
  pure { name := name, keys := keys, userData := none }

/-! ### user data chunk (`user_data.rs:16-38`) -/

def parseUserDataChunk : Rd UserData := do
  let flags ← rU32
  let text ← if flags.toNat % 2 == 1 then (do
      let s ← rStr
      pure (some s) : Rd (Option Bytes)) else pure none
  let color ← if (flags.toNat / 2) % 2 == 1 then (do
      let r ← rU8
      let g ← rU8
      let b ← rU8
      let a ← rU8
      pure (some (RGBA.mk r g b a)) : Rd (Option RGBA)) else pure none
  pure { text := text, color := color }

/-! ### external files chunk (`external_file.rs:44-59`) -/

def parseExternalFile : Rd ExternalFile := do
  let id ← rU32
  rSkip 8
  let name ← rStr
  pure { id := id, name := name }

def parseExternalFilesChunk : Rd (List ExternalFile) := do
  let n ← rU32
  rSkip 8
  rdRepeat parseExternalFile n.toNat

/-! ### colour profile chunk (`color_profile.rs:19-57`) -/

def parseColorProfileChunk : Rd Unit := do
  let ptype ← rU16
  let flags ← rU16
  let _gamma ← rU32
  rSkip 8
  if ptype.toNat > 2 then RdS.fail .unsupported else
  if flags.toNat % 2 == 1 then RdS.fail .unsupported else
  if ptype.toNat == 2 then RdS.fail .unsupported else
  pure ()

/-! ### palette chunks (`palette.rs:87-222`) -/

def parsePaletteEntry (id : Nat) : Rd PalEntry := do
  let flags ← rU16
  let r ← rU8
  let g ← rU8
  let b ← rU8
  let a ← rU8
  let name ← if flags.toNat % 2 == 1 then (do
      let s ← rStr
      pure (some s) : Rd (Option Bytes)) else pure none
  pure { id := id, rgba := ⟨r, g, b, a⟩, name := name }

/-- entries `id, id+1, …` (`n` of them) inserted in order -/
def parsePaletteEntries : Nat → Nat → Palette → Rd Palette
  | 0, _, p => pure p
  | n + 1, id, p => do
      let e ← parsePaletteEntry id
      parsePaletteEntries n (id + 1) (p.insert e)

def parsePaletteChunk : Rd Palette := do
  let _total ← rU32
  let first ← rU32
  let last ← rU32
  rSkip 8
  if last.toNat < first.toNat then RdS.fail .invalid else
  parsePaletteEntries (last.toNat - first.toNat + 1) first.toNat Palette.empty

/-- `scale_6bit_to_8bit` -/
def scale6 (c : UInt8) : Res UInt8 :=
  if c.toNat ≥ 64 then .err .invalid
  else .ok (UInt8.ofNat ((c.toNat * 4) % 256 + c.toNat / 16))

def parseOldColor (scaled : Bool) : Rd UInt8 := do
  let c ← rU8
  if scaled then RdS.lift (scale6 c) else pure c

def parseOldEntries (scaled : Bool) : Nat → Nat → Palette → Rd Palette
  | 0, _, p => pure p
  | n + 1, id, p => do
      let r ← parseOldColor scaled
      let g ← parseOldColor scaled
      let b ← parseOldColor scaled
      parseOldEntries scaled n (id + 1) (p.insert { id := id, rgba := ⟨r, g, b, 255⟩, name := none })

/-- the packet loop of `parse_old_chunk_04/11`; `skip` accumulates over the packets (u32) -/
def parseOldPackets (m : Profile) (scaled : Bool) : Nat → Nat → Palette → Rd Palette
  | 0, _, p => pure p
  | n + 1, skip, p => do
      let sk ← rU8
      let skip' ← RdS.lift (u32Add m skip sk.toNat)
      let c ← rU8
      let count := if c.toNat == 0 then 256 else c.toNat
      let _end ← RdS.lift (u32Add m count skip')
      let p' ← parseOldEntries scaled count skip' p
      parseOldPackets m scaled n skip' p'

def parseOldPaletteChunk (m : Profile) (scaled : Bool) : Rd Palette := do
  let packets ← rU16
  parseOldPackets m scaled packets.toNat 0 Palette.empty

/-! ### tileset chunk (`tileset.rs:164-225`) -/

def parseTilesetChunk (inflate : Inflate) (fmt : PixelFormat) : Rd (Tileset RawPixels) := do
  let id ← rU32
  let flags ← rU32
  let count ← rU32
  let tw ← rU16
  let th ← rU16
  if tw.toNat == 0 || th.toNat == 0 then RdS.fail .invalid else
  let base ← rI16
  rSkip 14
  let name ← rStr
  let ext ← if flags.toNat % 2 == 1 then (do
      let f ← rU32
      let t ← rU32
      pure (some (f, t)) : Rd (Option (UInt32 × UInt32))) else pure none
  let pixels ← if (flags.toNat / 2) % 2 == 1 then (do
      let _clen ← rU32
      let n := count.toNat * th.toNat * tw.toNat
      if n ≥ usizeLimit then RdS.fail .invalid else
      let px ← pixelsFromCompressed inflate fmt n
      pure (some px) : Rd (Option RawPixels)) else pure none
  pure { id := id, emptyTileIsZero := (flags.toNat / 4) % 2 == 1, tileCount := count,
         tileW := tw, tileH := th, baseIndex := base, name := name, extFile := ext,
         pixels := pixels }

end Ase
