import Ase.Parse
/-
  Heap footprint of the decoded data (property C12): for every value the loader holds, the
  number of heap bytes the Rust needs for it — the element record inside its container plus the
  buffers it owns (strings, pixel and tile buffers, key vectors).

  Element sizes (upper bounds of `size_of` on the 64-bit targets, rounded up):

    LayerData       72 + name                 Tag            64 + name
    RawCel          96 + payload              Slice          80 + name + 52 per key
    palette entry   32 + name                 ExternalFile   32 + name
    Tileset         88 + name + payload       UserData       32 + text
    frame_times     2 per frame               cel table      24 per frame (one map per row)
    parents         8 per layer (built by validation, so only part of the loaded sprite)

  Pixel payload: 4 bytes per RGBA pixel, 2 per grayscale pixel, 1 per indexed pixel; a tilemap
  holds 8 bytes per tile.

  `footprintParse` is the footprint of the parser state `ParseInfo`, `footprintSprite` the
  one of the loaded `Sprite`.  `AseProofs/Props/C12Footprint.lean` proves that both stay below
  the allocation account `Ase.Alloc.reserved`, hence below the bound of C12.
-/
namespace Ase.Footprint

/-- sum of `f` over a list -/
def sumBy {α : Type} (f : α → Nat) : List α → Nat
  | [] => 0
  | a :: t => f a + sumBy f t

def optLen : Option Bytes → Nat
  | none => 0
  | some b => b.length

/-- an attached `UserData`: the record and its text -/
def udSize : Option UserData → Nat
  | none => 0
  | some u => 32 + optLen u.text

def layerSize (l : LayerData) : Nat := 72 + l.name.length + udSize l.userData

/-- bytes of an unvalidated pixel buffer -/
def rawPayload : RawPixels → Nat
  | .rgba px => 4 * px.size
  | .gray px => 2 * px.size
  | .indexed px => px.size

/-- bytes of a validated pixel buffer -/
def pxPayload : Pixels → Nat
  | .rgba px => 4 * px.size
  | .gray px => 2 * px.size
  | .indexed _ _ px => px.size

/-- bytes of a tile buffer -/
def tilesPayload (t : TilemapData) : Nat := 8 * t.tiles.size

def contentSize {P : Type} (pay : P → Nat) : CelContent P → Nat
  | .raw _ _ px => pay px
  | .linked _ => 0
  | .tilemap t => tilesPayload t

def celSize {P : Type} (pay : P → Nat) (c : RawCel P) : Nat :=
  96 + contentSize pay c.content + udSize c.userData

/-- one row of the cel table: the map itself and its cels -/
def rowSize {P : Type} (pay : P → Nat) (row : FrameCels P) : Nat :=
  24 + sumBy (fun p => celSize pay p.2) row

def celsSize {P : Type} (pay : P → Nat) (cels : Array (FrameCels P)) : Nat :=
  sumBy (rowSize pay) cels.toList

def tagSize (t : Tag) : Nat := 64 + t.name.length + udSize t.userData

def sliceSize (s : Slice) : Nat := 80 + s.name.length + 52 * s.keys.length + udSize s.userData

def palEntrySize (e : PalEntry) : Nat := 32 + optLen e.name

def paletteSize (p : Palette) : Nat := sumBy (fun q => palEntrySize q.2) p.entries

def optPaletteSize : Option Palette → Nat
  | none => 0
  | some p => paletteSize p

def extFileSize (f : ExternalFile) : Nat := 32 + f.name.length

def optPay {P : Type} (pay : P → Nat) : Option P → Nat
  | none => 0
  | some px => pay px

def tilesetSize {P : Type} (pay : P → Nat) (t : Tileset P) : Nat :=
  88 + t.name.length + optPay pay t.pixels

def optTagsSize : Option (Array Tag) → Nat
  | none => 0
  | some ts => sumBy tagSize ts.toList

/-- heap bytes held by the parser state -/
def footprintParse (pi : ParseInfo) : Nat :=
  optPaletteSize pi.palette +
  sumBy layerSize pi.layers.toList +
  celsSize rawPayload pi.cels +
  2 * pi.frameTimes.size +
  optTagsSize pi.tags +
  sumBy (fun p => extFileSize p.2) pi.extFiles +
  sumBy (fun p => tilesetSize rawPayload p.2) pi.tilesets +
  udSize pi.spriteUserData +
  sumBy sliceSize pi.slices.toList

/-- the `parents` table validation builds from the layers -/
def parentsSize (numLayers : Nat) : Nat := 8 * numLayers

/-- parser state plus the table validation is going to build from it -/
def footprintParseV (pi : ParseInfo) : Nat := footprintParse pi + parentsSize pi.layers.size

/-- heap bytes held by the loaded sprite -/
def footprintSprite (s : Sprite) : Nat :=
  optPaletteSize s.palette +
  sumBy layerSize s.layers.toList +
  parentsSize s.parents.size +
  celsSize pxPayload s.cels +
  2 * s.frameTimes.size +
  sumBy tagSize s.tags.toList +
  sumBy (fun p => extFileSize p.2) s.extFiles +
  sumBy (fun p => tilesetSize pxPayload p.2) s.tilesets +
  udSize s.spriteUserData +
  sumBy sliceSize s.slices.toList

end Ase.Footprint
