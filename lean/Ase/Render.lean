import Ase.Parse
import Ase.Blend
/-
  Accessors and the renderer (`file.rs`, `layer.rs:105-131`, `tilemap.rs`, `tileset.rs:213-251`,
  `pixel.rs:188-214`).  The `image` crate's `RgbaImage` is a `w × h` array with panicking
  `get_pixel` / `put_pixel` outside, a zero-filled `new`, and `from_raw` returning `None`
  when the buffer is too short.
-/
namespace Ase

structure Image where
  w : Nat
  h : Nat
  px : Array RGBA
  deriving Repr, Inhabited

namespace Image
def new (w h : Nat) : Image := ⟨w, h, Array.replicate (w * h) RGBA.zero⟩
def get (img : Image) (x y : Nat) : Res RGBA :=
  if x < img.w && y < img.h then .ok (img.px.getD (y * img.w + x) RGBA.zero) else .panic .index
def put (img : Image) (x y : Nat) (c : RGBA) : Res Image :=
  if x < img.w && y < img.h then .ok { img with px := img.px.setIfInBounds (y * img.w + x) c }
  else .panic .index
/-- `RgbaImage::from_raw(w, h, buf).expect(..)` on a pixel buffer -/
def fromRaw (w h : Nat) (buf : Array RGBA) : Res Image :=
  if buf.size < w * h then .panic .fromRawNone else .ok ⟨w, h, buf.extract 0 (w * h)⟩
end Image

/-- `Pixels::clone_as_image_rgba` -/
def pixelsToRgba (palette : Option Palette) : Pixels → Res (Array RGBA)
  | .rgba px => .ok px
  | .gray px => .ok (px.map (fun (v, a) => ⟨v, v, v, a⟩))
  | .indexed tci bg px =>
      match palette with
      | none => .panic .unwrapNone
      | some p =>
          px.foldl (fun acc i =>
            match acc with
            | .ok out =>
                match p.color i.toNat with
                | none => .panic .unwrapNone
                | some e =>
                    let alpha : UInt8 := if tci == i && !bg then 0 else e.rgba.a
                    .ok (out.push ⟨e.rgba.r, e.rgba.g, e.rgba.b, alpha⟩)
            | other => other) (.ok (Array.mkEmpty px.size))

namespace Sprite

def numLayers (s : Sprite) : Nat := s.layers.size

/-- `Layer::is_visible` (iterative after the fix): walk up the parents. -/
def isVisibleFuel (s : Sprite) : Nat → Nat → Res Bool
  | 0, _ => .panic .assertFail   -- unreachable: parents strictly decrease
  | fuel + 1, id =>
      match s.layers[id]? with
      | none => .panic .index
      | some l =>
          if !l.visibleFlag then .ok false else
          match s.parents[id]? with
          | none => .panic .index
          | some none => .ok true
          | some (some p) => isVisibleFuel s fuel p

def isVisible (s : Sprite) (id : Nat) : Res Bool := isVisibleFuel s (s.layers.size + 1) id

/-- `CelsData::cel` -/
def cel (s : Sprite) (frame layer : Nat) : Res (Option (RawCel Pixels)) :=
  match s.cels[frame]? with
  | none => .panic .index
  | some row => .ok (FrameCels.get? layer row)

def tileset? (s : Sprite) (id : Nat) : Option (Tileset Pixels) := assocGet? id s.tilesets

variable {F : Type} (ops : FOps F) (m : Profile)

/-- one row of `write_raw_cel_to_image`: columns `x0 + col .. ` (`n` of them) -/
def writeRawRow (mode : Nat) (opacity : UInt8) (pixels : Array RGBA) (cw : Nat)
    (x0 : Int) (y : Nat) (row : Nat) : Nat → Nat → Image → Res Image
  | 0, _, img => .ok img
  | n + 1, col, img =>
      let x : Int := x0 + col
      if x < 0 || x ≥ (img.w : Int) then writeRawRow mode opacity pixels cw x0 y row n (col + 1) img
      else
        match pixels[row * cw + col]? with
        | none => .panic .index
        | some p =>
            match img.get x.toNat y with
            | .ok old =>
                match Blend.blend ops m mode old p opacity with
                | .ok new =>
                    match img.put x.toNat y new with
                    | .ok img' => writeRawRow mode opacity pixels cw x0 y row n (col + 1) img'
                    | .err e => .err e
                    | .panic s => .panic s
                | .err e => .err e
                | .panic s => .panic s
            | .err e => .err e
            | .panic s => .panic s

/-- rows `y0 + row ..` (`n` of them) -/
def writeRawRows (mode : Nat) (opacity : UInt8) (pixels : Array RGBA) (cw : Nat)
    (x0 y0 : Int) : Nat → Nat → Image → Res Image
  | 0, _, img => .ok img
  | n + 1, row, img =>
      let y : Int := y0 + row
      if y < 0 || y ≥ (img.h : Int) then writeRawRows mode opacity pixels cw x0 y0 n (row + 1) img
      else
        match writeRawRow ops m mode opacity pixels cw x0 y.toNat row cw 0 img with
        | .ok img' => writeRawRows mode opacity pixels cw x0 y0 n (row + 1) img'
        | .err e => .err e
        | .panic s => .panic s

/-- `write_raw_cel_to_image` -/
def writeRawCel (img : Image) (d : CelCommon) (w h : UInt16) (pixels : Array RGBA)
    (mode : Nat) (layerOpacity : UInt8) : Res Image :=
  let opacity := Blend.mulUn8 (Blend.ch layerOpacity) (Blend.ch d.opacity)
  writeRawRows ops m mode opacity pixels w.toNat d.x.toInt d.y.toInt h.toNat 0 img

/-- pixels `(px, py)` of one tile, row-major, written at `(baseX + px, baseY + py)` -/
def writeTilePixels (mode : Nat) (opacity : UInt8) (tilePixels : Array RGBA) (tw : Nat)
    (baseX baseY : Int) : Nat → Nat → Image → Res Image
  | 0, _, img => .ok img
  | n + 1, idx, img =>
      let px := idx % tw
      let py := idx / tw
      match tilePixels[idx]? with
      | none => .panic .index
      | some p =>
          let x : Int := baseX + px
          let y : Int := baseY + py
          if 0 ≤ x && x < (img.w : Int) && 0 ≤ y && y < (img.h : Int) then
            match img.get x.toNat y.toNat with
            | .ok old =>
                match Blend.blend ops m mode old p opacity with
                | .ok new =>
                    match img.put x.toNat y.toNat new with
                    | .ok img' =>
                        writeTilePixels mode opacity tilePixels tw baseX baseY n (idx + 1) img'
                    | .err e => .err e
                    | .panic s => .panic s
                | .err e => .err e
                | .panic s => .panic s
            | .err e => .err e
            | .panic s => .panic s
          else writeTilePixels mode opacity tilePixels tw baseX baseY n (idx + 1) img

/-- tiles `idx, idx+1, …` of the stored map (row-major) -/
def writeTiles (mode : Nat) (opacity : UInt8) (t : TilemapData) (pixels : Array RGBA)
    (tw th : Nat) (cx cy : Int) : Nat → Nat → Image → Res Image
  | 0, _, img => .ok img
  | n + 1, idx, img =>
      let mw := t.width.toNat
      let tx := idx % mw
      let ty := idx / mw
      match t.tiles[ty * mw + tx]? with
      | none => .panic .unwrapNone            -- `.expect("Invalid tile index")` / tiles[index]
      | some id =>
          let ppt := tw * th
          let start := ppt * id.toNat
          if start + ppt > pixels.size then .panic .sliceRange else   -- `tile_slice`
          let tilePixels := pixels.extract start (start + ppt)
          match writeTilePixels ops m mode opacity tilePixels tw
                  ((tx * tw : Nat) + cx) ((ty * th : Nat) + cy) ppt 0 img with
          | .ok img' => writeTiles mode opacity t pixels tw th cx cy n (idx + 1) img'
          | .err e => .err e
          | .panic s => .panic s

/-- `write_tilemap_cel_to_image` -/
def writeTilemapCel (img : Image) (d : CelCommon) (t : TilemapData) (ts : Tileset Pixels)
    (pixels : Array RGBA) (mode : Nat) (layerOpacity : UInt8) : Res Image :=
  let opacity := Blend.mulUn8 (Blend.ch layerOpacity) (Blend.ch d.opacity)
  writeTiles ops m mode opacity t pixels ts.tileW.toNat ts.tileH.toNat d.x.toInt d.y.toInt
    (t.width.toNat * t.height.toNat) 0 img

/-- `write_cel` for non-linked content -/
def writeCelDirect (s : Sprite) (img : Image) (c : RawCel Pixels) : Res Image :=
  match s.layers[c.data.layerIndex.toNat]? with
  | none => .panic .assertFail                 -- `self.layer(..)`: assert!(id < num_layers)
  | some layer =>
      match c.content with
      | .raw w h px =>
          match pixelsToRgba s.palette px with
          | .ok rgba => writeRawCel ops m img c.data w h rgba layer.blendMode layer.opacity
          | .err e => .err e
          | .panic p => .panic p
      | .tilemap t =>
          match layer.layerType with
          | .tilemap tsid =>
              match s.tileset? tsid.toNat with
              | none => .panic .unwrapNone
              | some ts =>
                  match ts.pixels with
                  | none => .panic .unwrapNone
                  | some px =>
                      match pixelsToRgba s.palette px with
                      | .ok rgba =>
                          writeTilemapCel ops m img c.data t ts rgba layer.blendMode layer.opacity
                      | .err e => .err e
                      | .panic p => .panic p
          | _ => .panic .unwrapNone
      | .linked _ => .panic .unwrapNone        -- "Cel links to empty cel"

/-- `write_cel` -/
def writeCel (s : Sprite) (img : Image) (c : RawCel Pixels) : Res Image :=
  match c.content with
  | .linked f =>
      match s.layers[c.data.layerIndex.toNat]? with
      | none => .panic .assertFail
      | some _ =>
          match s.cel f.toNat c.data.layerIndex.toNat with
          | .ok none => .ok img
          | .ok (some target) => writeCelDirect ops m s img target
          | .err e => .err e
          | .panic p => .panic p
  | _ => writeCelDirect ops m s img c

def canvas (s : Sprite) : Image := Image.new s.width.toNat s.height.toNat

def frameImageLoop (s : Sprite) : FrameCels Pixels → Image → Res Image
  | [], img => .ok img
  | (layerId, c) :: rest, img =>
      if layerId ≥ s.numLayers then .panic .assertFail else
      match s.isVisible layerId with
      | .ok false => frameImageLoop s rest img
      | .ok true =>
          match writeCel ops m s img c with
          | .ok img' => frameImageLoop s rest img'
          | .err e => .err e
          | .panic p => .panic p
      | .err e => .err e
      | .panic p => .panic p

/-- `AsepriteFile::frame_image` (reached through `Frame::image`, frame < num_frames) -/
def frameImage (s : Sprite) (frame : Nat) : Res Image :=
  match s.cels[frame]? with
  | none => .panic .index
  | some row => frameImageLoop ops m s row s.canvas

/-- `AsepriteFile::layer_image` (reached through `Cel::image`) -/
def celImage (s : Sprite) (frame layer : Nat) : Res Image :=
  match s.cel frame layer with
  | .ok none => .ok s.canvas
  | .ok (some c) => writeCel ops m s s.canvas c
  | .err e => .err e
  | .panic p => .panic p

end Sprite

/-! ### tilemap view (`file.rs:267-292`, `tilemap.rs`) -/

structure TilemapView where
  frame : Nat
  layer : Nat
  cel : RawCel Pixels
  data : TilemapData
  tileset : Tileset Pixels
  logicalW : Nat
  logicalH : Nat
  deriving Repr, Inhabited

/-- `AsepriteFile::tilemap(layer_id, frame)` -/
def Sprite.tilemap (s : Sprite) (layer frame : Nat) : Res (Option TilemapView) :=
  if layer ≥ s.numLayers || frame ≥ s.numFrames.toNat then .ok none else
  match s.layers[layer]? with
  | none => .panic .assertFail
  | some l =>
      match l.layerType with
      | .tilemap tsid =>
          match s.tileset? tsid.toNat with
          | none => .ok none
          | some ts =>
              match s.cel frame layer with
              | .ok (some c) =>
                  match c.content with
                  | .tilemap t =>
                      let tw := ts.tileW.toNat
                      let th := ts.tileH.toNat
                      if tw == 0 || th == 0 then .panic .divZero else
                      let w := (s.width.toNat + tw - 1) / tw
                      let h := (s.height.toNat + th - 1) / th
                      if w < 65536 && h < 65536 then
                        .ok (some ⟨frame, layer, c, t, ts, w, h⟩)
                      else .panic .assertFail
                  | _ => .ok none
              | .ok none => .ok none
              | .err e => .err e
              | .panic p => .panic p
      | _ => .ok none

namespace TilemapView

def pixelOffsets (v : TilemapView) : Int × Int := (v.cel.data.x.toInt, v.cel.data.y.toInt)

/-- `Tilemap::tile_offsets`: `i32` division truncates toward zero -/
def tileOffsets (v : TilemapView) : Res (Int × Int) :=
  if v.tileset.tileW.toNat == 0 || v.tileset.tileH.toNat == 0 then .panic .divZero else
  .ok (Int.tdiv v.cel.data.x.toInt v.tileset.tileW.toNat,
       Int.tdiv v.cel.data.y.toInt v.tileset.tileH.toNat)

/-- `Tilemap::tile(x, y).id()` for any `u32` coordinates -/
def tile (v : TilemapView) (x y : Nat) : Res Nat :=
  match v.tileOffsets with
  | .ok (ox, oy) =>
      let x' : Int := (x : Int) - ox
      let y' : Int := (y : Int) - oy
      let w : Int := v.data.width.toNat
      let h : Int := v.data.height.toNat
      if x' < 0 || y' < 0 || x' ≥ w || y' ≥ h then .ok 0 else
      match v.data.tiles[y'.toNat * v.data.width.toNat + x'.toNat]? with
      | none => .panic .index
      | some id => .ok id.toNat
  | .err e => .err e
  | .panic p => .panic p

end TilemapView

/-! ### tileset images (`tileset.rs:213-251`) -/

/-- `Tileset::tile_image(i)` -/
def Tileset.tileImage (palette : Option Palette) (ts : Tileset Pixels) (i : Nat) : Res Image :=
  if i ≥ ts.tileCount.toNat then .panic .assertFail else
  match ts.pixels with
  | none => .panic .unwrapNone
  | some px =>
      match pixelsToRgba palette px with
      | .ok rgba =>
          let w := ts.tileW.toNat
          let h := ts.tileH.toNat
          let ppt := w * h
          Image.fromRaw w h (rgba.extract (i * ppt) (i * ppt + ppt))
      | .err e => .err e
      | .panic p => .panic p

/-- `Tileset::image()` -/
def Tileset.image (m : Profile) (palette : Option Palette) (ts : Tileset Pixels) : Res Image :=
  match u32Mul m ts.tileH.toNat ts.tileCount.toNat with
  | .ok ih =>
      match ts.pixels with
      | none => .panic .unwrapNone
      | some px =>
          match pixelsToRgba palette px with
          | .ok rgba => Image.fromRaw ts.tileW.toNat ih rgba
          | .err e => .err e
          | .panic p => .panic p
  | .err e => .err e
  | .panic p => .panic p

/-! ### lookups (`file.rs:175-262`) -/

/-- `layer_by_name`: the lowest id whose name matches -/
def Sprite.layerByName (s : Sprite) (name : Bytes) : Option Nat :=
  s.layers.toList.findIdx? (fun l => l.name == name)

/-- `tag_by_name`: the first tag whose name matches -/
def Sprite.tagByName (s : Sprite) (name : Bytes) : Option Nat :=
  s.tags.toList.findIdx? (fun t => t.name == name)

/-- `LayersIter`: state `next`; yields `next` while `next < num_layers` -/
def Sprite.layersIterNext (s : Sprite) (next : Nat) : Option Nat × Nat :=
  if next < s.numLayers then (some next, next + 1) else (none, next)

end Ase
