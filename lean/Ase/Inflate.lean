import Ase.Chunks
/-
  zlib (RFC 1950) pieces used on the ENCODING side: Adler-32 and a stored-block deflater for the
  generator.  The decoder — the driver's instance of the model's `inflate` parameter — is the
  total `Ase.ZlibT.inflate` in `Ase/InflateT.lean`; `AseProofs/Props/C12Inflate.lean` proves that
  it inverts `deflateStored`.
-/
namespace Ase.Zlib

def adler32 (bs : ByteArray) : Nat := Id.run do
  let mut a := 1
  let mut b := 0
  for x in bs do
    a := (a + x.toNat) % 65521
    b := (b + a) % 65521
  b * 65536 + a

/-- zlib stream made of stored blocks only (for the generator) -/
def deflateStored (bs : Bytes) : Bytes :=
  let rec go (rest : Bytes) (fuel : Nat) : Bytes :=
    match fuel with
    | 0 => []
    | fuel + 1 =>
        let blk := rest.take 65535
        let rest' := rest.drop 65535
        let final : UInt8 := if rest'.isEmpty then 1 else 0
        let n := blk.length
        [final, UInt8.ofNat (n % 256), UInt8.ofNat (n / 256),
         UInt8.ofNat ((65535 - n) % 256), UInt8.ofNat ((65535 - n) / 256)] ++ blk ++
          (if rest'.isEmpty then [] else go rest' fuel)
  let ad := adler32 ⟨bs.toArray⟩
  [0x78, 0x01] ++ go bs (bs.length / 65535 + 1) ++
    [UInt8.ofNat (ad / 16777216), UInt8.ofNat (ad / 65536 % 256), UInt8.ofNat (ad / 256 % 256),
     UInt8.ofNat (ad % 256)]

end Ase.Zlib
