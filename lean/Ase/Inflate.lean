import Ase.Chunks
/-
  An executable zlib (RFC 1950/1951) inflater: the driver's instance of the model's `inflate`
  parameter, and a stored-block deflater for the generator.  No theorem depends on this file;
  theorems quantify over every `inflate`.  The correspondence check compares this instance
  with flate2 on every stream it meets (see DESIGN 4.4).

  Port of zlib's `contrib/puff/puff.c`, with the one deviation of the real decoder from zlib
  noted in `codes` (distances before the start of the output).
-/
namespace Ase.Zlib

structure St where
  data : ByteArray
  pos : Nat            -- bit position
  out : ByteArray

inductive ZErr where
  | eof        -- ran out of input (flate2: UnexpectedEof)
  | corrupt    -- anything else (flate2: InvalidInput "corrupt deflate stream")
  deriving Repr, DecidableEq

abbrev ZM := ExceptT ZErr (StateM St)

@[inline] def getBit : ZM Nat := do
  let s ← get
  let byteIdx := s.pos / 8
  if byteIdx ≥ s.data.size then throw .eof
  let b := s.data.get! byteIdx
  set { s with pos := s.pos + 1 }
  pure ((b.toNat >>> (s.pos % 8)) % 2)

def getBits : Nat → ZM Nat
  | 0 => pure 0
  | n + 1 => do
      let b ← getBit
      let rest ← getBits n
      pure (b + 2 * rest)

structure Huff where
  count : Array Nat     -- number of codes of each length 0..15
  symbol : Array Nat    -- symbols ordered by code

/-- returns the table and `left` (< 0 over-subscribed, > 0 incomplete) -/
def construct (lengths : Array Nat) : Huff × Int := Id.run do
  let mut count : Array Nat := Array.replicate 16 0
  for l in lengths do
    count := count.modify l (· + 1)
  let mut left : Int := 1
  let mut bad := false
  for len in [1:16] do
    left := left * 2 - (count[len]! : Int)
    if left < 0 then bad := true
  let mut offs : Array Nat := Array.replicate 16 0
  for len in [1:15] do
    offs := offs.set! (len + 1) (offs[len]! + count[len]!)
  let mut symbol : Array Nat := Array.replicate lengths.size 0
  let mut i : Nat := 0
  for l in lengths do
    if l != 0 then
      symbol := symbol.set! offs[l]! i
      offs := offs.modify l (· + 1)
    i := i + 1
  (⟨count, symbol⟩, if bad then -1 else left)

def decodeSym (h : Huff) : ZM Nat := do
  let mut code : Int := 0
  let mut first : Int := 0
  let mut index : Int := 0
  for len in [1:16] do
    let b ← getBit
    code := code + b
    let cnt : Int := h.count[len]!
    if code - cnt < first then
      return h.symbol[(index + (code - first)).toNat]!
    index := index + cnt
    first := (first + cnt) * 2
    code := code * 2
  throw .corrupt

def lbase : Array Nat := #[3,4,5,6,7,8,9,10,11,13,15,17,19,23,27,31,35,43,51,59,67,83,99,115,131,163,195,227,258]
def lext : Array Nat := #[0,0,0,0,0,0,0,0,1,1,1,1,2,2,2,2,3,3,3,3,4,4,4,4,5,5,5,5,0]
def dbase : Array Nat := #[1,2,3,4,5,7,9,13,17,25,33,49,65,97,129,193,257,385,513,769,1025,1537,2049,3073,4097,6145,8193,12289,16385,24577]
def dext : Array Nat := #[0,0,0,0,1,1,2,2,3,3,4,4,5,5,6,6,7,7,8,8,9,9,10,10,11,11,12,12,13,13]

partial def codes (lencode distcode : Huff) : ZM Unit := do
  let sym ← decodeSym lencode
  if sym < 256 then
    modify (fun s => { s with out := s.out.push (UInt8.ofNat sym) })
    codes lencode distcode
  else if sym == 256 then pure ()
  else
    let si := sym - 257
    if si ≥ 29 then throw .corrupt
    let len := lbase[si]! + (← getBits lext[si]!)
    let ds ← decodeSym distcode
    if ds ≥ 30 then throw .corrupt
    let dist := dbase[ds]! + (← getBits dext[ds]!)
    let s ← get
    -- flate2's streaming decoder (miniz_oxide) inflates into a zero-initialised 32 KiB circular
    -- dictionary and rejects only distances above 32768 (which cannot be encoded): a distance
    -- that reaches before the start of the output is NOT an error, those bytes read as 0
    let mut out := s.out
    for _ in [0:len] do
      out := out.push (if out.size ≥ dist then out.get! (out.size - dist) else 0)
    set { s with out := out }
    codes lencode distcode

def fixedTables : Huff × Huff :=
  let lens := (Array.replicate 144 8) ++ (Array.replicate 112 9) ++ (Array.replicate 24 7) ++ (Array.replicate 8 8)
  ((construct lens).1, (construct (Array.replicate 30 5)).1)

def clOrder : Array Nat := #[16,17,18,0,8,7,9,6,10,5,11,4,12,3,13,2,14,1,15]

partial def readLengths (lencode : Huff) (total : Nat) (acc : Array Nat) : ZM (Array Nat) := do
  if acc.size ≥ total then return acc
  let sym ← decodeSym lencode
  if sym < 16 then readLengths lencode total (acc.push sym)
  else
    let (len, rep) ←
      if sym == 16 then do
        if acc.size == 0 then throw .corrupt
        pure (acc[acc.size - 1]!, 3 + (← getBits 2))
      else if sym == 17 then do pure (0, 3 + (← getBits 3))
      else do pure (0, 11 + (← getBits 7))
    if acc.size + rep > total then throw .corrupt
    readLengths lencode total (acc ++ Array.replicate rep len)

def dynamicBlock : ZM Unit := do
  let nlen := (← getBits 5) + 257
  let ndist := (← getBits 5) + 1
  let ncode := (← getBits 4) + 4
  if nlen > 286 || ndist > 30 then throw .corrupt
  let mut cl := Array.replicate 19 0
  for i in [0:ncode] do
    cl := cl.set! clOrder[i]! (← getBits 3)
  let (lencode, left) := construct cl
  if left != 0 then throw .corrupt
  let lengths ← readLengths lencode (nlen + ndist) #[]
  if lengths[256]! == 0 then throw .corrupt
  let (lc, l1) := construct (lengths.extract 0 nlen)
  if l1 != 0 && (l1 < 0 || nlen != lc.count[0]! + lc.count[1]!) then throw .corrupt
  let (dc, l2) := construct (lengths.extract nlen (nlen + ndist))
  if l2 != 0 && (l2 < 0 || ndist != dc.count[0]! + dc.count[1]!) then throw .corrupt
  codes lc dc

def storedBlock : ZM Unit := do
  modify (fun s => { s with pos := (s.pos + 7) / 8 * 8 })
  let s ← get
  let p := s.pos / 8
  if p + 4 > s.data.size then throw .eof
  let len := (s.data.get! p).toNat + 256 * (s.data.get! (p + 1)).toNat
  let nlen := (s.data.get! (p + 2)).toNat + 256 * (s.data.get! (p + 3)).toNat
  if len + nlen != 65535 then throw .corrupt
  if p + 4 + len > s.data.size then throw .eof
  set { s with pos := (p + 4 + len) * 8, out := s.out ++ s.data.extract (p + 4) (p + 4 + len) }

partial def blocks : ZM Unit := do
  let last ← getBit
  let ty ← getBits 2
  match ty with
  | 0 => storedBlock
  | 1 => let (l, d) := fixedTables; codes l d
  | 2 => dynamicBlock
  | _ => throw .corrupt
  if last == 1 then pure () else blocks

def adler32 (bs : ByteArray) : Nat := Id.run do
  let mut a := 1
  let mut b := 0
  for x in bs do
    a := (a + x.toNat) % 65521
    b := (b + a) % 65521
  b * 65536 + a

def inflateZlib (input : ByteArray) : Except ZErr ByteArray :=
  if input.size < 2 then .error .eof else
  let cmf := (input.get! 0).toNat
  let flg := (input.get! 1).toNat
  if cmf % 16 != 8 || cmf / 16 > 7 || (cmf * 256 + flg) % 31 != 0 || (flg / 32) % 2 == 1 then
    .error .corrupt
  else
    let (r, s) := (blocks.run).run ⟨input, 16, ByteArray.empty⟩
    match r with
    | .error e => .error e
    | .ok () =>
        let p := (s.pos + 7) / 8
        if p + 4 > input.size then .error .eof else
        let stored := (input.get! p).toNat * 16777216 + (input.get! (p+1)).toNat * 65536
                      + (input.get! (p+2)).toNat * 256 + (input.get! (p+3)).toNat
        if stored != adler32 s.out then .error .corrupt else .ok s.out

/-- code 1 = `InvalidInput`-class error of the harness' kind table -/
def inflate : Inflate := fun bs =>
  match inflateZlib ⟨bs.toArray⟩ with
  | .ok out => .ok out.data.toList
  | .error .eof => .err (.io .unexpectedEof)
  | .error .corrupt => .err (.io (.other 1))

/-- zlib stream made of stored blocks only (for the generator) -/
def deflateStored (bs : Bytes) : Bytes :=
  let rec go (rest : Bytes) (fuel : Nat) : Bytes :=
    match fuel with
    | 0 => []
    | fuel + 1 =>
        let blk := rest.take 65535
        let rest' := rest.drop 65535
        let final : UInt8 := if rest'.isEmpty then 1 else 0
        let n := blk.length
        [final, UInt8.ofNat (n % 256), UInt8.ofNat (n / 256),
         UInt8.ofNat ((65535 - n) % 256), UInt8.ofNat ((65535 - n) / 256)] ++ blk ++
          (if rest'.isEmpty then [] else go rest' fuel)
  let ad := adler32 ⟨bs.toArray⟩
  [0x78, 0x01] ++ go bs (bs.length / 65535 + 1) ++
    [UInt8.ofNat (ad / 16777216), UInt8.ofNat (ad / 65536 % 256), UInt8.ofNat (ad / 256 % 256),
     UInt8.ofNat (ad % 256)]

end Ase.Zlib
