import Ase.Render
/-
  Model of `src/util.rs` (feature `utils`): `extrude_border`, `PaletteMapper`,
  `to_indexed_image`.

  Images are pixel arrays (`Ase.Image`, row-major, one `RGBA` per pixel) rather than
  raw byte buffers: every slice the Rust takes is a whole number of 4-byte pixels, so
  `&src[4*a .. 4*b]` is modelled by the pixel slice `a .. b`.
-/
namespace Ase.Util
open Ase

/-! ## `extrude_border` -/

/-- `&src[a..b]` on pixels: panics when `a > b` or `b > len`. -/
def slice (src : Array RGBA) (a b : Nat) : Res (Array RGBA) :=
  if a ≤ b ∧ b ≤ src.size then .ok (src.extract a b) else .panic .sliceRange

/-- `once(0).chain(0..h).chain(once(h - 1))` -/
def rowIndices (h : Nat) : List Nat := 0 :: (List.range h ++ [h - 1])

/-- The body of the `for src_row in ..` loop, iterated over the remaining rows:
    append pixel `(0, row)`, the whole row, pixel `(w-1, row)` to `data`. -/
def extrudeLoop (src : Array RGBA) (w : Nat) : List Nat → Array RGBA → Res (Array RGBA)
  | [], data => .ok data
  | row :: rest, data =>
      let ofs := row * w
      match slice src ofs (ofs + 1) with                 -- `src[ofs..ofs + bpp]`
      | .ok s1 =>
          match slice src ofs (ofs + w) with             -- `src[ofs..ofs + bpp_w]`
          | .ok s2 =>
              match slice src (ofs + w - 1) (ofs + w) with -- `src[ofs + bpp_w - bpp..ofs + bpp_w]`
              | .ok s3 => extrudeLoop src w rest (data ++ s1 ++ s2 ++ s3)
              | .err e => .err e
              | .panic s => .panic s
          | .err e => .err e
          | .panic s => .panic s
      | .err e => .err e
      | .panic s => .panic s

/-- `extrude_border`.  With `w = 0` or `h = 0` the Rust always panics (`h - 1` /
    `ofs + bpp_w - bpp` underflow, or the first slice is out of range); all of these
    are reported as `.panic .sliceRange`. -/
def extrudeBorder (img : Image) : Res Image :=
  if img.w = 0 ∨ img.h = 0 then .panic .sliceRange
  else
    match extrudeLoop img.px img.w (rowIndices img.h) #[] with
    | .ok data => Image.fromRaw (img.w + 2) (img.h + 2) data
    | .err e => .err e
    | .panic s => .panic s

/-! ## `PaletteMapper` -/

/-- `MappingOptions` -/
structure MappingOptions where
  /-- index used for a colour that is not in the palette -/
  failure : UInt8
  /-- index used for a pixel with `alpha != 255`; `none`: use `failure` -/
  transparent : Option UInt8
  deriving DecidableEq, Repr, Inhabited

/-- `PaletteMapper`; `map` is the `IntMap<u32, u8>` as an association list with distinct
    keys (kept by `assocInsert`). -/
structure PaletteMapper where
  map : List (Nat × UInt8)
  transparent : UInt8
  failure : UInt8
  deriving DecidableEq, Repr, Inhabited

/-- `r as u32 + ((g as u32) << 8) + ((b as u32) << 16)` (at most `2^24 - 1`: no overflow) -/
def colorKey (r g b : UInt8) : Nat := r.toNat + g.toNat * 256 + b.toNat * 65536

/-- The value inserted for the palette entry stored under key `idx`. -/
def mapValue (opts : MappingOptions) (idx : Nat) : UInt8 :=
  if idx < 256 then UInt8.ofNat idx else opts.failure

/-- One iteration of the loop in `PaletteMapper::new`: `map.insert(m, col)`. -/
def insertEntry (opts : MappingOptions) (m : List (Nat × UInt8)) (p : Nat × PalEntry) :
    List (Nat × UInt8) :=
  assocInsert (colorKey p.2.rgba.r p.2.rgba.g p.2.rgba.b) (mapValue opts p.1) m

/-- `PaletteMapper::new`.  The Rust iterates over a hash map, whose iteration order is
    unspecified; `order` is that order (the `(key, entry)` pairs of `palette.entries` in
    the order in which the iterator yields them). -/
def PaletteMapper.new (order : List (Nat × PalEntry)) (opts : MappingOptions) : PaletteMapper :=
  { map := order.foldl (insertEntry opts) []
    transparent := opts.transparent.getD opts.failure
    failure := opts.failure }

/-- `PaletteMapper::lookup` -/
def PaletteMapper.lookup (pm : PaletteMapper) (r g b alpha : UInt8) : UInt8 :=
  if alpha != 255 then pm.transparent
  else (assocGet? (colorKey r g b) pm.map).getD pm.failure

/-! ## `to_indexed_image` -/

/-- `to_indexed_image`: `image.pixels()` are the first `w * h` pixels of the buffer, in
    row-major order. -/
def toIndexedImage (img : Image) (pm : PaletteMapper) : (Nat × Nat) × Array UInt8 :=
  ((img.w, img.h),
   (img.px.extract 0 (img.w * img.h)).map (fun c => pm.lookup c.r c.g c.b c.a))

end Ase.Util
