import Ase.Parse
/-
  Allocation account for property C12 (memory used while loading is bounded by the bytes
  actually supplied).

  The account charges, for everything the loader has framed so far, an upper bound of what the
  Rust allocates for it, as a function of the number of bytes CONSUMED — never of a size that
  is merely declared inside the file:

  * fixed tables sized by the header's frame count (`frame_times`, the two per-frame cel
    tables): at most 65535 frames;
  * per chunk, the chunk buffer and `Chunk` record (held until the end of the frame), the
    decoded structure (strings, entries, keys: a constant factor of the payload), for compressed
    payloads (cel, tileset) the inflated data, its typed copy and the growth slack of
    `read_to_end`, bounded through the deflate expansion limit of 1032:1 (an assumption about
    the inflater, see `ExpansionBounded`), for layer chunks one row of the `num_frames x
    num_layers` link table of validation;
  * one transient reservation at a time (`Vec::with_capacity(num_tags)` ≤ 65535 x 64 bytes,
    string buffers ≤ 64 KiB, the partially read buffer of a chunk whose body is truncated).

  The constants are deliberately generous; that the account really is an upper bound of the
  allocator traffic is what the correspondence check measures with a counting global allocator
  (`peak_impl ≤ reserved`), and what it cannot prove.
-/
namespace Ase.Alloc

/-- what `inflate` may produce: at most 1032 output bytes per input byte (+ one block) -/
def ExpansionBounded (inflate : Inflate) : Prop :=
  ∀ z out, inflate z = .ok out → out.length ≤ 1032 * z.length + 1032

def fixedCost (numFrames : Nat) : Nat := 1048576 + 256 * numFrames

/-- bytes held for one framed chunk until the load ends -/
def chunkCost (c : Chunk) : Nat :=
  -- chunk buffer with growth slack + the Chunk record
  (4 * c.data.length + 128) +
  (match c.ty with
   | .cel | .tileset =>
       -- inflated bytes N ≤ 1032 n + 1032: the byte buffer with growth slack (2 N), and the typed
       -- copy, which for tiles is 8 bytes per 4-byte entry (2 N) in a vector that grows by doubling
       -- (capacity up to 4 N, with the old block of 2 N alive while it moves): 7 N at the worst
       7 * (1032 * c.data.length + 1032) + 2048
   | .layer => (if c.data.length ≥ 18 then 65535 else 0) + 64 * c.data.length + 1024
   | _ => 64 * c.data.length + 1024)

/-- the largest transient reservation (one at a time) -/
def transientCost : Nat := 8388608

/-- `Chunk::read_all` as far as it gets: the chunks framed so far and what is left -/
def readChunksPartial : Nat → Int → Bytes → List Chunk × Bytes
  | 0, _, bs => ([], bs)
  | n + 1, avail, bs =>
      match readChunk bytesSrc avail bs with
      | .ok ((c, avail'), rest) =>
          let (cs, rest') := readChunksPartial n avail' rest
          (c :: cs, rest')
      | _ => ([], bs)

/-- frames `n` as far as the framing gets (decoding errors do not matter for an upper bound:
    a frame that was read was allocated) -/
def framesCost : Nat → Bytes → Nat
  | 0, _ => 0
  | n + 1, bs =>
      match readFrameHeader bytesSrc bs with
      | .ok (h, rest) =>
          let (cs, rest') := readChunksPartial h.numChunks ((h.numBytes.toNat : Int) - 16) rest
          (cs.map chunkCost).sum +
            (if cs.length == h.numChunks then framesCost n rest'
             else 4 * rest'.length)     -- a chunk body that could not be read completely
      | _ => 0

/-- upper bound of the live heap while loading `bs` -/
def reserved (bs : Bytes) : Nat :=
  match readHeader bytesSrc bs with
  | .ok (h, rest) => fixedCost h.numFrames.toNat + transientCost + framesCost h.numFrames.toNat rest
  | _ => transientCost

/-- the bound of property C12 -/
def bound (len : Nat) : Nat := 64 * 1048576 + 8192 * len

end Ase.Alloc
