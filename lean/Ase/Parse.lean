import Ase.Chunks
/-
  File header, frames, chunk framing, the `ParseInfo` state machine and the
  validation stage (`parse.rs`, `cel.rs:194-305`, `layer.rs:165-185,300-321`,
  `tileset.rs:287-325`, `pixel.rs:150-185`, `palette.rs:34-46`).
-/
namespace Ase

inductive ChunkType where
  | oldPalette04 | oldPalette11 | palette | layer | cel | celExtra | colorProfile
  | mask | path | tags | userData | slice | externalFiles | tileset
  deriving DecidableEq, Repr, Inhabited

def parseChunkType (code : UInt16) : Res ChunkType :=
  match code.toNat with
  | 0x0004 => .ok .oldPalette04
  | 0x0011 => .ok .oldPalette11
  | 0x2004 => .ok .layer
  | 0x2005 => .ok .cel
  | 0x2006 => .ok .celExtra
  | 0x2007 => .ok .colorProfile
  | 0x2008 => .ok .externalFiles
  | 0x2016 => .ok .mask
  | 0x2017 => .ok .path
  | 0x2018 => .ok .tags
  | 0x2019 => .ok .palette
  | 0x2020 => .ok .userData
  | 0x2022 => .ok .slice
  | 0x2023 => .ok .tileset
  | _ => .err .unsupported

structure Chunk where
  ty : ChunkType
  data : Bytes
  deriving Repr, Inhabited

inductive UDCtx where
  | cel (frame layer : Nat)
  | layer (idx : Nat)
  | oldPalette
  | tag (idx : Nat)
  | slice (idx : Nat)
  deriving DecidableEq, Repr, Inhabited

structure ParseInfo where
  palette : Option Palette
  layers : Array LayerData
  cels : Array (FrameCels RawPixels)
  frameTimes : Array UInt16
  tags : Option (Array Tag)
  extFiles : List (Nat × ExternalFile)
  tilesets : List (Nat × Tileset RawPixels)
  spriteUserData : Option UserData
  ctx : Option UDCtx
  slices : Array Slice
  deriving Repr, Inhabited

def ParseInfo.new (numFrames : Nat) (defaultTime : UInt16) : ParseInfo :=
  { palette := none, layers := #[], cels := Array.replicate numFrames [],
    frameTimes := Array.replicate numFrames defaultTime, tags := none, extFiles := [],
    tilesets := [], spriteUserData := none, ctx := none, slices := #[] }

/-! ### chunk framing (`parse.rs:426-468`) -/

section top
variable {σ : Type} (S : Src σ)

/-- `Chunk::read`; `avail` is the frame's remaining byte budget (an `i64`). -/
def readChunk (avail : Int) : RdS σ (Chunk × Int) := do
  let size ← readU32 S
  let code ← readU16 S
  let ty ← RdS.lift (parseChunkType code)
  if size.toNat < 6 then RdS.fail .invalid else
  if (size.toNat : Int) > avail then RdS.fail .invalid else
  let data ← readN S (size.toNat - 6)
  pure (⟨ty, data⟩, avail - size.toNat)

/-- `Chunk::read_all` -/
def readChunks : Nat → Int → RdS σ (List Chunk)
  | 0, _ => pure []
  | n + 1, avail => do
      let (c, avail') ← readChunk S avail
      let rest ← readChunks n avail'
      pure (c :: rest)

structure FrameHeader where
  numBytes : UInt32
  oldChunks : UInt16
  duration : UInt16
  newChunks : UInt32
  deriving Repr, Inhabited

def readFrameHeader : RdS σ FrameHeader := do
  let numBytes ← readU32 S
  let magic ← readU16 S
  if magic.toNat != 0xF1FA then RdS.fail .invalid else
  let old ← readU16 S
  let dur ← readU16 S
  let _ph ← readU16 S
  let new ← readU32 S
  pure ⟨numBytes, old, dur, new⟩

def FrameHeader.numChunks (h : FrameHeader) : Nat :=
  if h.newChunks.toNat == 0 then h.oldChunks.toNat else h.newChunks.toNat

structure Header where
  numFrames : UInt16
  width : UInt16
  height : UInt16
  colorDepth : UInt16
  defaultTime : UInt16
  tci : UInt8
  pixelW : UInt8
  pixelH : UInt8
  deriving Repr, Inhabited

def readHeader : RdS σ Header := do
  let _size ← readU32 S
  let magic ← readU16 S
  if magic.toNat != 0xA5E0 then RdS.fail .invalid else
  let numFrames ← readU16 S
  let width ← readU16 S
  let height ← readU16 S
  let depth ← readU16 S
  let _flags ← readU32 S
  let defTime ← readU16 S
  let _p1 ← readU32 S
  let _p2 ← readU32 S
  let tci ← readU8 S
  let _i1 ← readU8 S
  let _i2 ← readU16 S
  let _ncol ← readU16 S
  let pw ← readU8 S
  let ph ← readU8 S
  let _gx ← readI16 S
  let _gy ← readI16 S
  let _gw ← readU16 S
  let _gh ← readU16 S
  skip S 84
  pure ⟨numFrames, width, height, depth, defTime, tci, pw, ph⟩

end top

def pixelRatioOk (pw ph : UInt8) : Bool :=
  !(pw.toNat != 0 && ph.toNat != 0 && !(pw.toNat == 1 && ph.toNat == 1))

def parsePixelFormat (depth : UInt16) (tci : UInt8) : Res PixelFormat :=
  match depth.toNat with
  | 8 => .ok (.indexed tci)
  | 16 => .ok .grayscale
  | 32 => .ok .rgba
  | _ => .err .invalid

/-! ### the `ParseInfo` state machine (`parse.rs:31-141, 294-363`) -/

/-- run a chunk decoder on a chunk's buffer, ignoring what is left -/
def runChunk {α} (p : Rd α) (data : Bytes) : Res α := (p data).map (·.1)

def ParseInfo.addCel (pi : ParseInfo) (frame : Nat) (cel : RawCel RawPixels) : Res ParseInfo :=
  match pi.cels[frame]? with
  | none => .err .invalid          -- check_valid_frame_id
  | some row =>
      let layer := cel.data.layerIndex.toNat
      if (FrameCels.get? layer row).isSome then .err .invalid else
      .ok { pi with cels := pi.cels.set! frame (FrameCels.insert layer cel row),
                    ctx := some (.cel frame layer) }

def setUD {α} (arr : Array α) (i : Nat) (f : α → α) : Option (Array α) :=
  match arr[i]? with
  | none => none
  | some a => some (arr.set! i (f a))

def ParseInfo.addUserData (pi : ParseInfo) (ud : UserData) : Res ParseInfo :=
  match pi.ctx with
  | none => .err .invalid
  | some (.cel f l) =>
      match pi.cels[f]? with
      | none => .panic .index       -- `self.data[frame]`; the context always holds a valid frame
      | some row =>
          match FrameCels.get? l row with
          | none => .err .internal
          | some _ =>
              let row' := FrameCels.modify l (fun c => { c with userData := some ud }) row
              .ok { pi with cels := pi.cels.set! f row' }
  | some (.layer i) =>
      match setUD pi.layers i (fun l => { l with userData := some ud }) with
      | none => .err .internal
      | some ls => .ok { pi with layers := ls }
  | some .oldPalette => .ok { pi with spriteUserData := some ud }
  | some (.tag i) =>
      match pi.tags with
      | none => .err .internal
      | some tags =>
          match setUD tags i (fun t => { t with userData := some ud }) with
          | none => .err .internal
          | some ts => .ok { pi with tags := some ts, ctx := some (.tag (i + 1)) }
  | some (.slice i) =>
      match setUD pi.slices i (fun s => { s with userData := some ud }) with
      | none => .err .internal
      | some ss => .ok { pi with slices := ss }

def addExtFiles (m : List (Nat × ExternalFile)) : List ExternalFile → List (Nat × ExternalFile)
  | [] => m
  | f :: t => addExtFiles (assocInsert f.id.toNat f m) t

/-- one arm of the `match chunk_type` in `parse_frame` -/
def processChunk (inflate : Inflate) (m : Profile) (fmt : PixelFormat) (frame : Nat)
    (pi : ParseInfo) (c : Chunk) : Res ParseInfo :=
  match c.ty with
  | .colorProfile => do
      runChunk parseColorProfileChunk c.data
      pure pi
  | .palette => do
      let p ← runChunk parsePaletteChunk c.data
      pure { pi with palette := some p }
  | .layer => do
      let l ← runChunk parseLayerChunk c.data
      pure { pi with layers := pi.layers.push l, ctx := some (.layer pi.layers.size) }
  | .cel => do
      let cel ← runChunk (parseCelChunk inflate fmt) c.data
      pi.addCel frame cel
  | .externalFiles => do
      let fs ← runChunk parseExternalFilesChunk c.data
      pure { pi with extFiles := addExtFiles pi.extFiles fs }
  | .tags => do
      let ts ← runChunk parseTagsChunk c.data
      if frame == 0 then pure { pi with tags := some ts.toArray, ctx := some (.tag 0) }
      else pure pi
  | .slice => do
      let s ← runChunk parseSliceChunk c.data
      pure { pi with slices := pi.slices.push s, ctx := some (.slice pi.slices.size) }
  | .userData => do
      let ud ← runChunk parseUserDataChunk c.data
      pi.addUserData ud
  | .oldPalette04 =>
      let pi' := { pi with ctx := some .oldPalette }
      if pi.palette.isNone then do
        let p ← runChunk (parseOldPaletteChunk m false) c.data
        pure { pi' with palette := some p }
      else pure pi'
  | .oldPalette11 =>
      let pi' := { pi with ctx := some .oldPalette }
      if pi.palette.isNone then do
        let p ← runChunk (parseOldPaletteChunk m true) c.data
        pure { pi' with palette := some p }
      else pure pi'
  | .tileset => do
      let t ← runChunk (parseTilesetChunk inflate fmt) c.data
      pure { pi with tilesets := assocInsert t.id.toNat t pi.tilesets }
  | .celExtra | .mask | .path => pure pi

/-- `processChunk` with the growing arrays (`layers`, `slices`) used linearly: the compiled
    `processChunk` pushes onto an array that the old state still references, which copies the
    array for every layer chunk (quadratic for sprites with tens of thousands of layers).
    Installed for compiled code by the `csimp` equation below; no theorem mentions it. -/
def processChunkFast (inflate : Inflate) (m : Profile) (fmt : PixelFormat) (frame : Nat)
    (pi : ParseInfo) (c : Chunk) : Res ParseInfo :=
  match c.ty with
  | .layer =>
      match runChunk parseLayerChunk c.data with
      | .ok l =>
          let n := pi.layers.size
          let ls := pi.layers
          let pi := { pi with layers := #[] }
          .ok { pi with layers := ls.push l, ctx := some (.layer n) }
      | .err e => .err e
      | .panic q => .panic q
  | .slice =>
      match runChunk parseSliceChunk c.data with
      | .ok s =>
          let n := pi.slices.size
          let ss := pi.slices
          let pi := { pi with slices := #[] }
          .ok { pi with slices := ss.push s, ctx := some (.slice n) }
      | .err e => .err e
      | .panic q => .panic q
  | _ => processChunk inflate m fmt frame pi c

@[csimp] theorem processChunk_eq_fast : @processChunk = @processChunkFast := by
  funext inflate m fmt frame pi c
  unfold processChunkFast
  split
  · rename_i h
    unfold processChunk
    simp only [h]
    cases runChunk parseLayerChunk c.data <;> rfl
  · rename_i h
    unfold processChunk
    simp only [h]
    cases runChunk parseSliceChunk c.data <;> rfl
  · rfl

def processChunks (inflate : Inflate) (m : Profile) (fmt : PixelFormat) (frame : Nat) :
    ParseInfo → List Chunk → Res ParseInfo
  | pi, [] => .ok pi
  | pi, c :: cs =>
      match processChunk inflate m fmt frame pi c with
      | .ok pi' => processChunks inflate m fmt frame pi' cs
      | .err e => .err e
      | .panic p => .panic p

section top2
variable {σ : Type} (S : Src σ)

/-- `parse_frame` -/
def parseFrame (inflate : Inflate) (m : Profile) (fmt : PixelFormat) (frame : Nat)
    (pi : ParseInfo) : RdS σ ParseInfo := do
  let h ← readFrameHeader S
  -- `parse_info.frame_times[frame_id] = ..`: frame_id < num_frames = len, never out of range
  let pi1 := { pi with frameTimes := pi.frameTimes.set! frame h.duration }
  let chunks ← readChunks S h.numChunks ((h.numBytes.toNat : Int) - 16)
  RdS.lift (processChunks inflate m fmt frame pi1 chunks)

/-- frames `frame, frame+1, …` (`n` of them) -/
def parseFrames (inflate : Inflate) (m : Profile) (fmt : PixelFormat) :
    Nat → Nat → ParseInfo → RdS σ ParseInfo
  | 0, _, pi => pure pi
  | n + 1, frame, pi => do
      let pi' ← parseFrame S inflate m fmt frame pi
      parseFrames inflate m fmt n (frame + 1) pi'

end top2

/-! ### validation -/

/-- `compute_parents` (after the fix: an `Err` instead of the underflow / `assert!`). -/
def findParent (levels : Array UInt16) (my : UInt16) : Nat → Res Nat
  | 0 => .err .invalid
  | cand + 1 =>
      match levels[cand]? with
      | none => .panic .index
      | some l => if l < my then .ok cand else findParent levels my cand

def computeParentsFrom (levels : Array UInt16) : Nat → Nat → Res (List (Option Nat))
  | 0, _ => .ok []
  | n + 1, id =>
      match levels[id]? with
      | none => .panic .index
      | some my =>
          if my.toNat == 0 then
            (computeParentsFrom levels n (id + 1)).map (none :: ·)
          else
            match findParent levels my id with
            | .ok p => (computeParentsFrom levels n (id + 1)).map (some p :: ·)
            | .err e => .err e
            | .panic s => .panic s

def computeParents (layers : Array LayerData) : Res (Array (Option Nat)) :=
  (computeParentsFrom (layers.map (·.childLevel)) layers.size 0).map List.toArray

/-- `ColorPalette::validate_indexed_pixels` -/
def validateIndexed (p : Palette) (px : Array UInt8) : Bool :=
  px.all (fun i => (p.color i.toNat).isSome)

/-- `RawPixels::validate` -/
def validatePixels (palette : Option Palette) (fmt : PixelFormat) (background : Bool) :
    RawPixels → Res Pixels
  | .rgba px => .ok (.rgba px)
  | .gray px => .ok (.gray px)
  | .indexed px =>
      match palette with
      | none => .err .invalid
      | some p =>
          if !validateIndexed p px then .err .invalid else
          match fmt with
          | .indexed tci => .ok (.indexed tci background px)
          | _ => .err .invalid

/-- `TilesetsById::validate` (the map's iteration order only selects which error is reported) -/
def validateTilesets (palette : Option Palette) (fmt : PixelFormat) :
    List (Nat × Tileset RawPixels) → Res (List (Nat × Tileset Pixels))
  | [] => .ok []
  | (k, t) :: rest =>
      match t.pixels with
      | none => .err .unsupported
      | some raw =>
          match validatePixels palette fmt false raw with
          | .ok px =>
              (validateTilesets palette fmt rest).map
                (fun r => (k, { id := t.id, emptyTileIsZero := t.emptyTileIsZero,
                                tileCount := t.tileCount, tileW := t.tileW, tileH := t.tileH,
                                baseIndex := t.baseIndex, name := t.name, extFile := t.extFile,
                                pixels := some px }) :: r)
          | .err e => .err e
          | .panic s => .panic s

/-- `LayersData::validate` -/
def validateLayers {P} (tilesets : List (Nat × Tileset P)) (layers : Array LayerData) : Bool :=
  layers.all (fun l => match l.layerType with
    | .tilemap id => (assocGet? id.toNat tilesets).isSome
    | _ => true)

/-- is `(frame, layer)` a raw cel of the unvalidated table (`is_linkable_cel`) -/
def isLinkable (numFrames : Nat) (cels : Array (FrameCels RawPixels)) (frame layer : Nat) : Bool :=
  frame < numFrames &&
    match cels[frame]? with
    | none => false
    | some row => match FrameCels.get? layer row with
        | none => false
        | some c => c.content.isRaw

/-- `RawCel::validate` (the caller has checked `layer < layers.size`) -/
def validateCel (layers : Array LayerData) (tilesets : List (Nat × Tileset Pixels))
    (palette : Option Palette) (fmt : PixelFormat) (numFrames : Nat)
    (cels : Array (FrameCels RawPixels)) (layer : Nat) (c : RawCel RawPixels) :
    Res (RawCel Pixels) :=
  match layers[layer]? with
  | none => .panic .index
  | some ld =>
      match c.content with
      | .raw w h px =>
          match validatePixels palette fmt ld.isBackground px with
          | .ok px' => .ok { data := c.data, content := .raw w h px', userData := c.userData }
          | .err e => .err e
          | .panic s => .panic s
      | .linked f =>
          if isLinkable numFrames cels f.toNat layer then
            .ok { data := c.data, content := .linked f, userData := c.userData }
          else .err .invalid
      | .tilemap t =>
          match ld.layerType with
          | .tilemap tsid =>
              let count := match assocGet? tsid.toNat tilesets with
                | some ts => ts.tileCount.toNat
                | none => 0
              if t.tiles.all (fun id => id.toNat < count) then
                .ok { data := c.data, content := .tilemap t, userData := c.userData }
              else .err .invalid
          | _ => .err .invalid

def validateRow (layers : Array LayerData) (tilesets : List (Nat × Tileset Pixels))
    (palette : Option Palette) (fmt : PixelFormat) (numFrames : Nat)
    (cels : Array (FrameCels RawPixels)) : FrameCels RawPixels → Res (FrameCels Pixels)
  | [] => .ok []
  | (layer, c) :: rest =>
      if layer ≥ layers.size then .err .invalid else
      match validateCel layers tilesets palette fmt numFrames cels layer c with
      | .ok c' =>
          (validateRow layers tilesets palette fmt numFrames cels rest).map ((layer, c') :: ·)
      | .err e => .err e
      | .panic s => .panic s

def validateRows (layers : Array LayerData) (tilesets : List (Nat × Tileset Pixels))
    (palette : Option Palette) (fmt : PixelFormat) (numFrames : Nat)
    (cels : Array (FrameCels RawPixels)) : List (FrameCels RawPixels) → Res (List (FrameCels Pixels))
  | [] => .ok []
  | row :: rest =>
      match validateRow layers tilesets palette fmt numFrames cels row with
      | .ok r => (validateRows layers tilesets palette fmt numFrames cels rest).map (r :: ·)
      | .err e => .err e
      | .panic s => .panic s

/-- `ParseInfo::validate` followed by the construction of `AsepriteFile`. -/
def validate (h : Header) (fmt : PixelFormat) (pi : ParseInfo) : Res Sprite := do
  let parents ← computeParents pi.layers
  let tilesets ← validateTilesets pi.palette fmt pi.tilesets
  if !validateLayers tilesets pi.layers then .err .invalid else
  let rows ← validateRows pi.layers tilesets pi.palette fmt h.numFrames.toNat pi.cels pi.cels.toList
  pure { width := h.width, height := h.height, numFrames := h.numFrames, format := fmt,
         palette := pi.palette, layers := pi.layers, parents := parents,
         frameTimes := pi.frameTimes, tags := pi.tags.getD #[], cels := rows.toArray,
         extFiles := pi.extFiles, tilesets := tilesets,
         spriteUserData := pi.spriteUserData, slices := pi.slices }

/-! ### `read_aseprite` -/

def parseFile {σ : Type} (S : Src σ) (inflate : Inflate) (m : Profile) : RdS σ Sprite := do
  let h ← readHeader S
  if !pixelRatioOk h.pixelW h.pixelH then RdS.fail .unsupported else
  let fmt ← RdS.lift (parsePixelFormat h.colorDepth h.tci)
  let pi ← parseFrames S inflate m fmt h.numFrames.toNat 0
              (ParseInfo.new h.numFrames.toNat h.defaultTime)
  RdS.lift (validate h fmt pi)

/-- `AsepriteFile::read` on an in-memory byte string. -/
def parse (inflate : Inflate) (m : Profile) (bs : Bytes) : Res Sprite :=
  (parseFile bytesSrc inflate m bs).map (·.1)

end Ase
