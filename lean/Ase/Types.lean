import Ase.Bytes
/-
  Data types of the model: what the Rust structs hold, field for field.
  Fixed-width fields are machine types so that their ranges come for free.
-/
namespace Ase

structure RGBA where
  r : UInt8
  g : UInt8
  b : UInt8
  a : UInt8
  deriving DecidableEq, Repr, Inhabited

def RGBA.zero : RGBA := ⟨0, 0, 0, 0⟩

structure UserData where
  text : Option Bytes
  color : Option RGBA
  deriving DecidableEq, Repr, Inhabited

inductive LayerType where
  | image
  | group
  | tilemap (tileset : UInt32)
  deriving DecidableEq, Repr, Inhabited

structure LayerData where
  /-- the stored word restricted to the seven documented bits (`from_bits_truncate`) -/
  flags : Nat
  name : Bytes
  /-- 0 = Normal … 18 = Divide -/
  blendMode : Nat
  opacity : UInt8
  layerType : LayerType
  childLevel : UInt16
  userData : Option UserData
  deriving DecidableEq, Repr, Inhabited

def LayerData.visibleFlag (l : LayerData) : Bool := l.flags % 2 == 1
def LayerData.isBackground (l : LayerData) : Bool := (l.flags / 8) % 2 == 1

inductive PixelFormat where
  | rgba
  | grayscale
  | indexed (tci : UInt8)
  deriving DecidableEq, Repr, Inhabited

def PixelFormat.bpp : PixelFormat → Nat
  | .rgba => 4
  | .grayscale => 2
  | .indexed _ => 1

/-- `RawPixels`: pixel data as stored, before validation. -/
inductive RawPixels where
  | rgba (px : Array RGBA)
  | gray (px : Array (UInt8 × UInt8))
  | indexed (px : Array UInt8)
  deriving Repr, Inhabited

/-- `Pixels`: validated pixel data. The palette an indexed buffer refers to is the
    sprite's palette (the Rust keeps an `Arc` to the very same value). -/
inductive Pixels where
  | rgba (px : Array RGBA)
  | gray (px : Array (UInt8 × UInt8))
  | indexed (tci : UInt8) (background : Bool) (px : Array UInt8)
  deriving Repr, Inhabited

structure PalEntry where
  id : Nat
  rgba : RGBA
  name : Option Bytes
  deriving DecidableEq, Repr, Inhabited

/-- `IntMap<u32, ColorPaletteEntry>`: a finite map; iteration order is not modelled.
    Invariant kept by `Palette.insert`: keys are distinct. -/
structure Palette where
  entries : List (Nat × PalEntry)
  deriving Repr, Inhabited

def assocInsert {α} (k : Nat) (v : α) (l : List (Nat × α)) : List (Nat × α) :=
  (k, v) :: l.filter (fun p => p.1 != k)

def assocGet? {α} (k : Nat) (l : List (Nat × α)) : Option α :=
  (l.find? (fun p => p.1 == k)).map (·.2)

def Palette.empty : Palette := ⟨[]⟩
def Palette.insert (p : Palette) (e : PalEntry) : Palette := ⟨assocInsert e.id e p.entries⟩
def Palette.color (p : Palette) (i : Nat) : Option PalEntry := assocGet? i p.entries
def Palette.numColors (p : Palette) : Nat := p.entries.length

structure CelCommon where
  layerIndex : UInt16
  x : Int16
  y : Int16
  opacity : UInt8
  deriving DecidableEq, Repr, Inhabited

structure TileBitmask where
  tileId : UInt32
  xFlip : UInt32
  yFlip : UInt32
  rot : UInt32
  deriving DecidableEq, Repr, Inhabited

structure TilemapData where
  width : UInt16
  height : UInt16
  /-- tile ids (`bits & header.tile_id`); flips are not exposed by the public API -/
  tiles : Array UInt32
  mask : TileBitmask
  deriving Repr, Inhabited

inductive CelContent (P : Type) where
  | raw (w h : UInt16) (px : P)
  | linked (frame : UInt16)
  | tilemap (t : TilemapData)
  deriving Repr, Inhabited

def CelContent.isRaw {P} : CelContent P → Bool
  | .raw _ _ _ => true
  | _ => false

structure RawCel (P : Type) where
  data : CelCommon
  content : CelContent P
  userData : Option UserData
  deriving Repr, Inhabited

structure Tileset (P : Type) where
  id : UInt32
  emptyTileIsZero : Bool
  tileCount : UInt32
  tileW : UInt16
  tileH : UInt16
  baseIndex : Int16
  name : Bytes
  extFile : Option (UInt32 × UInt32)
  pixels : Option P
  deriving Repr, Inhabited

structure Tag where
  name : Bytes
  fromFrame : UInt16
  toFrame : UInt16
  repeatCount : UInt16
  /-- 0 forward, 1 reverse, 2 ping-pong -/
  direction : Nat
  userData : Option UserData
  deriving DecidableEq, Repr, Inhabited

structure Slice9 where
  cx : Int32
  cy : Int32
  cw : UInt32
  ch : UInt32
  deriving DecidableEq, Repr, Inhabited

structure SliceKey where
  fromFrame : UInt32
  ox : Int32
  oy : Int32
  w : UInt32
  h : UInt32
  slice9 : Option Slice9
  pivot : Option (Int32 × Int32)
  deriving DecidableEq, Repr, Inhabited

structure Slice where
  name : Bytes
  keys : List SliceKey
  userData : Option UserData
  deriving DecidableEq, Repr, Inhabited

structure ExternalFile where
  id : UInt32
  name : Bytes
  deriving DecidableEq, Repr, Inhabited

/-- One frame's cels: `BTreeMap<u16, RawCel>` as an association list sorted by layer id. -/
abbrev FrameCels (P : Type) := List (Nat × RawCel P)

def FrameCels.get? {P} (k : Nat) (l : FrameCels P) : Option (RawCel P) :=
  (l.find? (fun p => p.1 == k)).map (·.2)

/-- sorted insert; the caller has checked that `k` is absent -/
def FrameCels.insert {P} (k : Nat) (c : RawCel P) : FrameCels P → FrameCels P
  | [] => [(k, c)]
  | (k', c') :: t => if k < k' then (k, c) :: (k', c') :: t else (k', c') :: FrameCels.insert k c t

def FrameCels.modify {P} (k : Nat) (f : RawCel P → RawCel P) : FrameCels P → FrameCels P
  | [] => []
  | (k', c') :: t => if k' == k then (k', f c') :: t else (k', c') :: FrameCels.modify k f t

/-- The loaded sprite (`AsepriteFile`). -/
structure Sprite where
  width : UInt16
  height : UInt16
  numFrames : UInt16
  format : PixelFormat
  palette : Option Palette
  layers : Array LayerData
  parents : Array (Option Nat)
  frameTimes : Array UInt16
  tags : Array Tag
  cels : Array (FrameCels Pixels)
  extFiles : List (Nat × ExternalFile)
  tilesets : List (Nat × Tileset Pixels)
  spriteUserData : Option UserData
  slices : Array Slice
  deriving Repr, Inhabited

end Ase
