import Ase.Parse
/-
  A user-supplied `std::io::Read` seen through `read_exact` / `take(n).read_to_end`
  (property C14).

  The reader owns the remaining bytes `data` and a schedule `sched`: one event per call of
  `Read::read`.  `readExact n` is std's default `read_exact` loop.
-/
namespace Ase

/-- What one call of `Read::read(buf)` does. -/
inductive Ev where
  /-- deliver up to `n` bytes (at least one, at most what is asked for and what is left) -/
  | deliver (n : Nat)
  /-- `ErrorKind::Interrupted`: `read_exact` retries -/
  | interrupted
  /-- any other I/O error: `read_exact` returns it -/
  | fail (k : IoKind)
  deriving DecidableEq, Repr, Inhabited

structure Stream where
  data : Bytes
  sched : List Ev
  deriving DecidableEq, Repr, Inhabited

/-- The `read_exact` loop: `need` bytes are still missing, `acc` is what has been read so far.
    Structural recursion on the schedule. -/
def readExactGo : List Ev → Nat → Bytes → Bytes → Res (Bytes × Stream)
  | sched, 0, acc, data => .ok (acc, ⟨data, sched⟩)
  | [], need + 1, acc, data =>
      -- schedule exhausted: the reader is well behaved from now on
      if need + 1 ≤ data.length then .ok (acc ++ data.take (need + 1), ⟨data.drop (need + 1), []⟩)
      else .err (.io .unexpectedEof)
  | .deliver k :: rest, need + 1, acc, data =>
      let d := min (min (max k 1) (need + 1)) data.length
      -- `read` returned `Ok(0)` although the buffer is not empty: "failed to fill whole buffer"
      if d = 0 then .err (.io .unexpectedEof)
      else readExactGo rest (need + 1 - d) (acc ++ data.take d) (data.drop d)
  | .interrupted :: rest, need + 1, acc, data => readExactGo rest (need + 1) acc data
  | .fail k :: _, _ + 1, _, _ => .err (.io k)

/-- `read_exact` of `n` bytes. -/
def readExact (n : Nat) (s : Stream) : Res (Bytes × Stream) :=
  readExactGo s.sched n [] s.data

def streamSrc : Src Stream := ⟨readExact⟩

/-- `AsepriteFile::read` on a scheduled reader. -/
def parseStream (inflate : Inflate) (m : Profile) (s : Stream) : Res Sprite :=
  (parseFile streamSrc inflate m s).map (·.1)

end Ase
