import Ase.Types
/-
  Model of `src/blend.rs`.  Integer arithmetic is `Int` (Rust `i32`; the range theorems of
  C17 show no intermediate leaves the `i32` range), `as u8` is reduction mod 256, `/` on `i32`
  is truncated division, `>>` on `i32` is the arithmetic shift.  Floating point is a parameter
  `FOps F`; the driver instantiates it with `Float` (IEEE binary64).
-/
namespace Ase

structure FOps (F : Type) where
  add : F → F → F
  sub : F → F → F
  mul : F → F → F
  div : F → F → F
  sqrt : F → F
  /-- `f64::max`, `f64::min` -/
  max : F → F → F
  min : F → F → F
  lt : F → F → Bool
  le : F → F → Bool
  /-- `i32 as f64` (exact) -/
  ofInt : Int → F
  /-- `f64 as i32`: truncation toward zero, saturating, NaN ↦ 0 -/
  toI32 : F → Int
  /-- `f64 as u32` -/
  toU32 : F → Nat
  /-- non-integer literals: 0.25, 0.5, 0.3, 0.59, 0.11 -/
  c0_25 : F
  c0_5 : F
  c0_3 : F
  c0_59 : F
  c0_11 : F

namespace Blend

/-- `x as u8` -/
def asU8 (x : Int) : UInt8 := UInt8.ofNat (x % 256).toNat

/-- `mul_un8(a, b) -> u8` -/
def mulUn8I (a b : Int) : Int :=
  let t := a * b + 128
  ((t >>> 8) + t) >>> 8

def mulUn8 (a b : Int) : UInt8 := asU8 (mulUn8I a b)

/-- `div_un8(a, b) -> u8`; panics on `b = 0` -/
def divUn8 (a b : Int) : Res UInt8 :=
  if b == 0 then .panic .divZero else .ok (asU8 (Int.tdiv (a * 255 + Int.tdiv b 2) b))

/-- `blend8(back, src, opacity) -> u8` -/
def blend8 (back src opacity : UInt8) : UInt8 :=
  let a : Int := (src.toNat : Int) - back.toNat
  asU8 ((back.toNat : Int) + mulUn8I a opacity.toNat)

def inByte (x : Int) : Bool := 0 ≤ x && x ≤ 255

/-- `from_rgba_i32`: the range `debug_assert!`s, then `as u8` -/
def fromRgbaI32 (m : Profile) (r g b a : Int) : Res RGBA :=
  if m.debugAsserts && !(inByte r && inByte g && inByte b && inByte a) then .panic .debugAssert
  else .ok ⟨asU8 r, asU8 g, asU8 b, asU8 a⟩

def ch (x : UInt8) : Int := (x.toNat : Int)

/-- `merge` (`rgba_blender_merge`) -/
def merge (back src : RGBA) (opacity : UInt8) : RGBA :=
  let (rr, rg, rb) :=
    if back.a == 0 then (src.r, src.g, src.b)
    else if src.a == 0 then (back.r, back.g, back.b)
    else (blend8 back.r src.r opacity, blend8 back.g src.g opacity, blend8 back.b src.b opacity)
  let ra := blend8 back.a src.a opacity
  if ra == 0 then ⟨0, 0, 0, 0⟩ else ⟨rr, rg, rb, ra⟩

/-- `normal` (`rgba_blender_normal`) -/
def normal (m : Profile) (back src : RGBA) (opacity : UInt8) : Res RGBA :=
  if back.a == 0 then
    fromRgbaI32 m (ch src.r) (ch src.g) (ch src.b) (ch (mulUn8 (ch src.a) (ch opacity)))
  else if src.a == 0 then .ok back
  else
    let sa : Int := ch (mulUn8 (ch src.a) (ch opacity))
    let ra : Int := sa + ch back.a - ch (mulUn8 (ch back.a) sa)
    if ra == 0 then .panic .divZero else
    let rr := ch back.r + Int.tdiv ((ch src.r - ch back.r) * sa) ra
    let rg := ch back.g + Int.tdiv ((ch src.g - ch back.g) * sa) ra
    let rb := ch back.b + Int.tdiv ((ch src.b - ch back.b) * sa) ra
    fromRgbaI32 m rr rg rb ra

/-- `blender`: the new-blending-method wrapper -/
def blender (m : Profile) (f : RGBA → RGBA → UInt8 → Res RGBA)
    (back src : RGBA) (opacity : UInt8) : Res RGBA :=
  if back.a != 0 then do
    let norm ← normal m back src opacity
    let bl ← f back src opacity
    let n2b := merge norm bl back.a
    let srcTotal := mulUn8 (ch src.a) (ch opacity)
    let comp := mulUn8 (ch back.a) (ch srcTotal)
    pure (merge n2b bl comp)
  else normal m back src opacity

/-- `blend_channel` -/
def blendChannel (m : Profile) (f : Int → Int → Res UInt8)
    (back src : RGBA) (opacity : UInt8) : Res RGBA := do
  let r ← f (ch back.r) (ch src.r)
  let g ← f (ch back.g) (ch src.g)
  let b ← f (ch back.b) (ch src.b)
  normal m back ⟨r, g, b, src.a⟩ opacity

def chMultiply (a b : Int) : Res UInt8 := .ok (mulUn8 a b)
def chScreen (a b : Int) : Res UInt8 := .ok (asU8 (a + b - ch (mulUn8 a b)))
def chHardLight (b s : Int) : Res UInt8 :=
  if s < 128 then chMultiply b (s * 2) else chScreen b (s * 2 - 255)
def chOverlay (b s : Int) : Res UInt8 := chHardLight s b
def chDarken (b s : Int) : Res UInt8 := .ok (asU8 (min b s))
def chLighten (b s : Int) : Res UInt8 := .ok (asU8 (max b s))
def chColorDodge (b s : Int) : Res UInt8 :=
  if b == 0 then .ok 0 else
  let s' := 255 - s
  if b ≥ s' then .ok 255 else divUn8 b s'
def chColorBurn (b s : Int) : Res UInt8 :=
  if b == 255 then .ok 255 else
  let b' := 255 - b
  if b' ≥ s then .ok 0 else (divUn8 b' s).map (fun d => asU8 (255 - ch d))
def chDivide (b s : Int) : Res UInt8 :=
  if b == 0 then .ok 0 else if b ≥ s then .ok 255 else divUn8 b s
def chDifference (b s : Int) : Res UInt8 := .ok (asU8 (b - s).natAbs)
def chExclusion (b s : Int) : Res UInt8 :=
  let t := ch (mulUn8 b s)
  .ok (asU8 (b + s - 2 * t))

def additionBase (m : Profile) (back src : RGBA) (opacity : UInt8) : Res RGBA := do
  let s ← fromRgbaI32 m (min (ch back.r + ch src.r) 255) (min (ch back.g + ch src.g) 255)
            (min (ch back.b + ch src.b) 255) (ch src.a)
  normal m back s opacity

def subtractBase (m : Profile) (back src : RGBA) (opacity : UInt8) : Res RGBA := do
  let s ← fromRgbaI32 m (max (ch back.r - ch src.r) 0) (max (ch back.g - ch src.g) 0)
            (max (ch back.b - ch src.b) 0) (ch src.a)
  normal m back s opacity

section float
variable {F : Type} (ops : FOps F)

local infixl:65 " +. " => ops.add
local infixl:65 " -. " => ops.sub
local infixl:70 " *. " => ops.mul
local infixl:70 " /. " => ops.div

/-- `blend_soft_light(b, s) -> i32` -/
def softLightCh (b s : Int) : Int :=
  let k := ops.ofInt
  let bf := k b /. k 255
  let sf := k s /. k 255
  let d := if ops.le bf ops.c0_25 then ((k 16 *. bf -. k 12) *. bf +. k 4) *. bf else ops.sqrt bf
  let r := if ops.le sf ops.c0_5 then bf -. (k 1 -. k 2 *. sf) *. bf *. (k 1 -. bf)
           else bf +. (k 2 *. sf -. k 1) *. (d -. bf)
  (ops.toU32 (r *. k 255 +. ops.c0_5) : Int)

def softLightBase (m : Profile) (back src : RGBA) (opacity : UInt8) : Res RGBA := do
  let s ← fromRgbaI32 m (softLightCh ops (ch back.r) (ch src.r))
            (softLightCh ops (ch back.g) (ch src.g)) (softLightCh ops (ch back.b) (ch src.b))
            (ch src.a)
  normal m back s opacity

/-- `as_rgb_f64` -/
def asRgbF (c : RGBA) : F × F × F :=
  (ops.ofInt (ch c.r) /. ops.ofInt 255, ops.ofInt (ch c.g) /. ops.ofInt 255,
   ops.ofInt (ch c.b) /. ops.ofInt 255)

/-- `from_rgb_f64` -/
def fromRgbF (m : Profile) (c : F × F × F) (a : UInt8) : Res RGBA :=
  fromRgbaI32 m (ops.toI32 (c.1 *. ops.ofInt 255)) (ops.toI32 (c.2.1 *. ops.ofInt 255))
    (ops.toI32 (c.2.2 *. ops.ofInt 255)) (ch a)

def saturation (c : F × F × F) : F :=
  ops.max c.1 (ops.max c.2.1 c.2.2) -. ops.min c.1 (ops.min c.2.1 c.2.2)

def luminosity (c : F × F × F) : F :=
  ops.c0_3 *. c.1 +. ops.c0_59 *. c.2.1 +. ops.c0_11 *. c.2.2

def clipColor (c : F × F × F) : F × F × F :=
  let lum := luminosity ops c
  let mn := ops.min c.1 (ops.min c.2.1 c.2.2)
  let mx := ops.max c.1 (ops.max c.2.1 c.2.2)
  let c1 : F × F × F :=
    if ops.lt mn (ops.ofInt 0) then
      (lum +. (((c.1 -. lum) *. lum) /. (lum -. mn)),
       lum +. (((c.2.1 -. lum) *. lum) /. (lum -. mn)),
       lum +. (((c.2.2 -. lum) *. lum) /. (lum -. mn)))
    else c
  if ops.lt (ops.ofInt 1) mx then
    (lum +. (((c1.1 -. lum) *. (ops.ofInt 1 -. lum)) /. (mx -. lum)),
     lum +. (((c1.2.1 -. lum) *. (ops.ofInt 1 -. lum)) /. (mx -. lum)),
     lum +. (((c1.2.2 -. lum) *. (ops.ofInt 1 -. lum)) /. (mx -. lum)))
  else c1

def setLuminosity (c : F × F × F) (lum : F) : F × F × F :=
  let delta := lum -. luminosity ops c
  clipColor ops (c.1 +. delta, c.2.1 +. delta, c.2.2 +. delta)

def getC (c : F × F × F) : Nat → F
  | 0 => c.1
  | 1 => c.2.1
  | _ => c.2.2

def setC (c : F × F × F) (i : Nat) (v : F) : F × F × F :=
  match i with
  | 0 => (v, c.2.1, c.2.2)
  | 1 => (c.1, v, c.2.2)
  | _ => (c.1, c.2.1, v)

/-- `static_sort3_orig`: Aseprite's MIN / MID / MAX macros, as indices -/
def staticSort3Orig (r g b : F) : Nat × Nat × Nat :=
  let mn := if ops.lt r (ops.min g b) then 0 else if ops.lt g b then 1 else 2
  let mx := if ops.lt (ops.max g b) r then 0 else if ops.lt b g then 1 else 2
  let md :=
    if ops.lt g r then
      (if ops.lt b g then 1 else if ops.lt b r then 2 else 0)
    else if ops.lt b g then
      (if ops.lt r b then 2 else 0)
    else 1
  (mn, md, mx)

/-- `set_saturation` (bug-compatible variant) -/
def setSaturation (c : F × F × F) (sat : F) : F × F × F :=
  let (mn, md, mx) := staticSort3Orig ops c.1 c.2.1 c.2.2
  let c1 :=
    if ops.lt (getC c mn) (getC c mx) then
      let c' := setC c md (((getC c md -. getC c mn) *. sat) /. (getC c mx -. getC c mn))
      setC c' mx sat
    else
      setC (setC c md (ops.ofInt 0)) mx (ops.ofInt 0)
  setC c1 mn (ops.ofInt 0)

def hueBase (m : Profile) (back src : RGBA) (opacity : UInt8) : Res RGBA := do
  let bc := asRgbF ops back
  let sat := saturation ops bc
  let lum := luminosity ops bc
  let c := setLuminosity ops (setSaturation ops (asRgbF ops src) sat) lum
  let s ← fromRgbF ops m c src.a
  normal m back s opacity

def saturationBase (m : Profile) (back src : RGBA) (opacity : UInt8) : Res RGBA := do
  let sat := saturation ops (asRgbF ops src)
  let bc := asRgbF ops back
  let lum := luminosity ops bc
  let c := setLuminosity ops (setSaturation ops bc sat) lum
  let s ← fromRgbF ops m c src.a
  normal m back s opacity

def colorBase (m : Profile) (back src : RGBA) (opacity : UInt8) : Res RGBA := do
  let lum := luminosity ops (asRgbF ops back)
  let c := setLuminosity ops (asRgbF ops src) lum
  let s ← fromRgbF ops m c src.a
  normal m back s opacity

def luminosityBase (m : Profile) (back src : RGBA) (opacity : UInt8) : Res RGBA := do
  let lum := luminosity ops (asRgbF ops src)
  let c := setLuminosity ops (asRgbF ops back) lum
  let s ← fromRgbF ops m c src.a
  normal m back s opacity

/-- the baseline function of blend mode `mode` (1..18) -/
def baseline (m : Profile) (mode : Nat) : RGBA → RGBA → UInt8 → Res RGBA :=
  match mode with
  | 1 => blendChannel m chMultiply
  | 2 => blendChannel m chScreen
  | 3 => blendChannel m chOverlay
  | 4 => blendChannel m chDarken
  | 5 => blendChannel m chLighten
  | 6 => blendChannel m chColorDodge
  | 7 => blendChannel m chColorBurn
  | 8 => blendChannel m chHardLight
  | 9 => softLightBase ops m
  | 10 => blendChannel m chDifference
  | 11 => blendChannel m chExclusion
  | 12 => hueBase ops m
  | 13 => saturationBase ops m
  | 14 => colorBase ops m
  | 15 => luminosityBase ops m
  | 16 => additionBase m
  | 17 => subtractBase m
  | _ => blendChannel m chDivide

/-- `blend_mode_to_blend_fn(mode)(backdrop, src, opacity)`; `mode` is the stored id 0..18 -/
def blend (m : Profile) (mode : Nat) (back src : RGBA) (opacity : UInt8) : Res RGBA :=
  if mode == 0 then normal m back src opacity
  else blender m (baseline ops m mode) back src opacity

end float

end Blend
end Ase
