import Ase.Blend
/-
  Spec for C03: a transcription of Aseprite's C++ blend functions
  (`src/doc/blend_funcs.cpp`, "new layer blending method"), operation for operation.
  The excerpts the repository keeps in `ref/dummy.cc` (MUL_UN8, rgba_blender_merge,
  rgba_blender_normal, RGBA_BLENDER_N, lum, sat, clip_color, set_lum, set_sat with its
  MIN/MID/MAX reference macros) are followed literally; the per-mode functions follow the
  upstream file as quoted in the comments of `src/blend.rs`.

  C semantics used: `int` arithmetic (no overflow occurs: all operands are bytes or products
  of two bytes), `/` truncates toward zero, `>>` on a negative `int` is arithmetic, the
  `uint8_t` parameters of `rgba(r, g, b, a)` truncate mod 256, `(uint16_t)(b)` is the identity
  on 0..255.  C++ references into `r, g, b` (set_sat) are modelled as indices 0/1/2.
-/
namespace Ase.Spec.BlendRef
open Ase

/-- `(uint8_t) x` -/
def u8 (x : Int) : UInt8 := UInt8.ofNat (x % 256).toNat

def geti (x : UInt8) : Int := (x.toNat : Int)

/-- `MUL_UN8(a, b, t)`: `t = a * (uint16_t)b + 0x80, ((t >> 8) + t) >> 8` -/
def MUL_UN8 (a b : Int) : Int :=
  let t := a * b + 128
  ((t >>> 8) + t) >>> 8

/-- `DIV_UN8(a, b)`: `((uint16_t)a * 0xff + b / 2) / b` -/
def DIV_UN8 (a b : Int) : Int := Int.tdiv (a * 255 + Int.tdiv b 2) b

/-- `rgba(r, g, b, a)` with `uint8_t` parameters -/
def rgba (r g b a : Int) : RGBA := ⟨u8 r, u8 g, u8 b, u8 a⟩

/-- `rgba_blender_merge` -/
def merge (backdrop src : RGBA) (opacity : Int) : RGBA :=
  let Br := geti backdrop.r; let Bg := geti backdrop.g; let Bb := geti backdrop.b
  let Ba := geti backdrop.a
  let Sr := geti src.r; let Sg := geti src.g; let Sb := geti src.b; let Sa := geti src.a
  let (Rr, Rg, Rb) :=
    if Ba = 0 then (Sr, Sg, Sb)
    else if Sa = 0 then (Br, Bg, Bb)
    else (Br + MUL_UN8 (Sr - Br) opacity, Bg + MUL_UN8 (Sg - Bg) opacity,
          Bb + MUL_UN8 (Sb - Bb) opacity)
  let Ra := Ba + MUL_UN8 (Sa - Ba) opacity
  if Ra = 0 then rgba 0 0 0 Ra else rgba Rr Rg Rb Ra

/-- `rgba_blender_normal` -/
def normal (backdrop src : RGBA) (opacity : Int) : RGBA :=
  if geti backdrop.a = 0 then
    -- `(src & rgba_rgb_mask) | (MUL_UN8(a, opacity) << 24)`
    ⟨src.r, src.g, src.b, u8 (MUL_UN8 (geti src.a) opacity)⟩
  else if geti src.a = 0 then backdrop
  else
    let Br := geti backdrop.r; let Bg := geti backdrop.g; let Bb := geti backdrop.b
    let Ba := geti backdrop.a
    let Sr := geti src.r; let Sg := geti src.g; let Sb := geti src.b
    let Sa := MUL_UN8 (geti src.a) opacity
    let Ra := Sa + Ba - MUL_UN8 Ba Sa
    rgba (Br + Int.tdiv ((Sr - Br) * Sa) Ra) (Bg + Int.tdiv ((Sg - Bg) * Sa) Ra)
         (Bb + Int.tdiv ((Sb - Bb) * Sa) Ra) Ra

/-- `RGBA_BLENDER_N(name)` -/
def blenderN (f : RGBA → RGBA → Int → RGBA) (backdrop src : RGBA) (opacity : Int) : RGBA :=
  if geti backdrop.a ≠ 0 then
    let nrm := normal backdrop src opacity
    let bl := f backdrop src opacity
    let Ba := geti backdrop.a
    let n2b := merge nrm bl Ba
    let srcTotalAlpha := MUL_UN8 (geti src.a) opacity
    let compositeAlpha := MUL_UN8 Ba srcTotalAlpha
    merge n2b bl compositeAlpha
  else normal backdrop src opacity

/-- the shape shared by the separable modes:
    `src = rgba(f(Br,Sr), f(Bg,Sg), f(Bb,Sb), 0) | (src & rgba_a_mask)` then normal -/
def perChannel (f : Int → Int → Int) (backdrop src : RGBA) (opacity : Int) : RGBA :=
  let r := f (geti backdrop.r) (geti src.r)
  let g := f (geti backdrop.g) (geti src.g)
  let b := f (geti backdrop.b) (geti src.b)
  normal backdrop ⟨u8 r, u8 g, u8 b, src.a⟩ opacity

def blend_multiply (b s : Int) : Int := MUL_UN8 b s
def blend_screen (b s : Int) : Int := b + s - MUL_UN8 b s
def blend_hard_light (b s : Int) : Int :=
  if s < 128 then blend_multiply b (s * 2) else blend_screen b (s * 2 - 255)
def blend_overlay (b s : Int) : Int := blend_hard_light s b
def blend_darken (b s : Int) : Int := if b < s then b else s       -- MIN(b, s)
def blend_lighten (b s : Int) : Int := if b > s then b else s      -- MAX(b, s)
def blend_difference (b s : Int) : Int := if b - s < 0 then -(b - s) else b - s   -- ABS
def blend_exclusion (b s : Int) : Int := let t := MUL_UN8 b s; b + s - 2 * t
def blend_divide (b s : Int) : Int :=
  if b = 0 then 0 else if b ≥ s then 255 else DIV_UN8 b s
def blend_color_dodge (b s : Int) : Int :=
  if b = 0 then 0 else
  let s := 255 - s
  if b ≥ s then 255 else DIV_UN8 b s
def blend_color_burn (b s : Int) : Int :=
  if b = 255 then 255 else
  let b := 255 - b
  if b ≥ s then 0 else 255 - DIV_UN8 b s

def addition (backdrop src : RGBA) (opacity : Int) : RGBA :=
  let r := geti backdrop.r + geti src.r
  let g := geti backdrop.g + geti src.g
  let b := geti backdrop.b + geti src.b
  normal backdrop ⟨u8 (if r < 255 then r else 255), u8 (if g < 255 then g else 255),
                   u8 (if b < 255 then b else 255), src.a⟩ opacity

def subtract (backdrop src : RGBA) (opacity : Int) : RGBA :=
  let r := geti backdrop.r - geti src.r
  let g := geti backdrop.g - geti src.g
  let b := geti backdrop.b - geti src.b
  normal backdrop ⟨u8 (if r > 0 then r else 0), u8 (if g > 0 then g else 0),
                   u8 (if b > 0 then b else 0), src.a⟩ opacity

section float
variable {F : Type} (ops : FOps F)

local infixl:65 " +. " => ops.add
local infixl:65 " -. " => ops.sub
local infixl:70 " *. " => ops.mul
local infixl:70 " /. " => ops.div

def MINd (x y : F) : F := if ops.lt x y then x else y
def MAXd (x y : F) : F := if ops.lt y x then x else y

/-- `blend_soft_light(_b, _s)` -/
def blend_soft_light (_b _s : Int) : Int :=
  let k := ops.ofInt
  let b := k _b /. k 255
  let s := k _s /. k 255
  let d := if ops.le b ops.c0_25 then ((k 16 *. b -. k 12) *. b +. k 4) *. b else ops.sqrt b
  let r := if ops.le s ops.c0_5 then b -. (k 1 -. k 2 *. s) *. b *. (k 1 -. b)
           else b +. (k 2 *. s -. k 1) *. (d -. b)
  (ops.toU32 (r *. k 255 +. ops.c0_5) : Int)

def softLight (backdrop src : RGBA) (opacity : Int) : RGBA :=
  normal backdrop ⟨u8 (blend_soft_light ops (geti backdrop.r) (geti src.r)),
                   u8 (blend_soft_light ops (geti backdrop.g) (geti src.g)),
                   u8 (blend_soft_light ops (geti backdrop.b) (geti src.b)), src.a⟩ opacity

def lum (r g b : F) : F := ops.c0_3 *. r +. ops.c0_59 *. g +. ops.c0_11 *. b
def sat (r g b : F) : F := MAXd ops r (MAXd ops g b) -. MINd ops r (MINd ops g b)

def clip_color (r g b : F) : F × F × F :=
  let l := lum ops r g b
  let n := MINd ops r (MINd ops g b)
  let x := MAXd ops r (MAXd ops g b)
  let (r1, g1, b1) :=
    if ops.lt n (ops.ofInt 0) then
      (l +. (((r -. l) *. l) /. (l -. n)), l +. (((g -. l) *. l) /. (l -. n)),
       l +. (((b -. l) *. l) /. (l -. n)))
    else (r, g, b)
  if ops.lt (ops.ofInt 1) x then
    (l +. (((r1 -. l) *. (ops.ofInt 1 -. l)) /. (x -. l)),
     l +. (((g1 -. l) *. (ops.ofInt 1 -. l)) /. (x -. l)),
     l +. (((b1 -. l) *. (ops.ofInt 1 -. l)) /. (x -. l)))
  else (r1, g1, b1)

def set_lum (r g b l : F) : F × F × F :=
  let d := l -. lum ops r g b
  clip_color ops (r +. d) (g +. d) (b +. d)

def get3 (c : F × F × F) : Nat → F
  | 0 => c.1
  | 1 => c.2.1
  | _ => c.2.2
def set3 (c : F × F × F) (i : Nat) (v : F) : F × F × F :=
  match i with
  | 0 => (v, c.2.1, c.2.2)
  | 1 => (c.1, v, c.2.2)
  | _ => (c.1, c.2.1, v)

/-- which of r/g/b the reference `MIN(r, MIN(g, b))` binds to -/
def minRef (r g b : F) : Nat :=
  if ops.lt r (MINd ops g b) then 0 else if ops.lt g b then 1 else 2
def maxRef (r g b : F) : Nat :=
  if ops.lt (MAXd ops g b) r then 0 else if ops.lt b g then 1 else 2
/-- `MID(x,y,z) ((x) > (y) ? ((y) > (z) ? (y) : ((x) > (z) ? (z) : (x))) :
                              ((y) > (z) ? ((z) > (x) ? (z) : (x)) : (y)))` -/
def midRef (r g b : F) : Nat :=
  if ops.lt g r then (if ops.lt b g then 1 else if ops.lt b r then 2 else 0)
  else (if ops.lt b g then (if ops.lt r b then 2 else 0) else 1)

/-- `set_sat(r, g, b, s)` with `double&` references (assignments in program order) -/
def set_sat (r g b s : F) : F × F × F :=
  let c : F × F × F := (r, g, b)
  let mn := minRef ops r g b
  let md := midRef ops r g b
  let mx := maxRef ops r g b
  let c1 :=
    if ops.lt (get3 c mn) (get3 c mx) then
      let c' := set3 c md (((get3 c md -. get3 c mn) *. s) /. (get3 c mx -. get3 c mn))
      set3 c' mx s
    else
      -- `mid = max = 0`: assigns max first, then mid
      set3 (set3 c mx (ops.ofInt 0)) md (ops.ofInt 0)
  set3 c1 mn (ops.ofInt 0)

def chanF (x : UInt8) : F := ops.ofInt (geti x) /. ops.ofInt 255

/-- `rgba(int(255.0*r), int(255.0*g), int(255.0*b), 0) | (src & rgba_a_mask)` -/
def packF (c : F × F × F) (a : UInt8) : RGBA :=
  ⟨u8 (ops.toI32 (ops.ofInt 255 *. c.1)), u8 (ops.toI32 (ops.ofInt 255 *. c.2.1)),
   u8 (ops.toI32 (ops.ofInt 255 *. c.2.2)), a⟩

def hslHue (backdrop src : RGBA) (opacity : Int) : RGBA :=
  let r := chanF ops backdrop.r; let g := chanF ops backdrop.g; let b := chanF ops backdrop.b
  let s := sat ops r g b
  let l := lum ops r g b
  let r := chanF ops src.r; let g := chanF ops src.g; let b := chanF ops src.b
  let c := set_sat ops r g b s
  let c := set_lum ops c.1 c.2.1 c.2.2 l
  normal backdrop (packF ops c src.a) opacity

def hslSaturation (backdrop src : RGBA) (opacity : Int) : RGBA :=
  let r := chanF ops src.r; let g := chanF ops src.g; let b := chanF ops src.b
  let s := sat ops r g b
  let r := chanF ops backdrop.r; let g := chanF ops backdrop.g; let b := chanF ops backdrop.b
  let l := lum ops r g b
  let c := set_sat ops r g b s
  let c := set_lum ops c.1 c.2.1 c.2.2 l
  normal backdrop (packF ops c src.a) opacity

def hslColor (backdrop src : RGBA) (opacity : Int) : RGBA :=
  let r := chanF ops backdrop.r; let g := chanF ops backdrop.g; let b := chanF ops backdrop.b
  let l := lum ops r g b
  let r := chanF ops src.r; let g := chanF ops src.g; let b := chanF ops src.b
  let c := set_lum ops r g b l
  normal backdrop (packF ops c src.a) opacity

def hslLuminosity (backdrop src : RGBA) (opacity : Int) : RGBA :=
  let r := chanF ops src.r; let g := chanF ops src.g; let b := chanF ops src.b
  let l := lum ops r g b
  let r := chanF ops backdrop.r; let g := chanF ops backdrop.g; let b := chanF ops backdrop.b
  let c := set_lum ops r g b l
  normal backdrop (packF ops c src.a) opacity

/-- `rgba_blender_<mode>` before the `_n` wrapper, by Aseprite blend-mode id -/
def base (mode : Nat) : RGBA → RGBA → Int → RGBA :=
  match mode with
  | 1 => perChannel blend_multiply
  | 2 => perChannel blend_screen
  | 3 => perChannel blend_overlay
  | 4 => perChannel blend_darken
  | 5 => perChannel blend_lighten
  | 6 => perChannel blend_color_dodge
  | 7 => perChannel blend_color_burn
  | 8 => perChannel blend_hard_light
  | 9 => softLight ops
  | 10 => perChannel blend_difference
  | 11 => perChannel blend_exclusion
  | 12 => hslHue ops
  | 13 => hslSaturation ops
  | 14 => hslColor ops
  | 15 => hslLuminosity ops
  | 16 => addition
  | 17 => subtract
  | _ => perChannel blend_divide

/-- what Aseprite composites for layer blend mode `mode` (0..18) -/
def blend (mode : Nat) (backdrop src : RGBA) (opacity : UInt8) : RGBA :=
  if mode = 0 then normal backdrop src (geti opacity)
  else blenderN (base ops mode) backdrop src (geti opacity)

end float
end Ase.Spec.BlendRef
