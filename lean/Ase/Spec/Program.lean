import Ase.Parse
/-
  Spec layer: abstract chunk programs.  A `Program` is a file described as data: the header
  fields (used and unused), per frame a duration, the choice of chunk-count field and a list of
  chunk items with their trailing padding, and the bytes after the last frame.  Every
  representational freedom the format has (C07) is a field here that `meaning` ignores.
-/
namespace Ase.Spec

structure HeaderSpec where
  fileSize : UInt32          -- unused by the library
  width : UInt16
  height : UInt16
  depth : UInt16             -- 8 / 16 / 32
  flags : UInt32             -- unused
  speed : UInt16             -- default frame time; overwritten by every frame header
  ph1 : UInt32
  ph2 : UInt32
  tci : UInt8
  ign1 : UInt8
  ign2 : UInt16
  numColors : UInt16         -- unused
  pixelW : UInt8
  pixelH : UInt8
  gridX : Int16
  gridY : Int16
  gridW : UInt16
  gridH : UInt16
  /-- 84 reserved bytes (`WF` checks the length) -/
  reserved : Bytes
  deriving Repr, Inhabited

structure LayerSpec where
  flags : UInt16             -- all 16 bits; the API can report the low 7
  ltype : UInt16             -- 0 image, 1 group, 2 tilemap
  level : UInt16
  defW : UInt16              -- unused
  defH : UInt16              -- unused
  blend : UInt16             -- 0..18
  opacity : UInt8
  res1 : UInt8
  res2 : UInt16
  name : Bytes
  tileset : UInt32           -- present in the encoding iff ltype = 2
  deriving Repr, Inhabited

inductive CelBody where
  /-- `pixels` are the raw bytes (w*h*bpp); `z = some s` stores them as zlib stream `s` (type 2) -/
  | image (w h : UInt16) (pixels : Bytes) (z : Option Bytes)
  | linked (frame : UInt16)
  /-- tile words (before masking), stored as zlib stream `z` -/
  | tilemap (w h : UInt16) (mask : TileBitmask) (tiles : List UInt32) (z : Bytes)
  deriving Repr, Inhabited

structure CelSpec where
  layer : UInt16
  x : Int16
  y : Int16
  opacity : UInt8
  reserved : Bytes           -- 7 bytes
  body : CelBody
  deriving Repr, Inhabited

structure TagSpec where
  fromFrame : UInt16
  toFrame : UInt16
  direction : UInt8          -- 0..2
  repeatCount : UInt16
  reserved : Bytes           -- 6 bytes
  color : UInt32             -- deprecated, unused
  name : Bytes
  deriving Repr, Inhabited

structure SliceSpec where
  flags : UInt32             -- bit 0: 9-slice, bit 1: pivot; other bits unused
  reserved : UInt32
  name : Bytes
  /-- each key carries all fields; `slice9` / `pivot` are encoded iff the flag bit is set -/
  keys : List (UInt32 × Int32 × Int32 × UInt32 × UInt32 × Slice9 × (Int32 × Int32))
  deriving Repr, Inhabited

structure PalEntrySpec where
  flags : UInt16             -- bit 0: has name
  rgba : RGBA
  name : Bytes
  deriving Repr, Inhabited

structure TilesetSpec where
  id : UInt32
  flags : UInt32             -- bit 0 ext link, bit 1 embedded tiles, bit 2 empty tile is 0
  count : UInt32
  tw : UInt16
  th : UInt16
  base : Int16
  reserved : Bytes           -- 14 bytes
  name : Bytes
  extFile : UInt32
  extTileset : UInt32
  clen : UInt32              -- "compressed data length" field, unused by the library
  pixels : Bytes             -- count*tw*th*bpp raw bytes
  z : Bytes                  -- the zlib stream that stores them
  deriving Repr, Inhabited

inductive Item where
  | layer (l : LayerSpec)
  | cel (c : CelSpec)
  | tags (reserved : Bytes) (ts : List TagSpec)             -- 8 reserved bytes
  | slice (s : SliceSpec)
  | palette (total : UInt32) (first : UInt32) (reserved : Bytes) (es : List PalEntrySpec)
  /-- legacy palette 0x0004 (`scaled = false`) / 0x0011 (`scaled = true`):
      packets of (skip byte, colours); 1..256 colours per packet -/
  | oldPalette (scaled : Bool) (packets : List (UInt8 × List (UInt8 × UInt8 × UInt8)))
  | userData (flags : UInt32) (text : Bytes) (color : RGBA)  -- bit 0 text, bit 1 colour
  | extFiles (reserved : Bytes) (fs : List (UInt32 × Bytes × Bytes))  -- id, 8 reserved, name
  | tileset (t : TilesetSpec)
  /-- colour profile of type 0 (none) or 1 (sRGB) without the fixed-gamma flag -/
  | colorProfile (ptype : UInt16) (flagsHi : UInt16) (gamma : UInt32) (reserved : Bytes)
  /-- cel extra 0x2006, mask 0x2016, path 0x2017 with an arbitrary payload -/
  | ignorable (code : UInt16) (payload : Bytes)
  deriving Repr, Inhabited

structure ChunkSpec where
  item : Item
  pad : Bytes                -- extra bytes at the end of the chunk
  deriving Repr, Inhabited

structure FrameSpec where
  duration : UInt16
  /-- carry the chunk count in the old (u16) field only (`new = 0`); needs < 65536 chunks -/
  oldCountOnly : Bool
  /-- value of the old field when the new field carries the count -/
  oldField : UInt16
  ph : UInt16
  /-- extra frame-size slack declared in the frame header (bytes budget ≥ real size) -/
  slack : UInt32
  chunks : List ChunkSpec
  deriving Repr, Inhabited

structure Program where
  header : HeaderSpec
  frames : List FrameSpec
  trailer : Bytes
  deriving Repr, Inhabited

end Ase.Spec
