import Ase.Spec.Program
/-
  The encoder: `encode : Program → Bytes`, following the Aseprite file format specification
  (ase-file-specs.md).  The generator feeds exactly these bytes to the real code, and the
  round-trip theorems are about exactly this function.
-/
namespace Ase.Spec
open Ase

def encLayer (l : LayerSpec) : Bytes :=
  u16le l.flags ++ u16le l.ltype ++ u16le l.level ++ u16le l.defW ++ u16le l.defH ++
  u16le l.blend ++ [l.opacity] ++ [l.res1] ++ u16le l.res2 ++ strle l.name ++
  (if l.ltype.toNat == 2 then u32le l.tileset else [])

def encMask (m : TileBitmask) : Bytes :=
  u32le m.tileId ++ u32le m.xFlip ++ u32le m.yFlip ++ u32le m.rot

def celType : CelBody → UInt16
  | .image _ _ _ none => 0
  | .image _ _ _ (some _) => 2
  | .linked _ => 1
  | .tilemap _ _ _ _ _ => 3

def encCelBody : CelBody → Bytes
  | .image w h px none => u16le w ++ u16le h ++ px
  | .image w h _ (some z) => u16le w ++ u16le h ++ z
  | .linked f => u16le f
  | .tilemap w h m _ z => u16le w ++ u16le h ++ u16le 32 ++ encMask m ++ zeros 10 ++ z

/-- cel chunk: header, type word, 7 reserved bytes, body -/
def encCel (c : CelSpec) : Bytes :=
  u16le c.layer ++ i16le c.x ++ i16le c.y ++ [c.opacity] ++ u16le (celType c.body) ++
  c.reserved ++ encCelBody c.body

def encTag (t : TagSpec) : Bytes :=
  u16le t.fromFrame ++ u16le t.toFrame ++ [t.direction] ++ u16le t.repeatCount ++ t.reserved ++
  u32le t.color ++ strle t.name

def encTags (reserved : Bytes) (ts : List TagSpec) : Bytes :=
  u16le (UInt16.ofNat ts.length) ++ reserved ++ (ts.map encTag).flatten

def encSliceKey (flags : UInt32)
    (k : UInt32 × Int32 × Int32 × UInt32 × UInt32 × Slice9 × (Int32 × Int32)) : Bytes :=
  let (from_, ox, oy, w, h, s9, pv) := k
  u32le from_ ++ i32le ox ++ i32le oy ++ u32le w ++ u32le h ++
  (if flags.toNat % 2 == 1 then i32le s9.cx ++ i32le s9.cy ++ u32le s9.cw ++ u32le s9.ch else []) ++
  (if (flags.toNat / 2) % 2 == 1 then i32le pv.1 ++ i32le pv.2 else [])

def encSlice (s : SliceSpec) : Bytes :=
  u32le (UInt32.ofNat s.keys.length) ++ u32le s.flags ++ u32le s.reserved ++ strle s.name ++
  (s.keys.map (encSliceKey s.flags)).flatten

def encPalEntry (e : PalEntrySpec) : Bytes :=
  u16le e.flags ++ [e.rgba.r, e.rgba.g, e.rgba.b, e.rgba.a] ++
  (if e.flags.toNat % 2 == 1 then strle e.name else [])

def encPalette (total first : UInt32) (reserved : Bytes) (es : List PalEntrySpec) : Bytes :=
  u32le total ++ u32le first ++ u32le (UInt32.ofNat (first.toNat + es.length - 1)) ++ reserved ++
  (es.map encPalEntry).flatten

def encOldPacket (p : UInt8 × List (UInt8 × UInt8 × UInt8)) : Bytes :=
  [p.1, UInt8.ofNat (p.2.length % 256)] ++ (p.2.map (fun (r, g, b) => [r, g, b])).flatten

def encOldPalette (packets : List (UInt8 × List (UInt8 × UInt8 × UInt8))) : Bytes :=
  u16le (UInt16.ofNat packets.length) ++ (packets.map encOldPacket).flatten

def encUserData (flags : UInt32) (text : Bytes) (color : RGBA) : Bytes :=
  u32le flags ++ (if flags.toNat % 2 == 1 then strle text else []) ++
  (if (flags.toNat / 2) % 2 == 1 then [color.r, color.g, color.b, color.a] else [])

def encExtFile (f : UInt32 × Bytes × Bytes) : Bytes := u32le f.1 ++ f.2.1 ++ strle f.2.2

def encExtFiles (reserved : Bytes) (fs : List (UInt32 × Bytes × Bytes)) : Bytes :=
  u32le (UInt32.ofNat fs.length) ++ reserved ++ (fs.map encExtFile).flatten

def encTileset (t : TilesetSpec) : Bytes :=
  u32le t.id ++ u32le t.flags ++ u32le t.count ++ u16le t.tw ++ u16le t.th ++ i16le t.base ++
  t.reserved ++ strle t.name ++
  (if t.flags.toNat % 2 == 1 then u32le t.extFile ++ u32le t.extTileset else []) ++
  (if (t.flags.toNat / 2) % 2 == 1 then u32le t.clen ++ t.z else [])

def encColorProfile (ptype flags : UInt16) (gamma : UInt32) (reserved : Bytes) : Bytes :=
  u16le ptype ++ u16le flags ++ u32le gamma ++ reserved

/-- chunk type code and payload of an item -/
def encItem : Item → UInt16 × Bytes
  | .layer l => (0x2004, encLayer l)
  | .cel c => (0x2005, encCel c)
  | .tags r ts => (0x2018, encTags r ts)
  | .slice s => (0x2022, encSlice s)
  | .palette total first r es => (0x2019, encPalette total first r es)
  | .oldPalette scaled ps => (if scaled then 0x0011 else 0x0004, encOldPalette ps)
  | .userData f t c => (0x2020, encUserData f t c)
  | .extFiles r fs => (0x2008, encExtFiles r fs)
  | .tileset t => (0x2023, encTileset t)
  | .colorProfile p f g r => (0x2007, encColorProfile p f g r)
  | .ignorable code payload => (code, payload)

def encChunk (c : ChunkSpec) : Bytes :=
  let (code, payload) := encItem c.item
  u32le (UInt32.ofNat (6 + payload.length + c.pad.length)) ++ u16le code ++ payload ++ c.pad

def encChunks (cs : List ChunkSpec) : Bytes := (cs.map encChunk).flatten

def encFrame (f : FrameSpec) : Bytes :=
  let body := encChunks f.chunks
  let n := f.chunks.length
  u32le (UInt32.ofNat (16 + body.length + f.slack.toNat)) ++ u16le 0xF1FA ++
  (if f.oldCountOnly || n == 0 then u16le (UInt16.ofNat n) else u16le f.oldField) ++
  u16le f.duration ++ u16le f.ph ++
  (if f.oldCountOnly then u32le 0 else u32le (UInt32.ofNat n)) ++ body

def encHeader (h : HeaderSpec) (numFrames : Nat) : Bytes :=
  u32le h.fileSize ++ u16le 0xA5E0 ++ u16le (UInt16.ofNat numFrames) ++ u16le h.width ++
  u16le h.height ++ u16le h.depth ++ u32le h.flags ++ u16le h.speed ++ u32le h.ph1 ++ u32le h.ph2 ++
  [h.tci] ++ [h.ign1] ++ u16le h.ign2 ++ u16le h.numColors ++ [h.pixelW] ++ [h.pixelH] ++
  i16le h.gridX ++ i16le h.gridY ++ u16le h.gridW ++ u16le h.gridH ++ h.reserved

def encode (p : Program) : Bytes :=
  encHeader p.header p.frames.length ++ (p.frames.map encFrame).flatten ++ p.trailer

/-- bytes up to the end of the last frame (C13) -/
def encodeNoTrailer (p : Program) : Bytes :=
  encHeader p.header p.frames.length ++ (p.frames.map encFrame).flatten

end Ase.Spec
