import Ase.Spec.Program
/-
  Spec layer: the SEMANTIC content of a chunk program, free of representation.

  `semItem` says what each chunk means (computed from the spec fields only; padding, the
  zlib stream, reserved / unused fields and flag bits the API cannot report are ignored),
  `stepSem` is the effect of one decoded chunk on the parser state, `runFrame` / `runFrames`
  fold it over the frames, and `semParse` = initial state → `runFrames` → `validate`.

  The whole-file theorem of C01 (`AseProofs/Props/C01Whole.lean`) says
  `parse inflate m (encode p) = semParse (headerSem p) (framesSem p)` for well-formed `p`;
  C07 is a corollary: everything `headerSem` / `framesSem` forget cannot change the result.
-/
namespace Ase.Spec
open Ase

/-! ### what a chunk means -/

inductive SItem where
  | layer (l : LayerData)
  | cel (c : RawCel RawPixels)
  | tags (ts : List Tag)
  | slice (s : Slice)
  | palette (p : Palette)
  | oldPalette (p : Palette)
  | userData (u : UserData)
  | extFiles (fs : List ExternalFile)
  | tileset (t : Tileset RawPixels)
  /-- colour profile (none / sRGB), cel extra, mask, path -/
  | noop
  deriving Repr, Inhabited

/-- what `RawPixels::from_bytes` returns on a buffer of the right length -/
def rawPixelsOf (fmt : PixelFormat) (bytes : Bytes) : RawPixels :=
  match fmt with
  | .indexed _ => .indexed bytes.toArray
  | .grayscale => .gray (groupGray bytes).toArray
  | .rgba => .rgba (groupRgba bytes).toArray

def tagOfSpec (t : TagSpec) : Tag :=
  { name := t.name, fromFrame := t.fromFrame, toFrame := t.toFrame, repeatCount := t.repeatCount,
    direction := t.direction.toNat, userData := none }

abbrev KeySpec := UInt32 × Int32 × Int32 × UInt32 × UInt32 × Slice9 × (Int32 × Int32)

/-- 9-slice data is reported iff bit 0 of the slice flags is set, the pivot iff bit 1 is set -/
def sliceKeyOfSpec (flags : UInt32) (k : KeySpec) : SliceKey :=
  { fromFrame := k.1, ox := k.2.1, oy := k.2.2.1, w := k.2.2.2.1, h := k.2.2.2.2.1,
    slice9 := if flags.toNat % 2 = 1 then some k.2.2.2.2.2.1 else none,
    pivot := if flags.toNat / 2 % 2 = 1 then some k.2.2.2.2.2.2 else none }

/-- the name is reported iff bit 0 of the entry flags is set -/
def palEntryOfSpec (id : Nat) (e : PalEntrySpec) : PalEntry :=
  { id := id, rgba := e.rgba, name := if e.flags.toNat % 2 = 1 then some e.name else none }

/-- entries `id, id+1, …` inserted in order into `p` -/
def palOfEntries : Nat → Palette → List PalEntrySpec → Palette
  | _, p, [] => p
  | id, p, e :: es => palOfEntries (id + 1) (p.insert (palEntryOfSpec id e)) es

def extFileOfSpec (f : UInt32 × Bytes × Bytes) : ExternalFile := { id := f.1, name := f.2.2 }

/-- a colour component as the library reports it: 6-bit components of the 0x0011 chunk are
    scaled to 8 bits -/
def oldColor (scaled : Bool) (c : UInt8) : UInt8 :=
  if scaled then UInt8.ofNat ((c.toNat * 4) % 256 + c.toNat / 16) else c

def oldEntries (scaled : Bool) : Nat → Palette → List (UInt8 × UInt8 × UInt8) → Palette
  | _, p, [] => p
  | id, p, (r, g, b) :: cs =>
      oldEntries scaled (id + 1)
        (p.insert { id := id, rgba := ⟨oldColor scaled r, oldColor scaled g, oldColor scaled b, 255⟩,
                    name := none }) cs

def oldPackets (scaled : Bool) :
    Nat → Palette → List (UInt8 × List (UInt8 × UInt8 × UInt8)) → Palette
  | _, p, [] => p
  | skip, p, (sk, cs) :: ps =>
      oldPackets scaled (skip + sk.toNat) (oldEntries scaled (skip + sk.toNat) p cs) ps

def layerOfSpec (l : LayerSpec) : LayerData :=
  { flags := l.flags.toNat % 128, name := l.name, blendMode := l.blend.toNat,
    opacity := l.opacity,
    layerType := (if l.ltype.toNat = 0 then .image else if l.ltype.toNat = 1 then .group
                  else .tilemap l.tileset),
    childLevel := l.level, userData := none }

def celContentOfSpec (fmt : PixelFormat) : CelBody → CelContent RawPixels
  | .image w h px _ => .raw w h (rawPixelsOf fmt px)
  | .linked f => .linked f
  | .tilemap w h mask tiles _ =>
      .tilemap { width := w, height := h,
                 tiles := (tiles.map (· &&& mask.tileId)).toArray, mask := mask }

def celOfSpec (fmt : PixelFormat) (c : CelSpec) : RawCel RawPixels :=
  { data := ⟨c.layer, c.x, c.y, c.opacity⟩, content := celContentOfSpec fmt c.body,
    userData := none }

def sliceOfSpec (s : SliceSpec) : Slice :=
  { name := s.name, keys := s.keys.map (sliceKeyOfSpec s.flags), userData := none }

def userDataOfSpec (flags : UInt32) (text : Bytes) (color : RGBA) : UserData :=
  { text := if flags.toNat % 2 = 1 then some text else none,
    color := if flags.toNat / 2 % 2 = 1 then some color else none }

def tilesetOfSpec (fmt : PixelFormat) (t : TilesetSpec) : Tileset RawPixels :=
  { id := t.id, emptyTileIsZero := (t.flags.toNat / 4) % 2 == 1, tileCount := t.count,
    tileW := t.tw, tileH := t.th, baseIndex := t.base, name := t.name,
    extFile := if t.flags.toNat % 2 = 1 then some (t.extFile, t.extTileset) else none,
    pixels := if t.flags.toNat / 2 % 2 = 1 then some (rawPixelsOf fmt t.pixels) else none }

/-- The meaning of an item.  (`_m`, the build profile, is a parameter only for symmetry with the
    decoder: on well-formed legacy palettes no overflow check fires, so the meaning does not
    depend on it.) -/
def semItem (fmt : PixelFormat) (_m : Profile) : Item → SItem
  | .layer l => .layer (layerOfSpec l)
  | .cel c => .cel (celOfSpec fmt c)
  | .tags _ ts => .tags (ts.map tagOfSpec)
  | .slice s => .slice (sliceOfSpec s)
  | .palette _ first _ es => .palette (palOfEntries first.toNat Palette.empty es)
  | .oldPalette scaled ps => .oldPalette (oldPackets scaled 0 Palette.empty ps)
  | .userData f t c => .userData (userDataOfSpec f t c)
  | .extFiles _ fs => .extFiles (fs.map extFileOfSpec)
  | .tileset t => .tileset (tilesetOfSpec fmt t)
  | .colorProfile _ _ _ _ => .noop
  | .ignorable _ _ => .noop

/-! ### the effect of a decoded chunk on the parser state -/

def stepSem (frame : Nat) (pi : ParseInfo) : SItem → Res ParseInfo
  | .layer l => .ok { pi with layers := pi.layers.push l, ctx := some (.layer pi.layers.size) }
  | .cel c => pi.addCel frame c
  | .tags ts =>
      if frame == 0 then .ok { pi with tags := some ts.toArray, ctx := some (.tag 0) } else .ok pi
  | .slice s => .ok { pi with slices := pi.slices.push s, ctx := some (.slice pi.slices.size) }
  | .palette p => .ok { pi with palette := some p }
  | .oldPalette p =>
      if pi.palette.isNone then .ok { pi with ctx := some .oldPalette, palette := some p }
      else .ok { pi with ctx := some .oldPalette }
  | .userData u => pi.addUserData u
  | .extFiles fs => .ok { pi with extFiles := addExtFiles pi.extFiles fs }
  | .tileset t => .ok { pi with tilesets := assocInsert t.id.toNat t pi.tilesets }
  | .noop => .ok pi

/-- fold `stepSem` over the items of one frame -/
def runItems (frame : Nat) : ParseInfo → List SItem → Res ParseInfo
  | pi, [] => .ok pi
  | pi, it :: its =>
      match stepSem frame pi it with
      | .ok pi' => runItems frame pi' its
      | .err e => .err e
      | .panic p => .panic p

/-- one frame: store the duration, then run the items -/
def runFrame (frame : Nat) (duration : UInt16) (pi : ParseInfo) (items : List SItem) :
    Res ParseInfo :=
  runItems frame { pi with frameTimes := pi.frameTimes.set! frame duration } items

/-- frames `frame, frame+1, …` -/
def runFrames : Nat → ParseInfo → List (UInt16 × List SItem) → Res ParseInfo
  | _, pi, [] => .ok pi
  | frame, pi, (d, items) :: rest =>
      match runFrame frame d pi items with
      | .ok pi' => runFrames (frame + 1) pi' rest
      | .err e => .err e
      | .panic p => .panic p

/-- the header as far as the API can see it -/
structure SHeader where
  numFrames : UInt16
  width : UInt16
  height : UInt16
  format : PixelFormat
  deriving Repr, Inhabited, DecidableEq

def SHeader.toHeader (h : SHeader) : Header :=
  ⟨h.numFrames, h.width, h.height, 0, 0, 0, 0, 0⟩

/-- the loaded sprite, from semantic content only -/
def semParse (h : SHeader) (frames : List (UInt16 × List SItem)) : Res Sprite :=
  match runFrames 0 (ParseInfo.new h.numFrames.toNat 0) frames with
  | .ok pi => validate h.toHeader h.format pi
  | .err e => .err e
  | .panic p => .panic p

/-! ### the semantic content of a program -/

def formatOf (depth : UInt16) (tci : UInt8) : PixelFormat :=
  if depth.toNat = 8 then .indexed tci else if depth.toNat = 16 then .grayscale else .rgba

def headerSem (p : Program) : SHeader :=
  { numFrames := UInt16.ofNat p.frames.length, width := p.header.width,
    height := p.header.height, format := formatOf p.header.depth p.header.tci }

def frameSem (fmt : PixelFormat) (m : Profile) (f : FrameSpec) : UInt16 × List SItem :=
  (f.duration, f.chunks.map (fun c => semItem fmt m c.item))

def framesSem (m : Profile) (p : Program) : List (UInt16 × List SItem) :=
  p.frames.map (frameSem (formatOf p.header.depth p.header.tci) m)

end Ase.Spec
