import Ase.Types
/-
  Spec layer for C10 (user-data attachment): an abstract EVENT view of a chunk sequence and the
  DECLARATIVE description of which entity a user-data record belongs to.

  Nothing here is a state machine: `attachTarget evs i` looks backwards from position `i` for the
  nearest context-setting event, `attached evs t` looks for the last record whose target is `t`.
  The state machine (`ParseInfo.addUserData` / `processChunk`) is related to these definitions in
  `AseProofs/Lemmas/Attach*.lean` and `AseProofs/Props/C10.lean`.
-/
namespace Ase.Spec

/-- What a chunk means for user-data attachment.
    `tags n` is a tags chunk with `n` tags in frame 0; `other` is every chunk that neither sets
    the user-data context nor is a record: new palette, colour profile, external files, tileset,
    cel-extra / mask / path, and tags chunks outside frame 0. -/
inductive Ev where
  | layer
  | cel (frame layer : Nat)
  | slice
  | tags (n : Nat)
  | oldPalette
  | userData (u : UserData)
  | other
  deriving DecidableEq, Repr, Inhabited

/-- The entity a record is attached to.  `layer idx` / `slice idx`: the `idx`-th layer / slice
    in file order (0-based); `tag idx`: the `idx`-th tag of the tags chunk. -/
inductive Target where
  | layer (idx : Nat)
  | cel (frame layer : Nat)
  | slice (idx : Nat)
  | sprite
  | tag (idx : Nat)
  deriving DecidableEq, Repr, Inhabited

namespace Ev

/-- context-setting events -/
def isCtx : Ev → Bool
  | .layer | .cel _ _ | .slice | .tags _ | .oldPalette => true
  | .userData _ | .other => false

def isLayer : Ev → Bool
  | .layer => true
  | _ => false

def isSlice : Ev → Bool
  | .slice => true
  | _ => false

def isUD : Ev → Bool
  | .userData _ => true
  | _ => false

end Ev

/-- is the event at position `j` context-setting -/
def ctxAt (evs : List Ev) (j : Nat) : Bool :=
  match evs[j]? with
  | some e => e.isCtx
  | none => false

/-- the greatest `j < i` such that `evs[j]` is context-setting -/
def lastCtx (evs : List Ev) (i : Nat) : Option Nat :=
  (List.range i).reverse.find? (ctxAt evs)

/-- The entity the event at position `i` is attached to (meaningful when `evs[i]` is a record):
    determined by the nearest preceding context-setting event `evs[j]`.  A layer / slice event is
    the layer / slice whose index is the number of layer / slice events before it; after `tags n`
    the records go to tags `0, 1, …` in order, i.e. to the tag whose index is the number of records
    strictly between `j` and `i`. -/
def attachTarget (evs : List Ev) (i : Nat) : Option Target :=
  match lastCtx evs i with
  | none => none
  | some j =>
      match evs[j]? with
      | some .layer => some (.layer ((evs.take j).countP Ev.isLayer))
      | some (.cel f l) => some (.cel f l)
      | some .slice => some (.slice ((evs.take j).countP Ev.isSlice))
      | some .oldPalette => some .sprite
      | some (.tags _) => some (.tag (((evs.take i).drop (j + 1)).countP Ev.isUD))
      | _ => none

/-- the record at position `i`, if there is one at a position `≥ lo` and its target is `t` -/
def recordAt (evs : List Ev) (lo : Nat) (t : Target) (i : Nat) : Option UserData :=
  match evs[i]? with
  | some (.userData u) => if lo ≤ i ∧ attachTarget evs i = some t then some u else none
  | _ => none

/-- the record of the LAST position `i ≥ lo` that is a record with target `t` -/
def attachedSince (evs : List Ev) (lo : Nat) (t : Target) : Option UserData :=
  (List.range evs.length).reverse.findSome? (recordAt evs lo t)

/-- The record attached to entity `t`: the record of the LAST position `i` with
    `evs[i] = userData u` and `attachTarget evs i = some t`; `none` if there is no such position.
    (When no entity receives two records there is at most one such position.) -/
def attached (evs : List Ev) (t : Target) : Option UserData :=
  attachedSince evs 0 t

/-- `(j, n)` if the event at position `j` is `tags n` -/
def tagsAt (evs : List Ev) (j : Nat) : Option (Nat × Nat) :=
  match evs[j]? with
  | some (.tags n) => some (j, n)
  | _ => none

/-- position and size of the last `tags` event (the one whose tags the sprite ends up with) -/
def lastTags (evs : List Ev) : Option (Nat × Nat) :=
  (List.range evs.length).reverse.findSome? (tagsAt evs)

/-! ### the side conditions of C10's quantifier -/

def udAt (evs : List Ev) (i : Nat) : Bool :=
  match evs[i]? with
  | some e => e.isUD
  | none => false

def celAt (evs : List Ev) (i : Nat) : Option (Nat × Nat) :=
  match evs[i]? with
  | some (.cel f l) => some (f, l)
  | _ => none

/-- `n` if the nearest context-setting event before `i` is `tags n` -/
def tagLimit (evs : List Ev) (i : Nat) : Option Nat :=
  match lastCtx evs i with
  | none => none
  | some j =>
      match evs[j]? with
      | some (.tags n) => some n
      | _ => none

/-- a record at position `i` that follows `tags n` is one of the first `n` records after it -/
def tagOK (evs : List Ev) (i : Nat) : Bool :=
  match attachTarget evs i, tagLimit evs i with
  | some (.tag k), some n => decide (k < n)
  | _, _ => true

/-- a cel event at position `i` lies in one of the sprite's `nf` frames -/
def celFrameOK (nf : Nat) (evs : List Ev) (i : Nat) : Bool :=
  match celAt evs i with
  | some (f, _) => decide (f < nf)
  | none => true

/-- every record has a preceding attachable entity -/
def HasTarget (evs : List Ev) : Prop :=
  ∀ i, i < evs.length → udAt evs i = true → attachTarget evs i ≠ none

/-- no entity receives two records -/
def NoDouble (evs : List Ev) : Prop :=
  ∀ i, i < evs.length → ∀ i', i' < evs.length → udAt evs i = true → udAt evs i' = true →
    attachTarget evs i = attachTarget evs i' → i = i'

/-- at most `n` records follow a `tags n` event (before the next context-setting event) -/
def TagsBounded (evs : List Ev) : Prop :=
  ∀ i, i < evs.length → udAt evs i = true → tagOK evs i = true

/-- cel events name existing frames -/
def CelFramesOK (nf : Nat) (evs : List Ev) : Prop :=
  ∀ i, i < evs.length → celFrameOK nf evs i = true

/-- no two cel events name the same (frame, layer) -/
def CelsDistinct (evs : List Ev) : Prop :=
  ∀ i, i < evs.length → ∀ i', i' < evs.length → celAt evs i ≠ none →
    celAt evs i = celAt evs i' → i = i'

instance (evs : List Ev) : Decidable (HasTarget evs) := by unfold HasTarget; exact inferInstance
instance (evs : List Ev) : Decidable (NoDouble evs) := by unfold NoDouble; exact inferInstance
instance (evs : List Ev) : Decidable (TagsBounded evs) := by unfold TagsBounded; exact inferInstance
instance (nf : Nat) (evs : List Ev) : Decidable (CelFramesOK nf evs) := by
  unfold CelFramesOK; exact inferInstance
instance (evs : List Ev) : Decidable (CelsDistinct evs) := by
  unfold CelsDistinct; exact inferInstance

/-- The side conditions of C10's quantifier for a sprite with `nf` frames.
    (Tags chunks outside frame 0 are `other` events by construction.) -/
structure AttachWF (nf : Nat) (evs : List Ev) : Prop where
  hasTarget : HasTarget evs
  noDouble : NoDouble evs
  tagsBounded : TagsBounded evs
  celFrames : CelFramesOK nf evs
  celsDistinct : CelsDistinct evs

instance (nf : Nat) (evs : List Ev) : Decidable (AttachWF nf evs) :=
  decidable_of_iff
    (HasTarget evs ∧ NoDouble evs ∧ TagsBounded evs ∧ CelFramesOK nf evs ∧ CelsDistinct evs)
    ⟨fun ⟨a, b, c, d, e⟩ => ⟨a, b, c, d, e⟩, fun ⟨a, b, c, d, e⟩ => ⟨a, b, c, d, e⟩⟩

/-- insert `n` `other` events before position `k` -/
def insertOther (evs : List Ev) (k n : Nat) : List Ev :=
  evs.take k ++ List.replicate n Ev.other ++ evs.drop k

end Ase.Spec
