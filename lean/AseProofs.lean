import AseProofs.Props.C09
