import AseProofs.Lemmas.Arith
import AseProofs.Lemmas.BlendBasic
import AseProofs.Props.C09
import AseProofs.Props.C17
import AseProofs.Props.C03
