import Ase.Blend
import Mathlib.Tactic.Linarith
import Mathlib.Tactic.Positivity
import Mathlib.Tactic.Ring
import Mathlib.Tactic.NormNum
/-!
  # Exact-arithmetic instance of `FOps` and the real-valued range lemmas

  **Scope.**  Everything in this file (and in `AseProofs/Props/C17Exact.lean`) is about EXACT
  arithmetic: the floating-point parameter `FOps F` of the blend model is instantiated with the
  field `ℚ`, `+ - * /` are the field operations (with Lean's `x / 0 = 0`), `max`/`min` are the
  lattice operations, comparisons are the decidable order of `ℚ`, the literals are the exact
  rationals `1/4, 1/2, 3/10, 59/100, 11/100`, the casts `as i32` / `as u32` truncate toward zero
  and saturate, and `sqrt` is ANY function with `0 ≤ x ≤ 1 → x ≤ sqrt x ≤ 1` (hypothesis
  `SqrtOk`; `ℚ` has no square roots, and every statement holds for every such function).

  The gap between this exact instance and IEEE-754 binary64 (each operation rounds, a few ulp of
  accumulated error against the margins `0 ≤ c*255` and `c*255 < 256`, resp. `r*255 + 0.5 < 256`)
  is NOT covered by these theorems.
-/
namespace Ase.Proofs
open Ase Ase.Blend

/-! ### the instance -/

/-- truncation toward zero -/
def trunc (x : ℚ) : Int := if 0 ≤ x then x.floor else x.ceil

/-- `as i32`: truncation toward zero, saturating at the `i32` range -/
def exactToI32 (x : ℚ) : Int := max (-2147483648) (min 2147483647 (trunc x))

/-- `as u32`: truncation toward zero, saturating at `0 .. 2^32-1` -/
def exactToU32 (x : ℚ) : Nat := (max 0 (min 4294967295 (trunc x))).toNat

/-- the exact-arithmetic instance of the floating-point parameter; `sqrt` is a parameter -/
def exactOps (sqrt : ℚ → ℚ) : FOps ℚ where
  add a b := a + b
  sub a b := a - b
  mul a b := a * b
  div a b := a / b
  sqrt := sqrt
  max a b := max a b
  min a b := min a b
  lt a b := decide (a < b)
  le a b := decide (a ≤ b)
  ofInt n := (n : ℚ)
  toI32 := exactToI32
  toU32 := exactToU32
  c0_25 := 1 / 4
  c0_5 := 1 / 2
  c0_3 := 3 / 10
  c0_59 := 59 / 100
  c0_11 := 11 / 100

/-- what is assumed of the square-root function: on the unit interval it lies between the
    argument and 1 (true of the real square root; only `0 ≤ sqrt x ≤ 1` is actually used) -/
def SqrtOk (sqrt : ℚ → ℚ) : Prop := ∀ x : ℚ, 0 ≤ x → x ≤ 1 → x ≤ sqrt x ∧ sqrt x ≤ 1

section simp_lemmas
variable (q : ℚ → ℚ)
@[simp] theorem exactOps_add (a b : ℚ) : (exactOps q).add a b = a + b := rfl
@[simp] theorem exactOps_sub (a b : ℚ) : (exactOps q).sub a b = a - b := rfl
@[simp] theorem exactOps_mul (a b : ℚ) : (exactOps q).mul a b = a * b := rfl
@[simp] theorem exactOps_div (a b : ℚ) : (exactOps q).div a b = a / b := rfl
@[simp] theorem exactOps_sqrt (a : ℚ) : (exactOps q).sqrt a = q a := rfl
@[simp] theorem exactOps_max (a b : ℚ) : (exactOps q).max a b = max a b := rfl
@[simp] theorem exactOps_min (a b : ℚ) : (exactOps q).min a b = min a b := rfl
@[simp] theorem exactOps_lt (a b : ℚ) : (exactOps q).lt a b = decide (a < b) := rfl
@[simp] theorem exactOps_le (a b : ℚ) : (exactOps q).le a b = decide (a ≤ b) := rfl
@[simp] theorem exactOps_ofInt (n : Int) : (exactOps q).ofInt n = (n : ℚ) := rfl
@[simp] theorem exactOps_toI32 (a : ℚ) : (exactOps q).toI32 a = exactToI32 a := rfl
@[simp] theorem exactOps_toU32 (a : ℚ) : (exactOps q).toU32 a = exactToU32 a := rfl
@[simp] theorem exactOps_c0_25 : (exactOps q).c0_25 = 1 / 4 := rfl
@[simp] theorem exactOps_c0_5 : (exactOps q).c0_5 = 1 / 2 := rfl
@[simp] theorem exactOps_c0_3 : (exactOps q).c0_3 = 3 / 10 := rfl
@[simp] theorem exactOps_c0_59 : (exactOps q).c0_59 = 59 / 100 := rfl
@[simp] theorem exactOps_c0_11 : (exactOps q).c0_11 = 11 / 100 := rfl
end simp_lemmas

/-! ### casts -/

theorem trunc_range {x : ℚ} {n : Int} (h0 : 0 ≤ x) (h1 : x < (n : ℚ) + 1) :
    0 ≤ trunc x ∧ trunc x ≤ n := by
  unfold trunc
  rw [if_pos h0]
  constructor
  · exact Rat.le_floor_iff.mpr (by simpa using h0)
  · have : x.floor < n + 1 := Rat.floor_lt_iff.mpr (by push_cast; exact h1)
    omega

theorem exactToI32_byte {x : ℚ} (h0 : 0 ≤ x) (h1 : x ≤ 255) :
    0 ≤ exactToI32 x ∧ exactToI32 x ≤ 255 := by
  have := trunc_range (n := 255) h0 (by push_cast; linarith)
  unfold exactToI32
  omega

theorem exactToU32_byte {x : ℚ} (h0 : 0 ≤ x) (h1 : x < 256) :
    0 ≤ (exactToU32 x : Int) ∧ (exactToU32 x : Int) ≤ 255 := by
  have := trunc_range (n := 255) h0 (by push_cast; linarith)
  unfold exactToU32
  omega

/-- a byte divided by 255 lies in the unit interval -/
theorem byte_unit (x : UInt8) : 0 ≤ ((ch x : Int) : ℚ) / 255 ∧ ((ch x : Int) : ℚ) / 255 ≤ 1 := by
  have h0 : (0 : ℚ) ≤ ((ch x : Int) : ℚ) := by
    have : 0 ≤ ch x := by simp [ch]
    exact_mod_cast this
  have h1 : ((ch x : Int) : ℚ) ≤ 255 := by
    have : ch x ≤ 255 := by
      have := x.toNat_lt
      simp only [ch]; omega
    exact_mod_cast this
  constructor
  · positivity
  · rw [div_le_one (by norm_num)]; exact h1

/-! ### luminosity and saturation (real-valued) -/

/-- `0.3 r + 0.59 g + 0.11 b` -/
def lumQ (r g b : ℚ) : ℚ := 3 / 10 * r + 59 / 100 * g + 11 / 100 * b

theorem lumQ_range {r g b : ℚ} (hr0 : 0 ≤ r) (hr1 : r ≤ 1) (hg0 : 0 ≤ g) (hg1 : g ≤ 1)
    (hb0 : 0 ≤ b) (hb1 : b ≤ 1) : 0 ≤ lumQ r g b ∧ lumQ r g b ≤ 1 := by
  unfold lumQ; constructor <;> linarith

/-- the weights sum to 1: a common shift of the channels shifts the luminosity -/
theorem lumQ_shift (r g b d : ℚ) : lumQ (r + d) (g + d) (b + d) = lumQ r g b + d := by
  unfold lumQ; ring

/-- the luminosity is a convex combination: it lies between the minimum and the maximum -/
theorem lumQ_between (r g b : ℚ) :
    min r (min g b) ≤ lumQ r g b ∧ lumQ r g b ≤ max r (max g b) := by
  have h1 : min r (min g b) ≤ r := min_le_left _ _
  have h2 : min r (min g b) ≤ g := le_trans (min_le_right _ _) (min_le_left _ _)
  have h3 : min r (min g b) ≤ b := le_trans (min_le_right _ _) (min_le_right _ _)
  have h4 : r ≤ max r (max g b) := le_max_left _ _
  have h5 : g ≤ max r (max g b) := le_trans (le_max_left _ _) (le_max_right _ _)
  have h6 : b ≤ max r (max g b) := le_trans (le_max_right _ _) (le_max_right _ _)
  unfold lumQ; constructor <;> linarith

theorem satQ_range {r g b : ℚ} (hr0 : 0 ≤ r) (hr1 : r ≤ 1) (hg0 : 0 ≤ g) (hg1 : g ≤ 1)
    (hb0 : 0 ≤ b) (hb1 : b ≤ 1) :
    0 ≤ max r (max g b) - min r (min g b) ∧ max r (max g b) - min r (min g b) ≤ 1 := by
  have h1 : min r (min g b) ≤ r := min_le_left _ _
  have h4 : r ≤ max r (max g b) := le_max_left _ _
  have h7 : 0 ≤ min r (min g b) := le_min hr0 (le_min hg0 hb0)
  have h8 : max r (max g b) ≤ 1 := max_le hr1 (max_le hg1 hb1)
  constructor <;> linarith

/-! ### `clip_color`, one channel (the bug-compatible variant: `lum`, `min`, `max` are computed
    once, before the first step, and reused in the second) -/

def clip1 (l mn mx x : ℚ) : ℚ :=
  let x1 := if mn < 0 then l + (x - l) * l / (l - mn) else x
  if 1 < mx then l + (x1 - l) * (1 - l) / (mx - l) else x1

/-- first clipping step: the channel becomes non-negative and stays below the old maximum -/
theorem clip_step1 {l mn mx x : ℚ} (hl0 : 0 ≤ l) (hmx : l ≤ mx)
    (hx0 : mn ≤ x) (hx1 : x ≤ mx) :
    0 ≤ (if mn < 0 then l + (x - l) * l / (l - mn) else x) ∧
      (if mn < 0 then l + (x - l) * l / (l - mn) else x) ≤ mx := by
  by_cases h : mn < 0
  · have hpos : 0 < l - mn := by linarith
    rw [if_pos h, mul_div_assoc]
    have ht0 : 0 ≤ l / (l - mn) := div_nonneg hl0 hpos.le
    have ht1 : l / (l - mn) ≤ 1 := (div_le_one hpos).mpr (by linarith)
    have hte : l / (l - mn) * (l - mn) = l := div_mul_cancel₀ _ hpos.ne'
    generalize l / (l - mn) = t at *
    have h1 := mul_le_mul_of_nonneg_right (show mn - l ≤ x - l by linarith) ht0
    have h2 := mul_le_mul_of_nonneg_right (show x - l ≤ mx - l by linarith) ht0
    have h3 := mul_le_mul_of_nonneg_left ht1 (show 0 ≤ mx - l by linarith)
    constructor <;> linarith
  · rw [if_neg h]
    exact ⟨by linarith, hx1⟩

/-- second clipping step (with the OLD maximum `mx`) -/
theorem clip_step2 {l mx x1 : ℚ} (hl0 : 0 ≤ l) (hl1 : l ≤ 1)
    (hx0 : 0 ≤ x1) (hx1 : x1 ≤ mx) :
    0 ≤ (if 1 < mx then l + (x1 - l) * (1 - l) / (mx - l) else x1) ∧
      (if 1 < mx then l + (x1 - l) * (1 - l) / (mx - l) else x1) ≤ 1 := by
  by_cases h : 1 < mx
  · have hpos : 0 < mx - l := by linarith
    rw [if_pos h, mul_div_assoc]
    have hu0 : 0 ≤ (1 - l) / (mx - l) := div_nonneg (by linarith) hpos.le
    have hu1 : (1 - l) / (mx - l) ≤ 1 := (div_le_one hpos).mpr (by linarith)
    have hue : (1 - l) / (mx - l) * (mx - l) = 1 - l := div_mul_cancel₀ _ hpos.ne'
    generalize (1 - l) / (mx - l) = u at *
    have h2 := mul_le_mul_of_nonneg_right (show x1 - l ≤ mx - l by linarith) hu0
    constructor
    · rcases le_total l x1 with hc | hc
      · have := mul_nonneg (show 0 ≤ x1 - l by linarith) hu0
        linarith
      · have := mul_le_mul_of_nonneg_left hu1 (show 0 ≤ l - x1 by linarith)
        linarith
    · linarith
  · rw [if_neg h]
    exact ⟨hx0, by linarith⟩

theorem clip1_range {l mn mx x : ℚ} (hl0 : 0 ≤ l) (hl1 : l ≤ 1) (hmx : l ≤ mx)
    (hx0 : mn ≤ x) (hx1 : x ≤ mx) : 0 ≤ clip1 l mn mx x ∧ clip1 l mn mx x ≤ 1 := by
  have s1 := clip_step1 hl0 hmx hx0 hx1
  exact clip_step2 hl0 hl1 s1.1 s1.2

/-! ### `set_saturation`: the scaled middle channel -/

theorem mid_range {a m b sat : ℚ} (h1 : a ≤ m) (h2 : m ≤ b) (h : a < b) (hs : 0 ≤ sat) :
    0 ≤ (m - a) * sat / (b - a) ∧ (m - a) * sat / (b - a) ≤ sat := by
  have hpos : 0 < b - a := by linarith
  constructor
  · exact div_nonneg (mul_nonneg (by linarith) hs) hpos.le
  · rw [div_le_iff₀ hpos]
    have := mul_le_mul_of_nonneg_right (show m - a ≤ b - a by linarith) hs
    linarith

/-! ### soft light (real-valued) -/

def softLightQ (sqrt : ℚ → ℚ) (bf sf : ℚ) : ℚ :=
  let d := if bf ≤ 1 / 4 then ((16 * bf - 12) * bf + 4) * bf else sqrt bf
  if sf ≤ 1 / 2 then bf - (1 - 2 * sf) * bf * (1 - bf) else bf + (2 * sf - 1) * (d - bf)

theorem softLightD_range {sqrt : ℚ → ℚ} (hq : SqrtOk sqrt) {x : ℚ} (h0 : 0 ≤ x) (h1 : x ≤ 1) :
    0 ≤ (if x ≤ 1 / 4 then ((16 * x - 12) * x + 4) * x else sqrt x) ∧
      (if x ≤ 1 / 4 then ((16 * x - 12) * x + 4) * x else sqrt x) ≤ 1 := by
  by_cases h : x ≤ 1 / 4
  · rw [if_pos h]
    have hxx : 0 ≤ x * x := mul_nonneg h0 h0
    have p1 := mul_nonneg h0 (show 0 ≤ 1 / 4 - x by linarith)
    have p2 := mul_nonneg hxx (show 0 ≤ 1 / 4 - x by linarith)
    have p3 := mul_nonneg hxx h0
    constructor <;> nlinarith
  · rw [if_neg h]
    have := hq x h0 h1
    exact ⟨by linarith, this.2⟩

theorem softLightQ_range {sqrt : ℚ → ℚ} (hq : SqrtOk sqrt) {bf sf : ℚ} (hb0 : 0 ≤ bf)
    (hb1 : bf ≤ 1) (hs0 : 0 ≤ sf) (hs1 : sf ≤ 1) :
    0 ≤ softLightQ sqrt bf sf ∧ softLightQ sqrt bf sf ≤ 1 := by
  unfold softLightQ
  have hd := softLightD_range hq hb0 hb1
  simp only
  generalize (if bf ≤ 1 / 4 then ((16 * bf - 12) * bf + 4) * bf else sqrt bf) = d at hd
  by_cases h : sf ≤ 1 / 2
  · rw [if_pos h]
    have ha0 : 0 ≤ 1 - 2 * sf := by linarith
    have ha1 : 1 - 2 * sf ≤ 1 := by linarith
    have hac0 : 0 ≤ (1 - 2 * sf) * (1 - bf) := mul_nonneg ha0 (by linarith)
    have hac1 : (1 - 2 * sf) * (1 - bf) ≤ 1 := mul_le_one₀ ha1 (by linarith) (by linarith)
    have e : bf - (1 - 2 * sf) * bf * (1 - bf) = bf * (1 - (1 - 2 * sf) * (1 - bf)) := by ring
    rw [e]
    constructor
    · exact mul_nonneg hb0 (by linarith)
    · have := mul_le_mul_of_nonneg_left (show 1 - (1 - 2 * sf) * (1 - bf) ≤ 1 by linarith) hb0
      linarith
  · rw [if_neg h]
    have hk0 : 0 ≤ 2 * sf - 1 := by linarith
    have hk1 : 0 ≤ 1 - (2 * sf - 1) := by linarith
    have p1 := mul_nonneg hk0 hd.1
    have p2 := mul_nonneg hk1 hb0
    have p3 := mul_nonneg hk0 (show 0 ≤ 1 - d by linarith)
    have p4 := mul_nonneg hk1 (show 0 ≤ 1 - bf by linarith)
    constructor <;> linarith

end Ase.Proofs
