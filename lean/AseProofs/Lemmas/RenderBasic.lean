import Ase.Render
/-
  Structural facts about the renderer model: images keep their dimensions, absent and linked
  cels, single-layer frames.
-/
namespace Ase.Proofs
open Ase

/-- same width, height and buffer size -/
def SameDims (a b : Image) : Prop := a.w = b.w ∧ a.h = b.h ∧ a.px.size = b.px.size

theorem SameDims.refl (a : Image) : SameDims a a := ⟨rfl, rfl, rfl⟩
theorem SameDims.trans {a b c : Image} (h1 : SameDims a b) (h2 : SameDims b c) : SameDims a c :=
  ⟨h1.1.trans h2.1, h1.2.1.trans h2.2.1, h1.2.2.trans h2.2.2⟩

theorem put_dims {img img' : Image} {x y : Nat} {c : RGBA} (h : img.put x y c = .ok img') :
    SameDims img img' := by
  unfold Image.put at h
  split at h
  · cases h; exact ⟨rfl, rfl, by simp⟩
  · cases h

section
variable {F : Type} (ops : FOps F) (m : Profile)

theorem writeRawRow_dims (mode : Nat) (op : UInt8) (pixels : Array RGBA) (cw : Nat) (x0 : Int)
    (y row : Nat) : ∀ (n col : Nat) (img img' : Image),
      Sprite.writeRawRow ops m mode op pixels cw x0 y row n col img = .ok img' → SameDims img img' := by
  intro n
  induction n with
  | zero => intro col img img' h; simp [Sprite.writeRawRow] at h; subst h; exact SameDims.refl _
  | succ n ih =>
      intro col img img' h
      unfold Sprite.writeRawRow at h
      dsimp only at h
      split at h
      · exact ih _ _ _ h
      · split at h
        · cases h
        · split at h
          · split at h
            · split at h
              · rename_i hput
                exact (put_dims hput).trans (ih _ _ _ h)
              · cases h
              · cases h
            · cases h
            · cases h
          · cases h
          · cases h

theorem writeRawRows_dims (mode : Nat) (op : UInt8) (pixels : Array RGBA) (cw : Nat) (x0 y0 : Int) :
    ∀ (n row : Nat) (img img' : Image),
      Sprite.writeRawRows ops m mode op pixels cw x0 y0 n row img = .ok img' → SameDims img img' := by
  intro n
  induction n with
  | zero => intro row img img' h; simp [Sprite.writeRawRows] at h; subst h; exact SameDims.refl _
  | succ n ih =>
      intro row img img' h
      unfold Sprite.writeRawRows at h
      dsimp only at h
      split at h
      · exact ih _ _ _ h
      · split at h
        · rename_i hrow
          exact (writeRawRow_dims ops m mode op pixels cw x0 _ row _ _ _ _ hrow).trans (ih _ _ _ h)
        · cases h
        · cases h

theorem writeTilePixels_dims (mode : Nat) (op : UInt8) (tp : Array RGBA) (tw : Nat) (bx by_ : Int) :
    ∀ (n idx : Nat) (img img' : Image),
      Sprite.writeTilePixels ops m mode op tp tw bx by_ n idx img = .ok img' → SameDims img img' := by
  intro n
  induction n with
  | zero => intro idx img img' h; simp [Sprite.writeTilePixels] at h; subst h; exact SameDims.refl _
  | succ n ih =>
      intro idx img img' h
      unfold Sprite.writeTilePixels at h
      dsimp only at h
      split at h
      · cases h
      · split at h
        · split at h
          · split at h
            · split at h
              · rename_i hput
                exact (put_dims hput).trans (ih _ _ _ h)
              · cases h
              · cases h
            · cases h
            · cases h
          · cases h
          · cases h
        · exact ih _ _ _ h

theorem writeTiles_dims (mode : Nat) (op : UInt8) (t : TilemapData) (pixels : Array RGBA)
    (tw th : Nat) (cx cy : Int) : ∀ (n idx : Nat) (img img' : Image),
      Sprite.writeTiles ops m mode op t pixels tw th cx cy n idx img = .ok img' → SameDims img img' := by
  intro n
  induction n with
  | zero => intro idx img img' h; simp [Sprite.writeTiles] at h; subst h; exact SameDims.refl _
  | succ n ih =>
      intro idx img img' h
      unfold Sprite.writeTiles at h
      dsimp only at h
      split at h
      · cases h
      · split at h
        · cases h
        · split at h
          · rename_i htp
            exact (writeTilePixels_dims ops m mode op _ tw _ _ _ _ _ _ htp).trans (ih _ _ _ h)
          · cases h
          · cases h

theorem writeCelDirect_dims (s : Sprite) (img img' : Image) (c : RawCel Pixels)
    (h : s.writeCelDirect ops m img c = .ok img') : SameDims img img' := by
  unfold Sprite.writeCelDirect at h
  split at h
  · cases h
  · split at h
    · split at h
      · exact writeRawRows_dims ops m _ _ _ _ _ _ _ _ _ _ h
      · cases h
      · cases h
    · split at h
      · split at h
        · cases h
        · split at h
          · cases h
          · split at h
            · exact writeTiles_dims ops m _ _ _ _ _ _ _ _ _ _ _ _ h
            · cases h
            · cases h
      · cases h
    · cases h

theorem writeCel_dims (s : Sprite) (img img' : Image) (c : RawCel Pixels)
    (h : s.writeCel ops m img c = .ok img') : SameDims img img' := by
  unfold Sprite.writeCel at h
  split at h
  · split at h
    · cases h
    · split at h
      · cases h; exact SameDims.refl _
      · exact writeCelDirect_dims ops m s _ _ _ h
      · cases h
      · cases h
  · exact writeCelDirect_dims ops m s _ _ _ h

theorem frameImageLoop_dims (s : Sprite) : ∀ (row : FrameCels Pixels) (img img' : Image),
    s.frameImageLoop ops m row img = .ok img' → SameDims img img' := by
  intro row
  induction row with
  | nil => intro img img' h; simp [Sprite.frameImageLoop] at h; subst h; exact SameDims.refl _
  | cons hd tl ih =>
      intro img img' h
      obtain ⟨l, c⟩ := hd
      unfold Sprite.frameImageLoop at h
      split at h
      · cases h
      · split at h
        · exact ih _ _ h
        · split at h
          · rename_i hw
            exact (writeCel_dims ops m s _ _ _ hw).trans (ih _ _ h)
          · cases h
          · cases h
        · cases h
        · cases h

/-- **dimensions**: a frame image that is produced has exactly the canvas dimensions -/
theorem frameImage_dims (s : Sprite) (f : Nat) (img : Image) (h : s.frameImage ops m f = .ok img) :
    img.w = s.width.toNat ∧ img.h = s.height.toNat ∧ img.px.size = s.width.toNat * s.height.toNat := by
  unfold Sprite.frameImage at h
  split at h
  · cases h
  · have := frameImageLoop_dims ops m s _ _ _ h
    simp only [SameDims, Sprite.canvas, Image.new, Array.size_replicate] at this
    exact ⟨this.1.symm, this.2.1.symm, this.2.2.symm⟩

/-- a cel image that is produced has exactly the canvas dimensions -/
theorem celImage_dims (s : Sprite) (f l : Nat) (img : Image) (h : s.celImage ops m f l = .ok img) :
    img.w = s.width.toNat ∧ img.h = s.height.toNat ∧ img.px.size = s.width.toNat * s.height.toNat := by
  unfold Sprite.celImage at h
  split at h
  · cases h; simp [Sprite.canvas, Image.new]
  · have := writeCel_dims ops m s _ _ _ h
    simp only [SameDims, Sprite.canvas, Image.new, Array.size_replicate] at this
    exact ⟨this.1.symm, this.2.1.symm, this.2.2.symm⟩
  · cases h
  · cases h

end
end Ase.Proofs
