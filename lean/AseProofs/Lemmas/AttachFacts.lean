import AseProofs.Lemmas.Attach
/-
  C10, facts about the declarative spec alone:
  * `other` events are transparent: inserting them anywhere changes no target and no attachment;
  * `attached` is sound (what it reports is a record whose target is that entity), and, when no
    entity receives two records, complete (every record is reported by its target) - hence a
    record is reported by its target and by no other entity, and an entity that is the target of
    no record reports none.
-/
namespace Ase.Proofs.C10
open Ase Ase.Spec

/-! ### transparency of `other` events -/

theorem ctxTarget_insert (a b : List Ev) (e : Ev) :
    ctxTarget (a ++ Ev.other :: b) e = ctxTarget (a ++ b) e := by
  cases e <;> simp [ctxTarget, List.countP_append, Ev.isLayer, Ev.isSlice]

/-- target at the end of the sequence, with one `other` event inserted after the prefix `a` -/
theorem attachTarget_insert_end (a : List Ev) : ∀ b : List Ev,
    attachTarget (a ++ Ev.other :: b) (a ++ Ev.other :: b).length =
      attachTarget (a ++ b) (a ++ b).length := by
  intro b
  induction b using snoc_induction with
  | nil =>
      rw [List.length_append, List.length_singleton, attachTarget_snoc]
      simp [Ev.isCtx, Ev.isUD]
  | snoc b e ih =>
      have e1 : a ++ Ev.other :: (b ++ [e]) = (a ++ Ev.other :: b) ++ [e] := by simp
      have e2 : a ++ (b ++ [e]) = (a ++ b) ++ [e] := by simp
      rw [e1, e2, List.length_append (as := a ++ Ev.other :: b),
        List.length_append (as := a ++ b), List.length_singleton, attachTarget_snoc,
        attachTarget_snoc, ih, ctxTarget_insert]

/-- positions up to the insertion point keep their target -/
theorem attachTarget_insert_before (a b : List Ev) (i : Nat) (h : i ≤ a.length) :
    attachTarget (a ++ Ev.other :: b) i = attachTarget (a ++ b) i := by
  rw [attachTarget_append h, attachTarget_append h]

/-- positions after the insertion point move by one and keep their target -/
theorem attachTarget_insert_after (a b : List Ev) (i : Nat) (h1 : a.length ≤ i)
    (h2 : i ≤ (a ++ b).length) :
    attachTarget (a ++ Ev.other :: b) (i + 1) = attachTarget (a ++ b) i := by
  have hb : b = b.take (i - a.length) ++ b.drop (i - a.length) := (List.take_append_drop _ _).symm
  have hl : (b.take (i - a.length)).length = i - a.length := by
    simp only [List.length_append] at h2
    simp only [List.length_take]; omega
  generalize b.take (i - a.length) = b1 at hb hl
  generalize b.drop (i - a.length) = b2 at hb
  subst hb
  have e1 : a ++ Ev.other :: (b1 ++ b2) = (a ++ Ev.other :: b1) ++ b2 := by simp
  have e2 : a ++ (b1 ++ b2) = (a ++ b1) ++ b2 := by simp
  have l1 : (a ++ Ev.other :: b1).length = i + 1 := by simp; omega
  have l2 : (a ++ b1).length = i := by simp; omega
  have s1 := attachTarget_append (evs := a ++ Ev.other :: b1) (r := b2) (i := i + 1) (by omega)
  have s2 := attachTarget_append (evs := a ++ b1) (r := b2) (i := i) (by omega)
  have s3 := attachTarget_insert_end a b1
  rw [l1, l2] at s3
  rw [e1, e2, s1, s2, s3]

/-- inserting an `other` event changes no attachment -/
theorem attached_insert (a : List Ev) (t : Target) : ∀ b : List Ev,
    attached (a ++ Ev.other :: b) t = attached (a ++ b) t := by
  intro b
  induction b using snoc_induction with
  | nil =>
      have := attached_snoc a Ev.other t
      simpa using this
  | snoc b e ih =>
      have e1 : a ++ Ev.other :: (b ++ [e]) = (a ++ Ev.other :: b) ++ [e] := by simp
      have e2 : a ++ (b ++ [e]) = (a ++ b) ++ [e] := by simp
      rw [e1, e2, attached_snoc, attached_snoc, attachTarget_insert_end, ih]

/-- **`other` events are transparent**: inserting any number of them at any position `k`
    changes no entity's attachment -/
theorem attached_insertOther (evs : List Ev) (k n : Nat) (t : Target) :
    attached (insertOther evs k n) t = attached evs t := by
  unfold insertOther
  induction n with
  | zero => simp
  | succ n ih =>
      have : evs.take k ++ List.replicate (n + 1) Ev.other ++ evs.drop k =
          evs.take k ++ Ev.other :: (List.replicate n Ev.other ++ evs.drop k) := by
        simp [List.replicate_succ]
      rw [this, attached_insert]
      simpa [List.append_assoc] using ih

/-- the record positions keep their targets: before the insertion point unchanged … -/
theorem attachTarget_insertOther_before (evs : List Ev) (k n i : Nat) (hk : k ≤ evs.length)
    (h : i ≤ k) : attachTarget (insertOther evs k n) i = attachTarget evs i := by
  unfold insertOther
  have hl : (evs.take k).length = k := by simp [hk]
  rw [List.append_assoc, attachTarget_append (by omega)]
  conv => rhs; rw [← List.take_append_drop k evs]
  rw [attachTarget_append (by omega)]

/-- … and after it shifted by the number of inserted events -/
theorem attachTarget_insertOther_after (evs : List Ev) (k n i : Nat) (hk : k ≤ i)
    (h : i ≤ evs.length) : attachTarget (insertOther evs k n) (i + n) = attachTarget evs i := by
  unfold insertOther
  have hl : (evs.take k).length = k := by simp; omega
  induction n with
  | zero => simp
  | succ n ih =>
      have e1 : evs.take k ++ List.replicate (n + 1) Ev.other ++ evs.drop k =
          evs.take k ++ Ev.other :: (List.replicate n Ev.other ++ evs.drop k) := by
        simp [List.replicate_succ]
      have e2 : i + (n + 1) = (i + n) + 1 := by omega
      rw [e1, e2, attachTarget_insert_after _ _ _ (by omega)]
      · simpa [List.append_assoc] using ih
      · simp only [List.length_append, List.length_replicate, List.length_take, List.length_drop]
        omega

/-! ### soundness and completeness of `attached` -/

theorem recordAt_some {evs : List Ev} {lo : Nat} {t : Target} {i : Nat} {u : UserData}
    (h : recordAt evs lo t i = some u) :
    evs[i]? = some (.userData u) ∧ lo ≤ i ∧ attachTarget evs i = some t := by
  unfold recordAt at h
  cases he : evs[i]? with
  | none => simp [he] at h
  | some e =>
      cases e with
      | userData u' =>
          simp only [he] at h
          by_cases hc : lo ≤ i ∧ attachTarget evs i = some t
          · simp only [hc, and_self, if_true, Option.some.injEq] at h
            subst h; exact ⟨rfl, hc.1, hc.2⟩
          · simp [hc] at h
      | _ => simp [he] at h

theorem attachedSince_sound {evs : List Ev} {lo : Nat} {t : Target} {u : UserData}
    (h : attachedSince evs lo t = some u) :
    ∃ i, lo ≤ i ∧ i < evs.length ∧ evs[i]? = some (.userData u) ∧ attachTarget evs i = some t := by
  unfold attachedSince at h
  obtain ⟨i, hi, hr⟩ := List.exists_of_findSome?_eq_some h
  simp only [List.mem_reverse, List.mem_range] at hi
  obtain ⟨h1, h2, h3⟩ := recordAt_some hr
  exact ⟨i, h2, hi, h1, h3⟩

/-- what an entity reports is a record whose target is that entity -/
theorem attached_sound {evs : List Ev} {t : Target} {u : UserData} (h : attached evs t = some u) :
    ∃ i, i < evs.length ∧ evs[i]? = some (.userData u) ∧ attachTarget evs i = some t := by
  obtain ⟨i, _, h1, h2, h3⟩ := attachedSince_sound h
  exact ⟨i, h1, h2, h3⟩

theorem attachedSince_none_of_no_record {evs : List Ev} {lo : Nat} {t : Target}
    (h : ∀ i u, evs[i]? = some (.userData u) → attachTarget evs i ≠ some t) :
    attachedSince evs lo t = none := by
  cases ha : attachedSince evs lo t with
  | none => rfl
  | some u =>
      obtain ⟨i, _, _, h1, h2⟩ := attachedSince_sound ha
      exact absurd h2 (h i u h1)

/-- an entity that is the target of no record reports none -/
theorem attached_none_of_no_record {evs : List Ev} {t : Target}
    (h : ∀ i u, evs[i]? = some (.userData u) → attachTarget evs i ≠ some t) :
    attached evs t = none := by
  cases ha : attached evs t with
  | none => rfl
  | some u =>
      obtain ⟨i, _, h1, h2⟩ := attached_sound ha
      exact absurd h2 (h i u h1)

/-- when no entity receives two records, every record is reported by its target -/
theorem attached_complete {evs : List Ev} (hnd : NoDouble evs) {i : Nat} {u : UserData}
    {t : Target} (he : evs[i]? = some (.userData u)) (ht : attachTarget evs i = some t) :
    attached evs t = some u := by
  have hi : i < evs.length := by
    rcases Nat.lt_or_ge i evs.length with h | h
    · exact h
    · rw [List.getElem?_eq_none h] at he; cases he
  have hrec : recordAt evs 0 t i = some u := by simp [recordAt, he, ht]
  cases ha : attached evs t with
  | none =>
      unfold attached attachedSince at ha
      rw [List.findSome?_eq_none_iff] at ha
      have := ha i (by simp [hi])
      rw [hrec] at this; cases this
  | some u' =>
      obtain ⟨i', hi', h1, h2⟩ := attached_sound ha
      have hu : udAt evs i = true := by simp [udAt, he, Ev.isUD]
      have hu' : udAt evs i' = true := by simp [udAt, h1, Ev.isUD]
      have := hnd i hi i' hi' hu hu' (by rw [ht, h2])
      subst this
      rw [he] at h1
      injection h1 with h1
      injection h1 with h1
      rw [h1]

/-- With no entity receiving two records, entity `t` reports `u` exactly when some record `u`
    has target `t`.  Since `attachTarget` is a function of the position, a record is therefore
    reported by its target and by no other entity. -/
theorem attached_eq_some_iff {evs : List Ev} (hnd : NoDouble evs) {t : Target} {u : UserData} :
    attached evs t = some u ↔
      ∃ i, evs[i]? = some (.userData u) ∧ attachTarget evs i = some t := by
  constructor
  · intro h
    obtain ⟨i, _, h1, h2⟩ := attached_sound h
    exact ⟨i, h1, h2⟩
  · intro ⟨i, h1, h2⟩
    exact attached_complete hnd h1 h2

/-! ### a single tags event: `attachedSince` from it is `attached` -/

def isTags : Ev → Bool
  | .tags _ => true
  | _ => false

theorem lastTags_none_of_noTags : ∀ evs : List Ev, evs.countP isTags = 0 → lastTags evs = none := by
  intro evs
  induction evs using snoc_induction with
  | nil => intro _; rfl
  | snoc evs e ih =>
      intro h
      rw [lastTags_snoc]
      cases e with
      | tags n => rw [countP_snoc_of_true _ _ rfl] at h; omega
      | _ => rw [countP_snoc_of_false _ _ rfl] at h; exact ih h

theorem attachedSince_tag_none_of_noTags : ∀ (evs : List Ev) (lo k : Nat),
    evs.countP isTags = 0 → attachedSince evs lo (.tag k) = none := by
  intro evs
  induction evs using snoc_induction with
  | nil => intro _ _ _; rfl
  | snoc evs e ih =>
      intro lo k h
      rw [attachedSince_snoc]
      cases e with
      | tags n => rw [countP_snoc_of_true _ _ rfl] at h; omega
      | userData u =>
          rw [countP_snoc_of_false _ _ rfl] at h
          have hne : ¬ (lo ≤ evs.length ∧ attachTarget evs evs.length = some (.tag k)) := by
            intro ⟨_, ht⟩
            obtain ⟨j, n, hlt, _⟩ := target_tag_lastTags evs k ht
            rw [lastTags_none_of_noTags evs h] at hlt
            cases hlt
          simp only [hne, if_false]
          exact ih _ _ h
      | _ => rw [countP_snoc_of_false _ _ rfl] at h; exact ih _ _ h

/-- with at most one tags event, the records since the last tags event are all the records of
    tags -/
theorem attachedSince_lastTags_eq : ∀ (evs : List Ev), evs.countP isTags ≤ 1 →
    ∀ j n, lastTags evs = some (j, n) → ∀ k, attachedSince evs j (.tag k) = attached evs (.tag k) := by
  intro evs
  induction evs using snoc_induction with
  | nil => intro _ j n h; simp [lastTags] at h
  | snoc evs e ih =>
      intro hc j n hlt k
      rw [lastTags_snoc] at hlt
      unfold attached
      rw [attachedSince_snoc, attachedSince_snoc]
      cases e with
      | tags n' =>
          rw [countP_snoc_of_true _ _ rfl] at hc
          simp only [Option.some.injEq, Prod.mk.injEq] at hlt
          simp only
          rw [attachedSince_tag_none_of_noTags evs _ _ (by omega),
            attachedSince_tag_none_of_noTags evs _ _ (by omega)]
      | userData u =>
          rw [countP_snoc_of_false _ _ rfl] at hc
          simp only at hlt
          have hj := lastTags_lt _ _ _ hlt
          have h1 : j ≤ evs.length := by omega
          simp only [h1, true_and, Nat.zero_le]
          have := ih hc j n hlt k
          unfold attached at this
          rw [this]
      | _ =>
          rw [countP_snoc_of_false _ _ rfl] at hc
          simp only at hlt
          have := ih hc j n hlt k
          unfold attached at this
          simpa using this

end Ase.Proofs.C10
