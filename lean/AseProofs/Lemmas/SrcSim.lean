import Ase.Parse
/-
  Two generic principles about readers built from `S.read` by `bind`/`pure`/`fail`/`lift`/`if`:

  * `Sim`   : a simulation between two byte sources lifts to every top-level reader
              (`readHeader … parseFile`)                                   — used by C14;
  * `Strict`: a reader over plain bytes that succeeds consumes a prefix `used` of its input,
              gives the same result on `used ++ anything`, and fails with `UnexpectedEof` on
              every proper prefix of `used`                                 — used by C13.
-/
namespace Ase.Proofs.SrcSim
open Ase

/-! ## simulation between two sources -/

section sim
variable {σ₁ σ₂ : Type}

/-- Results related by `R` on the successor states. The first run may alternatively stop with
    an "escape" error `e` satisfying `E` (an injected I/O error). -/
def RelRes (R : σ₁ → σ₂ → Prop) (E : Err → Prop) {α : Type}
    (r₁ : Res (α × σ₁)) (r₂ : Res (α × σ₂)) : Prop :=
  (∃ e, E e ∧ r₁ = .err e) ∨
  (∃ a s t, r₁ = .ok (a, s) ∧ r₂ = .ok (a, t) ∧ R s t) ∨
  (∃ e, r₁ = .err e ∧ r₂ = .err e) ∨
  (∃ p, r₁ = .panic p ∧ r₂ = .panic p)

def Sim (R : σ₁ → σ₂ → Prop) (E : Err → Prop) {α : Type} (p : RdS σ₁ α) (q : RdS σ₂ α) : Prop :=
  ∀ s t, R s t → RelRes R E (p s) (q t)

/-- related states give related `read` results -/
def SimSrc (R : σ₁ → σ₂ → Prop) (E : Err → Prop) (S₁ : Src σ₁) (S₂ : Src σ₂) : Prop :=
  ∀ n, Sim R E (S₁.read n) (S₂.read n)

variable {R : σ₁ → σ₂ → Prop} {E : Err → Prop}

theorem Sim.pure {α} (a : α) : Sim R E (Pure.pure a : RdS σ₁ α) (Pure.pure a : RdS σ₂ α) := by
  intro s t h
  exact .inr (.inl ⟨a, s, t, rfl, rfl, h⟩)

theorem Sim.fail {α} (e : Err) : Sim R E (RdS.fail e : RdS σ₁ α) (RdS.fail e : RdS σ₂ α) := by
  intro s t _
  exact .inr (.inr (.inl ⟨e, rfl, rfl⟩))

theorem Sim.lift {α} (r : Res α) : Sim R E (RdS.lift r : RdS σ₁ α) (RdS.lift r : RdS σ₂ α) := by
  intro s t h
  cases r with
  | ok a => exact .inr (.inl ⟨a, s, t, rfl, rfl, h⟩)
  | err e => exact .inr (.inr (.inl ⟨e, rfl, rfl⟩))
  | panic p => exact .inr (.inr (.inr ⟨p, rfl, rfl⟩))

theorem Sim.bind {α β} {x₁ : RdS σ₁ α} {x₂ : RdS σ₂ α} {f₁ : α → RdS σ₁ β} {f₂ : α → RdS σ₂ β}
    (hx : Sim R E x₁ x₂) (hf : ∀ a, Sim R E (f₁ a) (f₂ a)) :
    Sim R E (x₁ >>= f₁) (x₂ >>= f₂) := by
  intro s t hst
  rcases hx s t hst with ⟨e, he, h1⟩ | ⟨a, s', t', h1, h2, hr⟩ | ⟨e, h1, h2⟩ | ⟨p, h1, h2⟩
  · exact .inl ⟨e, he, RdS.bind_err h1⟩
  · rw [RdS.bind_ok h1, RdS.bind_ok h2]
    exact hf a s' t' hr
  · exact .inr (.inr (.inl ⟨e, RdS.bind_err h1, RdS.bind_err h2⟩))
  · exact .inr (.inr (.inr ⟨p, RdS.bind_panic h1, RdS.bind_panic h2⟩))

theorem Sim.ite {α} (c : Prop) [Decidable c] {p₁ q₁ : RdS σ₁ α} {p₂ q₂ : RdS σ₂ α}
    (hp : Sim R E p₁ p₂) (hq : Sim R E q₁ q₂) :
    Sim R E (if c then p₁ else q₁) (if c then p₂ else q₂) := by
  by_cases h : c
  · simpa [h] using hp
  · simpa [h] using hq

/-- forgetting the final state: the two runs agree, or the first one escaped -/
theorem RelRes.map_fst {α} {r₁ : Res (α × σ₁)} {r₂ : Res (α × σ₂)} (h : RelRes R E r₁ r₂) :
    (∃ e, E e ∧ r₁.map (·.1) = .err e) ∨ r₁.map (·.1) = r₂.map (·.1) := by
  rcases h with ⟨e, he, h1⟩ | ⟨a, s, t, h1, h2, _⟩ | ⟨e, h1, h2⟩ | ⟨p, h1, h2⟩
  · exact .inl ⟨e, he, by rw [h1]; rfl⟩
  · exact .inr (by rw [h1, h2]; rfl)
  · exact .inr (by rw [h1, h2]; rfl)
  · exact .inr (by rw [h1, h2]; rfl)

variable {S₁ : Src σ₁} {S₂ : Src σ₂}

/-- one step of a simulation proof; `h` is the source hypothesis -/
local macro "sim_prims" : tactic => `(tactic| first
  | exact Sim.pure _
  | exact Sim.fail _
  | exact Sim.lift _
  | exact (‹SimSrc _ _ _ _› _))

theorem sim_readN (h : SimSrc R E S₁ S₂) (n : Nat) : Sim R E (readN S₁ n) (readN S₂ n) := h n

theorem sim_readU8 (h : SimSrc R E S₁ S₂) : Sim R E (readU8 S₁) (readU8 S₂) :=
  Sim.bind (h 1) (fun _ => Sim.pure _)

theorem sim_readU16 (h : SimSrc R E S₁ S₂) : Sim R E (readU16 S₁) (readU16 S₂) :=
  Sim.bind (h 2) (fun _ => Sim.pure _)

theorem sim_readI16 (h : SimSrc R E S₁ S₂) : Sim R E (readI16 S₁) (readI16 S₂) :=
  Sim.bind (sim_readU16 h) (fun _ => Sim.pure _)

theorem sim_readU32 (h : SimSrc R E S₁ S₂) : Sim R E (readU32 S₁) (readU32 S₂) :=
  Sim.bind (h 4) (fun _ => Sim.pure _)

theorem sim_readI32 (h : SimSrc R E S₁ S₂) : Sim R E (readI32 S₁) (readI32 S₂) :=
  Sim.bind (sim_readU32 h) (fun _ => Sim.pure _)

theorem sim_skip (h : SimSrc R E S₁ S₂) (n : Nat) : Sim R E (skip S₁ n) (skip S₂ n) :=
  Sim.bind (h n) (fun _ => Sim.pure _)

theorem sim_readString (h : SimSrc R E S₁ S₂) : Sim R E (readString S₁) (readString S₂) :=
  Sim.bind (sim_readU16 h) (fun _ => Sim.bind (h _) (fun _ => Sim.ite _ (Sim.pure _) (Sim.fail _)))

/-- decompose a reader built from the primitives -/
local macro "sim_tac" : tactic => `(tactic| repeat (first
  | exact Sim.pure _
  | exact Sim.fail _
  | exact Sim.lift _
  | exact sim_readN ‹_› _
  | exact sim_readU8 ‹_›
  | exact sim_readU16 ‹_›
  | exact sim_readI16 ‹_›
  | exact sim_readU32 ‹_›
  | exact sim_readI32 ‹_›
  | exact sim_skip ‹_› _
  | apply Sim.ite
  | apply Sim.bind
  | (intro _; try dsimp only)))

theorem sim_readHeader (h : SimSrc R E S₁ S₂) : Sim R E (readHeader S₁) (readHeader S₂) := by
  unfold readHeader
  sim_tac

theorem sim_readFrameHeader (h : SimSrc R E S₁ S₂) :
    Sim R E (readFrameHeader S₁) (readFrameHeader S₂) := by
  unfold readFrameHeader
  sim_tac

theorem sim_readChunk (h : SimSrc R E S₁ S₂) (avail : Int) :
    Sim R E (readChunk S₁ avail) (readChunk S₂ avail) := by
  unfold readChunk
  sim_tac

theorem sim_readChunks (h : SimSrc R E S₁ S₂) :
    ∀ (n : Nat) (avail : Int), Sim R E (readChunks S₁ n avail) (readChunks S₂ n avail) := by
  intro n
  induction n with
  | zero => intro avail; exact Sim.pure _
  | succ n ih =>
      intro avail
      unfold readChunks
      apply Sim.bind (sim_readChunk h avail)
      intro ⟨c, avail'⟩
      exact Sim.bind (ih avail') (fun _ => Sim.pure _)

theorem sim_parseFrame (h : SimSrc R E S₁ S₂) (inflate : Inflate) (m : Profile)
    (fmt : PixelFormat) (frame : Nat) (pi : ParseInfo) :
    Sim R E (parseFrame S₁ inflate m fmt frame pi) (parseFrame S₂ inflate m fmt frame pi) := by
  unfold parseFrame
  apply Sim.bind (sim_readFrameHeader h)
  intro fh
  apply Sim.bind (sim_readChunks h _ _)
  intro chunks
  exact Sim.lift _

theorem sim_parseFrames (h : SimSrc R E S₁ S₂) (inflate : Inflate) (m : Profile)
    (fmt : PixelFormat) :
    ∀ (n frame : Nat) (pi : ParseInfo),
      Sim R E (parseFrames S₁ inflate m fmt n frame pi) (parseFrames S₂ inflate m fmt n frame pi) := by
  intro n
  induction n with
  | zero => intro frame pi; exact Sim.pure _
  | succ n ih =>
      intro frame pi
      unfold parseFrames
      exact Sim.bind (sim_parseFrame h inflate m fmt frame pi) (fun pi' => ih (frame + 1) pi')

theorem sim_parseFile (h : SimSrc R E S₁ S₂) (inflate : Inflate) (m : Profile) :
    Sim R E (parseFile S₁ inflate m) (parseFile S₂ inflate m) := by
  unfold parseFile
  apply Sim.bind (sim_readHeader h)
  intro hd
  apply Sim.ite
  · exact Sim.fail _
  apply Sim.bind (Sim.lift _)
  intro fmt
  apply Sim.bind (sim_parseFrames h inflate m fmt _ _ _)
  intro pi
  exact Sim.lift _

end sim

/-! ## strictness of readers over plain bytes -/

section strict

/-- A successful run of `p` consumes a prefix `used`; the run only depends on `used`, and on
    every proper prefix of `used` the reader hits the end of the input. -/
def Strict {α : Type} (p : Rd α) : Prop :=
  ∀ bs a rest, p bs = .ok (a, rest) →
    ∃ used, bs = used ++ rest ∧ (∀ tl, p (used ++ tl) = .ok (a, tl)) ∧
      ∀ k, k < used.length → p (used.take k) = .err (.io .unexpectedEof)

theorem Strict.pure {α} (a : α) : Strict (Pure.pure a : Rd α) := by
  intro bs a' rest h
  simp only [RdS.pure_run, Res.ok.injEq, Prod.mk.injEq] at h
  obtain ⟨rfl, rfl⟩ := h
  exact ⟨[], rfl, fun tl => rfl, fun k hk => by simp at hk⟩

theorem Strict.fail {α} (e : Err) : Strict (RdS.fail e : Rd α) := by
  intro bs a rest h
  simp at h

theorem Strict.lift {α} (r : Res α) : Strict (RdS.lift r : Rd α) := by
  intro bs a rest h
  cases r with
  | ok a' =>
      simp only [RdS.lift_ok, Res.ok.injEq, Prod.mk.injEq] at h
      obtain ⟨rfl, rfl⟩ := h
      exact ⟨[], rfl, fun tl => rfl, fun k hk => by simp at hk⟩
  | err e => simp at h
  | panic p => simp [RdS.lift] at h

theorem Strict.ite {α} (c : Prop) [Decidable c] {p q : Rd α} (hp : Strict p) (hq : Strict q) :
    Strict (if c then p else q) := by
  by_cases h : c
  · simpa [h] using hp
  · simpa [h] using hq

theorem Strict.bind {α β} {x : Rd α} {f : α → Rd β} (hx : Strict x) (hf : ∀ a, Strict (f a)) :
    Strict (x >>= f) := by
  intro bs b rest h
  rw [RdS.bind_run] at h
  cases hxb : x bs with
  | ok r =>
      obtain ⟨a, mid⟩ := r
      rw [hxb] at h
      simp only at h
      obtain ⟨u1, hbs, hx1, hx2⟩ := hx bs a mid hxb
      obtain ⟨u2, hmid, hf1, hf2⟩ := hf a mid b rest h
      refine ⟨u1 ++ u2, by rw [hbs, hmid, List.append_assoc], ?_, ?_⟩
      · intro tl
        rw [List.append_assoc, RdS.bind_ok (hx1 _)]
        exact hf1 tl
      · intro k hk
        by_cases hk1 : k < u1.length
        · rw [List.take_append_of_le_length (by omega)]
          exact RdS.bind_err (hx2 k hk1)
        · have hsplit : List.take k (u1 ++ u2) = u1 ++ List.take (k - u1.length) u2 := by
            rw [List.take_append, List.take_of_length_le (by omega)]
          rw [hsplit, RdS.bind_ok (hx1 _)]
          apply hf2
          simp only [List.length_append] at hk
          omega
  | err e => rw [hxb] at h; cases h
  | panic p => rw [hxb] at h; cases h

theorem strict_read (n : Nat) : Strict (bytesSrc.read n) := by
  intro bs a rest h
  change bytesRead n bs = _ at h
  unfold bytesRead at h
  by_cases hn : n ≤ bs.length
  · simp only [hn, if_true, Res.ok.injEq, Prod.mk.injEq] at h
    obtain ⟨rfl, rfl⟩ := h
    refine ⟨bs.take n, (List.take_append_drop n bs).symm, ?_, ?_⟩
    · intro tl
      show bytesRead n _ = _
      have hl : (List.take n bs).length = n := by simp [hn]
      unfold bytesRead
      simp [hl]
    · intro k hk
      show bytesRead n _ = _
      unfold bytesRead
      have hl : (List.take n bs).length = n := by simp [hn]
      have : ¬ n ≤ (List.take k (List.take n bs)).length := by
        simp only [List.length_take]; omega
      rw [if_neg this]
  · simp [hn] at h

local macro "strict_tac" : tactic => `(tactic| repeat (first
  | exact Strict.pure _
  | exact Strict.fail _
  | exact Strict.lift _
  | exact strict_read _
  | apply Strict.ite
  | apply Strict.bind
  | (intro _; try dsimp only)))

theorem strict_readN (n : Nat) : Strict (readN bytesSrc n) := strict_read n
theorem strict_readU8 : Strict (readU8 bytesSrc) := by unfold readU8; strict_tac
theorem strict_readU16 : Strict (readU16 bytesSrc) := by unfold readU16; strict_tac
theorem strict_readI16 : Strict (readI16 bytesSrc) := by unfold readI16 readU16; strict_tac
theorem strict_readU32 : Strict (readU32 bytesSrc) := by unfold readU32; strict_tac
theorem strict_readI32 : Strict (readI32 bytesSrc) := by unfold readI32 readU32; strict_tac
theorem strict_skip (n : Nat) : Strict (skip bytesSrc n) := by unfold skip; strict_tac
theorem strict_readString : Strict (readString bytesSrc) := by
  unfold readString readU16; strict_tac

theorem strict_readHeader : Strict (readHeader bytesSrc) := by
  unfold readHeader readU32 readU16 readI16 readU16 readU8 skip
  strict_tac

theorem strict_readFrameHeader : Strict (readFrameHeader bytesSrc) := by
  unfold readFrameHeader readU32 readU16
  strict_tac

theorem strict_readChunk (avail : Int) : Strict (readChunk bytesSrc avail) := by
  unfold readChunk readU32 readU16 readN
  strict_tac

theorem strict_readChunks : ∀ (n : Nat) (avail : Int), Strict (readChunks bytesSrc n avail) := by
  intro n
  induction n with
  | zero => intro avail; exact Strict.pure _
  | succ n ih =>
      intro avail
      unfold readChunks
      apply Strict.bind (strict_readChunk avail)
      intro ⟨c, avail'⟩
      exact Strict.bind (ih avail') (fun _ => Strict.pure _)

theorem strict_parseFrame (inflate : Inflate) (m : Profile) (fmt : PixelFormat) (frame : Nat)
    (pi : ParseInfo) : Strict (parseFrame bytesSrc inflate m fmt frame pi) := by
  unfold parseFrame
  apply Strict.bind strict_readFrameHeader
  intro fh
  apply Strict.bind (strict_readChunks _ _)
  intro chunks
  exact Strict.lift _

theorem strict_parseFrames (inflate : Inflate) (m : Profile) (fmt : PixelFormat) :
    ∀ (n frame : Nat) (pi : ParseInfo), Strict (parseFrames bytesSrc inflate m fmt n frame pi) := by
  intro n
  induction n with
  | zero => intro frame pi; exact Strict.pure _
  | succ n ih =>
      intro frame pi
      unfold parseFrames
      exact Strict.bind (strict_parseFrame inflate m fmt frame pi) (fun pi' => ih (frame + 1) pi')

theorem strict_parseFile (inflate : Inflate) (m : Profile) :
    Strict (parseFile bytesSrc inflate m) := by
  unfold parseFile
  apply Strict.bind strict_readHeader
  intro hd
  apply Strict.ite
  · exact Strict.fail _
  apply Strict.bind (Strict.lift _)
  intro fmt
  apply Strict.bind (strict_parseFrames inflate m fmt _ _ _)
  intro pi
  exact Strict.lift _

end strict

end Ase.Proofs.SrcSim
