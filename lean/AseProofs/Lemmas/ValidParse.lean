import AseProofs.Lemmas.ValidDecode
/-
  C05, part 3: the invariant of the `ParseInfo` state machine (`PInv`), what the validation
  stage establishes, and `parse_valid`: whatever `parse` returns satisfies `Valid`.
-/
namespace Ase.Proofs.C05
open Ase

/-! ### the state machine -/

/-- an entry of an unvalidated cel row: key = layer index, exact buffer sizes -/
def RawCelOk (p : Nat × RawCel RawPixels) : Prop :=
  p.2.data.layerIndex.toNat = p.1 ∧ RawContentOk p.2.content

def PInvCore (n : Nat) (cels : Array (FrameCels RawPixels))
    (tilesets : List (Nat × Tileset RawPixels)) : Prop :=
  cels.size = n ∧ (∀ row ∈ cels, ∀ p ∈ row, RawCelOk p) ∧ (∀ p ∈ tilesets, RawTilesetOk p.2)

/-- invariant of `ParseInfo` while the frames are read: one row per frame, every stored cel
    sits under its own layer index and has exact buffer sizes, every tileset is well sized -/
def PInv (n : Nat) (pi : ParseInfo) : Prop := PInvCore n pi.cels pi.tilesets

theorem pinv_new (n : Nat) (t : UInt16) : PInv n (ParseInfo.new n t) := by
  refine ⟨by simp [ParseInfo.new], ?_, ?_⟩
  · intro row hrow p hp
    simp only [ParseInfo.new, Array.mem_replicate] at hrow
    rw [hrow.2] at hp
    cases hp
  · intro p hp
    simp [ParseInfo.new] at hp

theorem pinv_addCel {n : Nat} (pi : ParseInfo) (frame : Nat) (cel : RawCel RawPixels)
    (hinv : PInv n pi) (hc : RawContentOk cel.content) : ROk (PInv n) (pi.addCel frame cel) := by
  unfold ParseInfo.addCel
  split
  · exact rok_err _
  · rename_i row hrow
    dsimp -iota -proj only
    split
    · exact rok_err _
    · refine rok_ok ⟨?_, ?_, hinv.2.2⟩
      · simp only [Array.set!_eq_setIfInBounds, Array.size_setIfInBounds]
        exact hinv.1
      · intro row' hrow' p hp
        simp only [Array.set!_eq_setIfInBounds] at hrow'
        rcases Array.mem_or_eq_of_mem_setIfInBounds hrow' with h | h
        · exact hinv.2.1 row' h p hp
        · subst h
          rcases mem_frameInsert hp with h | h
          · subst h; exact ⟨rfl, hc⟩
          · exact hinv.2.1 row (Array.mem_of_getElem? hrow) p h

theorem pinv_addUserData {n : Nat} (pi : ParseInfo) (ud : UserData) (hinv : PInv n pi) :
    ROk (PInv n) (pi.addUserData ud) := by
  unfold ParseInfo.addUserData
  split
  · exact rok_err _
  · rename_i f l hctx
    split
    · exact rok_panic _
    · rename_i row hrow
      split
      · exact rok_err _
      · refine rok_ok ⟨?_, ?_, hinv.2.2⟩
        · simp only [Array.set!_eq_setIfInBounds, Array.size_setIfInBounds]
          exact hinv.1
        · intro row' hrow' p hp
          simp only [Array.set!_eq_setIfInBounds] at hrow'
          rcases Array.mem_or_eq_of_mem_setIfInBounds hrow' with h | h
          · exact hinv.2.1 row' h p hp
          · subst h
            have hrowmem := Array.mem_of_getElem? hrow
            rcases mem_frameModify hp with h | ⟨c0, h0, h1⟩
            · exact hinv.2.1 row hrowmem p h
            · have := hinv.2.1 row hrowmem _ h0
              obtain ⟨k, c⟩ := p
              simp only at h1
              subst h1
              exact this
  · split
    · exact rok_err _
    · exact rok_ok hinv
  · exact rok_ok hinv
  · split
    · exact rok_err _
    · split
      · exact rok_err _
      · exact rok_ok hinv
  · split
    · exact rok_err _
    · exact rok_ok hinv

theorem pinv_processChunk {n : Nat} (inflate : Inflate) (m : Profile) (fmt : PixelFormat)
    (frame : Nat) (pi : ParseInfo) (c : Chunk) (hinv : PInv n pi) :
    ROk (PInv n) (processChunk inflate m fmt frame pi c) := by
  unfold processChunk
  split
  · exact ROk.bind_any (fun _ _ => rok_pure hinv)
  · exact ROk.bind_any (fun _ _ => rok_pure hinv)
  · exact ROk.bind_any (fun _ _ => rok_pure hinv)
  · exact ROk.bind (rok_runChunk (parseCelChunk_ok inflate fmt) _)
      (fun cel hc => pinv_addCel pi frame cel hinv hc)
  · exact ROk.bind_any (fun _ _ => rok_pure hinv)
  · refine ROk.bind_any (fun _ _ => ?_)
    split
    · exact rok_pure hinv
    · exact rok_pure hinv
  · exact ROk.bind_any (fun _ _ => rok_pure hinv)
  · exact ROk.bind_any (fun ud _ => pinv_addUserData pi ud hinv)
  · dsimp -iota -proj only
    split
    · exact ROk.bind_any (fun _ _ => rok_pure hinv)
    · exact rok_pure hinv
  · dsimp -iota -proj only
    split
    · exact ROk.bind_any (fun _ _ => rok_pure hinv)
    · exact rok_pure hinv
  · refine ROk.bind (rok_runChunk (parseTilesetChunk_ok inflate fmt) _) (fun t ht => ?_)
    refine rok_pure ⟨hinv.1, hinv.2.1, ?_⟩
    intro p hp
    rcases mem_assocInsert hp with h | h
    · subst h; exact ht
    · exact hinv.2.2 p h
  all_goals exact rok_pure hinv

theorem pinv_processChunks {n : Nat} (inflate : Inflate) (m : Profile) (fmt : PixelFormat)
    (frame : Nat) : ∀ (cs : List Chunk) (pi : ParseInfo), PInv n pi →
      ROk (PInv n) (processChunks inflate m fmt frame pi cs) := by
  intro cs
  induction cs with
  | nil => intro pi hinv; exact rok_ok hinv
  | cons c cs ih =>
      intro pi hinv
      unfold processChunks
      have h := pinv_processChunk inflate m fmt frame pi c hinv
      cases hp : processChunk inflate m fmt frame pi c with
      | ok pi' => exact ih pi' (h pi' hp)
      | err e => exact rok_err _
      | panic s => exact rok_panic _

section frames
variable {σ : Type} (S : Src σ)

theorem pinv_parseFrame {n : Nat} (inflate : Inflate) (m : Profile) (fmt : PixelFormat)
    (frame : Nat) (pi : ParseInfo) (hinv : PInv n pi) :
    Post (PInv n) (parseFrame S inflate m fmt frame pi) := by
  unfold parseFrame
  refine Post_bind_any (fun h => ?_)
  dsimp -iota -proj only
  refine Post_bind_any (fun chunks => ?_)
  exact Post_lift (pinv_processChunks inflate m fmt frame chunks _ hinv)

theorem pinv_parseFrames {n : Nat} (inflate : Inflate) (m : Profile) (fmt : PixelFormat) :
    ∀ (k frame : Nat) (pi : ParseInfo), PInv n pi →
      Post (PInv n) (parseFrames S inflate m fmt k frame pi) := by
  intro k
  induction k with
  | zero => intro frame pi hinv; unfold parseFrames; exact Post_pure hinv
  | succ k ih =>
      intro frame pi hinv
      unfold parseFrames
      exact Post_bind (pinv_parseFrame S inflate m fmt frame pi hinv) (fun pi' h' => ih _ pi' h')

end frames

/-! ### validation -/

theorem validatePixels_ok (pal : Option Palette) (fmt : PixelFormat) (bg : Bool)
    (raw : RawPixels) (px : Pixels) (h : validatePixels pal fmt bg raw = .ok px) :
    pxSize px = rawSize raw ∧ PixelsOk pal px := by
  cases raw with
  | rgba a => simp only [validatePixels, Res.ok.injEq] at h; subst h; exact ⟨rfl, trivial⟩
  | gray a => simp only [validatePixels, Res.ok.injEq] at h; subst h; exact ⟨rfl, trivial⟩
  | indexed a =>
      obtain ⟨p, tci, hp, _, hout, hall⟩ := C11.indexed_complete pal fmt bg a px h
      subst hout
      exact ⟨rfl, p, hp, hall⟩

theorem validateTilesets_ok (pal : Option Palette) (fmt : PixelFormat) :
    ∀ (l : List (Nat × Tileset RawPixels)) (l' : List (Nat × Tileset Pixels)),
      validateTilesets pal fmt l = .ok l' → (∀ p ∈ l, RawTilesetOk p.2) →
      ∀ p' ∈ l', TilesetOk pal p'.2 := by
  intro l
  induction l with
  | nil =>
      intro l' h _ p' hp'
      simp only [validateTilesets, Res.ok.injEq] at h
      subst h
      cases hp'
  | cons hd tl ih =>
      intro l' h hall p' hp'
      obtain ⟨k, t⟩ := hd
      unfold validateTilesets at h
      split at h
      · cases h
      · rename_i raw hraw
        split at h
        · rename_i px hpx
          cases hrest : validateTilesets pal fmt tl with
          | ok r =>
              rw [hrest] at h
              simp only [Res.map_ok, Res.ok.injEq] at h
              subst h
              rcases List.mem_cons.mp hp' with h | h
              · subst h
                have ht : RawTilesetOk t := hall (k, t) List.mem_cons_self
                obtain ⟨hsz, hok⟩ := validatePixels_ok pal fmt false raw px hpx
                exact ⟨ht.1, ht.2.1, px, rfl, by rw [hsz]; exact ht.2.2 raw hraw, hok⟩
              · exact ih r hrest (fun p hp => hall p (List.mem_cons_of_mem _ hp)) p' h
          | err e => rw [hrest] at h; cases h
          | panic s => rw [hrest] at h; cases h
        · cases h
        · cases h

/-- what `RawCel::validate` establishes for the cel under key `k` -/
def VCel (layers : Array LayerData) (tilesets : List (Nat × Tileset Pixels))
    (pal : Option Palette) (numFrames : Nat) (rawCels : Array (FrameCels RawPixels))
    (k : Nat) (c : RawCel RawPixels) (c' : RawCel Pixels) : Prop :=
  c'.data = c.data ∧ (c.content.isRaw = true → c'.content.isRaw = true) ∧
  match c'.content with
  | .raw w h px => pxSize px = w.toNat * h.toNat ∧ PixelsOk pal px
  | .linked f => isLinkable numFrames rawCels f.toNat k = true
  | .tilemap t =>
      ∃ ld tsid ts, layers[k]? = some ld ∧ ld.layerType = .tilemap tsid ∧
        assocGet? tsid.toNat tilesets = some ts ∧
        t.tiles.size = t.width.toNat * t.height.toNat ∧
        ∀ id ∈ t.tiles, id.toNat < ts.tileCount.toNat

theorem validateCel_vcel (layers : Array LayerData) (tilesets : List (Nat × Tileset Pixels))
    (pal : Option Palette) (fmt : PixelFormat) (numFrames : Nat)
    (cels : Array (FrameCels RawPixels)) (k : Nat) (c : RawCel RawPixels) (c' : RawCel Pixels)
    (hlayers : validateLayers tilesets layers = true) (hc : RawContentOk c.content)
    (h : validateCel layers tilesets pal fmt numFrames cels k c = .ok c') :
    VCel layers tilesets pal numFrames cels k c c' := by
  unfold validateCel at h
  split at h
  · cases h
  · rename_i ld hld
    split at h
    · rename_i w hh px hcontent
      split at h
      · rename_i px' hpx
        cases h
        obtain ⟨hsz, hok⟩ := validatePixels_ok _ _ _ _ _ hpx
        rw [hcontent] at hc
        exact ⟨rfl, fun _ => rfl, by rw [hsz]; exact hc, hok⟩
      · cases h
      · cases h
    · rename_i f hcontent
      split at h
      · rename_i hl
        cases h
        refine ⟨rfl, ?_, hl⟩
        rw [hcontent]; intro hh; cases hh
      · cases h
    · rename_i t hcontent
      split at h
      · rename_i tsid hlt
        have hsome : (assocGet? tsid.toNat tilesets).isSome = true := by
          simp only [validateLayers, Array.all_eq_true_iff_forall_mem] at hlayers
          have := hlayers ld (Array.mem_of_getElem? hld)
          rw [hlt] at this
          exact this
        obtain ⟨ts, hts⟩ := Option.isSome_iff_exists.mp hsome
        simp only [hts] at h
        split at h
        · rename_i hall
          cases h
          refine ⟨rfl, ?_, ?_⟩
          · rw [hcontent]; intro hh; cases hh
          · rw [hcontent] at hc
            refine ⟨ld, tsid, ts, hld, hlt, hts, hc, ?_⟩
            simp only [Array.all_eq_true_iff_forall_mem, decide_eq_true_eq] at hall
            exact hall
        · cases h
      · cases h

/-- the relation between an unvalidated row and its validated image -/
def RowRel (layers : Array LayerData) (tilesets : List (Nat × Tileset Pixels))
    (pal : Option Palette) (fmt : PixelFormat) (numFrames : Nat)
    (cels : Array (FrameCels RawPixels)) (row : FrameCels RawPixels) (row' : FrameCels Pixels) :
    Prop :=
  All2 (fun p p' => p'.1 = p.1 ∧ p.1 < layers.size ∧
    validateCel layers tilesets pal fmt numFrames cels p.1 p.2 = .ok p'.2) row row'

theorem validateRow_rel (layers : Array LayerData) (tilesets : List (Nat × Tileset Pixels))
    (pal : Option Palette) (fmt : PixelFormat) (numFrames : Nat)
    (cels : Array (FrameCels RawPixels)) :
    ∀ (row : FrameCels RawPixels) (row' : FrameCels Pixels),
      validateRow layers tilesets pal fmt numFrames cels row = .ok row' →
      RowRel layers tilesets pal fmt numFrames cels row row' := by
  intro row
  induction row with
  | nil =>
      intro row' h
      simp only [validateRow, Res.ok.injEq] at h
      subst h
      exact All2.nil
  | cons hd tl ih =>
      intro row' h
      obtain ⟨layer, c⟩ := hd
      unfold validateRow at h
      split at h
      · cases h
      · rename_i hge
        split at h
        · rename_i c' hc'
          cases hrest : validateRow layers tilesets pal fmt numFrames cels tl with
          | ok r =>
              rw [hrest] at h
              simp only [Res.map_ok, Res.ok.injEq] at h
              subst h
              exact All2.cons ⟨rfl, by simp only; omega, hc'⟩ (ih r hrest)
          | err e => rw [hrest] at h; cases h
          | panic s => rw [hrest] at h; cases h
        · cases h
        · cases h

theorem validateRows_rel (layers : Array LayerData) (tilesets : List (Nat × Tileset Pixels))
    (pal : Option Palette) (fmt : PixelFormat) (numFrames : Nat)
    (cels : Array (FrameCels RawPixels)) :
    ∀ (rows : List (FrameCels RawPixels)) (rows' : List (FrameCels Pixels)),
      validateRows layers tilesets pal fmt numFrames cels rows = .ok rows' →
      All2 (RowRel layers tilesets pal fmt numFrames cels) rows rows' := by
  intro rows
  induction rows with
  | nil =>
      intro rows' h
      simp only [validateRows, Res.ok.injEq] at h
      subst h
      exact All2.nil
  | cons row tl ih =>
      intro rows' h
      unfold validateRows at h
      split at h
      · rename_i r hr
        cases hrest : validateRows layers tilesets pal fmt numFrames cels tl with
        | ok rs =>
            rw [hrest] at h
            simp only [Res.map_ok, Res.ok.injEq] at h
            subst h
            exact All2.cons (validateRow_rel _ _ _ _ _ _ _ _ hr) (ih rs hrest)
        | err e => rw [hrest] at h; cases h
        | panic s => rw [hrest] at h; cases h
      · cases h
      · cases h

/-- lookups commute with validation of a row -/
theorem frameGet?_rel {P Q : Type} {R : Nat → RawCel P → RawCel Q → Prop}
    {row : FrameCels P} {row' : FrameCels Q}
    (h : All2 (fun p p' => p'.1 = p.1 ∧ R p.1 p.2 p'.2) row row') (k : Nat) (c : RawCel P)
    (hg : FrameCels.get? k row = some c) :
    ∃ c', FrameCels.get? k row' = some c' ∧ R k c c' := by
  induction h with
  | nil => simp [FrameCels.get?] at hg
  | @cons a b l l' hr _ ih =>
      obtain ⟨ka, ca⟩ := a
      obtain ⟨kb, cb⟩ := b
      obtain ⟨hk, hR⟩ := hr
      simp only at hk hR
      subst hk
      unfold FrameCels.get? at hg ⊢
      by_cases hkk : kb = k
      · subst hkk
        simp only [List.find?_cons, beq_self_eq_true, Option.map_some, Option.some.injEq] at hg ⊢
        subst hg
        exact ⟨cb, rfl, hR⟩
      · have hb : (kb == k) = false := by simpa using hkk
        simp only [List.find?_cons, hb] at hg ⊢
        exact ih hg

/-- **validation establishes the invariant** -/
theorem validate_valid (h : Header) (fmt : PixelFormat) (pi : ParseInfo) (s : Sprite)
    (hinv : PInv h.numFrames.toNat pi) (hv : validate h fmt pi = .ok s) : Valid s := by
  unfold validate at hv
  cases hpar : computeParents pi.layers with
  | err e => rw [hpar] at hv; cases hv
  | panic q => rw [hpar] at hv; cases hv
  | ok parents =>
  rw [hpar] at hv
  simp only [Res.bind_ok] at hv
  cases hts : validateTilesets pi.palette fmt pi.tilesets with
  | err e => rw [hts] at hv; cases hv
  | panic q => rw [hts] at hv; cases hv
  | ok tilesets =>
  rw [hts] at hv
  simp only [Res.bind_ok] at hv
  split at hv
  · cases hv
  · rename_i hlay
    have hlayers : validateLayers tilesets pi.layers = true := by
      cases hh : validateLayers tilesets pi.layers <;> simp_all
    cases hrows : validateRows pi.layers tilesets pi.palette fmt h.numFrames.toNat pi.cels
        pi.cels.toList with
    | err e => rw [hrows] at hv; cases hv
    | panic q => rw [hrows] at hv; cases hv
    | ok rows =>
    rw [hrows] at hv
    simp only [Res.bind_ok, Res.pure_eq, Res.ok.injEq] at hv
    subst hv
    have hrel := validateRows_rel _ _ _ _ _ _ _ _ hrows
    obtain ⟨hp1, hp2⟩ := C09.parents_lt pi.layers parents hpar
    refine ⟨hp1, hp2, ?_, ?_, ?_, ?_⟩
    · -- one row per frame
      simp only [List.size_toArray]
      rw [← hrel.length_eq]
      simpa using hinv.1
    · -- every cel
      intro row' hrow' p' hp'
      simp only [List.mem_toArray] at hrow'
      obtain ⟨row, hrow, hrr⟩ := hrel.mem_right hrow'
      obtain ⟨p, hp, hk, hlt, hval⟩ := All2.mem_right hrr hp'
      have hraw : RawCelOk p := hinv.2.1 row (by simpa using hrow) p hp
      obtain ⟨hdata, _, hcont⟩ := validateCel_vcel _ _ _ _ _ _ _ _ _ hlayers hraw.2 hval
      refine ⟨?_, by rw [hk]; exact hlt, ?_⟩
      · rw [hdata, hk]; exact hraw.1
      · dsimp only
        split
        · rename_i w hh px hc
          rw [hc] at hcont
          exact hcont
        · rename_i f hc
          rw [hc] at hcont
          dsimp only at hcont
          unfold isLinkable at hcont
          simp only [Bool.and_eq_true, decide_eq_true_eq] at hcont
          obtain ⟨hf, hcont⟩ := hcont
          refine ⟨hf, ?_⟩
          split at hcont
          · cases hcont
          · rename_i r hr
            split at hcont
            · cases hcont
            · rename_i t ht
              have hr' : pi.cels.toList[f.toNat]? = some r := by simpa using hr
              obtain ⟨r', hr'1, hr'2⟩ := hrel.get_left hr'
              obtain ⟨t', ht'1, ht'2⟩ :=
                frameGet?_rel (R := fun k c c' => k < pi.layers.size ∧
                  validateCel pi.layers tilesets pi.palette fmt h.numFrames.toNat pi.cels k c
                    = .ok c') hr'2 p.1 t ht
              have htraw : RawCelOk (p.1, t) :=
                hinv.2.1 r (Array.mem_of_getElem? hr) _ (mem_of_frameGet? ht)
              obtain ⟨_, hisraw, _⟩ :=
                validateCel_vcel _ _ _ _ _ _ _ _ _ hlayers htraw.2 ht'2.2
              refine ⟨r', t', by simpa using hr'1, ?_, hisraw hcont⟩
              rw [hk]; exact ht'1
        · rename_i t hc
          rw [hc] at hcont
          dsimp only at hcont
          rw [hk]
          exact hcont
    · -- tilesets
      exact validateTilesets_ok _ _ _ _ hts hinv.2.2
    · -- tilemap layers
      intro ld hld tsid hlt
      simp only [validateLayers, Array.all_eq_true_iff_forall_mem] at hlayers
      have := hlayers ld hld
      rw [hlt] at this
      exact this

/-! ### the whole load path -/

theorem parseFile_valid {σ : Type} (S : Src σ) (inflate : Inflate) (m : Profile) :
    Post Valid (parseFile S inflate m) := by
  unfold parseFile
  refine Post_bind_any (fun h => ?_)
  split
  · exact Post_fail _
  · refine Post_bind_any (fun fmt => ?_)
    refine Post_bind (pinv_parseFrames S inflate m fmt _ _ _ (pinv_new _ _)) (fun pi hpi => ?_)
    exact Post_lift (fun s hs => validate_valid h fmt pi s hpi hs)

/-- **C05 (load establishes the invariant)**: whatever `parse` returns — for every byte
    string, every `inflate` parameter, both build profiles — satisfies `Valid`. -/
theorem parse_valid (inflate : Inflate) (m : Profile) (bs : Bytes) (s : Sprite)
    (h : parse inflate m bs = .ok s) : Valid s := by
  unfold parse at h
  cases hp : parseFile bytesSrc inflate m bs with
  | ok r =>
      obtain ⟨s', rest⟩ := r
      rw [hp] at h
      simp only [Res.map_ok, Res.ok.injEq] at h
      subst h
      exact parseFile_valid bytesSrc inflate m bs s' rest hp
  | err e => rw [hp] at h; cases h
  | panic q => rw [hp] at h; cases h

end Ase.Proofs.C05
