import AseProofs.Lemmas.Footprint
import AseProofs.Lemmas.ValidDecode
/-
  C12, footprint part 2: quantitative decoder lemmas.  For every chunk decoder, the footprint
  of the decoded value is at most `c₁ * used + c₀` where `used` is the number of bytes of the
  chunk buffer the decoder consumed.  Compressed payloads go through the deflate expansion
  limit `Alloc.ExpansionBounded`.
-/
namespace Ase.Proofs.C12
open Ase Ase.Footprint Ase.Proofs.C05

/-- `omega` after β-reduction of the postconditions -/
local macro "bomega" : tactic => `(tactic| ((try dsimp only at *) <;> omega))

theorem sumBy_const {α} (c : Nat) : ∀ l : List α, sumBy (fun _ => c) l = c * l.length
  | [] => by simp
  | _ :: t => by simp only [sumBy_cons, sumBy_const c t, List.length_cons, Nat.mul_succ]; omega

/-! ### layer chunk -/

theorem postC_parseLayerType (id : UInt16) : PostC (fun _ _ => True) (parseLayerType id) := by
  unfold parseLayerType
  split
  · exact PostC_pure trivial
  · exact PostC_pure trivial
  · exact PostC_bindK postC_readU32 (fun _ => PostC_pure trivial)
  · exact PostC_fail _

theorem postC_parseBlendMode (id : UInt16) : PostC (fun _ _ => True) (parseBlendMode id) := by
  unfold parseBlendMode
  exact PostC_ite _ (PostC_pure trivial) (PostC_fail _)

/-- a layer chunk consumed at least 18 bytes; the record costs 72 + name, the name was read -/
theorem postC_parseLayerChunk :
    PostC (fun l u => layerSize l + 18 ≤ u + 72 ∧ 18 ≤ u) parseLayerChunk := by
  unfold parseLayerChunk
  refine PostC_bindK postC_readU16 (fun flags => ?_)
  refine PostC_bindK postC_readU16 (fun ltype => ?_)
  refine PostC_bindK postC_readU16 (fun childLevel => ?_)
  refine PostC_bindK postC_readU16 (fun _ => ?_)
  refine PostC_bindK postC_readU16 (fun _ => ?_)
  refine PostC_bindK postC_readU16 (fun blend => ?_)
  refine PostC_bindK postC_readU8 (fun opacity => ?_)
  refine PostC_bindK postC_readU8 (fun _ => ?_)
  refine PostC_bindK postC_readU16 (fun _ => ?_)
  refine PostC_bind postC_readString (fun name n hn => ?_)
  refine PostC_bind (postC_parseLayerType _) (fun lt n2 _ => ?_)
  refine PostC_bind (postC_parseBlendMode _) (fun bm n3 _ => ?_)
  refine PostC_pure ?_
  simp only [layerSize, udSize]
  omega

/-! ### tags chunk -/

/-- each tag consumed at least 19 bytes and costs 64 + name -/
theorem postC_parseTag : PostC (fun t u => tagSize t ≤ 4 * u) parseTag := by
  unfold parseTag
  refine PostC_bindK postC_readU16 (fun fromF => ?_)
  refine PostC_bindK postC_readU16 (fun toF => ?_)
  refine PostC_bindK postC_readU8 (fun dir => ?_)
  refine PostC_bindK postC_readU16 (fun rep => ?_)
  refine PostC_bindK (postC_skip 6) (fun _ => ?_)
  refine PostC_bindK postC_readU32 (fun _ => ?_)
  refine PostC_bind postC_readString (fun name n hn => ?_)
  refine PostC_ite _ (PostC_pure ?_) (PostC_fail _)
  simp only [tagSize, udSize]
  omega

theorem postC_parseTagsChunk : PostC (fun ts u => sumBy tagSize ts ≤ 4 * u) parseTagsChunk := by
  unfold parseTagsChunk
  refine PostC_bindK postC_readU16 (fun n => ?_)
  refine PostC_bindK (postC_skip 8) (fun _ => ?_)
  exact PostC_weaken (postC_rdRepeat tagSize 4 postC_parseTag _) (fun l n h => by bomega)

/-! ### slice chunk -/

/-- each slice key consumed at least 20 bytes (and costs 52) -/
theorem postC_parseSliceKey (flags : UInt32) :
    PostC (fun _ u => 52 ≤ 3 * u) (parseSliceKey flags) := by
  unfold parseSliceKey
  refine PostC_bindK postC_readU32 (fun fromFrame => ?_)
  refine PostC_bindK postC_readI32 (fun ox => ?_)
  refine PostC_bindK postC_readI32 (fun oy => ?_)
  refine PostC_bindK postC_readU32 (fun w => ?_)
  refine PostC_bindK postC_readU32 (fun h => ?_)
  dsimp -iota -proj only
  refine PostC_ite_bind (P := fun _ _ => True) _ ?_ (PostC_pure trivial) (fun s9 n1 _ => ?_)
  · refine PostC_bindK postC_readI32 (fun _ => ?_)
    refine PostC_bindK postC_readI32 (fun _ => ?_)
    refine PostC_bindK postC_readU32 (fun _ => ?_)
    refine PostC_bindK postC_readU32 (fun _ => ?_)
    exact PostC_pure trivial
  refine PostC_ite_bind (P := fun _ _ => True) _ ?_ (PostC_pure trivial) (fun pv n2 _ => ?_)
  · refine PostC_bindK postC_readI32 (fun _ => ?_)
    refine PostC_bindK postC_readI32 (fun _ => ?_)
    exact PostC_pure trivial
  refine PostC_pure ?_
  omega

theorem postC_parseSliceChunk : PostC (fun s u => sliceSize s ≤ 3 * u + 80) parseSliceChunk := by
  unfold parseSliceChunk
  refine PostC_bindK postC_readU32 (fun n => ?_)
  refine PostC_bindK postC_readU32 (fun flags => ?_)
  refine PostC_bindK postC_readU32 (fun _ => ?_)
  refine PostC_bind postC_readString (fun name n1 hn => ?_)
  refine PostC_bind (postC_rdRepeat (fun _ => 52) 3 (postC_parseSliceKey flags) n.toNat)
    (fun keys n2 hk => ?_)
  refine PostC_pure ?_
  rw [sumBy_const] at hk
  simp only [sliceSize, udSize]
  omega

/-! ### user data chunk -/

theorem postC_parseUserDataChunk :
    PostC (fun ud u => udSize (some ud) ≤ u + 32) parseUserDataChunk := by
  unfold parseUserDataChunk
  refine PostC_bindK postC_readU32 (fun flags => ?_)
  dsimp -iota -proj only
  refine PostC_ite_bind (P := fun o u => optLen o ≤ u) _ ?_ (PostC_pure (by simp [optLen]))
    (fun text n1 ht => ?_)
  · refine PostC_bind postC_readString (fun s n hn => ?_)
    refine PostC_pure ?_
    simp only [optLen]
    omega
  refine PostC_ite_bind (P := fun _ _ => True) _ ?_ (PostC_pure trivial) (fun color n2 _ => ?_)
  · refine PostC_bindK postC_readU8 (fun _ => ?_)
    refine PostC_bindK postC_readU8 (fun _ => ?_)
    refine PostC_bindK postC_readU8 (fun _ => ?_)
    refine PostC_bindK postC_readU8 (fun _ => ?_)
    exact PostC_pure trivial
  refine PostC_pure ?_
  simp only [udSize]
  omega

/-! ### external files chunk -/

theorem postC_parseExternalFile : PostC (fun f u => extFileSize f ≤ 3 * u) parseExternalFile := by
  unfold parseExternalFile
  refine PostC_bindK postC_readU32 (fun id => ?_)
  refine PostC_bindK (postC_skip 8) (fun _ => ?_)
  refine PostC_bind postC_readString (fun name n hn => ?_)
  refine PostC_pure ?_
  simp only [extFileSize]
  omega

theorem postC_parseExternalFilesChunk :
    PostC (fun fs u => sumBy extFileSize fs ≤ 3 * u) parseExternalFilesChunk := by
  unfold parseExternalFilesChunk
  refine PostC_bindK postC_readU32 (fun n => ?_)
  refine PostC_bindK (postC_skip 8) (fun _ => ?_)
  exact PostC_weaken (postC_rdRepeat extFileSize 3 postC_parseExternalFile _)
    (fun l n h => by bomega)

/-! ### colour profile chunk: nothing is kept -/

/-! ### palette chunks -/

theorem paletteSize_insert (p : Palette) (e : PalEntry) :
    paletteSize (p.insert e) ≤ paletteSize p + palEntrySize e := by
  unfold paletteSize Palette.insert assocInsert
  have := sumBy_filter_le (fun q : Nat × PalEntry => palEntrySize q.2) (fun q => q.1 != e.id)
    p.entries
  simp only [sumBy_cons]
  omega

/-- each palette entry consumed at least 6 bytes and costs 32 + name -/
theorem postC_parsePaletteEntry (id : Nat) :
    PostC (fun e u => palEntrySize e ≤ 6 * u) (parsePaletteEntry id) := by
  unfold parsePaletteEntry
  refine PostC_bindK postC_readU16 (fun flags => ?_)
  refine PostC_bindK postC_readU8 (fun r => ?_)
  refine PostC_bindK postC_readU8 (fun g => ?_)
  refine PostC_bindK postC_readU8 (fun b => ?_)
  refine PostC_bindK postC_readU8 (fun a => ?_)
  dsimp -iota -proj only
  refine PostC_ite_bind (P := fun o u => optLen o ≤ u) _ ?_ (PostC_pure (by simp [optLen]))
    (fun name n1 hn => ?_)
  · refine PostC_bind postC_readString (fun s n hn => ?_)
    refine PostC_pure ?_
    simp only [optLen]
    omega
  refine PostC_pure ?_
  simp only [palEntrySize]
  omega

theorem postC_parsePaletteEntries : ∀ (n id : Nat) (p : Palette),
    PostC (fun p' u => paletteSize p' ≤ paletteSize p + 6 * u) (parsePaletteEntries n id p) := by
  intro n
  induction n with
  | zero => intro id p; unfold parsePaletteEntries; exact PostC_pure (by omega)
  | succ n ih =>
      intro id p
      unfold parsePaletteEntries
      refine PostC_bind (postC_parsePaletteEntry id) (fun e n1 he => ?_)
      refine PostC_weaken (ih (id + 1) (p.insert e)) (fun p' n2 h => ?_)
      have := paletteSize_insert p e
      bomega

theorem postC_parsePaletteChunk : PostC (fun p u => paletteSize p ≤ 6 * u) parsePaletteChunk := by
  unfold parsePaletteChunk
  refine PostC_bindK postC_readU32 (fun _ => ?_)
  refine PostC_bindK postC_readU32 (fun first => ?_)
  refine PostC_bindK postC_readU32 (fun last => ?_)
  refine PostC_bindK (postC_skip 8) (fun _ => ?_)
  refine PostC_ite _ (PostC_fail _) ?_
  refine PostC_weaken (postC_parsePaletteEntries _ _ _) (fun p n h => ?_)
  have : paletteSize Palette.empty = 0 := rfl
  bomega

theorem postC_parseOldColor (scaled : Bool) : PostC (fun _ u => u = 1) (parseOldColor scaled) := by
  unfold parseOldColor
  refine PostC_bindK postC_readU8 (fun c => ?_)
  refine PostC_ite _ (PostC_lift ?_) (PostC_pure rfl)
  intro a _
  rfl

/-- each old-style colour consumed 3 bytes and costs one entry of 32 -/
theorem postC_parseOldEntries (scaled : Bool) : ∀ (n id : Nat) (p : Palette),
    PostC (fun p' u => paletteSize p' ≤ paletteSize p + 11 * u) (parseOldEntries scaled n id p) := by
  intro n
  induction n with
  | zero => intro id p; unfold parseOldEntries; exact PostC_pure (by omega)
  | succ n ih =>
      intro id p
      unfold parseOldEntries
      refine PostC_bindK (postC_parseOldColor scaled) (fun r => ?_)
      refine PostC_bindK (postC_parseOldColor scaled) (fun g => ?_)
      refine PostC_bindK (postC_parseOldColor scaled) (fun b => ?_)
      refine PostC_weaken (ih (id + 1) _) (fun p' n2 h => ?_)
      have := paletteSize_insert p { id := id, rgba := ⟨r, g, b, 255⟩, name := none }
      have h32 : palEntrySize { id := id, rgba := ⟨r, g, b, 255⟩, name := none } = 32 := rfl
      bomega

theorem postC_parseOldPackets (m : Profile) (scaled : Bool) : ∀ (n sk : Nat) (p : Palette),
    PostC (fun p' u => paletteSize p' ≤ paletteSize p + 11 * u)
      (parseOldPackets m scaled n sk p) := by
  intro n
  induction n with
  | zero => intro sk p; unfold parseOldPackets; exact PostC_pure (by omega)
  | succ n ih =>
      intro sk p
      unfold parseOldPackets
      refine PostC_bindK postC_readU8 (fun s => ?_)
      refine PostC_bind (P := fun _ u => u = 0) (PostC_lift (fun _ _ => rfl)) (fun sk' n0 h0 => ?_)
      subst h0
      refine PostC_bindK postC_readU8 (fun c => ?_)
      dsimp -iota -proj only
      refine PostC_bind (P := fun _ u => u = 0) (PostC_lift (fun _ _ => rfl)) (fun _ n0 h0 => ?_)
      subst h0
      refine PostC_bind (postC_parseOldEntries scaled _ _ p) (fun p1 n1 h1 => ?_)
      refine PostC_weaken (ih sk' p1) (fun p' n2 h => ?_)
      bomega

theorem postC_parseOldPaletteChunk (m : Profile) (scaled : Bool) :
    PostC (fun p u => paletteSize p ≤ 11 * u) (parseOldPaletteChunk m scaled) := by
  unfold parseOldPaletteChunk
  refine PostC_bindK postC_readU16 (fun packets => ?_)
  refine PostC_weaken (postC_parseOldPackets m scaled _ _ _) (fun p n h => ?_)
  have : paletteSize Palette.empty = 0 := rfl
  bomega

/-! ### pixels -/

/-- `pixelsFromBytes` of `n` bytes has payload at most `n` -/
theorem rawPayload_fromBytes (fmt : PixelFormat) (bytes : Bytes) :
    ROk (fun px => rawPayload px ≤ bytes.length) (pixelsFromBytes fmt bytes) := by
  intro px h
  unfold pixelsFromBytes at h
  cases fmt with
  | indexed t =>
      simp only [Res.ok.injEq] at h
      subst h
      simp [rawPayload]
  | grayscale =>
      simp only at h
      split at h
      · cases h
      · simp only [Res.ok.injEq] at h
        subst h
        simp only [rawPayload, List.size_toArray, groupGray_length]
        omega
  | rgba =>
      simp only at h
      split at h
      · cases h
      · simp only [Res.ok.injEq] at h
        subst h
        simp only [rawPayload, List.size_toArray, groupRgba_length]
        omega

theorem postC_takeBytes (n : Nat) : PostC (fun b u => b.length = u) (takeBytes n) := by
  intro bs b rest h
  unfold takeBytes at h
  split at h
  · cases h
    refine ⟨n, ?_, ?_⟩
    · simp only [List.length_drop]; omega
    · simp only [List.length_take]; omega
  · cases h

/-- the inflated data is at most 1032 times what was handed to the inflater (+ one block) -/
theorem postC_unzip (inflate : Inflate) (hexp : Alloc.ExpansionBounded inflate) (n : Nat) :
    PostC (fun out u => out.length ≤ 1032 * u + 1032) (unzip inflate n) := by
  intro bs out rest h
  unfold unzip at h
  split at h
  · rename_i o ho
    split at h
    · cases h
    · cases h
      exact ⟨bs.length, by simp, hexp bs out ho⟩
  · cases h
  · cases h

theorem postC_pixelsFromRaw (fmt : PixelFormat) (count : Nat) :
    PostC (fun px u => rawPayload px ≤ u) (pixelsFromRaw fmt count) := by
  unfold pixelsFromRaw
  refine PostC_bind (P := fun _ u => u = 0) (PostC_lift (fun _ _ => rfl)) (fun n n0 h0 => ?_)
  subst h0
  refine PostC_bind (postC_takeBytes n) (fun bytes n1 hb => ?_)
  refine PostC_lift (fun px hpx => ?_)
  have := rawPayload_fromBytes fmt bytes px hpx
  bomega

theorem postC_pixelsFromCompressed (inflate : Inflate) (hexp : Alloc.ExpansionBounded inflate)
    (fmt : PixelFormat) (count : Nat) :
    PostC (fun px u => rawPayload px ≤ 1032 * u + 1032) (pixelsFromCompressed inflate fmt count) := by
  unfold pixelsFromCompressed
  refine PostC_bind (P := fun _ u => u = 0) (PostC_lift (fun _ _ => rfl)) (fun n n0 h0 => ?_)
  subst h0
  refine PostC_bind (postC_unzip inflate hexp n) (fun bytes n1 hb => ?_)
  refine PostC_lift (fun px hpx => ?_)
  have := rawPayload_fromBytes fmt bytes px hpx
  bomega

/-! ### cel chunk -/

/-- 8 bytes per tile, 4 inflated bytes per tile -/
theorem postC_parseTilemap (inflate : Inflate) (hexp : Alloc.ExpansionBounded inflate) :
    PostC (fun t u => tilesPayload t ≤ 2064 * u + 2064) (parseTilemap inflate) := by
  unfold parseTilemap
  refine PostC_bindK postC_readU16 (fun w => ?_)
  refine PostC_bindK postC_readU16 (fun h => ?_)
  refine PostC_bindK postC_readU16 (fun bits => ?_)
  refine PostC_ite _ (PostC_fail _) ?_
  refine PostC_bindK postC_readU32 (fun tileId => ?_)
  refine PostC_bindK postC_readU32 (fun xFlip => ?_)
  refine PostC_bindK postC_readU32 (fun yFlip => ?_)
  refine PostC_bindK postC_readU32 (fun rot => ?_)
  refine PostC_bindK (postC_skip 10) (fun _ => ?_)
  refine PostC_bind (postC_unzip inflate hexp _) (fun bytes n1 hb => ?_)
  refine PostC_pure ?_
  simp only [tilesPayload, List.size_toArray, groupTiles_length]
  omega

theorem postC_parseCelContent (inflate : Inflate) (hexp : Alloc.ExpansionBounded inflate)
    (fmt : PixelFormat) (celType : UInt16) :
    PostC (fun c u => contentSize rawPayload c ≤ 2064 * u + 2064)
      (parseCelContent inflate fmt celType) := by
  unfold parseCelContent
  split
  · refine PostC_bindK postC_readU16 (fun w => ?_)
    refine PostC_bindK postC_readU16 (fun h => ?_)
    refine PostC_bind (postC_pixelsFromRaw fmt _) (fun px n1 hpx => ?_)
    refine PostC_pure ?_
    simp only [contentSize]
    omega
  · refine PostC_bindK postC_readU16 (fun f => ?_)
    refine PostC_pure ?_
    simp only [contentSize]
    omega
  · refine PostC_bindK postC_readU16 (fun w => ?_)
    refine PostC_bindK postC_readU16 (fun h => ?_)
    refine PostC_bind (postC_pixelsFromCompressed inflate hexp fmt _) (fun px n1 hpx => ?_)
    refine PostC_pure ?_
    simp only [contentSize]
    omega
  · refine PostC_bind (postC_parseTilemap inflate hexp) (fun t n1 ht => ?_)
    refine PostC_pure ?_
    simp only [contentSize]
    omega
  · exact PostC_fail _

theorem postC_parseCelChunk (inflate : Inflate) (hexp : Alloc.ExpansionBounded inflate)
    (fmt : PixelFormat) :
    PostC (fun c u => celSize rawPayload c ≤ 96 + 2064 * u + 2064)
      (parseCelChunk inflate fmt) := by
  unfold parseCelChunk
  refine PostC_bindK postC_readU16 (fun layerIndex => ?_)
  refine PostC_bindK postC_readI16 (fun x => ?_)
  refine PostC_bindK postC_readI16 (fun y => ?_)
  refine PostC_bindK postC_readU8 (fun opacity => ?_)
  refine PostC_bindK postC_readU16 (fun celType => ?_)
  refine PostC_bindK (postC_skip 7) (fun _ => ?_)
  refine PostC_bind (postC_parseCelContent inflate hexp fmt celType) (fun content n1 hc => ?_)
  refine PostC_pure ?_
  simp only [celSize, udSize]
  omega

/-! ### tileset chunk -/

theorem postC_parseTilesetChunk (inflate : Inflate) (hexp : Alloc.ExpansionBounded inflate)
    (fmt : PixelFormat) :
    PostC (fun t u => tilesetSize rawPayload t ≤ 88 + u + (1032 * u + 1032))
      (parseTilesetChunk inflate fmt) := by
  unfold parseTilesetChunk
  refine PostC_bindK postC_readU32 (fun id => ?_)
  refine PostC_bindK postC_readU32 (fun flags => ?_)
  refine PostC_bindK postC_readU32 (fun count => ?_)
  refine PostC_bindK postC_readU16 (fun tw => ?_)
  refine PostC_bindK postC_readU16 (fun th => ?_)
  refine PostC_ite _ (PostC_fail _) ?_
  refine PostC_bindK postC_readI16 (fun base => ?_)
  refine PostC_bindK (postC_skip 14) (fun _ => ?_)
  refine PostC_bind postC_readString (fun name n1 hn => ?_)
  dsimp -iota -proj only
  refine PostC_ite_bind (P := fun _ _ => True) _ ?_ (PostC_pure trivial) (fun ext n2 _ => ?_)
  · refine PostC_bindK postC_readU32 (fun _ => ?_)
    refine PostC_bindK postC_readU32 (fun _ => ?_)
    exact PostC_pure trivial
  refine PostC_ite_bind (P := fun o u => optPay rawPayload o ≤ 1032 * u + 1032) _ ?_
    (PostC_pure (by simp [optPay])) (fun pixels n3 hp => ?_)
  · refine PostC_bindK postC_readU32 (fun _ => ?_)
    refine PostC_ite _ (PostC_fail _) ?_
    refine PostC_bind (postC_pixelsFromCompressed inflate hexp fmt _) (fun px n hpx => ?_)
    refine PostC_pure ?_
    simp only [optPay]
    omega
  refine PostC_pure ?_
  simp only [tilesetSize]
  omega

end Ase.Proofs.C12
