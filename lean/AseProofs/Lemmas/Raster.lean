import AseProofs.Lemmas.RenderBasic
/-
  Point-wise facts about the rasteriser model: `get` / `put` on images, one row of a raw cel
  (`writeRawRow`), all rows (`writeRawRows`), a raw cel (`writeRawCel`).
-/
namespace Ase.Proofs
open Ase

/-! ### images -/

theorem get_ok (img : Image) {X Y : Nat} (hX : X < img.w) (hY : Y < img.h) :
    img.get X Y = .ok (img.px.getD (Y * img.w + X) RGBA.zero) := by
  simp [Image.get, hX, hY]

theorem get_ok_iff (img : Image) (X Y : Nat) :
    (∃ c, img.get X Y = .ok c) ↔ (X < img.w ∧ Y < img.h) := by
  unfold Image.get
  by_cases h : X < img.w ∧ Y < img.h
  · simp [h.1, h.2]
  · have : (decide (X < img.w) && decide (Y < img.h)) = false := by
      simp only [Bool.and_eq_false_iff, decide_eq_false_iff_not]; omega
    simp [this, h]

/-- a successful `put` was inside the image -/
theorem put_inside {img img' : Image} {x y : Nat} {c : RGBA} (h : img.put x y c = .ok img') :
    x < img.w ∧ y < img.h := by
  unfold Image.put at h
  split at h
  · rename_i hc; simpa using hc
  · cases h

theorem put_eq {img img' : Image} {x y : Nat} {c : RGBA} (h : img.put x y c = .ok img') :
    img' = { img with px := img.px.setIfInBounds (y * img.w + x) c } := by
  unfold Image.put at h
  split at h
  · cases h; rfl
  · cases h

/-- the row-major index is injective on in-range columns -/
theorem index_inj {w x y X Y : Nat} (hx : x < w) (hX : X < w) (h : Y * w + X = y * w + x) :
    X = x ∧ Y = y := by
  have key : Y = y := by
    rcases Nat.lt_trichotomy Y y with hlt | heq | hgt
    · have : (Y + 1) * w ≤ y * w := Nat.mul_le_mul_right _ hlt
      rw [Nat.succ_mul] at this
      omega
    · exact heq
    · have : (y + 1) * w ≤ Y * w := Nat.mul_le_mul_right _ hgt
      rw [Nat.succ_mul] at this
      omega
  subst key
  omega

theorem index_lt {w h x y : Nat} (hx : x < w) (hy : y < h) : y * w + x < w * h := by
  have h2 : (y + 1) * w ≤ h * w := Nat.mul_le_mul_right _ hy
  rw [Nat.succ_mul] at h2
  rw [Nat.mul_comm w h]
  omega

/-- **get after put, same position**: the new pixel -/
theorem put_get_same {img img' : Image} {x y : Nat} {c : RGBA} (h : img.put x y c = .ok img')
    (hsz : img.px.size = img.w * img.h) : img'.get x y = .ok c := by
  obtain ⟨hx, hy⟩ := put_inside h
  have hidx : y * img.w + x < img.px.size := by rw [hsz]; exact index_lt hx hy
  rw [put_eq h]
  simp [Image.get, hx, hy, Array.getD, hidx]

/-- **get after put, other position**: the old pixel (both sides are the same panic when the
    position is outside the image) -/
theorem put_get_other {img img' : Image} {x y X Y : Nat} {c : RGBA} (h : img.put x y c = .ok img')
    (hne : X ≠ x ∨ Y ≠ y) : img'.get X Y = img.get X Y := by
  obtain ⟨hx, hy⟩ := put_inside h
  rw [put_eq h]
  unfold Image.get
  dsimp only
  by_cases hin : X < img.w ∧ Y < img.h
  · have hidx : y * img.w + x ≠ Y * img.w + X := by
      intro he
      have := index_inj hx hin.1 he.symm
      omega
    simp only [hin.1, hin.2, decide_true, Bool.and_self, if_true]
    congr 1
    rw [Array.getD_eq_getD_getElem?, Array.getD_eq_getD_getElem?,
      Array.getElem?_setIfInBounds_ne hidx]
  · have : (decide (X < img.w) && decide (Y < img.h)) = false := by
      simp only [Bool.and_eq_false_iff, decide_eq_false_iff_not]; omega
    simp [this]

/-- the buffer-size invariant is kept by `SameDims` -/
theorem SameDims.size {a b : Image} (h : SameDims a b) (hsz : a.px.size = a.w * a.h) :
    b.px.size = b.w * b.h := by
  rw [← h.1, ← h.2.1, ← h.2.2]; exact hsz

theorem SameDims.symm {a b : Image} (h : SameDims a b) : SameDims b a :=
  ⟨h.1.symm, h.2.1.symm, h.2.2.symm⟩

theorem canvas_size (s : Sprite) : s.canvas.px.size = s.canvas.w * s.canvas.h := by
  simp [Sprite.canvas, Image.new]

theorem canvas_get (s : Sprite) {X Y : Nat} (hX : X < s.canvas.w) (hY : Y < s.canvas.h) :
    s.canvas.get X Y = .ok RGBA.zero := by
  have hidx : Y * s.canvas.w + X < s.canvas.w * s.canvas.h := index_lt hX hY
  rw [get_ok _ hX hY]
  simp only [Sprite.canvas, Image.new] at hidx ⊢
  simp [Array.getD, hidx]

section
variable {F : Type} (ops : FOps F) (m : Profile)

/-! ### one row of a raw cel -/

/-- **row lemma**: one row of a raw cel written at canvas row `y`: the canvas positions
    `(X, y)` with `x0 + col ≤ X < x0 + col + n` receive `blend mode old pixels[row*cw + (X - x0)]`,
    every other position keeps its pixel.  Each position is written at most once. -/
theorem writeRawRow_spec (mode : Nat) (op : UInt8) (pixels : Array RGBA) (cw : Nat) (x0 : Int)
    (y row : Nat) : ∀ (n col : Nat) (img img' : Image),
      Sprite.writeRawRow ops m mode op pixels cw x0 y row n col img = .ok img' →
      y < img.h → img.px.size = img.w * img.h →
      ∀ X Y : Nat, X < img.w → Y < img.h →
        ((Y = y ∧ x0 + (col : Int) ≤ (X : Int) ∧ (X : Int) < x0 + (col : Int) + (n : Int)) →
          ∃ old p v, img.get X Y = .ok old ∧
            pixels[row * cw + ((X : Int) - x0).toNat]? = some p ∧
            Blend.blend ops m mode old p op = .ok v ∧ img'.get X Y = .ok v) ∧
        (¬ (Y = y ∧ x0 + (col : Int) ≤ (X : Int) ∧ (X : Int) < x0 + (col : Int) + (n : Int)) →
          img'.get X Y = img.get X Y) := by
  intro n
  induction n with
  | zero =>
      intro col img img' h _ _ X Y _ _
      simp [Sprite.writeRawRow] at h; subst h
      refine ⟨fun hc => ?_, fun _ => rfl⟩
      omega
  | succ n ih =>
      intro col img img' h hy hsz X Y hX hY
      unfold Sprite.writeRawRow at h
      dsimp only at h
      split at h
      · -- column off canvas
        rename_i hoff
        simp only [Bool.or_eq_true, decide_eq_true_eq] at hoff
        have := ih _ _ _ h hy hsz X Y hX hY
        refine ⟨fun hc => ?_, fun hc => ?_⟩
        · apply this.1
          refine ⟨hc.1, ?_, ?_⟩ <;> omega
        · apply this.2
          intro hc'; apply hc
          refine ⟨hc'.1, ?_, ?_⟩ <;> omega
      · rename_i hon
        simp only [Bool.or_eq_true, decide_eq_true_eq, not_or, Int.not_lt] at hon
        split at h
        · cases h
        · rename_i p hp
          split at h
          · rename_i old hold
            split at h
            · rename_i v hv
              split at h
              · rename_i img1 hput
                have hd := put_dims hput
                have hsz1 := hd.size hsz
                have hy1 : y < img1.h := by rw [← hd.2.1]; exact hy
                have hX1 : X < img1.w := by rw [← hd.1]; exact hX
                have hY1 : Y < img1.h := by rw [← hd.2.1]; exact hY
                have := ih _ _ _ h hy1 hsz1 X Y hX1 hY1
                by_cases hhere : X = (x0 + (col : Int)).toNat ∧ Y = y
                · -- the position written in this step
                  obtain ⟨hXe, hYe⟩ := hhere
                  have hnot : ¬ (Y = y ∧ x0 + ((col + 1 : Nat) : Int) ≤ (X : Int) ∧
                      (X : Int) < x0 + ((col + 1 : Nat) : Int) + (n : Int)) := by
                    intro hc; omega
                  have h2 := this.2 hnot
                  refine ⟨fun _ => ⟨old, p, v, ?_, ?_, hv, ?_⟩, fun hc => ?_⟩
                  · rw [hXe, hYe]; exact hold
                  · have : ((X : Int) - x0).toNat = col := by omega
                    rw [this]; exact hp
                  · rw [h2, hXe, hYe]; exact put_get_same hput hsz
                  · exfalso; apply hc
                    refine ⟨hYe, ?_, ?_⟩ <;> omega
                · have hne : X ≠ (x0 + (col : Int)).toNat ∨ Y ≠ y := by omega
                  have hsame : img1.get X Y = img.get X Y := put_get_other hput hne
                  refine ⟨fun hc => ?_, fun hc => ?_⟩
                  · have hc' : Y = y ∧ x0 + ((col + 1 : Nat) : Int) ≤ (X : Int) ∧
                        (X : Int) < x0 + ((col + 1 : Nat) : Int) + (n : Int) := by
                      refine ⟨hc.1, ?_, ?_⟩ <;> omega
                    obtain ⟨old', p', v', h1, h2, h3, h4⟩ := this.1 hc'
                    exact ⟨old', p', v', by rw [← hsame]; exact h1, h2, h3, h4⟩
                  · rw [← hsame]
                    apply this.2
                    intro hc'; apply hc
                    refine ⟨hc'.1, ?_, ?_⟩ <;> omega
              · cases h
              · cases h
            · cases h
            · cases h
          · cases h
          · cases h

/-! ### all rows of a raw cel -/

/-- the canvas position `(X, Y)` lies in the `cw × ch` rectangle placed at `(x0, y0)` -/
def InRect (x0 y0 : Int) (cw ch : Nat) (X Y : Nat) : Prop :=
  x0 ≤ (X : Int) ∧ (X : Int) < x0 + (cw : Int) ∧ y0 ≤ (Y : Int) ∧ (Y : Int) < y0 + (ch : Int)

instance (x0 y0 : Int) (cw ch X Y : Nat) : Decidable (InRect x0 y0 cw ch X Y) := by
  unfold InRect; infer_instance

/-- `img'` arises from `img` by blending, at `(X, Y)`, the source pixel `src` over the old
    pixel (mode `mode`, opacity `op`) -/
def BlendedAt (mode : Nat) (op : UInt8) (img img' : Image) (X Y : Nat) (src : Option RGBA) : Prop :=
  ∃ old p v, img.get X Y = .ok old ∧ src = some p ∧
    Blend.blend ops m mode old p op = .ok v ∧ img'.get X Y = .ok v

/-- **rows lemma**: source rows `row, row+1, …, row+n-1` of a raw cel placed at `(x0, y0)` -/
theorem writeRawRows_spec_aux (mode : Nat) (op : UInt8) (pixels : Array RGBA) (cw : Nat)
    (x0 y0 : Int) : ∀ (n row : Nat) (img img' : Image),
      Sprite.writeRawRows ops m mode op pixels cw x0 y0 n row img = .ok img' →
      img.px.size = img.w * img.h →
      ∀ X Y : Nat, X < img.w → Y < img.h →
        (InRect x0 (y0 + (row : Int)) cw n X Y →
          BlendedAt ops m mode op img img' X Y
            pixels[((Y : Int) - y0).toNat * cw + ((X : Int) - x0).toNat]?) ∧
        (¬ InRect x0 (y0 + (row : Int)) cw n X Y → img'.get X Y = img.get X Y) := by
  intro n
  induction n with
  | zero =>
      intro row img img' h _ X Y _ _
      simp [Sprite.writeRawRows] at h; subst h
      refine ⟨fun hc => ?_, fun _ => rfl⟩
      unfold InRect at hc; omega
  | succ n ih =>
      intro row img img' h hsz X Y hX hY
      unfold Sprite.writeRawRows at h
      dsimp only at h
      split at h
      · rename_i hoff
        simp only [Bool.or_eq_true, decide_eq_true_eq] at hoff
        have := ih _ _ _ h hsz X Y hX hY
        unfold InRect at this ⊢
        refine ⟨fun hc => ?_, fun hc => ?_⟩
        · apply this.1; omega
        · apply this.2; omega
      · rename_i hon
        simp only [Bool.or_eq_true, decide_eq_true_eq, not_or, Int.not_lt] at hon
        split at h
        · rename_i img1 hrow
          have hd := writeRawRow_dims ops m _ _ _ _ _ _ _ _ _ _ _ hrow
          have hsz1 := hd.size hsz
          have hX1 : X < img1.w := by rw [← hd.1]; exact hX
          have hY1 : Y < img1.h := by rw [← hd.2.1]; exact hY
          have hyr : (y0 + (row : Int)).toNat < img.h := by omega
          have hr := writeRawRow_spec ops m _ _ _ _ _ _ _ _ _ _ _ hrow hyr hsz X Y hX hY
          have := ih _ _ _ h hsz1 X Y hX1 hY1
          unfold InRect at this ⊢
          by_cases hthis : Y = (y0 + (row : Int)).toNat ∧ x0 ≤ (X : Int) ∧ (X : Int) < x0 + (cw : Int)
          · -- in the row written now; untouched by the later rows
            have hc1 : Y = (y0 + (row : Int)).toNat ∧ x0 + ((0 : Nat) : Int) ≤ (X : Int) ∧
                (X : Int) < x0 + ((0 : Nat) : Int) + (cw : Int) := by omega
            obtain ⟨old, p, v, h1, h2, h3, h4⟩ := hr.1 hc1
            have hlater := this.2 (by omega)
            refine ⟨fun _ => ⟨old, p, v, h1, ?_, h3, by rw [hlater]; exact h4⟩, fun hc => ?_⟩
            · have : ((Y : Int) - y0).toNat = row := by omega
              rw [this]; exact h2
            · exfalso; apply hc; omega
          · have hsame : img1.get X Y = img.get X Y := hr.2 (by omega)
            refine ⟨fun hc => ?_, fun hc => ?_⟩
            · obtain ⟨old, p, v, h1, h2, h3, h4⟩ := this.1 (by omega)
              exact ⟨old, p, v, by rw [← hsame]; exact h1, h2, h3, h4⟩
            · rw [← hsame]; apply this.2; omega
        · cases h
        · cases h

/-- **cel lemma** (`writeRawRows` from row 0): inside the rectangle `x0 ≤ X < x0 + cw`,
    `y0 ≤ Y < y0 + ch` (intersected with the canvas) the new pixel is
    `blend mode old pixels[(Y - y0) * cw + (X - x0)] op`; outside, the pixel is unchanged.
    Offsets are arbitrary integers. -/
theorem writeRawRows_spec (mode : Nat) (op : UInt8) (pixels : Array RGBA) (cw ch : Nat)
    (x0 y0 : Int) (img img' : Image)
    (h : Sprite.writeRawRows ops m mode op pixels cw x0 y0 ch 0 img = .ok img')
    (hsz : img.px.size = img.w * img.h) (X Y : Nat) (hX : X < img.w) (hY : Y < img.h) :
    (InRect x0 y0 cw ch X Y →
      BlendedAt ops m mode op img img' X Y
        pixels[((Y : Int) - y0).toNat * cw + ((X : Int) - x0).toNat]?) ∧
    (¬ InRect x0 y0 cw ch X Y → img'.get X Y = img.get X Y) := by
  have := writeRawRows_spec_aux ops m mode op pixels cw x0 y0 ch 0 img img' h hsz X Y hX hY
  simpa using this

/-- **cel lemma** for `writeRawCel`: the opacity is the rounded product of layer and cel opacity -/
theorem writeRawCel_spec (img img' : Image) (d : CelCommon) (w h : UInt16) (pixels : Array RGBA)
    (mode : Nat) (layerOpacity : UInt8)
    (hw : Sprite.writeRawCel ops m img d w h pixels mode layerOpacity = .ok img')
    (hsz : img.px.size = img.w * img.h) (X Y : Nat) (hX : X < img.w) (hY : Y < img.h) :
    (InRect d.x.toInt d.y.toInt w.toNat h.toNat X Y →
      BlendedAt ops m mode (Blend.mulUn8 (Blend.ch layerOpacity) (Blend.ch d.opacity)) img img' X Y
        pixels[((Y : Int) - d.y.toInt).toNat * w.toNat + ((X : Int) - d.x.toInt).toNat]?) ∧
    (¬ InRect d.x.toInt d.y.toInt w.toNat h.toNat X Y → img'.get X Y = img.get X Y) :=
  writeRawRows_spec ops m mode _ pixels w.toNat h.toNat d.x.toInt d.y.toInt img img' hw hsz X Y hX hY

/-! ### images are determined by their pixels -/

theorem image_ext {a b : Image} (hd : SameDims a b) (hsz : a.px.size = a.w * a.h)
    (hpx : ∀ X Y, X < a.w → Y < a.h → b.get X Y = a.get X Y) : b = a := by
  obtain ⟨aw, ah, apx⟩ := a
  obtain ⟨bw, bh, bpx⟩ := b
  obtain ⟨h1, h2, h3⟩ := hd
  simp only at h1 h2 h3 hsz hpx
  subst h1 h2
  congr 1
  apply Array.ext h3.symm
  intro i hi1 hi2
  rw [hsz] at hi2
  have hw : 0 < aw := by
    rcases Nat.eq_zero_or_pos aw with h0 | h0
    · subst h0; simp at hi2
    · exact h0
  have hx : i % aw < aw := Nat.mod_lt _ hw
  have hy : i / aw < ah := by
    apply (Nat.div_lt_iff_lt_mul hw).mpr; rw [Nat.mul_comm]; exact hi2
  have := hpx (i % aw) (i / aw) hx hy
  have hidx : i / aw * aw + i % aw = i := by
    rw [Nat.mul_comm]; exact Nat.div_add_mod i aw
  simp only [Image.get, hx, hy, decide_true, Bool.and_self, if_true, hidx, Res.ok.injEq] at this
  simpa [Array.getD, hi1, (by rw [hsz]; exact hi2 : i < apx.size)] using this

/-- a raw cel whose rectangle does not meet the canvas leaves the image unchanged -/
theorem writeRawRows_off_canvas (mode : Nat) (op : UInt8) (pixels : Array RGBA) (cw ch : Nat)
    (x0 y0 : Int) (img img' : Image)
    (h : Sprite.writeRawRows ops m mode op pixels cw x0 y0 ch 0 img = .ok img')
    (hsz : img.px.size = img.w * img.h)
    (hoff : ∀ X Y, X < img.w → Y < img.h → ¬ InRect x0 y0 cw ch X Y) : img' = img :=
  image_ext (writeRawRows_dims ops m _ _ _ _ _ _ _ _ _ _ h) hsz
    (fun X Y hX hY => (writeRawRows_spec ops m mode op pixels cw ch x0 y0 img img' h hsz X Y hX hY).2
      (hoff X Y hX hY))

/-- a raw cel lying completely off the canvas leaves the image unchanged -/
theorem writeRawCel_off_canvas (img img' : Image) (d : CelCommon) (w h : UInt16)
    (pixels : Array RGBA) (mode : Nat) (layerOpacity : UInt8)
    (hw : Sprite.writeRawCel ops m img d w h pixels mode layerOpacity = .ok img')
    (hsz : img.px.size = img.w * img.h)
    (hoff : ∀ X Y, X < img.w → Y < img.h → ¬ InRect d.x.toInt d.y.toInt w.toNat h.toNat X Y) :
    img' = img :=
  writeRawRows_off_canvas ops m mode _ pixels w.toNat h.toNat d.x.toInt d.y.toInt img img' hw hsz hoff

end
end Ase.Proofs
