import AseProofs.Lemmas.RasterTile
/-
  The point-wise specification of drawing one cel: what `writeCelDirect` / `writeCel` do to the
  pixel at one canvas position.
-/
namespace Ase.Proofs
open Ase

/-- the pixel a raw cel (`cw × ch` pixels at `(x0, y0)`) shows at canvas position `(X, Y)` -/
def rawSource (pixels : Array RGBA) (cw ch : Nat) (x0 y0 : Int) (X Y : Nat) : Option RGBA :=
  if InRect x0 y0 cw ch X Y then pixels[((Y : Int) - y0).toNat * cw + ((X : Int) - x0).toNat]?
  else none

/-- the pixel a tilemap cel (stored map `t` at `(cx, cy)`, tiles `tw × th`, tileset pixels
    `pixels`) shows at canvas position `(X, Y)` -/
def mapSource (t : TilemapData) (pixels : Array RGBA) (tw th : Nat) (cx cy : Int) (X Y : Nat) :
    Option RGBA :=
  if 0 < tw ∧ 0 < th ∧ InMap cx cy tw th t.width.toNat t.height.toNat X Y then
    tileSrc t.tiles pixels tw th t.width.toNat cx cy X Y
  else none

/-- the source pixel the (non-linked) cel `c` of layer `layer` shows at `(X, Y)`, if any -/
def celPixel (s : Sprite) (layer : LayerData) (c : RawCel Pixels) (X Y : Nat) : Option RGBA :=
  match c.content with
  | .raw w h px =>
      match pixelsToRgba s.palette px with
      | .ok rgba => rawSource rgba w.toNat h.toNat c.data.x.toInt c.data.y.toInt X Y
      | _ => none
  | .tilemap t =>
      match layer.layerType with
      | .tilemap tsid =>
          match s.tileset? tsid.toNat with
          | some ts =>
              match ts.pixels with
              | some px =>
                  match pixelsToRgba s.palette px with
                  | .ok rgba =>
                      mapSource t rgba ts.tileW.toNat ts.tileH.toNat c.data.x.toInt c.data.y.toInt X Y
                  | _ => none
              | none => none
          | none => none
      | _ => none
  | .linked _ => none

section
variable {F : Type} (ops : FOps F) (m : Profile)

/-- blend an optional source pixel over `acc` -/
def blendOr (mode : Nat) (op : UInt8) (acc : RGBA) : Option RGBA → RGBA
  | none => acc
  | some p =>
      match Blend.blend ops m mode acc p op with
      | .ok v => v
      | _ => acc

/-- blend an optional source pixel over `acc`, failures propagated -/
def blendRes (mode : Nat) (op : UInt8) (acc : RGBA) : Option RGBA → Res RGBA
  | none => .ok acc
  | some p => Blend.blend ops m mode acc p op

theorem blendOr_of_blendRes {mode : Nat} {op : UInt8} {acc v : RGBA} {src : Option RGBA}
    (h : blendRes ops m mode op acc src = .ok v) : blendOr ops m mode op acc src = v := by
  cases src with
  | none => simp only [blendRes] at h; cases h; rfl
  | some p => simp only [blendRes] at h; simp only [blendOr, h]

/-- `specCel` with failures propagated (a blend that fails, a missing layer) -/
def specCelRes (s : Sprite) (c : RawCel Pixels) (X Y : Nat) (acc : RGBA) : Res RGBA :=
  match s.layers[c.data.layerIndex.toNat]? with
  | none => .panic .assertFail
  | some layer =>
      blendRes ops m layer.blendMode
        (Blend.mulUn8 (Blend.ch layer.opacity) (Blend.ch c.data.opacity)) acc
        (celPixel s layer c X Y)

/-- the pixel at `(X, Y)` after drawing the (non-linked) cel `c` over a pixel `acc`: the cel's
    source pixel there, if any, blended with the layer's mode and the opacity product -/
def specCel (s : Sprite) (c : RawCel Pixels) (X Y : Nat) (acc : RGBA) : RGBA :=
  match s.layers[c.data.layerIndex.toNat]? with
  | none => acc
  | some layer =>
      blendOr ops m layer.blendMode
        (Blend.mulUn8 (Blend.ch layer.opacity) (Blend.ch c.data.opacity)) acc
        (celPixel s layer c X Y)

/-- the cel whose pixels `c` shows: itself, or the cel it links to -/
def shownCel (s : Sprite) (c : RawCel Pixels) : Option (RawCel Pixels) :=
  match c.content with
  | .linked f =>
      match s.cel f.toNat c.data.layerIndex.toNat with
      | .ok (some target) => some target
      | _ => none
  | _ => some c

/-- the pixel at `(X, Y)` after `write_cel` of `c` over a pixel `acc` -/
def specWriteCel (s : Sprite) (c : RawCel Pixels) (X Y : Nat) (acc : RGBA) : RGBA :=
  match shownCel s c with
  | some target => specCel ops m s target X Y acc
  | none => acc

/-- `specWriteCel` with failures propagated -/
def specWriteCelRes (s : Sprite) (c : RawCel Pixels) (X Y : Nat) (acc : RGBA) : Res RGBA :=
  match shownCel s c with
  | some target => specCelRes ops m s target X Y acc
  | none => .ok acc

theorem pointwise_of_spec {mode : Nat} {op : UInt8} {img img' : Image} {X Y : Nat}
    {src : Option RGBA} {acc : RGBA} {R : Prop} [Decidable R]
    (h : (R → BlendedAt ops m mode op img img' X Y src) ∧ (¬ R → img'.get X Y = img.get X Y))
    (hacc : img.get X Y = .ok acc) :
    img'.get X Y = .ok (blendOr ops m mode op acc (if R then src else none)) ∧
    blendRes ops m mode op acc (if R then src else none)
      = .ok (blendOr ops m mode op acc (if R then src else none)) := by
  by_cases hR : R
  · obtain ⟨old, p, v, h1, h2, h3, h4⟩ := h.1 hR
    rw [hacc] at h1; cases h1
    subst h2
    simp only [hR, if_true, blendOr, blendRes, h3]
    exact ⟨h4, trivial⟩
  · simp only [hR, if_false, blendOr, blendRes]
    rw [h.2 hR]; exact ⟨hacc, trivial⟩

/-- **one cel, point-wise** (`writeCelDirect`): the new pixel is the specified one, and no blend
    of the specification failed -/
theorem writeCelDirect_pointwise_full (s : Sprite) (img img' : Image) (c : RawCel Pixels)
    (h : s.writeCelDirect ops m img c = .ok img') (hsz : img.px.size = img.w * img.h)
    (X Y : Nat) (hX : X < img.w) (hY : Y < img.h) (acc : RGBA) (hacc : img.get X Y = .ok acc) :
    img'.get X Y = .ok (specCel ops m s c X Y acc) ∧
    specCelRes ops m s c X Y acc = .ok (specCel ops m s c X Y acc) := by
  unfold Sprite.writeCelDirect at h
  unfold specCel specCelRes
  split at h
  · cases h
  · rename_i layer hlayer
    rw [hlayer]; dsimp only
    unfold celPixel
    split at h
    · rename_i w hh px hcontent
      simp only [hcontent]
      split at h
      · rename_i rgba hrgba
        simp only [hrgba]
        exact pointwise_of_spec ops m
          (writeRawCel_spec ops m img img' c.data w hh rgba layer.blendMode layer.opacity h hsz X Y hX hY)
          hacc
      · cases h
      · cases h
    · rename_i t hcontent
      simp only [hcontent]
      split at h
      · rename_i tsid hlt
        simp only [hlt]
        split at h
        · cases h
        · rename_i ts hts
          simp only [hts]
          split at h
          · cases h
          · rename_i px hpx
            simp only [hpx]
            split at h
            · rename_i rgba hrgba
              simp only [hrgba]
              unfold mapSource
              by_cases hpos : 0 < ts.tileW.toNat ∧ 0 < ts.tileH.toNat
              · have hsp := writeTilemapCel_spec ops m img img' c.data t ts rgba layer.blendMode
                  layer.opacity hpos.1 hpos.2 h hsz X Y hX hY
                have := pointwise_of_spec ops m hsp hacc
                simp only [hpos.1, hpos.2, true_and]
                exact this
              · have hz : ts.tileW.toNat = 0 ∨ ts.tileH.toNat = 0 := by omega
                have : img' = img := writeTiles_degenerate ops m _ _ _ _ _ _ _ _ hz _ _ _ _ h
                subst this
                have hnot : ¬ (0 < ts.tileW.toNat ∧ 0 < ts.tileH.toNat ∧
                    InMap c.data.x.toInt c.data.y.toInt ts.tileW.toNat ts.tileH.toNat
                      t.width.toNat t.height.toNat X Y) := fun hc => hpos ⟨hc.1, hc.2.1⟩
                simp only [hnot, if_false, blendOr, blendRes]
                exact ⟨hacc, trivial⟩
            · cases h
            · cases h
      · cases h
    · cases h

/-- **one cel, point-wise** (`writeCelDirect`) -/
theorem writeCelDirect_pointwise (s : Sprite) (img img' : Image) (c : RawCel Pixels)
    (h : s.writeCelDirect ops m img c = .ok img') (hsz : img.px.size = img.w * img.h)
    (X Y : Nat) (hX : X < img.w) (hY : Y < img.h) (acc : RGBA) (hacc : img.get X Y = .ok acc) :
    img'.get X Y = .ok (specCel ops m s c X Y acc) :=
  (writeCelDirect_pointwise_full ops m s img img' c h hsz X Y hX hY acc hacc).1

/-- **`write_cel`, point-wise**: linked cels show the cel they link to; no blend of the
    specification failed -/
theorem writeCel_pointwise_full (s : Sprite) (img img' : Image) (c : RawCel Pixels)
    (h : s.writeCel ops m img c = .ok img') (hsz : img.px.size = img.w * img.h)
    (X Y : Nat) (hX : X < img.w) (hY : Y < img.h) (acc : RGBA) (hacc : img.get X Y = .ok acc) :
    img'.get X Y = .ok (specWriteCel ops m s c X Y acc) ∧
    specWriteCelRes ops m s c X Y acc = .ok (specWriteCel ops m s c X Y acc) := by
  unfold Sprite.writeCel at h
  unfold specWriteCel specWriteCelRes shownCel
  split at h
  · rename_i fr hcontent
    simp only [hcontent]
    split at h
    · cases h
    · split at h
      · cases h
        rename_i hcel
        simp only [hcel]
        exact ⟨hacc, trivial⟩
      · rename_i target hcel
        simp only [hcel]
        exact writeCelDirect_pointwise_full ops m s img img' target h hsz X Y hX hY acc hacc
      · cases h
      · cases h
  · rename_i hnl
    have hs : (match c.content with
        | .linked f =>
            match s.cel f.toNat c.data.layerIndex.toNat with
            | .ok (some target) => some target
            | _ => none
        | _ => some c) = some c := by
      split
      · rename_i f hf; exact absurd hf (hnl f)
      · rfl
    rw [hs]
    exact writeCelDirect_pointwise_full ops m s img img' c h hsz X Y hX hY acc hacc

/-- **`write_cel`, point-wise** -/
theorem writeCel_pointwise (s : Sprite) (img img' : Image) (c : RawCel Pixels)
    (h : s.writeCel ops m img c = .ok img') (hsz : img.px.size = img.w * img.h)
    (X Y : Nat) (hX : X < img.w) (hY : Y < img.h) (acc : RGBA) (hacc : img.get X Y = .ok acc) :
    img'.get X Y = .ok (specWriteCel ops m s c X Y acc) :=
  (writeCel_pointwise_full ops m s img img' c h hsz X Y hX hY acc hacc).1

/-! ### the specification unfolded -/

theorem blendOr_ok {mode : Nat} {op : UInt8} {acc p v : RGBA}
    (h : Blend.blend ops m mode acc p op = .ok v) : blendOr ops m mode op acc (some p) = v := by
  simp only [blendOr, h]

/-- a raw cel: blend its pixel inside its rectangle, keep the accumulator outside -/
theorem specCel_raw (s : Sprite) (c : RawCel Pixels) (w h : UInt16) (px : Pixels)
    (rgba : Array RGBA) (layer : LayerData) (hraw : c.content = .raw w h px)
    (hrgba : pixelsToRgba s.palette px = .ok rgba)
    (hlayer : s.layers[c.data.layerIndex.toNat]? = some layer) (X Y : Nat) (acc : RGBA) :
    specCel ops m s c X Y acc =
      if InRect c.data.x.toInt c.data.y.toInt w.toNat h.toNat X Y then
        blendOr ops m layer.blendMode
          (Blend.mulUn8 (Blend.ch layer.opacity) (Blend.ch c.data.opacity)) acc
          rgba[((Y : Int) - c.data.y.toInt).toNat * w.toNat + ((X : Int) - c.data.x.toInt).toNat]?
      else acc := by
  simp only [specCel, hlayer, celPixel, hraw, hrgba, rawSource]
  split <;> rfl

/-- a tilemap cel: blend the covering tile's pixel inside the stored map area -/
theorem specCel_tilemap (s : Sprite) (c : RawCel Pixels) (t : TilemapData) (layer : LayerData)
    (tsid : UInt32) (ts : Tileset Pixels) (px : Pixels) (rgba : Array RGBA)
    (hcontent : c.content = .tilemap t)
    (hlayer : s.layers[c.data.layerIndex.toNat]? = some layer)
    (hlt : layer.layerType = .tilemap tsid) (hts : s.tileset? tsid.toNat = some ts)
    (hpx : ts.pixels = some px) (hrgba : pixelsToRgba s.palette px = .ok rgba)
    (X Y : Nat) (acc : RGBA) :
    specCel ops m s c X Y acc =
      if 0 < ts.tileW.toNat ∧ 0 < ts.tileH.toNat ∧
          InMap c.data.x.toInt c.data.y.toInt ts.tileW.toNat ts.tileH.toNat
            t.width.toNat t.height.toNat X Y then
        blendOr ops m layer.blendMode
          (Blend.mulUn8 (Blend.ch layer.opacity) (Blend.ch c.data.opacity)) acc
          (tileSrc t.tiles rgba ts.tileW.toNat ts.tileH.toNat t.width.toNat
            c.data.x.toInt c.data.y.toInt X Y)
      else acc := by
  simp only [specCel, hlayer, celPixel, hcontent, hlt, hts, hpx, hrgba, mapSource]
  split <;> rfl

/-- a non-linked cel shows itself -/
theorem specWriteCel_direct (s : Sprite) (c : RawCel Pixels) (hnl : ∀ f, c.content ≠ .linked f)
    (X Y : Nat) (acc : RGBA) : specWriteCel ops m s c X Y acc = specCel ops m s c X Y acc := by
  have hs : shownCel s c = some c := by
    unfold shownCel
    split
    · rename_i f hf; exact absurd hf (hnl f)
    · rfl
  simp only [specWriteCel, hs]

/-- a linked cel shows the cel of the same layer in the frame it links to -/
theorem specWriteCel_linked (s : Sprite) (c target : RawCel Pixels) (g : UInt16)
    (hlink : c.content = .linked g)
    (ht : s.cel g.toNat c.data.layerIndex.toNat = .ok (some target)) (X Y : Nat) (acc : RGBA) :
    specWriteCel ops m s c X Y acc = specCel ops m s target X Y acc := by
  simp only [specWriteCel, shownCel, hlink, ht]

end
end Ase.Proofs
