import Ase.Util
/-
  Lemmas behind C18: indexing into a concatenation of equally long rows, association
  lists built by repeated `assocInsert`, injectivity of the colour key.
-/
namespace Ase.Proofs.UtilLemmas
open Ase Ase.Util

/-! ### lists of equally long rows -/

theorem length_flatMap_uniform {α β} (f : α → List β) (n : Nat) :
    ∀ (l : List α), (∀ a ∈ l, (f a).length = n) → (l.flatMap f).length = l.length * n := by
  intro l
  induction l with
  | nil => intro _; simp
  | cons a l ih =>
      intro h
      have h1 := h a (by simp)
      have h2 := ih (fun b hb => h b (by simp [hb]))
      simp only [List.flatMap_cons, List.length_append, List.length_cons, h1, h2, Nat.succ_mul]
      omega

theorem getElem?_flatMap_uniform {α β} (f : α → List β) (n : Nat) :
    ∀ (l : List α), (∀ a ∈ l, (f a).length = n) → ∀ (y x : Nat), x < n →
      (l.flatMap f)[y * n + x]? = (l[y]?).bind (fun a => (f a)[x]?) := by
  intro l
  induction l with
  | nil => intro _ y x _; simp
  | cons a l ih =>
      intro h y x hx
      have h1 := h a (by simp)
      have ih' := ih (fun b hb => h b (by simp [hb]))
      cases y with
      | zero =>
          have : x < (f a).length := by omega
          simp [List.flatMap_cons, List.getElem?_append_left, this]
      | succ y =>
          have hge : (f a).length ≤ (y + 1) * n + x := by
            rw [h1, Nat.succ_mul]; omega
          have hsub : (y + 1) * n + x - (f a).length = y * n + x := by
            rw [h1, Nat.succ_mul]; omega
          simp only [List.flatMap_cons, List.getElem?_append_right hge, hsub,
            List.getElem?_cons_succ]
          exact ih' y x hx

/-! ### association lists -/

theorem find?_congr' {α} (p q : α → Bool) :
    ∀ (l : List α), (∀ a ∈ l, p a = q a) → l.find? p = l.find? q := by
  intro l
  induction l with
  | nil => intro _; rfl
  | cons a l ih =>
      intro h
      have h1 := h a (by simp)
      have h2 := ih (fun b hb => h b (by simp [hb]))
      simp [List.find?_cons, h1, h2]

theorem assocGet?_nil {α} (k : Nat) : assocGet? k ([] : List (Nat × α)) = none := rfl

theorem assocGet?_assocInsert {α} (k k' : Nat) (v : α) (l : List (Nat × α)) :
    assocGet? k (assocInsert k' v l) = if k' = k then some v else assocGet? k l := by
  unfold assocGet? assocInsert
  by_cases h : k' = k
  · subst h; simp
  · have hne : (k' == k) = false := by simpa using h
    simp only [List.find?_cons, hne, h, if_false, List.find?_filter]
    congr 1
    apply find?_congr'
    intro p _
    by_cases hp : p.1 = k
    · have : ¬ k = k' := fun e => h e.symm
      simp [hp, this]
    · simp [hp]

/-- Looking up `k` in a map built by successive inserts returns the value of the LAST
    inserted pair with key `k`, or what the initial map held. -/
theorem assocGet?_foldl_insert {α β} (key : β → Nat) (val : β → α) (k : Nat) :
    ∀ (order : List β) (m : List (Nat × α)),
      assocGet? k (order.foldl (fun m p => assocInsert (key p) (val p) m) m) =
        match order.reverse.find? (fun p => key p == k) with
        | some p => some (val p)
        | none => assocGet? k m := by
  intro order
  induction order with
  | nil => intro m; simp
  | cons a l ih =>
      intro m
      simp only [List.foldl_cons, ih, List.reverse_cons, List.find?_append]
      cases hfind : l.reverse.find? (fun p => key p == k) with
      | some p => simp
      | none =>
          simp only [Option.none_or, List.find?_cons, List.find?_nil, assocGet?_assocInsert]
          by_cases hk : key a = k
          · simp [hk]
          · have : (key a == k) = false := by simpa using hk
            simp [hk, this]

/-! ### colour keys -/

theorem colorKey_inj (r g b r' g' b' : UInt8) :
    colorKey r g b = colorKey r' g' b' ↔ (r = r' ∧ g = g' ∧ b = b') := by
  constructor
  · intro h
    unfold colorKey at h
    have h1 := r.toNat_lt; have h2 := g.toNat_lt; have h3 := b.toNat_lt
    have h4 := r'.toNat_lt; have h5 := g'.toNat_lt; have h6 := b'.toNat_lt
    refine ⟨UInt8.toNat_inj.mp (by omega), UInt8.toNat_inj.mp (by omega),
      UInt8.toNat_inj.mp (by omega)⟩
  · rintro ⟨rfl, rfl, rfl⟩; rfl

end Ase.Proofs.UtilLemmas
