import AseProofs.Lemmas.Valid
/-
  C05, part 2: size facts of the chunk decoders.  A cel chunk that decodes holds exactly
  `w * h` pixels (resp. tiles), a tileset chunk that decodes has a non-zero tile size and,
  when it has pixels, exactly `count * th * tw` of them.  No hypothesis on `inflate`:
  `unzip` compares the inflated length with the declared size.
-/
namespace Ase.Proofs.C05
open Ase

/-! ### grouping -/

theorem groupRgba_length : ∀ bs : Bytes, (groupRgba bs).length = bs.length / 4
  | [] => by simp [groupRgba]
  | [_] => by simp [groupRgba]
  | [_, _] => by simp [groupRgba]
  | [_, _, _] => by simp [groupRgba]
  | _ :: _ :: _ :: _ :: t => by
      simp only [groupRgba, List.length_cons, groupRgba_length t]; omega

theorem groupGray_length : ∀ bs : Bytes, (groupGray bs).length = bs.length / 2
  | [] => by simp [groupGray]
  | [_] => by simp [groupGray]
  | _ :: _ :: t => by
      simp only [groupGray, List.length_cons, groupGray_length t]; omega

theorem groupTiles_length (mask : UInt32) : ∀ bs : Bytes, (groupTiles mask bs).length = bs.length / 4
  | [] => by simp [groupTiles]
  | [_] => by simp [groupTiles]
  | [_, _] => by simp [groupTiles]
  | [_, _, _] => by simp [groupTiles]
  | _ :: _ :: _ :: _ :: t => by
      simp only [groupTiles, List.length_cons, groupTiles_length mask t]; omega

/-- `RawPixels::from_bytes` on `bpp * n` bytes yields `n` pixels -/
theorem pixelsFromBytes_size (fmt : PixelFormat) (bytes : Bytes) (n : Nat)
    (hlen : bytes.length = fmt.bpp * n) :
    ROk (fun px => rawSize px = n) (pixelsFromBytes fmt bytes) := by
  intro px h
  unfold pixelsFromBytes at h
  cases fmt with
  | indexed t =>
      simp only [Res.ok.injEq] at h
      subst h
      simp only [PixelFormat.bpp] at hlen
      simp [rawSize, hlen]
  | grayscale =>
      simp only at h
      split at h
      · cases h
      · simp only [Res.ok.injEq] at h
        subst h
        simp only [PixelFormat.bpp] at hlen
        simp only [rawSize, List.size_toArray, groupGray_length]
        omega
  | rgba =>
      simp only at h
      split at h
      · cases h
      · simp only [Res.ok.injEq] at h
        subst h
        simp only [PixelFormat.bpp] at hlen
        simp only [rawSize, List.size_toArray, groupRgba_length]
        omega

theorem outputSize_eq (fmt : PixelFormat) (count : Nat) :
    ROk (fun n => n = fmt.bpp * count) (outputSize fmt count) := by
  intro n h
  unfold outputSize at h
  split at h
  · cases h; rfl
  · cases h

theorem takeBytes_length (n : Nat) : Post (fun b : Bytes => b.length = n) (takeBytes n) := by
  intro s b s' h
  unfold takeBytes at h
  split at h
  · cases h
    simp only [List.length_take]
    omega
  · cases h

/-- `unzip` delivers exactly the declared number of bytes, whatever the inflater does -/
theorem unzip_length (inflate : Inflate) (n : Nat) :
    Post (fun b : Bytes => b.length = n) (unzip inflate n) := by
  intro s b s' h
  unfold unzip at h
  split at h
  · split at h
    · cases h
    · rename_i hne
      cases h
      simpa using hne
  · cases h
  · cases h

theorem pixelsFromRaw_size (fmt : PixelFormat) (count : Nat) :
    Post (fun px => rawSize px = count) (pixelsFromRaw fmt count) := by
  unfold pixelsFromRaw
  refine Post_bind (Post_lift (outputSize_eq fmt count)) (fun n hn => ?_)
  refine Post_bind (takeBytes_length n) (fun bytes hb => ?_)
  exact Post_lift (pixelsFromBytes_size fmt bytes count (by rw [hb, hn]))

theorem pixelsFromCompressed_size (inflate : Inflate) (fmt : PixelFormat) (count : Nat) :
    Post (fun px => rawSize px = count) (pixelsFromCompressed inflate fmt count) := by
  unfold pixelsFromCompressed
  refine Post_bind (Post_lift (outputSize_eq fmt count)) (fun n hn => ?_)
  refine Post_bind (unzip_length inflate n) (fun bytes hb => ?_)
  exact Post_lift (pixelsFromBytes_size fmt bytes count (by rw [hb, hn]))

/-! ### cel chunk -/

/-- a tilemap payload holds exactly `width * height` tiles -/
def TilemapSized (t : TilemapData) : Prop := t.tiles.size = t.width.toNat * t.height.toNat

theorem parseTilemap_size (inflate : Inflate) : Post TilemapSized (parseTilemap inflate) := by
  unfold parseTilemap
  refine Post_bind_any (fun w => ?_)
  refine Post_bind_any (fun h => ?_)
  refine Post_bind_any (fun bits => ?_)
  split
  · exact Post_fail _
  · refine Post_bind_any (fun tileId => ?_)
    refine Post_bind_any (fun xFlip => ?_)
    refine Post_bind_any (fun yFlip => ?_)
    refine Post_bind_any (fun rot => ?_)
    refine Post_bind_any (fun _ => ?_)
    refine Post_bind (unzip_length inflate _) (fun bytes hb => ?_)
    refine Post_pure ?_
    simp only [TilemapSized, List.size_toArray, groupTiles_length, hb]
    omega

/-- unvalidated cel content with exact buffer sizes -/
def RawContentOk : CelContent RawPixels → Prop
  | .raw w h px => rawSize px = w.toNat * h.toNat
  | .linked _ => True
  | .tilemap t => TilemapSized t

theorem parseCelContent_ok (inflate : Inflate) (fmt : PixelFormat) (celType : UInt16) :
    Post RawContentOk (parseCelContent inflate fmt celType) := by
  unfold parseCelContent
  split
  · refine Post_bind_any (fun w => ?_)
    refine Post_bind_any (fun h => ?_)
    refine Post_bind (pixelsFromRaw_size fmt _) (fun px hpx => ?_)
    exact Post_pure hpx
  · refine Post_bind_any (fun f => ?_)
    exact Post_pure trivial
  · refine Post_bind_any (fun w => ?_)
    refine Post_bind_any (fun h => ?_)
    refine Post_bind (pixelsFromCompressed_size inflate fmt _) (fun px hpx => ?_)
    exact Post_pure hpx
  · refine Post_bind (parseTilemap_size inflate) (fun t ht => ?_)
    exact Post_pure ht
  · exact Post_fail _

theorem parseCelChunk_ok (inflate : Inflate) (fmt : PixelFormat) :
    Post (fun c => RawContentOk c.content) (parseCelChunk inflate fmt) := by
  unfold parseCelChunk
  refine Post_bind_any (fun layerIndex => ?_)
  refine Post_bind_any (fun x => ?_)
  refine Post_bind_any (fun y => ?_)
  refine Post_bind_any (fun opacity => ?_)
  refine Post_bind_any (fun celType => ?_)
  refine Post_bind_any (fun _ => ?_)
  refine Post_bind (parseCelContent_ok inflate fmt celType) (fun content hc => ?_)
  exact Post_pure hc

/-! ### tileset chunk -/

/-- an unvalidated tileset: non-zero tile size, and pixels (if any) of the exact size -/
def RawTilesetOk (t : Tileset RawPixels) : Prop :=
  1 ≤ t.tileW.toNat ∧ 1 ≤ t.tileH.toNat ∧
  ∀ px, t.pixels = some px → rawSize px = t.tileCount.toNat * t.tileW.toNat * t.tileH.toNat

theorem parseTilesetChunk_ok (inflate : Inflate) (fmt : PixelFormat) :
    Post RawTilesetOk (parseTilesetChunk inflate fmt) := by
  unfold parseTilesetChunk
  refine Post_bind_any (fun id => ?_)
  refine Post_bind_any (fun flags => ?_)
  refine Post_bind_any (fun count => ?_)
  refine Post_bind_any (fun tw => ?_)
  refine Post_bind_any (fun th => ?_)
  split
  · exact Post_fail _
  · rename_i hz
    refine Post_bind_any (fun base => ?_)
    refine Post_bind_any (fun _ => ?_)
    refine Post_bind_any (fun name => ?_)
    have hfin : ∀ (ext : Option (UInt32 × UInt32)) (pixels : Option RawPixels),
        (∀ px, pixels = some px → rawSize px = count.toNat * th.toNat * tw.toNat) →
        RawTilesetOk (Tileset.mk id ((flags.toNat / 4) % 2 == 1) count tw th base name ext pixels) := by
      intro ext pixels hp
      simp only [Bool.or_eq_true, beq_iff_eq, not_or] at hz
      refine ⟨by simp only; omega, by simp only; omega, ?_⟩
      intro px h
      rw [hp px h, Nat.mul_assoc, Nat.mul_assoc, Nat.mul_comm th.toNat]
    have hpix : ∀ ext : Option (UInt32 × UInt32), Post RawTilesetOk
        (if (flags.toNat / 2 % 2 == 1) = true then do
          let pixels ← (do
            let _ ← readU32 bytesSrc
            have n : Nat := count.toNat * th.toNat * tw.toNat
            if n ≥ usizeLimit then RdS.fail Err.invalid
              else do
                let px ← pixelsFromCompressed inflate fmt n
                pure (some px) : Rd (Option RawPixels))
          pure (Tileset.mk id ((flags.toNat / 4) % 2 == 1) count tw th base name ext pixels)
        else do
          let pixels ← (pure none : Rd (Option RawPixels))
          pure (Tileset.mk id ((flags.toNat / 4) % 2 == 1) count tw th base name ext pixels)) := by
      intro ext
      split
      · refine Post_bind
          (P := fun (o : Option RawPixels) =>
            ∀ px, o = some px → rawSize px = count.toNat * th.toNat * tw.toNat) ?_
          (fun pixels hp => Post_pure (hfin ext pixels hp))
        refine Post_bind_any (fun _ => ?_)
        dsimp -iota -proj only
        split
        · exact Post_fail _
        · refine Post_bind (pixelsFromCompressed_size inflate fmt _) (fun px hpx => ?_)
          refine Post_pure ?_
          intro px' h
          cases h
          exact hpx
      · refine Post_bind
          (P := fun (o : Option RawPixels) =>
            ∀ px, o = some px → rawSize px = count.toNat * th.toNat * tw.toNat) ?_
          (fun pixels hp => Post_pure (hfin ext pixels hp))
        refine Post_pure ?_
        intro px' h
        cases h
    dsimp -iota -proj only
    split
    · refine Post_bind_any (fun ext => hpix ext)
    · refine Post_bind_any (fun ext => hpix ext)

end Ase.Proofs.C05
