import AseProofs.Lemmas.Attach
import Ase.Parse
/-
  C10, the abstract state machine: the part of `ParseInfo` that user-data attachment touches
  (the user-data slot of every layer, slice, tag and cel, the sprite's slot, the number of frames
  and the context), with the step `absStep` that `processChunk` performs on it for each event
  (`AttachSim.lean` proves that it does), and the invariant that ties the machine's state after a
  run to the declarative spec (`attachTarget`, `attached`).
-/
namespace Ase.Proofs.C10
open Ase Ase.Spec

structure AState where
  /-- user-data slot of each layer, in file order -/
  layers : List (Option UserData)
  slices : List (Option UserData)
  /-- `none`: no tags chunk seen -/
  tags : Option (List (Option UserData))
  sprite : Option UserData
  nframes : Nat
  /-- `cels f l = none`: no such cel; `some slot`: the cel's user-data slot -/
  cels : Nat → Nat → Option (Option UserData)
  ctx : Option UDCtx

def AState.init (nf : Nat) : AState :=
  { layers := [], slices := [], tags := none, sprite := none, nframes := nf,
    cels := fun _ _ => none, ctx := none }

def setCel (cels : Nat → Nat → Option (Option UserData)) (f l : Nat) (v : Option (Option UserData)) :
    Nat → Nat → Option (Option UserData) :=
  fun f' l' => if f' = f ∧ l' = l then v else cels f' l'

/-- `setUD` on a list of slots -/
def setSlot (xs : List (Option UserData)) (i : Nat) (u : UserData) :
    Option (List (Option UserData)) :=
  if i < xs.length then some (xs.set i (some u)) else none

/-- the effect of one event on the abstract state; the failure values are those of
    `processChunk` / `addCel` / `addUserData` -/
def absStep (s : AState) : Ev → Res AState
  | .layer => .ok { s with layers := s.layers ++ [none], ctx := some (.layer s.layers.length) }
  | .cel f l =>
      if f < s.nframes then
        if (s.cels f l).isSome then .err .invalid
        else .ok { s with cels := setCel s.cels f l (some none), ctx := some (.cel f l) }
      else .err .invalid
  | .slice => .ok { s with slices := s.slices ++ [none], ctx := some (.slice s.slices.length) }
  | .tags n => .ok { s with tags := some (List.replicate n none), ctx := some (.tag 0) }
  | .oldPalette => .ok { s with ctx := some .oldPalette }
  | .other => .ok s
  | .userData u =>
      match s.ctx with
      | none => .err .invalid
      | some (.cel f l) =>
          if f < s.nframes then
            match s.cels f l with
            | none => .err .internal
            | some _ => .ok { s with cels := setCel s.cels f l (some (some u)) }
          else .panic .index
      | some (.layer i) =>
          match setSlot s.layers i u with
          | none => .err .internal
          | some ls => .ok { s with layers := ls }
      | some .oldPalette => .ok { s with sprite := some u }
      | some (.tag i) =>
          match s.tags with
          | none => .err .internal
          | some ts =>
              match setSlot ts i u with
              | none => .err .internal
              | some ts' => .ok { s with tags := some ts', ctx := some (.tag (i + 1)) }
      | some (.slice i) =>
          match setSlot s.slices i u with
          | none => .err .internal
          | some ss => .ok { s with slices := ss }

def absRun : AState → List Ev → Res AState
  | s, [] => .ok s
  | s, e :: es =>
      match absStep s e with
      | .ok s' => absRun s' es
      | .err x => .err x
      | .panic p => .panic p

theorem absRun_append (s : AState) (a b : List Ev) :
    absRun s (a ++ b) = (absRun s a).bind (fun s' => absRun s' b) := by
  induction a generalizing s with
  | nil => rfl
  | cons e a ih =>
      simp only [List.cons_append, absRun]
      cases absStep s e with
      | ok s' => exact ih s'
      | err x => rfl
      | panic p => rfl

theorem absRun_snoc (s : AState) (a : List Ev) (e : Ev) :
    absRun s (a ++ [e]) = (absRun s a).bind (fun s' => absStep s' e) := by
  rw [absRun_append]
  congr 1
  funext s'
  simp only [absRun]
  cases absStep s' e <;> rfl

theorem absRun_snoc_ok {s s' : AState} {a : List Ev} {e : Ev}
    (h : absRun s (a ++ [e]) = .ok s') : ∃ s1, absRun s a = .ok s1 ∧ absStep s1 e = .ok s' := by
  rw [absRun_snoc] at h
  cases h1 : absRun s a with
  | ok s1 => rw [h1] at h; exact ⟨s1, rfl, h⟩
  | err x => rw [h1] at h; simp at h
  | panic p => rw [h1] at h; simp at h

/-- the model's context value that stands for a target -/
def toCtx : Target → UDCtx
  | .layer i => .layer i
  | .cel f l => .cel f l
  | .slice i => .slice i
  | .sprite => .oldPalette
  | .tag i => .tag i

/-- The state after running the events `evs` from the initial state of an `nf`-frame sprite is
    what the declarative spec says. -/
structure Inv (nf : Nat) (evs : List Ev) (s : AState) : Prop where
  ctx : s.ctx = (attachTarget evs evs.length).map toCtx
  nframes : s.nframes = nf
  nlayers : s.layers.length = evs.countP Ev.isLayer
  nslices : s.slices.length = evs.countP Ev.isSlice
  layers : ∀ k, k < s.layers.length → s.layers[k]? = some (attached evs (.layer k))
  slices : ∀ k, k < s.slices.length → s.slices[k]? = some (attached evs (.slice k))
  sprite : s.sprite = attached evs .sprite
  cels : ∀ f l, s.cels f l = if Ev.cel f l ∈ evs then some (attached evs (.cel f l)) else none
  celFrames : ∀ f l, Ev.cel f l ∈ evs → f < nf
  tags : match lastTags evs with
    | none => s.tags = none
    | some (j, n) => ∃ ts, s.tags = some ts ∧ ts.length = n ∧
        ∀ k, k < n → ts[k]? = some (attachedSince evs j (.tag k))

theorem inv_init (nf : Nat) : Inv nf [] (AState.init nf) where
  ctx := rfl
  nframes := rfl
  nlayers := rfl
  nslices := rfl
  layers := by intro k h; simp [AState.init] at h
  slices := by intro k h; simp [AState.init] at h
  sprite := rfl
  cels := by intro f l; simp [AState.init]
  celFrames := by intro f l h; simp at h
  tags := by simp [lastTags, AState.init]

/-- a step on a non-record event that does not touch the tags: the tags clause is inherited -/
theorem tags_clause_keep {evs : List Ev} {e : Ev} {tg : Option (List (Option UserData))}
    (hnt : ∀ n, e ≠ .tags n) (hnu : ∀ u, e ≠ .userData u)
    (h : match lastTags evs with
      | none => tg = none
      | some (j, n) => ∃ ts, tg = some ts ∧ ts.length = n ∧
          ∀ k, k < n → ts[k]? = some (attachedSince evs j (.tag k))) :
    match lastTags (evs ++ [e]) with
      | none => tg = none
      | some (j, n) => ∃ ts, tg = some ts ∧ ts.length = n ∧
          ∀ k, k < n → ts[k]? = some (attachedSince (evs ++ [e]) j (.tag k)) := by
  have h1 : lastTags (evs ++ [e]) = lastTags evs := by
    rw [lastTags_snoc]; cases e <;> first | rfl | exact absurd rfl (hnt _)
  have h2 : ∀ j t, attachedSince (evs ++ [e]) j t = attachedSince evs j t := by
    intro j t
    rw [attachedSince_snoc]; cases e <;> first | rfl | exact absurd rfl (hnu _)
  rw [h1]
  simpa only [h2] using h

/-- one step of the abstract machine preserves the correspondence with the spec -/
theorem inv_step {nf : Nat} {evs : List Ev} {s s' : AState} {e : Ev}
    (hinv : Inv nf evs s) (hstep : absStep s e = .ok s') : Inv nf (evs ++ [e]) s' := by
  obtain ⟨hctx, hnf, hnl, hns, hl, hsl, hsp, hc, hcf, htg⟩ := hinv
  have hlen : (evs ++ [e]).length = evs.length + 1 := by simp
  cases e with
  | layer =>
      simp only [absStep, Res.ok.injEq] at hstep
      subst hstep
      refine ⟨?_, hnf, ?_, ?_, ?_, ?_, ?_, ?_, ?_, ?_⟩
      · rw [hlen, attachTarget_snoc]; simp [Ev.isCtx, ctxTarget, toCtx, hnl]
      · simp [countP_snoc_of_true _ _ (rfl : Ev.isLayer .layer = true), hnl]
      · simpa [countP_snoc_of_false _ _ (rfl : Ev.isSlice .layer = false)] using hns
      · intro k hk
        simp only [List.length_append, List.length_singleton] at hk
        simp only [attached_snoc]
        by_cases hk' : k < s.layers.length
        · rw [List.getElem?_append_left hk']; exact hl k hk'
        · have : k = s.layers.length := by omega
          subst this
          have := attachedSince_layer_none evs 0 s.layers.length (by omega)
          simp [attached, this]
      · intro k hk; simp only [attached_snoc]; exact hsl k hk
      · simp only [attached_snoc]; exact hsp
      · intro f l; simp only [attached_snoc]; simpa using hc f l
      · intro f l hm; exact hcf f l (by simpa using hm)
      · exact tags_clause_keep (by intro n h; cases h) (by intro u h; cases h) htg
  | slice =>
      simp only [absStep, Res.ok.injEq] at hstep
      subst hstep
      refine ⟨?_, hnf, ?_, ?_, ?_, ?_, ?_, ?_, ?_, ?_⟩
      · rw [hlen, attachTarget_snoc]; simp [Ev.isCtx, ctxTarget, toCtx, hns]
      · simpa [countP_snoc_of_false _ _ (rfl : Ev.isLayer .slice = false)] using hnl
      · simp [countP_snoc_of_true _ _ (rfl : Ev.isSlice .slice = true), hns]
      · intro k hk; simp only [attached_snoc]; exact hl k hk
      · intro k hk
        simp only [List.length_append, List.length_singleton] at hk
        simp only [attached_snoc]
        by_cases hk' : k < s.slices.length
        · rw [List.getElem?_append_left hk']; exact hsl k hk'
        · have : k = s.slices.length := by omega
          subst this
          have := attachedSince_slice_none evs 0 s.slices.length (by omega)
          simp [attached, this]
      · simp only [attached_snoc]; exact hsp
      · intro f l; simp only [attached_snoc]; simpa using hc f l
      · intro f l hm; exact hcf f l (by simpa using hm)
      · exact tags_clause_keep (by intro n h; cases h) (by intro u h; cases h) htg
  | oldPalette =>
      simp only [absStep, Res.ok.injEq] at hstep
      subst hstep
      refine ⟨?_, hnf, ?_, ?_, ?_, ?_, ?_, ?_, ?_, ?_⟩
      · rw [hlen, attachTarget_snoc]; simp [Ev.isCtx, ctxTarget, toCtx]
      · simpa [countP_snoc_of_false _ _ (rfl : Ev.isLayer .oldPalette = false)] using hnl
      · simpa [countP_snoc_of_false _ _ (rfl : Ev.isSlice .oldPalette = false)] using hns
      · intro k hk; simp only [attached_snoc]; exact hl k hk
      · intro k hk; simp only [attached_snoc]; exact hsl k hk
      · simp only [attached_snoc]; exact hsp
      · intro f l; simp only [attached_snoc]; simpa using hc f l
      · intro f l hm; exact hcf f l (by simpa using hm)
      · exact tags_clause_keep (by intro n h; cases h) (by intro u h; cases h) htg
  | other =>
      simp only [absStep, Res.ok.injEq] at hstep
      subst hstep
      refine ⟨?_, hnf, ?_, ?_, ?_, ?_, ?_, ?_, ?_, ?_⟩
      · rw [hlen, attachTarget_snoc]; simpa [Ev.isCtx, Ev.isUD] using hctx
      · simpa [countP_snoc_of_false _ _ (rfl : Ev.isLayer .other = false)] using hnl
      · simpa [countP_snoc_of_false _ _ (rfl : Ev.isSlice .other = false)] using hns
      · intro k hk; simp only [attached_snoc]; exact hl k hk
      · intro k hk; simp only [attached_snoc]; exact hsl k hk
      · simp only [attached_snoc]; exact hsp
      · intro f l; simp only [attached_snoc]; simpa using hc f l
      · intro f l hm; exact hcf f l (by simpa using hm)
      · exact tags_clause_keep (by intro n h; cases h) (by intro u h; cases h) htg
  | tags n =>
      simp only [absStep, Res.ok.injEq] at hstep
      subst hstep
      refine ⟨?_, hnf, ?_, ?_, ?_, ?_, ?_, ?_, ?_, ?_⟩
      · rw [hlen, attachTarget_snoc]; simp [Ev.isCtx, ctxTarget, toCtx]
      · simpa [countP_snoc_of_false _ _ (rfl : Ev.isLayer (.tags n) = false)] using hnl
      · simpa [countP_snoc_of_false _ _ (rfl : Ev.isSlice (.tags n) = false)] using hns
      · intro k hk; simp only [attached_snoc]; exact hl k hk
      · intro k hk; simp only [attached_snoc]; exact hsl k hk
      · simp only [attached_snoc]; exact hsp
      · intro f l; simp only [attached_snoc]; simpa using hc f l
      · intro f l hm; exact hcf f l (by simpa using hm)
      · rw [lastTags_snoc]
        refine ⟨List.replicate n none, rfl, by simp, ?_⟩
        intro k hk
        rw [attachedSince_snoc]
        simp only
        rw [attachedSince_length evs _ _ (Nat.le_refl _)]
        simp [hk]
  | cel f l =>
      simp only [absStep] at hstep
      by_cases hf : f < s.nframes
      · simp only [hf, if_true] at hstep
        cases hcel : s.cels f l with
        | some x => simp [hcel] at hstep
        | none =>
            simp only [hcel, Option.isSome_none, Bool.false_eq_true, if_false, Res.ok.injEq] at hstep
            subst hstep
            have hnot : Ev.cel f l ∉ evs := by
              intro hm
              have := hc f l
              simp [hm, hcel] at this
            refine ⟨?_, hnf, ?_, ?_, ?_, ?_, ?_, ?_, ?_, ?_⟩
            · rw [hlen, attachTarget_snoc]; simp [Ev.isCtx, ctxTarget, toCtx]
            · simpa [countP_snoc_of_false _ _ (rfl : Ev.isLayer (.cel f l) = false)] using hnl
            · simpa [countP_snoc_of_false _ _ (rfl : Ev.isSlice (.cel f l) = false)] using hns
            · intro k hk; simp only [attached_snoc]; exact hl k hk
            · intro k hk; simp only [attached_snoc]; exact hsl k hk
            · simp only [attached_snoc]; exact hsp
            · intro f' l'
              simp only [attached_snoc, setCel]
              by_cases heq : f' = f ∧ l' = l
              · obtain ⟨rfl, rfl⟩ := heq
                have := attachedSince_cel_none evs 0 f' l' hnot
                simp [attached, this]
              · have hne : Ev.cel f' l' ≠ Ev.cel f l := by
                  intro h; injection h with h1 h2; exact heq ⟨h1, h2⟩
                simp only [heq, if_false, List.mem_append, List.mem_singleton, hne, or_false]
                exact hc f' l'
            · intro f' l' hm
              simp only [List.mem_append, List.mem_singleton] at hm
              rcases hm with hm | hm
              · exact hcf f' l' hm
              · injection hm with h1 h2; subst h1; omega
            · exact tags_clause_keep (by intro n h; cases h) (by intro u h; cases h) htg
      · simp [hf] at hstep
  | userData u =>
      have hcount_l : (evs ++ [Ev.userData u]).countP Ev.isLayer = evs.countP Ev.isLayer :=
        countP_snoc_of_false _ _ rfl
      have hcount_s : (evs ++ [Ev.userData u]).countP Ev.isSlice = evs.countP Ev.isSlice :=
        countP_snoc_of_false _ _ rfl
      have hctx' : attachTarget (evs ++ [Ev.userData u]) (evs.length + 1) =
          (attachTarget evs evs.length).map bump := by
        rw [attachTarget_snoc]; simp [Ev.isCtx, Ev.isUD]
      have hlt' : lastTags (evs ++ [Ev.userData u]) = lastTags evs := by rw [lastTags_snoc]
      have hmem : ∀ f l, (Ev.cel f l ∈ evs ++ [Ev.userData u]) ↔ Ev.cel f l ∈ evs := by
        intro f l; simp
      cases ht : attachTarget evs evs.length with
      | none =>
          rw [ht] at hctx
          simp [absStep, hctx] at hstep
      | some t =>
          rw [ht] at hctx hctx'
          -- the tags clause for every target but a tag
          have htags_keep : ∀ tg : Option (List (Option UserData)), tg = s.tags →
              (∀ k, t ≠ .tag k) →
              match lastTags (evs ++ [Ev.userData u]) with
              | none => tg = none
              | some (j, n) => ∃ ts, tg = some ts ∧ ts.length = n ∧
                  ∀ k, k < n → ts[k]? = some (attachedSince (evs ++ [Ev.userData u]) j (.tag k)) := by
            intro tg htg' hnt
            subst htg'
            rw [hlt']
            cases hlt : lastTags evs with
            | none => rw [hlt] at htg; exact htg
            | some p =>
                obtain ⟨j, n⟩ := p
                rw [hlt] at htg
                obtain ⟨ts, h1, h2, h3⟩ := htg
                refine ⟨ts, h1, h2, ?_⟩
                intro k hk
                rw [attachedSince_snoc]
                have : ¬ (j ≤ evs.length ∧ attachTarget evs evs.length = some (.tag k)) := by
                  intro ⟨_, h⟩; rw [ht] at h; exact hnt k (by injection h)
                simp only [this, if_false]
                exact h3 k hk
          cases t with
          | layer i =>
              simp only [Option.map_some, toCtx] at hctx
              simp only [absStep, hctx, setSlot] at hstep
              by_cases hi : i < s.layers.length
              · simp only [hi, if_true, Res.ok.injEq] at hstep
                subst hstep
                refine ⟨?_, hnf, ?_, ?_, ?_, ?_, ?_, ?_, ?_, ?_⟩
                · rw [hlen, hctx']; simp [bump, toCtx]
                · simpa [hcount_l] using hnl
                · simpa [hcount_s] using hns
                · intro k hk
                  simp only [List.length_set] at hk
                  simp only [attached_snoc, ht, Option.some.injEq, Target.layer.injEq,
                    List.getElem?_set, hi, if_true]
                  by_cases hik : i = k
                  · simp [hik]
                  · simp only [hik, if_false]; exact hl k hk
                · intro k hk; simp only [attached_snoc, ht]; simpa using hsl k hk
                · simp only [attached_snoc, ht]; simpa using hsp
                · intro f l; simp only [attached_snoc, ht, hmem]; simpa using hc f l
                · intro f l hm; exact hcf f l ((hmem f l).1 hm)
                · exact htags_keep _ rfl (by intro k h; cases h)
              · simp [hi] at hstep
          | slice i =>
              simp only [Option.map_some, toCtx] at hctx
              simp only [absStep, hctx, setSlot] at hstep
              by_cases hi : i < s.slices.length
              · simp only [hi, if_true, Res.ok.injEq] at hstep
                subst hstep
                refine ⟨?_, hnf, ?_, ?_, ?_, ?_, ?_, ?_, ?_, ?_⟩
                · rw [hlen, hctx']; simp [bump, toCtx]
                · simpa [hcount_l] using hnl
                · simpa [hcount_s] using hns
                · intro k hk; simp only [attached_snoc, ht]; simpa using hl k hk
                · intro k hk
                  simp only [List.length_set] at hk
                  simp only [attached_snoc, ht, Option.some.injEq, Target.slice.injEq,
                    List.getElem?_set, hi, if_true]
                  by_cases hik : i = k
                  · simp [hik]
                  · simp only [hik, if_false]; exact hsl k hk
                · simp only [attached_snoc, ht]; simpa using hsp
                · intro f l; simp only [attached_snoc, ht, hmem]; simpa using hc f l
                · intro f l hm; exact hcf f l ((hmem f l).1 hm)
                · exact htags_keep _ rfl (by intro k h; cases h)
              · simp [hi] at hstep
          | sprite =>
              simp only [Option.map_some, toCtx] at hctx
              simp only [absStep, hctx, Res.ok.injEq] at hstep
              subst hstep
              refine ⟨?_, hnf, ?_, ?_, ?_, ?_, ?_, ?_, ?_, ?_⟩
              · rw [hlen, hctx']; simp [bump, toCtx]
              · simpa [hcount_l] using hnl
              · simpa [hcount_s] using hns
              · intro k hk; simp only [attached_snoc, ht]; simpa using hl k hk
              · intro k hk; simp only [attached_snoc, ht]; simpa using hsl k hk
              · simp [attached_snoc, ht]
              · intro f l; simp only [attached_snoc, ht, hmem]; simpa using hc f l
              · intro f l hm; exact hcf f l ((hmem f l).1 hm)
              · exact htags_keep _ rfl (by intro k h; cases h)
          | cel f l =>
              simp only [Option.map_some, toCtx] at hctx
              simp only [absStep, hctx] at hstep
              by_cases hf : f < s.nframes
              · simp only [hf, if_true] at hstep
                cases hcel : s.cels f l with
                | none => simp [hcel] at hstep
                | some x =>
                    simp only [hcel, Res.ok.injEq] at hstep
                    subst hstep
                    have hin : Ev.cel f l ∈ evs := target_cel_mem _ _ _ ht
                    refine ⟨?_, hnf, ?_, ?_, ?_, ?_, ?_, ?_, ?_, ?_⟩
                    · rw [hlen, hctx']; simp [bump, toCtx]
                    · simpa [hcount_l] using hnl
                    · simpa [hcount_s] using hns
                    · intro k hk; simp only [attached_snoc, ht]; simpa using hl k hk
                    · intro k hk; simp only [attached_snoc, ht]; simpa using hsl k hk
                    · simp only [attached_snoc, ht]; simpa using hsp
                    · intro f' l'
                      simp only [attached_snoc, ht, hmem, setCel, Option.some.injEq,
                        Target.cel.injEq]
                      by_cases heq : f' = f ∧ l' = l
                      · obtain ⟨rfl, rfl⟩ := heq
                        simp [hin]
                      · have heq' : ¬ (f = f' ∧ l = l') := by
                          intro ⟨h1, h2⟩; exact heq ⟨h1.symm, h2.symm⟩
                        simp only [heq, heq', if_false]
                        exact hc f' l'
                    · intro f' l' hm; exact hcf f' l' ((hmem f' l').1 hm)
                    · exact htags_keep _ rfl (by intro k h; cases h)
              · simp [hf] at hstep
          | tag i =>
              simp only [Option.map_some, toCtx] at hctx
              simp only [absStep, hctx] at hstep
              obtain ⟨j, n, hlt, _⟩ := target_tag_lastTags evs i ht
              have hj := lastTags_lt _ _ _ hlt
              rw [hlt] at htg
              obtain ⟨ts, h1, h2, h3⟩ := htg
              simp only [h1, setSlot] at hstep
              by_cases hi : i < ts.length
              · simp only [hi, if_true, Res.ok.injEq] at hstep
                subst hstep
                refine ⟨?_, hnf, ?_, ?_, ?_, ?_, ?_, ?_, ?_, ?_⟩
                · rw [hlen, hctx']; simp [bump, toCtx]
                · simpa [hcount_l] using hnl
                · simpa [hcount_s] using hns
                · intro k hk; simp only [attached_snoc, ht]; simpa using hl k hk
                · intro k hk; simp only [attached_snoc, ht]; simpa using hsl k hk
                · simp only [attached_snoc, ht]; simpa using hsp
                · intro f l; simp only [attached_snoc, ht, hmem]; simpa using hc f l
                · intro f l hm; exact hcf f l ((hmem f l).1 hm)
                · rw [hlt', hlt]
                  refine ⟨_, rfl, by simpa using h2, ?_⟩
                  intro k hk
                  rw [attachedSince_snoc]
                  simp only [ht, Option.some.injEq, Target.tag.injEq, List.getElem?_set, hi,
                    if_true]
                  by_cases hik : i = k
                  · have : j ≤ evs.length := by omega
                    simp [hik, this]
                  · simp only [hik, and_false, if_false]; exact h3 k hk
              · simp [hi] at hstep

/-- **the machine computes the spec**: whenever the run succeeds, the final state is described by
    `attachTarget` / `attached` -/
theorem inv_run (nf : Nat) : ∀ (evs : List Ev) (s : AState),
    absRun (AState.init nf) evs = .ok s → Inv nf evs s := by
  intro evs
  induction evs using snoc_induction with
  | nil =>
      intro s h
      simp only [absRun, Res.ok.injEq] at h
      subst h
      exact inv_init nf
  | snoc evs e ih =>
      intro s h
      obtain ⟨s1, h1, h2⟩ := absRun_snoc_ok h
      exact inv_step (ih s1 h1) h2

/-! ### the side conditions make the run succeed -/

theorem udAt_append {evs r : List Ev} {i : Nat} (h : i < evs.length) :
    udAt (evs ++ r) i = udAt evs i := by
  simp [udAt, List.getElem?_append_left h]

theorem celAt_append {evs r : List Ev} {i : Nat} (h : i < evs.length) :
    celAt (evs ++ r) i = celAt evs i := by
  simp [celAt, List.getElem?_append_left h]

theorem tagOK_append {evs r : List Ev} {i : Nat} (h : i ≤ evs.length) :
    tagOK (evs ++ r) i = tagOK evs i := by
  simp [tagOK, attachTarget_append h, tagLimit_append h]

theorem celFrameOK_append {nf : Nat} {evs r : List Ev} {i : Nat} (h : i < evs.length) :
    celFrameOK nf (evs ++ r) i = celFrameOK nf evs i := by
  simp [celFrameOK, celAt_append h]

theorem hasTarget_prefix {evs r : List Ev} (h : HasTarget (evs ++ r)) : HasTarget evs := by
  intro i hi hu
  have := h i (by simp; omega) (by rw [udAt_append hi]; exact hu)
  rwa [attachTarget_append (Nat.le_of_lt hi)] at this

theorem noDouble_prefix {evs r : List Ev} (h : NoDouble (evs ++ r)) : NoDouble evs := by
  intro i hi i' hi' hu hu' heq
  refine h i (by simp; omega) i' (by simp; omega) (by rw [udAt_append hi]; exact hu)
    (by rw [udAt_append hi']; exact hu') ?_
  rw [attachTarget_append (Nat.le_of_lt hi), attachTarget_append (Nat.le_of_lt hi')]
  exact heq

theorem tagsBounded_prefix {evs r : List Ev} (h : TagsBounded (evs ++ r)) : TagsBounded evs := by
  intro i hi hu
  have := h i (by simp; omega) (by rw [udAt_append hi]; exact hu)
  rwa [tagOK_append (Nat.le_of_lt hi)] at this

theorem celFramesOK_prefix {nf : Nat} {evs r : List Ev} (h : CelFramesOK nf (evs ++ r)) :
    CelFramesOK nf evs := by
  intro i hi
  have := h i (by simp; omega)
  rwa [celFrameOK_append hi] at this

theorem celsDistinct_prefix {evs r : List Ev} (h : CelsDistinct (evs ++ r)) : CelsDistinct evs := by
  intro i hi i' hi' hne heq
  refine h i (by simp; omega) i' (by simp; omega) (by rw [celAt_append hi]; exact hne) ?_
  rw [celAt_append hi, celAt_append hi']
  exact heq

theorem attachWF_prefix {nf : Nat} {evs r : List Ev} (h : AttachWF nf (evs ++ r)) :
    AttachWF nf evs :=
  ⟨hasTarget_prefix h.hasTarget, noDouble_prefix h.noDouble, tagsBounded_prefix h.tagsBounded,
    celFramesOK_prefix h.celFrames, celsDistinct_prefix h.celsDistinct⟩

/-- Under the side conditions (the "no entity twice" condition is not needed for this) the run
    of the abstract machine succeeds. -/
theorem run_ok (nf : Nat) : ∀ (evs : List Ev), HasTarget evs → TagsBounded evs →
    CelFramesOK nf evs → CelsDistinct evs → ∃ s, absRun (AState.init nf) evs = .ok s := by
  intro evs
  induction evs using snoc_induction with
  | nil => intro _ _ _ _; exact ⟨_, rfl⟩
  | snoc evs e ih =>
      intro hT hB hF hD
      obtain ⟨s, hs⟩ := ih (hasTarget_prefix hT) (tagsBounded_prefix hB) (celFramesOK_prefix hF)
        (celsDistinct_prefix hD)
      have hinv := inv_run nf evs s hs
      rw [absRun_snoc, hs]
      simp only [Res.bind_ok']
      have hlast : (evs ++ [e])[evs.length]? = some e := by simp
      have hlen : evs.length < (evs ++ [e]).length := by simp
      cases e with
      | layer => exact ⟨_, rfl⟩
      | slice => exact ⟨_, rfl⟩
      | tags n => exact ⟨_, rfl⟩
      | oldPalette => exact ⟨_, rfl⟩
      | other => exact ⟨_, rfl⟩
      | cel f l =>
          have hcl : celAt (evs ++ [Ev.cel f l]) evs.length = some (f, l) := by
            simp [celAt]
          have hf : f < nf := by
            have := hF evs.length hlen
            simpa [celFrameOK, hcl] using this
          have hnot : Ev.cel f l ∉ evs := by
            intro hm
            obtain ⟨i, hi, hget⟩ := List.getElem_of_mem hm
            have hci : celAt (evs ++ [Ev.cel f l]) i = some (f, l) := by
              rw [celAt_append hi]; simp [celAt, List.getElem?_eq_getElem hi, hget]
            have := hD i (by simp; omega) evs.length hlen (by simp [hci]) (by rw [hci, hcl])
            omega
          have hc := hinv.cels f l
          simp only [hnot, if_false] at hc
          simp [absStep, hinv.nframes, hf, hc]
      | userData u =>
          have hud : udAt (evs ++ [Ev.userData u]) evs.length = true := by
            simp [udAt, Ev.isUD]
          have hne := hT evs.length hlen hud
          rw [attachTarget_append (Nat.le_refl _)] at hne
          have hctx := hinv.ctx
          cases ht : attachTarget evs evs.length with
          | none => exact absurd ht hne
          | some t =>
              rw [ht] at hctx
              cases t with
              | layer i =>
                  have := target_layer_lt _ _ ht
                  simp [absStep, hctx, toCtx, setSlot, hinv.nlayers, this]
              | slice i =>
                  have := target_slice_lt _ _ ht
                  simp [absStep, hctx, toCtx, setSlot, hinv.nslices, this]
              | sprite => simp [absStep, hctx, toCtx]
              | cel f l =>
                  have hm := target_cel_mem _ _ _ ht
                  have hf := hinv.celFrames f l hm
                  have hc := hinv.cels f l
                  simp only [hm, if_true] at hc
                  simp [absStep, hctx, toCtx, hinv.nframes, hf, hc]
              | tag k =>
                  obtain ⟨j, n, hlt, hlim⟩ := target_tag_lastTags evs k ht
                  have htg := hinv.tags
                  rw [hlt] at htg
                  obtain ⟨ts, h1, h2, _⟩ := htg
                  have hok := hB evs.length hlen hud
                  rw [tagOK_append (Nat.le_refl _)] at hok
                  have hk : k < n := by simpa [tagOK, ht, hlim] using hok
                  simp [absStep, hctx, toCtx, h1, setSlot, h2, hk]

/-- **C10 at the level of the abstract machine**: for every event sequence satisfying the side
    conditions the run succeeds and the final state is the declarative attachment. -/
theorem run_spec {nf : Nat} {evs : List Ev} (h : AttachWF nf evs) :
    ∃ s, absRun (AState.init nf) evs = .ok s ∧ Inv nf evs s := by
  obtain ⟨s, hs⟩ := run_ok nf evs h.hasTarget h.tagsBounded h.celFrames h.celsDistinct
  exact ⟨s, hs, inv_run nf evs s hs⟩

end Ase.Proofs.C10
