import Ase.Render
import AseProofs.Props.C06
import AseProofs.Props.C09
import AseProofs.Props.C11
/-
  C05, part 1: the invariant `Valid` of a loaded sprite (everything the accessors and the
  renderer rely on), a partial-correctness calculus for results and readers (`ROk`, `Post`:
  "if a value is delivered it satisfies `Q`" — unlike `RSat`/`Sat` of C04 nothing is claimed
  about panics, so no hypothesis on the `inflate` parameter is needed), and small list/array
  helpers.

  Part 2 (`ValidDecode.lean`): size facts of the chunk decoders.
  Part 3 (`ValidParse.lean`): the state-machine invariant, the validation stage, `parse_valid`.
  Part 4 (`ValidRender.lean`): loop lemmas of the renderer.
-/
namespace Ase.Proofs.C05
open Ase

/-! ### sizes of pixel buffers -/

/-- number of pixels of a validated buffer -/
def pxSize : Pixels → Nat
  | .rgba px => px.size
  | .gray px => px.size
  | .indexed _ _ px => px.size

/-- number of pixels of an unvalidated buffer -/
def rawSize : RawPixels → Nat
  | .rgba px => px.size
  | .gray px => px.size
  | .indexed px => px.size

/-- indexed pixel data only uses indices present in the palette (which therefore exists) -/
def PixelsOk (pal : Option Palette) : Pixels → Prop
  | .indexed _ _ px => ∃ p, pal = some p ∧ ∀ i ∈ px, (p.color i.toNat).isSome
  | _ => True

/-! ### the invariant -/

/-- what the accessors rely on for one tileset -/
def TilesetOk (pal : Option Palette) (ts : Tileset Pixels) : Prop :=
  1 ≤ ts.tileW.toNat ∧ 1 ≤ ts.tileH.toNat ∧
  ∃ px, ts.pixels = some px ∧
    pxSize px = ts.tileCount.toNat * ts.tileW.toNat * ts.tileH.toNat ∧ PixelsOk pal px

/-- what the accessors rely on for the cel stored under key `k` of some frame -/
def CelOk (layers : Array LayerData) (tilesets : List (Nat × Tileset Pixels))
    (pal : Option Palette) (numFrames : Nat) (cels : Array (FrameCels Pixels))
    (k : Nat) (c : RawCel Pixels) : Prop :=
  c.data.layerIndex.toNat = k ∧ k < layers.size ∧
  match c.content with
  | .raw w h px => pxSize px = w.toNat * h.toNat ∧ PixelsOk pal px
  | .linked f =>
      f.toNat < numFrames ∧
      ∃ row t, cels[f.toNat]? = some row ∧ FrameCels.get? k row = some t ∧ t.content.isRaw = true
  | .tilemap t =>
      ∃ ld tsid ts, layers[k]? = some ld ∧ ld.layerType = .tilemap tsid ∧
        assocGet? tsid.toNat tilesets = some ts ∧
        t.tiles.size = t.width.toNat * t.height.toNat ∧
        ∀ id ∈ t.tiles, id.toNat < ts.tileCount.toNat

/-- **the invariant of a loaded sprite** -/
structure Valid (s : Sprite) : Prop where
  /-- one parent entry per layer -/
  parents_size : s.parents.size = s.layers.size
  /-- parents have lower ids than their children -/
  parents_lt : ∀ i p : Nat, s.parents[i]? = some (some p) → p < i
  /-- one cel row per frame -/
  cels_size : s.cels.size = s.numFrames.toNat
  /-- every cel of every row: key = `layerIndex`, existing layer, exact buffer sizes, palette
      indices present, link targets raw and existing, tilemap cels on tilemap layers with an
      existing tileset and tile ids below the tile count -/
  cel_ok : ∀ row ∈ s.cels, ∀ p ∈ row,
    CelOk s.layers s.tilesets s.palette s.numFrames.toNat s.cels p.1 p.2
  /-- every tileset has pixels, exactly `tileCount * tileW * tileH` of them, a non-zero tile
      size and only palette indices that exist -/
  tileset_ok : ∀ p ∈ s.tilesets, TilesetOk s.palette p.2
  /-- every tilemap layer names a tileset that exists -/
  layer_tileset : ∀ ld ∈ s.layers, ∀ tsid, ld.layerType = .tilemap tsid →
    (assocGet? tsid.toNat s.tilesets).isSome

/-! ### partial correctness of results and readers -/

/-- if the result is a value, the value satisfies `Q` -/
def ROk {α} (Q : α → Prop) (r : Res α) : Prop := ∀ a, r = .ok a → Q a

theorem ROk.bind {α β} {P : α → Prop} {Q : β → Prop} {x : Res α} {f : α → Res β}
    (hx : ROk P x) (hf : ∀ a, P a → ROk Q (f a)) : ROk Q (x >>= f) := by
  cases x with
  | ok a => exact hf a (hx a rfl)
  | err e => intro b h; cases h
  | panic s => intro b h; cases h

theorem ROk.bind_any {α β} {Q : β → Prop} {x : Res α} {f : α → Res β}
    (hf : ∀ a, x = .ok a → ROk Q (f a)) : ROk Q (x >>= f) := by
  cases x with
  | ok a => exact hf a rfl
  | err e => intro b h; cases h
  | panic s => intro b h; cases h

theorem ROk.map {α β} {Q : β → Prop} {x : Res α} (f : α → β)
    (hx : ROk (fun a => Q (f a)) x) : ROk Q (x.map f) := by
  cases x with
  | ok a => intro b h; cases h; exact hx a rfl
  | err e => intro b h; cases h
  | panic s => intro b h; cases h

theorem rok_ok {α} {Q : α → Prop} {a : α} (h : Q a) : ROk Q (.ok a) := by
  intro b hb; cases hb; exact h
theorem rok_pure {α} {Q : α → Prop} {a : α} (h : Q a) : ROk Q (pure a : Res α) := rok_ok h
theorem rok_err {α} {Q : α → Prop} (e : Err) : ROk Q (.err e : Res α) := by
  intro b hb; cases hb
theorem rok_panic {α} {Q : α → Prop} (s : Site) : ROk Q (.panic s : Res α) := by
  intro b hb; cases hb

/-- every value the reader delivers satisfies `Q` -/
def Post {σ α} (Q : α → Prop) (x : RdS σ α) : Prop := ∀ s a s', x s = .ok (a, s') → Q a

theorem Post_pure {σ α} {Q : α → Prop} {a : α} (h : Q a) : Post Q (pure a : RdS σ α) := by
  intro s b s' hb; cases hb; exact h

theorem Post_fail {σ α} {Q : α → Prop} (e : Err) : Post Q (RdS.fail e : RdS σ α) := by
  intro s b s' hb; cases hb

theorem Post_lift {σ α} {Q : α → Prop} {r : Res α} (h : ROk Q r) :
    Post Q (RdS.lift r : RdS σ α) := by
  intro s b s' hb
  cases r with
  | ok a => cases hb; exact h _ rfl
  | err e => cases hb
  | panic q => cases hb

theorem Post_bind {σ α β} {P : α → Prop} {Q : β → Prop} {x : RdS σ α} {f : α → RdS σ β}
    (hx : Post P x) (hf : ∀ a, P a → Post Q (f a)) : Post Q (x >>= f) := by
  intro s b s' hb
  rw [RdS.bind_run] at hb
  cases hxs : x s with
  | ok r =>
      obtain ⟨a, s1⟩ := r
      rw [hxs] at hb
      exact hf a (hx s a s1 hxs) s1 b s' hb
  | err e => rw [hxs] at hb; cases hb
  | panic q => rw [hxs] at hb; cases hb

theorem Post_bind_any {σ α β} {Q : β → Prop} {x : RdS σ α} {f : α → RdS σ β}
    (hf : ∀ a, Post Q (f a)) : Post Q (x >>= f) :=
  Post_bind (P := fun _ => True) (fun _ _ _ _ => trivial) (fun a _ => hf a)

theorem Post_true {σ α} (x : RdS σ α) : Post (fun _ => True) x := fun _ _ _ _ => trivial

/-- what `runChunk` returns satisfies the decoder's postcondition -/
theorem rok_runChunk {α} {Q : α → Prop} {p : Rd α} (hp : Post Q p) (data : Bytes) :
    ROk Q (runChunk p data) := by
  unfold runChunk
  intro a h
  cases hpd : p data with
  | ok r =>
      obtain ⟨a', s'⟩ := r
      rw [hpd] at h
      simp only [Res.map_ok, Res.ok.injEq] at h
      subst h
      exact hp data a' s' hpd
  | err e => rw [hpd] at h; cases h
  | panic q => rw [hpd] at h; cases h

/-! ### pointwise related lists -/

inductive All2 {α β} (R : α → β → Prop) : List α → List β → Prop
  | nil : All2 R [] []
  | cons {a b l l'} : R a b → All2 R l l' → All2 R (a :: l) (b :: l')

theorem All2.length_eq {α β} {R : α → β → Prop} {l : List α} {l' : List β} (h : All2 R l l') :
    l.length = l'.length := by
  induction h with
  | nil => rfl
  | cons _ _ ih => simp [ih]

theorem All2.mem_right {α β} {R : α → β → Prop} {l : List α} {l' : List β} (h : All2 R l l')
    {b : β} (hb : b ∈ l') : ∃ a ∈ l, R a b := by
  induction h with
  | nil => cases hb
  | cons hr _ ih =>
      rcases List.mem_cons.mp hb with rfl | hb'
      · exact ⟨_, List.mem_cons_self, hr⟩
      · obtain ⟨a, ha, hab⟩ := ih hb'
        exact ⟨a, List.mem_cons_of_mem _ ha, hab⟩

theorem All2.get_left {α β} {R : α → β → Prop} {l : List α} {l' : List β} (h : All2 R l l') :
    ∀ {i : Nat} {a : α}, l[i]? = some a → ∃ b, l'[i]? = some b ∧ R a b := by
  induction h with
  | nil => intro i a ha; simp at ha
  | cons hr _ ih =>
      intro i a ha
      cases i with
      | zero =>
          simp only [List.getElem?_cons_zero, Option.some.injEq] at ha
          subst ha
          exact ⟨_, by simp, hr⟩
      | succ i =>
          simp only [List.getElem?_cons_succ] at ha
          obtain ⟨b, hb, hab⟩ := ih ha
          exact ⟨b, by simpa using hb, hab⟩

/-! ### association lists and cel rows -/

theorem mem_of_assocGet? {α} {k : Nat} {l : List (Nat × α)} {v : α}
    (h : assocGet? k l = some v) : (k, v) ∈ l := by
  unfold assocGet? at h
  cases hf : l.find? (fun p => p.1 == k) with
  | none => rw [hf] at h; cases h
  | some p =>
      rw [hf] at h
      simp only [Option.map_some, Option.some.injEq] at h
      have hk := List.find?_some hf
      have hm := List.mem_of_find?_eq_some hf
      simp only [beq_iff_eq] at hk
      obtain ⟨k', v'⟩ := p
      simp only at hk h
      subst hk; subst h
      exact hm

theorem mem_assocInsert {α} {k : Nat} {v : α} {l : List (Nat × α)} {p : Nat × α}
    (h : p ∈ assocInsert k v l) : p = (k, v) ∨ p ∈ l := by
  unfold assocInsert at h
  rcases List.mem_cons.mp h with h | h
  · exact .inl h
  · exact .inr (List.mem_filter.mp h).1

theorem mem_of_frameGet? {P} {k : Nat} {row : FrameCels P} {c : RawCel P}
    (h : FrameCels.get? k row = some c) : (k, c) ∈ row :=
  mem_of_assocGet? (l := row) h

theorem mem_frameInsert {P} {k : Nat} {c : RawCel P} : ∀ {row : FrameCels P} {p : Nat × RawCel P},
    p ∈ FrameCels.insert k c row → p = (k, c) ∨ p ∈ row := by
  intro row
  induction row with
  | nil =>
      intro p h
      simp only [FrameCels.insert, List.mem_singleton] at h
      exact .inl h
  | cons hd tl ih =>
      intro p h
      obtain ⟨k', c'⟩ := hd
      simp only [FrameCels.insert] at h
      split at h
      · rcases List.mem_cons.mp h with h | h
        · exact .inl h
        · exact .inr h
      · rcases List.mem_cons.mp h with h | h
        · exact .inr (by rw [h]; exact List.mem_cons_self)
        · rcases ih h with h | h
          · exact .inl h
          · exact .inr (List.mem_cons_of_mem _ h)

theorem mem_frameModify {P} {k : Nat} {f : RawCel P → RawCel P} :
    ∀ {row : FrameCels P} {p : Nat × RawCel P},
    p ∈ FrameCels.modify k f row → p ∈ row ∨ ∃ c0, (p.1, c0) ∈ row ∧ p.2 = f c0 := by
  intro row
  induction row with
  | nil => intro p h; simp [FrameCels.modify] at h
  | cons hd tl ih =>
      intro p h
      obtain ⟨k', c'⟩ := hd
      simp only [FrameCels.modify] at h
      split at h
      · rcases List.mem_cons.mp h with h | h
        · subst h
          exact .inr ⟨c', List.mem_cons_self, rfl⟩
        · exact .inl (List.mem_cons_of_mem _ h)
      · rcases List.mem_cons.mp h with h | h
        · exact .inl (by rw [h]; exact List.mem_cons_self)
        · rcases ih h with h | ⟨c0, h0, h1⟩
          · exact .inl (List.mem_cons_of_mem _ h)
          · exact .inr ⟨c0, List.mem_cons_of_mem _ h0, h1⟩

/-! ### conversion of validated pixels -/

/-- validated pixels always convert, to exactly as many RGBA pixels -/
theorem pixelsToRgba_ok (pal : Option Palette) (px : Pixels) (h : PixelsOk pal px) :
    ∃ rgba, pixelsToRgba pal px = .ok rgba ∧ rgba.size = pxSize px := by
  cases px with
  | rgba px => exact ⟨px, rfl, rfl⟩
  | gray px => exact ⟨_, rfl, by simp [pxSize]⟩
  | indexed tci bg px =>
      obtain ⟨p, rfl, hall⟩ := h
      have hall' : ∀ i ∈ px.toList, (p.color i.toNat).isSome := by
        intro i hi; exact hall i (by simpa using hi)
      refine ⟨_, C06.indexed_conversion p tci bg px hall', ?_⟩
      simp only [pxSize, List.size_toArray]
      have : ∀ l : List UInt8, (∀ i ∈ l, (p.color i.toNat).isSome) →
          (l.filterMap (C06.indexedPixel p tci bg)).length = l.length := by
        intro l
        induction l with
        | nil => intro _; rfl
        | cons i t ih =>
            intro hl
            obtain ⟨e, he⟩ := Option.isSome_iff_exists.mp (hl i List.mem_cons_self)
            have : C06.indexedPixel p tci bg i = some
                ⟨e.rgba.r, e.rgba.g, e.rgba.b, if tci == i && !bg then 0 else e.rgba.a⟩ := by
              simp [C06.indexedPixel, he]
            rw [List.filterMap_cons_some this]
            simp [ih (fun j hj => hl j (List.mem_cons_of_mem _ hj))]
      rw [this _ hall']
      simp

end Ase.Proofs.C05
