import AseProofs.Lemmas.MoreRun
/-
  The cel table of the state machine `Spec.runFrames`: after a successful run, the cel stored
  under `(frame, layer)` is - up to the user data attached later - the cel item of that frame
  with that layer index; a frame has at most one cel item per layer; rows are sorted by layer.
-/
namespace Ase.Proofs.More
open Ase Ase.Proofs Ase.Proofs.WholeFile

/-! ### rows -/

def stripC {P : Type} (c : RawCel P) : RawCel P := { c with userData := none }

theorem get?_insert_self {P} (k : Nat) (c : RawCel P) : ∀ row : FrameCels P,
    FrameCels.get? k row = none → FrameCels.get? k (FrameCels.insert k c row) = some c := by
  intro row
  induction row with
  | nil => intro _; simp [FrameCels.insert, FrameCels.get?]
  | cons hd tl ih =>
      obtain ⟨k0, c0⟩ := hd
      intro h
      by_cases hlt : k < k0
      · simp [FrameCels.insert, FrameCels.get?, hlt]
      · simp only [FrameCels.insert, hlt, if_false]
        simp only [FrameCels.get?, List.find?] at ih h ⊢
        cases hk0 : (k0 == k) with
        | true => rw [hk0] at h; simp at h
        | false => rw [hk0] at h; exact ih h

theorem get?_modify {P} (k l : Nat) (g : RawCel P → RawCel P) : ∀ row : FrameCels P,
    FrameCels.get? l (FrameCels.modify k g row) =
      if l = k then (FrameCels.get? l row).map g else FrameCels.get? l row := by
  intro row
  induction row with
  | nil => simp [FrameCels.modify, FrameCels.get?]
  | cons hd tl ih =>
      obtain ⟨k0, c0⟩ := hd
      simp only [FrameCels.get?] at ih
      by_cases hk : k0 = k
      · subst hk
        simp only [FrameCels.modify, beq_self_eq_true, if_true, FrameCels.get?, List.find?_cons]
        by_cases hl : l = k0
        · subst hl
          simp
        · have hb' : (k0 == l) = false := by simp; omega
          simp [hb', hl]
      · have hb : (k0 == k) = false := by simpa using hk
        simp only [FrameCels.modify, hb, FrameCels.get?, List.find?_cons, Bool.false_eq_true,
          if_false]
        cases hb' : (k0 == l) with
        | true =>
            have : l ≠ k := by simp at hb'; omega
            simp [this]
        | false => exact ih

theorem modify_keys {P} (k : Nat) (g : RawCel P → RawCel P) : ∀ row : FrameCels P,
    (FrameCels.modify k g row).map (·.1) = row.map (·.1) := by
  intro row
  induction row with
  | nil => rfl
  | cons hd tl ih =>
      obtain ⟨k0, c0⟩ := hd
      simp only [FrameCels.modify]
      split
      · rfl
      · simp only [List.map_cons, ih]

theorem mem_insert {P} (k : Nat) (c : RawCel P) : ∀ (row : FrameCels P) (p : Nat × RawCel P),
    p ∈ FrameCels.insert k c row → p = (k, c) ∨ p ∈ row := by
  intro row
  induction row with
  | nil => intro p hp; simp [FrameCels.insert] at hp; exact .inl hp
  | cons hd tl ih =>
      obtain ⟨k0, c0⟩ := hd
      intro p hp
      simp only [FrameCels.insert] at hp
      split at hp
      · rcases List.mem_cons.mp hp with h | h
        · exact .inl h
        · exact .inr h
      · rcases List.mem_cons.mp hp with h | h
        · exact .inr (h ▸ List.mem_cons_self)
        · rcases ih p h with h' | h'
          · exact .inl h'
          · exact .inr (List.mem_cons_of_mem _ h')

/-- keys strictly increasing -/
def RowSorted {P} (row : FrameCels P) : Prop := row.Pairwise (fun a b => a.1 < b.1)

theorem insert_sorted {P} (k : Nat) (c : RawCel P) : ∀ row : FrameCels P,
    RowSorted row → FrameCels.get? k row = none → RowSorted (FrameCels.insert k c row) := by
  intro row
  induction row with
  | nil => intro _ _; simp [FrameCels.insert, RowSorted]
  | cons hd tl ih =>
      obtain ⟨k0, c0⟩ := hd
      intro hs hg
      have hs' := List.pairwise_cons.mp hs
      simp only [FrameCels.insert]
      split
      · rename_i hlt
        refine List.pairwise_cons.mpr ⟨?_, hs⟩
        intro p hp
        rcases List.mem_cons.mp hp with h | h
        · subst h; exact hlt
        · exact Nat.lt_trans hlt (hs'.1 p h)
      · rename_i hlt
        have hne : (k0 == k) = false := by
          cases hk0 : (k0 == k) with
          | true => simp [FrameCels.get?, List.find?, hk0] at hg
          | false => rfl
        have hg' : FrameCels.get? k tl = none := by
          simpa [FrameCels.get?, List.find?, hne] using hg
        refine List.pairwise_cons.mpr ⟨?_, ih hs'.2 hg'⟩
        intro p hp
        rcases mem_insert k c tl p hp with h | h
        · subst h
          have : k0 ≠ k := by simpa using hne
          show k0 < k
          omega
        · exact hs'.1 p h

theorem modify_sorted {P} (k : Nat) (g : RawCel P → RawCel P) (row : FrameCels P)
    (h : RowSorted row) : RowSorted (FrameCels.modify k g row) := by
  have hk := modify_keys k g row
  unfold RowSorted at h ⊢
  rw [← List.pairwise_map (f := fun p : Nat × RawCel P => p.1) (R := fun a b => a < b)] at h ⊢
  rw [hk]; exact h

/-! ### the cel table as a function -/

def celAt (pi : ParseInfo) (f l : Nat) : Option (RawCel RawPixels) :=
  (pi.cels[f]?).bind (FrameCels.get? l)

/-- the cel under `(f, l)` without its user data -/
def cv (pi : ParseInfo) (f l : Nat) : Option (RawCel RawPixels) := (celAt pi f l).map stripC

def RowsSorted (pi : ParseInfo) : Prop := ∀ row ∈ pi.cels, RowSorted row

theorem getElem?_set! {α} (a : Array α) (i j : Nat) (x y : α) (h : a[i]? = some x) :
    (a.set! i y)[j]? = if i = j then some y else a[j]? := by
  have hi : i < a.size := by
    rcases Nat.lt_or_ge i a.size with h' | h'
    · exact h'
    · simp [h'] at h
  simp only [Array.set!_eq_setIfInBounds, Array.getElem?_setIfInBounds]
  by_cases hij : i = j
  · subst hij; simp [hi]
  · simp [hij]

theorem mem_set! {α} (a : Array α) (i : Nat) (y : α) (z : α) (h : z ∈ a.set! i y) :
    z = y ∨ z ∈ a := by
  simp only [Array.set!_eq_setIfInBounds] at h
  rcases Array.mem_iff_getElem?.mp h with ⟨j, hj⟩
  rw [Array.getElem?_setIfInBounds] at hj
  split at hj
  · split at hj
    · left; exact (Option.some.inj hj).symm
    · cases hj
  · right; exact Array.mem_of_getElem? hj

theorem addCel_cels {pi pi' : ParseInfo} {frame : Nat} {c : RawCel RawPixels}
    (h : pi.addCel frame c = .ok pi') :
    celAt pi frame c.data.layerIndex.toNat = none ∧
    (∀ f l, celAt pi' f l =
      if f = frame ∧ l = c.data.layerIndex.toNat then some c else celAt pi f l) ∧
    pi'.cels.size = pi.cels.size ∧ (RowsSorted pi → RowsSorted pi') := by
  cases hrow : pi.cels[frame]? with
  | none => simp [ParseInfo.addCel, hrow] at h
  | some row =>
      rw [addCel_some pi frame c row hrow] at h
      split at h
      · cases h
      · rename_i hnone
        have hnone' : FrameCels.get? c.data.layerIndex.toNat row = none := by
          cases hg : FrameCels.get? c.data.layerIndex.toNat row with
          | none => rfl
          | some x => rw [hg] at hnone; simp at hnone
        cases h
        refine ⟨by simp [celAt, hrow, hnone'], ?_, by simp, ?_⟩
        · intro f l
          simp only [celAt]
          rw [getElem?_set! pi.cels frame f row _ hrow]
          by_cases hf : frame = f
          · subst hf
            simp only [if_true, Option.bind_some, hrow, true_and]
            by_cases hl : l = c.data.layerIndex.toNat
            · subst hl
              simp [get?_insert_self _ c row hnone']
            · simp only [hl, if_false]
              exact get?_insert_ne l _ c hl row
          · have hf' : ¬ f = frame := fun e => hf e.symm
            simp [hf, hf']
        · intro hs r hr
          rcases mem_set! _ _ _ _ hr with h1 | h1
          · subst h1
            exact insert_sorted _ c row (hs row (Array.mem_of_getElem? hrow)) hnone'
          · exact hs r h1

theorem addUserData_cels {pi pi' : ParseInfo} {u : UserData} (h : pi.addUserData u = .ok pi') :
    (∀ f l, cv pi' f l = cv pi f l) ∧ pi'.cels.size = pi.cels.size ∧
    (RowsSorted pi → RowsSorted pi') := by
  unfold ParseInfo.addUserData at h
  split at h
  · cases h
  · -- cel
    rename_i f0 l0 _
    split at h
    · cases h
    · rename_i row hrow
      split at h
      · cases h
      · cases h
        refine ⟨?_, by simp, ?_⟩
        · intro f l
          simp only [cv, celAt]
          rw [getElem?_set! pi.cels f0 f row _ hrow]
          by_cases hf : f0 = f
          · subst hf
            simp only [if_true, Option.bind_some, hrow, get?_modify]
            split
            · rw [Option.map_map]; rfl
            · rfl
          · simp [hf]
        · intro hs r hr
          rcases mem_set! _ _ _ _ hr with h1 | h1
          · subst h1
            exact modify_sorted _ _ row (hs row (Array.mem_of_getElem? hrow))
          · exact hs r h1
  · split at h
    · cases h
    · cases h; exact ⟨fun _ _ => rfl, rfl, id⟩
  · cases h; exact ⟨fun _ _ => rfl, rfl, id⟩
  · split at h
    · cases h
    · split at h
      · cases h
      · cases h; exact ⟨fun _ _ => rfl, rfl, id⟩
  · split at h
    · cases h
    · cases h; exact ⟨fun _ _ => rfl, rfl, id⟩

/-! ### one item, one frame, all frames -/

def celItem? : Spec.SItem → Option (RawCel RawPixels)
  | .cel c => some c
  | _ => none

/-- the cel items of a list of items, in order -/
def celItems (its : List Spec.SItem) : List (RawCel RawPixels) := its.filterMap celItem?

/-- the (first) cel item for layer `l` among the items -/
def findCel (its : List Spec.SItem) (l : Nat) : Option (RawCel RawPixels) :=
  (celItems its).find? (fun c => c.data.layerIndex.toNat == l)

/-- the layer indices of the cel items -/
def celLayers (its : List Spec.SItem) : List Nat := (celItems its).map (·.data.layerIndex.toNat)

/-- items other than cels and user data do not touch the cel table -/
theorem stepSem_cels_other {frame : Nat} {pi pi' : ParseInfo} {it : Spec.SItem}
    (h : Spec.stepSem frame pi it = .ok pi') (hc : celItem? it = none) :
    (∀ f l, cv pi' f l = cv pi f l) ∧ pi'.cels.size = pi.cels.size ∧
    (RowsSorted pi → RowsSorted pi') := by
  cases it with
  | cel c => cases hc
  | userData u => exact addUserData_cels h
  | tags ts =>
      simp only [Spec.stepSem] at h
      split at h <;> cases h <;> exact ⟨fun _ _ => rfl, rfl, id⟩
  | oldPalette p =>
      simp only [Spec.stepSem] at h
      split at h <;> cases h <;> exact ⟨fun _ _ => rfl, rfl, id⟩
  | _ => cases h; exact ⟨fun _ _ => rfl, rfl, id⟩

theorem findCel_cons_cel (c : RawCel RawPixels) (rest : List Spec.SItem) (l : Nat) :
    findCel (.cel c :: rest) l =
      if c.data.layerIndex.toNat = l then some c else findCel rest l := by
  simp only [findCel, celItems, List.filterMap_cons, celItem?, List.find?_cons]
  by_cases h : c.data.layerIndex.toNat = l
  · simp [h]
  · have : (c.data.layerIndex.toNat == l) = false := by simpa using h
    simp [this, h]

theorem findCel_cons_other (it : Spec.SItem) (rest : List Spec.SItem) (l : Nat)
    (hc : celItem? it = none) : findCel (it :: rest) l = findCel rest l := by
  simp only [findCel, celItems, List.filterMap_cons, hc]

theorem celLayers_cons_cel (c : RawCel RawPixels) (rest : List Spec.SItem) :
    celLayers (.cel c :: rest) = c.data.layerIndex.toNat :: celLayers rest := by
  simp [celLayers, celItems, celItem?]

theorem celLayers_cons_other (it : Spec.SItem) (rest : List Spec.SItem)
    (hc : celItem? it = none) : celLayers (it :: rest) = celLayers rest := by
  simp only [celLayers, celItems, List.filterMap_cons, hc]

theorem findCel_none_not_mem {its : List Spec.SItem} {l : Nat} (h : findCel its l = none) :
    l ∉ celLayers its := by
  intro hm
  simp only [celLayers, List.mem_map] at hm
  obtain ⟨c, hc, hl⟩ := hm
  simp only [findCel, List.find?_eq_none] at h
  exact h c hc (by simp [hl])

/-- **one frame**: afterwards cell `(frame, l)` holds the cel item for layer `l` if there is one
    (there is at most one, and none for a cell that was occupied), every other cell is unchanged
    — up to user data -/
theorem runItems_cels (frame : Nat) (its : List Spec.SItem) : ∀ {pi pi' : ParseInfo},
    Spec.runItems frame pi its = .ok pi' →
    (∀ f l, cv pi' f l =
      (if f = frame then (findCel its l).map stripC else none).or (cv pi f l)) ∧
    (∀ l, cv pi frame l ≠ none → findCel its l = none) ∧
    (celLayers its).Nodup := by
  induction its with
  | nil =>
      intro pi pi' h
      cases h
      refine ⟨fun f l => ?_, fun _ _ => rfl, List.nodup_nil⟩
      simp [findCel, celItems]
  | cons it rest ih =>
      intro pi pi' h
      simp only [Spec.runItems] at h
      cases hs : Spec.stepSem frame pi it with
      | err e => rw [hs] at h; cases h
      | panic s => rw [hs] at h; cases h
      | ok q =>
          rw [hs] at h
          obtain ⟨ha, hb, hc⟩ := ih h
          cases hit : celItem? it with
          | none =>
              obtain ⟨hcv, _, _⟩ := stepSem_cels_other hs hit
              refine ⟨?_, ?_, ?_⟩
              · intro f l
                rw [ha, hcv, findCel_cons_other it rest l hit]
              · intro l hl
                rw [findCel_cons_other it rest l hit]
                exact hb l (by rw [hcv]; exact hl)
              · rw [celLayers_cons_other it rest hit]; exact hc
          | some c =>
              have hitc : it = .cel c := by
                cases it <;> simp [celItem?] at hit
                subst hit; rfl
              subst hitc
              obtain ⟨hfree, hset, _, _⟩ := addCel_cels (show pi.addCel frame c = .ok q from hs)
              have hq : ∀ f l, cv q f l =
                  if f = frame ∧ l = c.data.layerIndex.toNat then some (stripC c) else cv pi f l := by
                intro f l
                simp only [cv, hset f l]
                split <;> rfl
              have hrest : findCel rest c.data.layerIndex.toNat = none := by
                apply hb
                rw [hq]; simp
              refine ⟨?_, ?_, ?_⟩
              · intro f l
                rw [ha, hq, findCel_cons_cel]
                by_cases hf : f = frame
                · by_cases hl : l = c.data.layerIndex.toNat
                  · subst hl
                    simp [hf, hrest]
                  · have hl' : ¬ c.data.layerIndex.toNat = l := fun e => hl e.symm
                    simp [hf, hl, hl']
                · simp [hf]
              · intro l hl
                have hne : l ≠ c.data.layerIndex.toNat := by
                  intro e
                  subst e
                  apply hl
                  simp [cv, hfree]
                rw [findCel_cons_cel, if_neg (fun e => hne e.symm)]
                apply hb
                rw [hq]
                simp only [hne, and_false, if_false]
                exact hl
              · rw [celLayers_cons_cel]
                exact List.nodup_cons.mpr ⟨findCel_none_not_mem hrest, hc⟩

/-- the items of the `j`-th frame of the list (none beyond the end) -/
def itemsAt (frames : List (UInt16 × List Spec.SItem)) (j : Nat) : List Spec.SItem :=
  ((frames[j]?).map (·.2)).getD []

theorem cv_setFT (ft : Array UInt16) (pi : ParseInfo) (f l : Nat) : cv (setFT ft pi) f l = cv pi f l :=
  rfl

/-- **all frames** -/
theorem runFrames_cels (frames : List (UInt16 × List Spec.SItem)) :
    ∀ {k : Nat} {pi pi' : ParseInfo}, Spec.runFrames k pi frames = .ok pi' →
    (∀ f l, cv pi' f l =
      (if k ≤ f then (findCel (itemsAt frames (f - k)) l).map stripC else none).or (cv pi f l)) ∧
    ∀ j, (celLayers (itemsAt frames j)).Nodup := by
  induction frames with
  | nil =>
      intro k pi pi' h
      cases h
      refine ⟨fun f l => ?_, fun j => ?_⟩
      · simp [itemsAt, findCel, celItems]
      · simp [itemsAt, celLayers, celItems]
  | cons fr t ih =>
      intro k pi pi' h
      obtain ⟨d, its⟩ := fr
      simp only [Spec.runFrames] at h
      cases hs : Spec.runFrame k d pi its with
      | err e => rw [hs] at h; cases h
      | panic s => rw [hs] at h; cases h
      | ok q =>
          rw [hs] at h
          obtain ⟨q0, hq0, rfl⟩ := runFrame_ok hs
          obtain ⟨ha, _, hc⟩ := runItems_cels k its hq0
          obtain ⟨hA, hC⟩ := ih h
          refine ⟨?_, ?_⟩
          · intro f l
            rw [hA, cv_setFT, ha]
            rcases Nat.lt_trichotomy f k with hlt | heq | hgt
            · have h1 : ¬ k + 1 ≤ f := by omega
              have h2 : ¬ k ≤ f := by omega
              have h3 : ¬ f = k := by omega
              simp [h1, h2, h3]
            · subst heq
              have h1 : ¬ f + 1 ≤ f := by omega
              simp [h1, itemsAt]
            · have h1 : k + 1 ≤ f := by omega
              have h2 : k ≤ f := by omega
              have h3 : ¬ f = k := by omega
              have h4 : f - k = (f - (k + 1)) + 1 := by omega
              simp [h1, h2, h3, h4, itemsAt]
          · intro j
            cases j with
            | zero => simpa [itemsAt] using hc
            | succ j => simpa [itemsAt] using hC j

/-! ### invariants carried through a run -/

theorem runFrames_inv (P : ParseInfo → Prop)
    (hstep : ∀ frame pi pi' it, Spec.stepSem frame pi it = .ok pi' → P pi → P pi')
    (hft : ∀ ft pi, P pi → P (setFT ft pi))
    (frames : List (UInt16 × List Spec.SItem)) : ∀ {k : Nat} {pi pi' : ParseInfo},
    Spec.runFrames k pi frames = .ok pi' → P pi → P pi' := by
  have hitems : ∀ (frame : Nat) (its : List Spec.SItem) {pi pi' : ParseInfo},
      Spec.runItems frame pi its = .ok pi' → P pi → P pi' := by
    intro frame its
    induction its with
    | nil => intro pi pi' h hp; cases h; exact hp
    | cons it rest ih =>
        intro pi pi' h hp
        simp only [Spec.runItems] at h
        cases hs : Spec.stepSem frame pi it with
        | ok q => rw [hs] at h; exact ih h (hstep frame pi q it hs hp)
        | err e => rw [hs] at h; cases h
        | panic s => rw [hs] at h; cases h
  induction frames with
  | nil => intro k pi pi' h hp; cases h; exact hp
  | cons f t ih =>
      intro k pi pi' h hp
      obtain ⟨d, its⟩ := f
      simp only [Spec.runFrames] at h
      cases hs : Spec.runFrame k d pi its with
      | ok q =>
          rw [hs] at h
          obtain ⟨q0, hq0, rfl⟩ := runFrame_ok hs
          exact ih h (hft _ _ (hitems k its hq0 hp))
      | err e => rw [hs] at h; cases h
      | panic s => rw [hs] at h; cases h

theorem stepSem_cels_inv {frame : Nat} {pi pi' : ParseInfo} {it : Spec.SItem}
    (h : Spec.stepSem frame pi it = .ok pi') :
    pi'.cels.size = pi.cels.size ∧ (RowsSorted pi → RowsSorted pi') := by
  cases hit : celItem? it with
  | none => exact (stepSem_cels_other h hit).2
  | some c =>
      have hitc : it = .cel c := by
        cases it <;> simp [celItem?] at hit
        subst hit; rfl
      subst hitc
      exact (addCel_cels (show pi.addCel frame c = .ok pi' from h)).2.2

theorem runFrames_rowsSorted (frames : List (UInt16 × List Spec.SItem)) {k : Nat}
    {pi pi' : ParseInfo} (h : Spec.runFrames k pi frames = .ok pi') (hs : RowsSorted pi) :
    RowsSorted pi' :=
  runFrames_inv RowsSorted (fun _ _ _ _ h hp => (stepSem_cels_inv h).2 hp) (fun _ _ hp => hp)
    frames h hs

theorem runFrames_cels_size (frames : List (UInt16 × List Spec.SItem)) {k : Nat}
    {pi pi' : ParseInfo} (h : Spec.runFrames k pi frames = .ok pi') :
    pi'.cels.size = pi.cels.size :=
  runFrames_inv (fun q => q.cels.size = pi.cels.size)
    (fun _ _ _ _ h hp => by rw [(stepSem_cels_inv h).1]; exact hp) (fun _ _ hp => hp) frames h rfl

theorem new_rowsSorted (n : Nat) (t : UInt16) : RowsSorted (ParseInfo.new n t) := by
  intro row hrow
  simp only [ParseInfo.new, Array.mem_replicate] at hrow
  rw [hrow.2]
  exact List.Pairwise.nil

theorem cv_new (n : Nat) (t : UInt16) (f l : Nat) : cv (ParseInfo.new n t) f l = none := by
  simp only [cv, celAt, ParseInfo.new]
  by_cases hf : f < n
  · simp [hf, FrameCels.get?]
  · simp [hf]

end Ase.Proofs.More
