import AseProofs.Lemmas.ValidParse
import AseProofs.Props.C01Whole
/-
  What the validation stage (`validate`) does to the tables it does not merely copy: the cel
  rows and the tilesets.  Shared by `C10Sprite` (user data survives validation) and `C01More`
  (cels / tilesets of the loaded sprite).
-/
namespace Ase.Proofs.More
open Ase Ase.Proofs Ase.Proofs.C05

/-! ### the stages of `validate` -/

theorem validate_parts {h : Header} {fmt : PixelFormat} {pi : ParseInfo} {s : Sprite}
    (hv : validate h fmt pi = .ok s) :
    ∃ tilesets rows,
      validateTilesets pi.palette fmt pi.tilesets = .ok tilesets ∧
      validateLayers tilesets pi.layers = true ∧
      validateRows pi.layers tilesets pi.palette fmt h.numFrames.toNat pi.cels pi.cels.toList
        = .ok rows ∧
      s.tilesets = tilesets ∧ s.cels = rows.toArray := by
  unfold validate at hv
  obtain ⟨parents, _, hv⟩ := C01.Res.bind_eq_ok hv
  obtain ⟨tilesets, hts, hv⟩ := C01.Res.bind_eq_ok hv
  split at hv
  · cases hv
  · rename_i hlay
    obtain ⟨rows, hrows, hv⟩ := C01.Res.bind_eq_ok hv
    cases hv
    refine ⟨tilesets, rows, hts, ?_, hrows, rfl, rfl⟩
    cases hh : validateLayers tilesets pi.layers <;> simp_all

/-! ### pointwise related lists: lookups -/

theorem All2.getElem?_rel {α β} {R : α → β → Prop} {l : List α} {l' : List β}
    (h : All2 R l l') (i : Nat) :
    (l[i]? = none ∧ l'[i]? = none) ∨ ∃ a b, l[i]? = some a ∧ l'[i]? = some b ∧ R a b := by
  cases ha : l[i]? with
  | none =>
      left
      refine ⟨rfl, ?_⟩
      rw [List.getElem?_eq_none_iff] at ha ⊢
      rw [← h.length_eq]; exact ha
  | some a =>
      right
      obtain ⟨b, hb, hab⟩ := h.get_left ha
      exact ⟨a, b, rfl, hb, hab⟩

/-- lookups in two rows related entry by entry (same keys) -/
theorem frameGet?_all2 {P Q : Type} {R : Nat → RawCel P → RawCel Q → Prop}
    {row : FrameCels P} {row' : FrameCels Q}
    (h : All2 (fun p p' => p'.1 = p.1 ∧ R p.1 p.2 p'.2) row row') (k : Nat) :
    (FrameCels.get? k row = none ∧ FrameCels.get? k row' = none) ∨
      ∃ c c', FrameCels.get? k row = some c ∧ FrameCels.get? k row' = some c' ∧ R k c c' := by
  induction h with
  | nil => left; exact ⟨rfl, rfl⟩
  | @cons a b l l' hr _ ih =>
      obtain ⟨ka, ca⟩ := a
      obtain ⟨kb, cb⟩ := b
      obtain ⟨hk, hR⟩ := hr
      simp only at hk hR
      subst hk
      unfold FrameCels.get? at ih ⊢
      by_cases hkk : kb = k
      · subst hkk
        right
        exact ⟨ca, cb, by simp, by simp, hR⟩
      · have hb : (kb == k) = false := by simpa using hkk
        simp only [List.find?_cons, hb]
        exact ih

/-- the keys of a validated row are the keys of the row, in the same order -/
theorem rowRel_keys {layers tilesets pal fmt numFrames cels} {row : FrameCels RawPixels}
    {row' : FrameCels Pixels} (h : RowRel layers tilesets pal fmt numFrames cels row row') :
    row'.map (·.1) = row.map (·.1) := by
  induction h with
  | nil => rfl
  | cons hr _ ih => simp only [List.map_cons, ih, hr.1]

/-! ### what `RawCel::validate` keeps -/

/-- the content of a cel without its pixel buffer -/
inductive CelShape where
  | raw (w h : UInt16)
  | linked (frame : UInt16)
  | tilemap (t : TilemapData)

def celShape {P : Type} : CelContent P → CelShape
  | .raw w h _ => .raw w h
  | .linked f => .linked f
  | .tilemap t => .tilemap t

/-- the pixel buffer of a raw cel, if it is one -/
def celPixels? {P : Type} : CelContent P → Option P
  | .raw _ _ px => some px
  | _ => none

/-- **validation of a cel** keeps position, opacity, layer index, the attached user data and
    the kind / size / link target / tile ids of the content; a raw cel's pixels are the
    validated pixels (background flag of its layer) -/
theorem validateCel_keeps {layers : Array LayerData} {tilesets : List (Nat × Tileset Pixels)}
    {pal : Option Palette} {fmt : PixelFormat} {numFrames : Nat}
    {cels : Array (FrameCels RawPixels)} {k : Nat} {c : RawCel RawPixels} {c' : RawCel Pixels}
    (h : validateCel layers tilesets pal fmt numFrames cels k c = .ok c') :
    c'.data = c.data ∧ c'.userData = c.userData ∧ celShape c'.content = celShape c.content ∧
    (∀ px, celPixels? c.content = some px → ∃ ld px', layers[k]? = some ld ∧
      validatePixels pal fmt ld.isBackground px = .ok px' ∧ celPixels? c'.content = some px') := by
  unfold validateCel at h
  cases hl : layers[k]? with
  | none => simp only [hl] at h; cases h
  | some ld =>
      simp only [hl] at h
      obtain ⟨data, content, ud⟩ := c
      cases content with
      | raw w hh px =>
          simp only at h
          cases hp : validatePixels pal fmt ld.isBackground px with
          | ok px' =>
              rw [hp] at h
              cases h
              refine ⟨rfl, rfl, rfl, ?_⟩
              intro px0 hpx0
              cases hpx0
              exact ⟨ld, px', rfl, hp, rfl⟩
          | err e => rw [hp] at h; cases h
          | panic q => rw [hp] at h; cases h
      | linked f =>
          simp only at h
          split at h
          · cases h
            exact ⟨rfl, rfl, rfl, fun px hpx => by cases hpx⟩
          · cases h
      | tilemap t =>
          simp only at h
          cases hlt : ld.layerType with
          | image => simp [hlt] at h
          | group => simp [hlt] at h
          | tilemap tsid =>
              rw [hlt] at h
              simp only at h
              cases hg : assocGet? tsid.toNat tilesets with
              | none =>
                  simp only [hg] at h
                  split at h
                  · cases h
                    exact ⟨rfl, rfl, rfl, fun px hpx => by cases hpx⟩
                  · cases h
              | some ts =>
                  simp only [hg] at h
                  split at h
                  · cases h
                    exact ⟨rfl, rfl, rfl, fun px hpx => by cases hpx⟩
                  · cases h

/-! ### what `TilesetsById::validate` keeps -/

/-- the header fields of a tileset (everything but the pixels) -/
def tilesetHead {P : Type} (t : Tileset P) : Tileset Unit :=
  { id := t.id, emptyTileIsZero := t.emptyTileIsZero, tileCount := t.tileCount, tileW := t.tileW,
    tileH := t.tileH, baseIndex := t.baseIndex, name := t.name, extFile := t.extFile,
    pixels := none }

/-- `t'` is the validated form of `t` -/
def TilesetRel (pal : Option Palette) (fmt : PixelFormat) (t : Tileset RawPixels)
    (t' : Tileset Pixels) : Prop :=
  tilesetHead t' = tilesetHead t ∧
    ∃ raw px, t.pixels = some raw ∧ validatePixels pal fmt false raw = .ok px ∧
      t'.pixels = some px

theorem validateTilesets_rel (pal : Option Palette) (fmt : PixelFormat) :
    ∀ (l : List (Nat × Tileset RawPixels)) (l' : List (Nat × Tileset Pixels)),
      validateTilesets pal fmt l = .ok l' →
      All2 (fun p p' => p'.1 = p.1 ∧ TilesetRel pal fmt p.2 p'.2) l l' := by
  intro l
  induction l with
  | nil =>
      intro l' h
      simp only [validateTilesets, Res.ok.injEq] at h
      subst h
      exact All2.nil
  | cons hd tl ih =>
      intro l' h
      obtain ⟨k, t⟩ := hd
      unfold validateTilesets at h
      split at h
      · cases h
      · rename_i raw hraw
        split at h
        · rename_i px hpx
          cases hrest : validateTilesets pal fmt tl with
          | ok r =>
              rw [hrest] at h
              simp only [Res.map_ok, Res.ok.injEq] at h
              subst h
              exact All2.cons ⟨rfl, rfl, raw, px, hraw, hpx, rfl⟩ (ih r hrest)
          | err e => rw [hrest] at h; cases h
          | panic s => rw [hrest] at h; cases h
        · cases h
        · cases h

/-- lookups in two id-keyed maps related entry by entry -/
theorem assocGet?_all2 {α β : Type} {R : α → β → Prop} {l : List (Nat × α)} {l' : List (Nat × β)}
    (h : All2 (fun p p' => p'.1 = p.1 ∧ R p.2 p'.2) l l') (k : Nat) :
    (assocGet? k l = none ∧ assocGet? k l' = none) ∨
      ∃ a b, assocGet? k l = some a ∧ assocGet? k l' = some b ∧ R a b := by
  induction h with
  | nil => left; exact ⟨rfl, rfl⟩
  | @cons a b l l' hr _ ih =>
      obtain ⟨ka, ca⟩ := a
      obtain ⟨kb, cb⟩ := b
      obtain ⟨hk, hR⟩ := hr
      simp only at hk hR
      subst hk
      unfold assocGet? at ih ⊢
      by_cases hkk : kb = k
      · subst hkk
        right
        exact ⟨ca, cb, by simp, by simp, hR⟩
      · have hb : (kb == k) = false := by simpa using hkk
        simp only [List.find?_cons, hb]
        exact ih

/-! ### the loaded sprite's cel table against the parser's -/

/-- **cels survive validation**: the sprite has a cel at `(f, l)` exactly when the parser state
    has one, and it is the validated form of that cel -/
theorem validate_cel {h : Header} {fmt : PixelFormat} {pi : ParseInfo} {s : Sprite}
    (hv : validate h fmt pi = .ok s) (f l : Nat) :
    ((pi.cels[f]?).bind (FrameCels.get? l) = none ∧
      (s.cels[f]?).bind (FrameCels.get? l) = none) ∨
    ∃ c c', (pi.cels[f]?).bind (FrameCels.get? l) = some c ∧
      (s.cels[f]?).bind (FrameCels.get? l) = some c' ∧ l < pi.layers.size ∧
      validateCel pi.layers s.tilesets pi.palette fmt h.numFrames.toNat pi.cels l c = .ok c' := by
  obtain ⟨tilesets, rows, _, _, hrows, hts, hcels⟩ := validate_parts hv
  have hrel := validateRows_rel _ _ _ _ _ _ _ _ hrows
  rw [hcels, hts]
  have e1 : pi.cels[f]? = pi.cels.toList[f]? := by simp
  have e2 : (rows.toArray)[f]? = rows[f]? := by simp
  rw [e1, e2]
  rcases All2.getElem?_rel hrel f with ⟨h1, h2⟩ | ⟨row, row', h1, h2, hrr⟩
  · left; rw [h1, h2]; exact ⟨rfl, rfl⟩
  · rw [h1, h2]
    simp only [Option.bind_some]
    rcases frameGet?_all2 (R := fun k c c' => k < pi.layers.size ∧
        validateCel pi.layers tilesets pi.palette fmt h.numFrames.toNat pi.cels k c = .ok c')
        hrr l with ⟨g1, g2⟩ | ⟨c, c', g1, g2, hlt, hval⟩
    · left; exact ⟨g1, g2⟩
    · right; exact ⟨c, c', g1, g2, hlt, hval⟩

/-- the number of rows is unchanged -/
theorem validate_cels_size {h : Header} {fmt : PixelFormat} {pi : ParseInfo} {s : Sprite}
    (hv : validate h fmt pi = .ok s) : s.cels.size = pi.cels.size := by
  obtain ⟨tilesets, rows, _, _, hrows, _, hcels⟩ := validate_parts hv
  have hrel := validateRows_rel _ _ _ _ _ _ _ _ hrows
  rw [hcels]
  simp only [List.size_toArray]
  rw [← hrel.length_eq]
  simp

/-- row `f` of the sprite has the keys of row `f` of the parser state, in the same order -/
theorem validate_row_keys {h : Header} {fmt : PixelFormat} {pi : ParseInfo} {s : Sprite}
    (hv : validate h fmt pi = .ok s) (f : Nat) :
    (s.cels[f]?).map (·.map (·.1)) = (pi.cels[f]?).map (·.map (·.1)) := by
  obtain ⟨tilesets, rows, _, _, hrows, _, hcels⟩ := validate_parts hv
  have hrel := validateRows_rel _ _ _ _ _ _ _ _ hrows
  rw [hcels]
  have e1 : pi.cels[f]? = pi.cels.toList[f]? := by simp
  have e2 : (rows.toArray)[f]? = rows[f]? := by simp
  rw [e1, e2]
  rcases All2.getElem?_rel hrel f with ⟨h1, h2⟩ | ⟨row, row', h1, h2, hrr⟩
  · rw [h1, h2]; rfl
  · rw [h1, h2]
    simp only [Option.map_some, Option.some.injEq]
    exact rowRel_keys hrr

/-- **tilesets survive validation**: same ids, header fields unchanged, pixels validated -/
theorem validate_tileset {h : Header} {fmt : PixelFormat} {pi : ParseInfo} {s : Sprite}
    (hv : validate h fmt pi = .ok s) (id : Nat) :
    (assocGet? id pi.tilesets = none ∧ assocGet? id s.tilesets = none) ∨
    ∃ t t', assocGet? id pi.tilesets = some t ∧ assocGet? id s.tilesets = some t' ∧
      TilesetRel pi.palette fmt t t' := by
  obtain ⟨tilesets, rows, hts, _, _, hst, _⟩ := validate_parts hv
  rw [hst]
  exact assocGet?_all2 (validateTilesets_rel _ _ _ _ hts) id

end Ase.Proofs.More
