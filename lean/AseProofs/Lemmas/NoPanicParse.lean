import AseProofs.Lemmas.NoPanicChunks
import AseProofs.Props.C09
/-
  Panic-freedom of the framing layer, of the `ParseInfo` state machine (under the invariant
  `CtxInv`: a cel user-data context always names an existing frame), of the validation stage
  and of `parseFile` (used by C04).
-/
namespace Ase.Proofs.C04
open Ase

/-! ### framing -/

section framing
variable {σ : Type} {S : Src σ}

theorem NP_readChunk (hS : SrcNP S) (avail : Int) : NP (readChunk S avail) := by
  unfold readChunk; np_auto

theorem NP_readChunks (hS : SrcNP S) : ∀ n avail, NP (readChunks S n avail) := by
  intro n
  induction n with
  | zero => intro avail; unfold readChunks; np_auto
  | succ n ih =>
      intro avail
      unfold readChunks
      apply NP_bind (NP_readChunk hS _)
      intro r
      obtain ⟨c, avail'⟩ := r
      apply NP_bind (ih _)
      intro rest
      exact NP_pure _

theorem NP_readFrameHeader (hS : SrcNP S) : NP (readFrameHeader S) := by
  unfold readFrameHeader; np_auto

theorem NP_readHeader (hS : SrcNP S) : NP (readHeader S) := by
  unfold readHeader; np_auto

end framing

/-! ### the state machine -/

theorem noPanic_runChunk {α} {p : Rd α} (hp : NP p) (data : Bytes) :
    Res.NoPanic (runChunk p data) := by
  unfold runChunk
  exact noPanic_map _ (fun s h => hp.np data s h)

/-- The invariant of `ParseInfo` that makes `self.data[frame]` in `add_user_data` safe:
    a cel context names a frame that exists in the cel table. -/
def CtxInv (pi : ParseInfo) : Prop := ∀ f l, pi.ctx = some (.cel f l) → f < pi.cels.size

theorem ctxInv_new (n : Nat) (t : UInt16) : CtxInv (ParseInfo.new n t) := by
  intro f l h
  simp [ParseInfo.new] at h

theorem lt_size_of_getElem? {α} {arr : Array α} {i : Nat} {a : α} (h : arr[i]? = some a) :
    i < arr.size := by
  rcases Nat.lt_or_ge i arr.size with hlt | hge
  · exact hlt
  · rw [Array.getElem?_eq_none hge] at h; cases h

theorem rsat_addCel (pi : ParseInfo) (frame : Nat) (cel : RawCel RawPixels) :
    RSat CtxInv (pi.addCel frame cel) := by
  unfold ParseInfo.addCel
  split
  · trivial
  · rename_i row hrow
    dsimp -iota -proj only
    split
    · trivial
    · intro f l h
      simp only [Option.some.injEq, UDCtx.cel.injEq] at h
      obtain ⟨rfl, rfl⟩ := h
      simp only [Array.set!_eq_setIfInBounds, Array.size_setIfInBounds]
      exact lt_size_of_getElem? hrow

theorem rsat_addUserData (pi : ParseInfo) (ud : UserData) (hinv : CtxInv pi) :
    RSat CtxInv (pi.addUserData ud) := by
  unfold ParseInfo.addUserData
  split
  · trivial
  · rename_i f l hctx
    have hf : f < pi.cels.size := hinv f l hctx
    split
    · rename_i hnone
      rw [Array.getElem?_eq_none_iff] at hnone
      omega
    · split
      · trivial
      · intro f' l' h
        simp only [Array.set!_eq_setIfInBounds, Array.size_setIfInBounds]
        exact hinv f' l' h
  · rename_i i hctx
    split
    · trivial
    · intro f' l' h
      exact hinv f' l' h
  · intro f' l' h
    exact hinv f' l' h
  · rename_i i hctx
    split
    · trivial
    · split
      · trivial
      · intro f' l' h
        simp at h
  · rename_i i hctx
    split
    · trivial
    · intro f' l' h
      exact hinv f' l' h

theorem rsat_processChunk {inflate : Inflate} (hi : InflNP inflate) (m : Profile)
    (fmt : PixelFormat) (frame : Nat) (pi : ParseInfo) (c : Chunk) (hinv : CtxInv pi) :
    RSat CtxInv (processChunk inflate m fmt frame pi c) := by
  unfold processChunk
  split
  · -- colour profile
    exact RSat.bind (rsat_of_noPanic (noPanic_runChunk NP_parseColorProfileChunk _))
      (fun _ _ => hinv)
  · -- palette
    exact RSat.bind (rsat_of_noPanic (noPanic_runChunk NP_parsePaletteChunk _))
      (fun _ _ => hinv)
  · -- layer
    refine RSat.bind (rsat_of_noPanic (noPanic_runChunk NP_parseLayerChunk _)) (fun _ _ => ?_)
    intro f l h
    simp at h
  · -- cel
    exact RSat.bind (rsat_of_noPanic (noPanic_runChunk (NP_parseCelChunk hi _) _))
      (fun _ _ => rsat_addCel _ _ _)
  · -- external files
    exact RSat.bind (rsat_of_noPanic (noPanic_runChunk NP_parseExternalFilesChunk _))
      (fun _ _ => hinv)
  · -- tags
    refine RSat.bind (rsat_of_noPanic (noPanic_runChunk NP_parseTagsChunk _)) (fun _ _ => ?_)
    split
    · intro f l h
      simp at h
    · exact hinv
  · -- slice
    refine RSat.bind (rsat_of_noPanic (noPanic_runChunk NP_parseSliceChunk _)) (fun _ _ => ?_)
    intro f l h
    simp at h
  · -- user data
    exact RSat.bind (rsat_of_noPanic (noPanic_runChunk NP_parseUserDataChunk _))
      (fun _ _ => rsat_addUserData _ _ hinv)
  · -- old palette 0x0004
    dsimp -iota -proj only
    split
    · refine RSat.bind (rsat_of_noPanic (noPanic_runChunk (NP_parseOldPaletteChunk _ _) _))
        (fun _ _ => ?_)
      intro f l h
      simp at h
    · intro f l h
      simp at h
  · -- old palette 0x0011
    dsimp -iota -proj only
    split
    · refine RSat.bind (rsat_of_noPanic (noPanic_runChunk (NP_parseOldPaletteChunk _ _) _))
        (fun _ _ => ?_)
      intro f l h
      simp at h
    · intro f l h
      simp at h
  · -- tileset
    exact RSat.bind (rsat_of_noPanic (noPanic_runChunk (NP_parseTilesetChunk hi _) _))
      (fun _ _ => hinv)
  -- ignored chunks (cel extra, mask, path)
  all_goals exact hinv

theorem rsat_processChunks {inflate : Inflate} (hi : InflNP inflate) (m : Profile)
    (fmt : PixelFormat) (frame : Nat) :
    ∀ (cs : List Chunk) (pi : ParseInfo), CtxInv pi →
      RSat CtxInv (processChunks inflate m fmt frame pi cs) := by
  intro cs
  induction cs with
  | nil => intro pi hinv; exact hinv
  | cons c cs ih =>
      intro pi hinv
      unfold processChunks
      have h := rsat_processChunk hi m fmt frame pi c hinv
      cases hp : processChunk inflate m fmt frame pi c with
      | ok pi' =>
          rw [hp] at h
          exact ih pi' h
      | err e => trivial
      | panic s => rw [hp] at h; exact h

section frames
variable {σ : Type} {S : Src σ}

theorem sat_parseFrame (hS : SrcNP S) {inflate : Inflate} (hi : InflNP inflate) (m : Profile)
    (fmt : PixelFormat) (frame : Nat) (pi : ParseInfo) (hinv : CtxInv pi) :
    Sat CtxInv (parseFrame S inflate m fmt frame pi) := by
  unfold parseFrame
  apply Sat_bind_np (NP_readFrameHeader hS)
  intro h
  dsimp -iota -proj only
  apply Sat_bind_np (NP_readChunks hS _ _)
  intro chunks
  apply Sat_lift
  apply rsat_processChunks hi
  intro f l hctx
  exact hinv f l hctx

theorem sat_parseFrames (hS : SrcNP S) {inflate : Inflate} (hi : InflNP inflate) (m : Profile)
    (fmt : PixelFormat) :
    ∀ (n frame : Nat) (pi : ParseInfo), CtxInv pi →
      Sat CtxInv (parseFrames S inflate m fmt n frame pi) := by
  intro n
  induction n with
  | zero => intro frame pi hinv; unfold parseFrames; exact Sat_pure hinv
  | succ n ih =>
      intro frame pi hinv
      unfold parseFrames
      exact Sat_bind (sat_parseFrame hS hi m fmt frame pi hinv) (fun pi' h' => ih _ pi' h')

end frames

/-! ### validation -/

/-- close goals `Res.NoPanic r` where `r` is built from `ok`, `err`, `if` and `match` -/
macro "rnp_auto" : tactic => `(tactic| repeat (first
  | exact Res.noPanic_ok _
  | exact Res.noPanic_err _
  | dsimp -iota -proj only
  | split))

theorem noPanic_validatePixels (pal : Option Palette) (fmt : PixelFormat) (bg : Bool)
    (raw : RawPixels) : Res.NoPanic (validatePixels pal fmt bg raw) := by
  unfold validatePixels
  rnp_auto

theorem noPanic_validateTilesets (pal : Option Palette) (fmt : PixelFormat) :
    ∀ ts, Res.NoPanic (validateTilesets pal fmt ts) := by
  intro ts
  induction ts with
  | nil => exact Res.noPanic_ok _
  | cons hd tl ih =>
      obtain ⟨k, t⟩ := hd
      unfold validateTilesets
      split
      · exact Res.noPanic_err _
      · split
        · exact noPanic_map _ ih
        · exact Res.noPanic_err _
        · rename_i s hs
          exact absurd hs (noPanic_validatePixels _ _ _ _ s)

theorem noPanic_validateCel (layers : Array LayerData) (tilesets : List (Nat × Tileset Pixels))
    (pal : Option Palette) (fmt : PixelFormat) (numFrames : Nat)
    (cels : Array (FrameCels RawPixels)) (layer : Nat) (c : RawCel RawPixels)
    (hl : layer < layers.size) :
    Res.NoPanic (validateCel layers tilesets pal fmt numFrames cels layer c) := by
  unfold validateCel
  split
  · rename_i hnone
    rw [Array.getElem?_eq_none_iff] at hnone
    omega
  · split
    · split
      · exact Res.noPanic_ok _
      · exact Res.noPanic_err _
      · rename_i s hs
        exact absurd hs (noPanic_validatePixels _ _ _ _ s)
    · rnp_auto
    · rnp_auto

theorem noPanic_validateRow (layers : Array LayerData) (tilesets : List (Nat × Tileset Pixels))
    (pal : Option Palette) (fmt : PixelFormat) (numFrames : Nat)
    (cels : Array (FrameCels RawPixels)) :
    ∀ row, Res.NoPanic (validateRow layers tilesets pal fmt numFrames cels row) := by
  intro row
  induction row with
  | nil => exact Res.noPanic_ok _
  | cons hd tl ih =>
      obtain ⟨layer, c⟩ := hd
      unfold validateRow
      split
      · exact Res.noPanic_err _
      · rename_i hge
        split
        · exact noPanic_map _ ih
        · exact Res.noPanic_err _
        · rename_i s hs
          exact absurd hs
            (noPanic_validateCel layers tilesets pal fmt numFrames cels layer c (by omega) s)

theorem noPanic_validateRows (layers : Array LayerData) (tilesets : List (Nat × Tileset Pixels))
    (pal : Option Palette) (fmt : PixelFormat) (numFrames : Nat)
    (cels : Array (FrameCels RawPixels)) :
    ∀ rows, Res.NoPanic (validateRows layers tilesets pal fmt numFrames cels rows) := by
  intro rows
  induction rows with
  | nil => exact Res.noPanic_ok _
  | cons row tl ih =>
      unfold validateRows
      split
      · exact noPanic_map _ ih
      · exact Res.noPanic_err _
      · rename_i s hs
        exact absurd hs (noPanic_validateRow layers tilesets pal fmt numFrames cels row s)

theorem noPanic_validate (h : Header) (fmt : PixelFormat) (pi : ParseInfo) :
    Res.NoPanic (validate h fmt pi) := by
  unfold validate
  apply Res.NoPanic.bind (C09.computeParents_noPanic _)
  intro parents _
  apply Res.NoPanic.bind (noPanic_validateTilesets _ _ _)
  intro tilesets _
  split
  · exact Res.noPanic_err _
  · apply Res.NoPanic.bind (noPanic_validateRows _ _ _ _ _ _ _)
    intro rows _
    exact Res.noPanic_ok _

/-! ### the whole load path -/

theorem NP_parseFile {σ : Type} {S : Src σ} (hS : SrcNP S) {inflate : Inflate}
    (hi : InflNP inflate) (m : Profile) : NP (parseFile S inflate m) := by
  unfold parseFile
  apply NP_bind (NP_readHeader hS)
  intro h
  split
  · exact NP_fail _
  · apply NP_bind (NP_lift (noPanic_parsePixelFormat _ _))
    intro fmt
    apply NP_bind (sat_parseFrames hS hi m fmt _ _ _ (ctxInv_new _ _)).np
    intro pi
    exact NP_lift (noPanic_validate _ _ _)

end Ase.Proofs.C04
