import Ase.Footprint
import Ase.Alloc
import AseProofs.Lemmas.Valid
/-
  C12, footprint part 1: sums, a consumption-aware partial-correctness calculus for chunk
  decoders (`PostC Q p`: whenever `p` delivers `a` it consumed `used` bytes and `Q a used`),
  and the quantitative decoder lemmas: the footprint of what a chunk decoder delivers is linear
  in the number of bytes of the chunk's buffer.
-/
namespace Ase.Proofs.C12
open Ase Ase.Footprint Ase.Proofs.C05

/-! ### sums -/

@[simp] theorem sumBy_nil {α} (f : α → Nat) : sumBy f [] = 0 := rfl
@[simp] theorem sumBy_cons {α} (f : α → Nat) (a : α) (t : List α) :
    sumBy f (a :: t) = f a + sumBy f t := rfl

theorem sumBy_append {α} (f : α → Nat) : ∀ (l l' : List α),
    sumBy f (l ++ l') = sumBy f l + sumBy f l'
  | [], l' => by simp
  | a :: t, l' => by simp [sumBy_append f t l']; omega

theorem sumBy_filter_le {α} (f : α → Nat) (p : α → Bool) : ∀ l : List α,
    sumBy f (l.filter p) ≤ sumBy f l
  | [] => by simp
  | a :: t => by
      have := sumBy_filter_le f p t
      simp only [List.filter_cons]
      split <;> simp only [sumBy_cons] <;> omega

/-- replacing the `i`-th element exchanges its summand -/
theorem sumBy_set {α} (f : α → Nat) : ∀ (l : List α) (i : Nat) (a b : α), l[i]? = some a →
    sumBy f (l.set i b) + f a = sumBy f l + f b
  | [], i, a, b, h => by simp at h
  | x :: t, 0, a, b, h => by
      simp only [List.getElem?_cons_zero, Option.some.injEq] at h
      subst h
      simp only [List.set_cons_zero, sumBy_cons]; omega
  | x :: t, i + 1, a, b, h => by
      simp only [List.getElem?_cons_succ] at h
      have := sumBy_set f t i a b h
      simp only [List.set_cons_succ, sumBy_cons]; omega

theorem sumBy_setBang {α} (f : α → Nat) (arr : Array α) (i : Nat) (a b : α)
    (h : arr[i]? = some a) :
    sumBy f (arr.set! i b).toList + f a = sumBy f arr.toList + f b := by
  simp only [Array.set!_eq_setIfInBounds, Array.toList_setIfInBounds]
  exact sumBy_set f arr.toList i a b (by simpa using h)

theorem sumBy_push {α} (f : α → Nat) (arr : Array α) (a : α) :
    sumBy f (arr.push a).toList = sumBy f arr.toList + f a := by
  simp [sumBy_append]

theorem sumBy_le_of_all2 {α β} {R : α → β → Prop} (f : α → Nat) (g : β → Nat)
    (hR : ∀ a b, R a b → g b ≤ f a) {l : List α} {l' : List β} (h : All2 R l l') :
    sumBy g l' ≤ sumBy f l := by
  induction h with
  | nil => simp
  | cons hr _ ih => have := hR _ _ hr; simp only [sumBy_cons]; omega

theorem sumBy_replicate {α} (f : α → Nat) (a : α) : ∀ n, sumBy f (List.replicate n a) = n * f a
  | 0 => by simp
  | n + 1 => by
      simp only [List.replicate_succ, sumBy_cons, sumBy_replicate f a n, Nat.succ_mul]; omega

/-! ### consumption-aware postconditions -/

/-- whenever `p` delivers `a`, it consumed `used` bytes of its input and `Q a used` holds -/
def PostC {α} (Q : α → Nat → Prop) (p : Rd α) : Prop :=
  ∀ bs a rest, p bs = .ok (a, rest) → ∃ used, bs.length = used + rest.length ∧ Q a used

theorem PostC_pure {α} {Q : α → Nat → Prop} {a : α} (h : Q a 0) : PostC Q (pure a : Rd α) := by
  intro bs b rest hb
  cases hb
  exact ⟨0, by simp, h⟩

theorem PostC_fail {α} {Q : α → Nat → Prop} (e : Err) : PostC Q (RdS.fail e : Rd α) := by
  intro bs b rest hb; cases hb

theorem PostC_lift {α} {Q : α → Nat → Prop} {r : Res α} (h : ROk (fun a => Q a 0) r) :
    PostC Q (RdS.lift r : Rd α) := by
  intro bs b rest hb
  cases r with
  | ok a => cases hb; exact ⟨0, by simp, h _ rfl⟩
  | err e => cases hb
  | panic q => cases hb

theorem PostC_bind {α β} {P : α → Nat → Prop} {Q : β → Nat → Prop} {x : Rd α} {f : α → Rd β}
    (hx : PostC P x) (hf : ∀ a n, P a n → PostC (fun b k => Q b (n + k)) (f a)) :
    PostC Q (x >>= f) := by
  intro bs b rest hb
  rw [RdS.bind_run] at hb
  cases hxs : x bs with
  | ok r =>
      obtain ⟨a, s1⟩ := r
      rw [hxs] at hb
      obtain ⟨n, hn, hP⟩ := hx bs a s1 hxs
      obtain ⟨k, hk, hQ⟩ := hf a n hP s1 b rest hb
      exact ⟨n + k, by omega, hQ⟩
  | err e => rw [hxs] at hb; cases hb
  | panic q => rw [hxs] at hb; cases hb

/-- bind after a reader of fixed consumption `k` -/
theorem PostC_bindK {α β} {k : Nat} {Q : β → Nat → Prop} {x : Rd α} {f : α → Rd β}
    (hx : PostC (fun _ n => n = k) x) (hf : ∀ a, PostC (fun b n => Q b (k + n)) (f a)) :
    PostC Q (x >>= f) :=
  PostC_bind hx (fun a n hn => by subst hn; exact hf a)

theorem PostC_weaken {α} {P Q : α → Nat → Prop} {x : Rd α} (hx : PostC P x)
    (h : ∀ a n, P a n → Q a n) : PostC Q x := by
  intro bs a rest hb
  obtain ⟨n, hn, hP⟩ := hx bs a rest hb
  exact ⟨n, hn, h a n hP⟩

theorem PostC_ite {α} {Q : α → Nat → Prop} (c : Prop) [Decidable c] {p q : Rd α}
    (hp : PostC Q p) (hq : PostC Q q) : PostC Q (if c then p else q) := by
  split
  · exact hp
  · exact hq

/-- the shape `do let a ← (if c then x else y); f a` takes after elaboration (join point) -/
theorem PostC_ite_bind {α β} {P : α → Nat → Prop} {Q : β → Nat → Prop} (c : Prop) [Decidable c]
    {x y : Rd α} {f : α → Rd β} (hx : PostC P x) (hy : PostC P y)
    (hf : ∀ a n, P a n → PostC (fun b k => Q b (n + k)) (f a)) :
    PostC Q (if c then x >>= f else y >>= f) := by
  split
  · exact PostC_bind hx hf
  · exact PostC_bind hy hf

/-- what `runChunk` delivers: consumption at most the buffer -/
theorem runChunk_postC {α} {Q : α → Nat → Prop} {p : Rd α} (hp : PostC Q p) {data : Bytes} {a : α}
    (h : runChunk p data = .ok a) : ∃ used, used ≤ data.length ∧ Q a used := by
  unfold runChunk at h
  cases hpd : p data with
  | ok r =>
      obtain ⟨a', s'⟩ := r
      rw [hpd] at h
      simp only [Res.map_ok, Res.ok.injEq] at h
      subst h
      obtain ⟨n, hn, hQ⟩ := hp data a' s' hpd
      exact ⟨n, by omega, hQ⟩
  | err e => rw [hpd] at h; cases h
  | panic q => rw [hpd] at h; cases h

/-! ### primitives -/

theorem postC_read (n : Nat) : PostC (fun b u => u = n ∧ b.length = n) (bytesSrc.read n) := by
  intro bs b rest h
  change bytesRead n bs = _ at h
  unfold bytesRead at h
  split at h
  · cases h
    refine ⟨n, ?_, rfl, ?_⟩
    · simp only [List.length_drop]; omega
    · simp only [List.length_take]; omega
  · cases h

theorem postC_readK (n : Nat) : PostC (fun _ u => u = n) (bytesSrc.read n) :=
  PostC_weaken (postC_read n) (fun _ _ h => h.1)

theorem postC_readU8 : PostC (fun _ u => u = 1) (readU8 bytesSrc) := by
  unfold readU8
  exact PostC_bindK (postC_readK 1) (fun _ => PostC_pure rfl)

theorem postC_readU16 : PostC (fun _ u => u = 2) (readU16 bytesSrc) := by
  unfold readU16
  exact PostC_bindK (postC_readK 2) (fun _ => PostC_pure rfl)

theorem postC_readI16 : PostC (fun _ u => u = 2) (readI16 bytesSrc) := by
  unfold readI16
  exact PostC_bindK postC_readU16 (fun _ => PostC_pure rfl)

theorem postC_readU32 : PostC (fun _ u => u = 4) (readU32 bytesSrc) := by
  unfold readU32
  exact PostC_bindK (postC_readK 4) (fun _ => PostC_pure rfl)

theorem postC_readI32 : PostC (fun _ u => u = 4) (readI32 bytesSrc) := by
  unfold readI32
  exact PostC_bindK postC_readU32 (fun _ => PostC_pure rfl)

theorem postC_skip (n : Nat) : PostC (fun _ u => u = n) (skip bytesSrc n) := by
  unfold skip
  exact PostC_bindK (postC_readK n) (fun _ => PostC_pure rfl)

/-- a string of length `n` consumed `n + 2` bytes -/
theorem postC_readString : PostC (fun s u => u = s.length + 2) (readString bytesSrc) := by
  unfold readString
  refine PostC_bindK postC_readU16 (fun len => ?_)
  refine PostC_bind (postC_read len.toNat) (fun b n hb => ?_)
  obtain ⟨rfl, hlen⟩ := hb
  refine PostC_ite _ (PostC_pure ?_) (PostC_fail _)
  omega

/-- `rdRepeat`: per-element bounds `g a ≤ c * used` add up -/
theorem postC_rdRepeat {α} (g : α → Nat) (c : Nat) {p : Rd α}
    (hp : PostC (fun a u => g a ≤ c * u) p) :
    ∀ k, PostC (fun l u => sumBy g l ≤ c * u) (rdRepeat p k) := by
  intro k
  induction k with
  | zero => unfold rdRepeat; exact PostC_pure (by simp)
  | succ k ih =>
      unfold rdRepeat
      refine PostC_bind hp (fun a n ha => ?_)
      refine PostC_bind ih (fun l n' hl => ?_)
      refine PostC_pure ?_
      simp only [sumBy_cons, Nat.add_zero, Nat.mul_add]
      omega

end Ase.Proofs.C12
