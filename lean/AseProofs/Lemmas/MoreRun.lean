import AseProofs.Lemmas.WholeFileStruct
import AseProofs.Lemmas.WholeFileCtx
import AseProofs.Lemmas.Assoc
/-
  More invariants of the state machine `Spec.runFrames`: a generic "the projection of the state
  is a fold over the items" principle, and its instances for the palette, the external-files map
  and the tileset map.
-/
namespace Ase.Proofs.More
open Ase Ase.Proofs Ase.Proofs.WholeFile

/-! ### a projection of the state that evolves by a fold -/

/-- fold `step` over the items of frames `k, k+1, …` -/
def foldFrames {β : Type} (step : Nat → β → Spec.SItem → β) :
    Nat → β → List (UInt16 × List Spec.SItem) → β
  | _, b, [] => b
  | k, b, (_, its) :: rest => foldFrames step (k + 1) (its.foldl (step k) b) rest

theorem runItems_fold {β : Type} (proj : ParseInfo → β) (step : Nat → β → Spec.SItem → β)
    (hstep : ∀ frame pi pi' it, Spec.stepSem frame pi it = .ok pi' →
      proj pi' = step frame (proj pi) it)
    (frame : Nat) (its : List Spec.SItem) : ∀ {pi pi' : ParseInfo},
    Spec.runItems frame pi its = .ok pi' → proj pi' = its.foldl (step frame) (proj pi) := by
  induction its with
  | nil => intro pi pi' h; cases h; rfl
  | cons it t ih =>
      intro pi pi' h
      simp only [Spec.runItems] at h
      cases hs : Spec.stepSem frame pi it with
      | ok q =>
          rw [hs] at h
          rw [ih h, hstep frame pi q it hs]
          rfl
      | err e => rw [hs] at h; cases h
      | panic s => rw [hs] at h; cases h

/-- a successful frame is a successful run over its items, up to the frame-time table -/
theorem runFrame_ok {frame : Nat} {d : UInt16} {pi q : ParseInfo} {its : List Spec.SItem}
    (h : Spec.runFrame frame d pi its = .ok q) :
    ∃ q0, Spec.runItems frame pi its = .ok q0 ∧ q = setFT (pi.frameTimes.set! frame d) q0 := by
  rw [runFrame_eq] at h
  cases hr : Spec.runItems frame pi its with
  | ok q0 =>
      rw [hr] at h
      simp only [Res.map_ok, Res.ok.injEq] at h
      exact ⟨q0, rfl, h.symm⟩
  | err e => rw [hr] at h; cases h
  | panic s => rw [hr] at h; cases h

theorem runFrames_fold {β : Type} (proj : ParseInfo → β) (step : Nat → β → Spec.SItem → β)
    (hstep : ∀ frame pi pi' it, Spec.stepSem frame pi it = .ok pi' →
      proj pi' = step frame (proj pi) it)
    (hft : ∀ ft pi, proj (setFT ft pi) = proj pi)
    (frames : List (UInt16 × List Spec.SItem)) : ∀ {k : Nat} {pi pi' : ParseInfo},
    Spec.runFrames k pi frames = .ok pi' → proj pi' = foldFrames step k (proj pi) frames := by
  induction frames with
  | nil => intro k pi pi' h; cases h; rfl
  | cons f t ih =>
      intro k pi pi' h
      obtain ⟨d, its⟩ := f
      simp only [Spec.runFrames] at h
      cases hs : Spec.runFrame k d pi its with
      | ok q =>
          rw [hs] at h
          obtain ⟨q0, hq0, rfl⟩ := runFrame_ok hs
          rw [ih h, hft, runItems_fold proj step hstep k its hq0]
          rfl
      | err e => rw [hs] at h; cases h
      | panic s => rw [hs] at h; cases h

/-- a step that does not look at the frame number folds over all items in file order -/
theorem foldFrames_const {β : Type} (step : β → Spec.SItem → β)
    (frames : List (UInt16 × List Spec.SItem)) : ∀ (k : Nat) (b : β),
    foldFrames (fun _ => step) k b frames = (allItems frames).foldl step b := by
  induction frames with
  | nil => intro k b; rfl
  | cons f t ih =>
      intro k b
      obtain ⟨d, its⟩ := f
      have hall : allItems ((d, its) :: t) = its ++ allItems t := by simp [allItems]
      rw [hall, List.foldl_append]
      exact ih (k + 1) _

/-! ### what cel and user-data items leave alone -/

theorem addCel_other {pi pi' : ParseInfo} {frame : Nat} {c : RawCel RawPixels}
    (h : pi.addCel frame c = .ok pi') :
    pi'.palette = pi.palette ∧ pi'.extFiles = pi.extFiles ∧ pi'.tilesets = pi.tilesets := by
  unfold ParseInfo.addCel at h
  cases hrow : pi.cels[frame]? with
  | none => simp [hrow] at h
  | some row =>
      simp only [hrow] at h
      split at h
      · cases h
      · cases h; exact ⟨rfl, rfl, rfl⟩

theorem addUserData_other {pi pi' : ParseInfo} {u : UserData} (h : pi.addUserData u = .ok pi') :
    pi'.palette = pi.palette ∧ pi'.extFiles = pi.extFiles ∧ pi'.tilesets = pi.tilesets := by
  unfold ParseInfo.addUserData at h
  split at h
  · cases h
  · split at h
    · cases h
    · split at h
      · cases h
      · cases h; exact ⟨rfl, rfl, rfl⟩
  · split at h
    · cases h
    · cases h; exact ⟨rfl, rfl, rfl⟩
  · cases h; exact ⟨rfl, rfl, rfl⟩
  · split at h
    · cases h
    · split at h
      · cases h
      · cases h; exact ⟨rfl, rfl, rfl⟩
  · split at h
    · cases h
    · cases h; exact ⟨rfl, rfl, rfl⟩

/-! ### the palette -/

def palItem? : Spec.SItem → Option Palette
  | .palette p => some p
  | _ => none

def oldPalItem? : Spec.SItem → Option Palette
  | .oldPalette p => some p
  | _ => none

/-- the effect of one item on the stored palette -/
def palStep (p : Option Palette) : Spec.SItem → Option Palette
  | .palette q => some q
  | .oldPalette q => if p.isNone then some q else p
  | _ => p

theorem stepSem_palette (frame : Nat) (pi pi' : ParseInfo) (it : Spec.SItem)
    (h : Spec.stepSem frame pi it = .ok pi') : pi'.palette = palStep pi.palette it := by
  cases it with
  | cel c => exact (addCel_other h).1
  | userData u => exact (addUserData_other h).1
  | tags ts =>
      simp only [Spec.stepSem] at h
      split at h <;> cases h <;> rfl
  | oldPalette p =>
      simp only [Spec.stepSem] at h
      split at h
      · rename_i hn; cases h; simp [palStep, hn]
      · rename_i hn; cases h; simp [palStep, hn]
  | _ => cases h; rfl

/-- the last new-format palette wins; failing that, the first legacy palette; failing that, what
    was there before -/
theorem foldl_palStep (its : List Spec.SItem) : ∀ (p : Option Palette),
    its.foldl palStep p =
      ((its.filterMap palItem?).getLast?).or (p.or (its.filterMap oldPalItem?).head?) := by
  induction its with
  | nil => intro p; simp
  | cons it rest ih =>
      intro p
      rw [List.foldl_cons, ih]
      cases it with
      | palette q =>
          simp only [palStep, List.filterMap_cons, palItem?, oldPalItem?, List.getLast?_cons,
            Option.some_or]
          cases (List.filterMap palItem? rest).getLast? <;> simp
      | oldPalette q =>
          simp only [palStep, List.filterMap_cons, palItem?, oldPalItem?, List.head?_cons]
          cases p <;> simp
      | _ => simp only [palStep, List.filterMap_cons, palItem?, oldPalItem?]

theorem runFrames_palette (frames : List (UInt16 × List Spec.SItem)) {k : Nat}
    {pi pi' : ParseInfo} (h : Spec.runFrames k pi frames = .ok pi') :
    pi'.palette = (allItems frames).foldl palStep pi.palette := by
  rw [runFrames_fold (fun pi => pi.palette) (fun _ => palStep) stepSem_palette
    (fun _ _ => rfl) frames h, foldFrames_const]

/-! ### id-keyed maps: the last insertion of a key wins -/

/-- insert the pairs in order -/
def insertAll {α : Type} (m : List (Nat × α)) (kvs : List (Nat × α)) : List (Nat × α) :=
  kvs.foldl (fun m kv => assocInsert kv.1 kv.2 m) m

theorem insertAll_append {α : Type} (m : List (Nat × α)) (a b : List (Nat × α)) :
    insertAll m (a ++ b) = insertAll (insertAll m a) b := by
  simp [insertAll, List.foldl_append]

/-- a lookup after a sequence of insertions finds the LAST inserted pair with that key, and only
    when there is none what the map held before -/
theorem assocGet?_insertAll {α : Type} (k : Nat) (kvs : List (Nat × α)) :
    ∀ (m : List (Nat × α)), assocGet? k (insertAll m kvs) =
      (((kvs.filter (fun kv => kv.1 == k)).getLast?).map (·.2)).or (assocGet? k m) := by
  induction kvs with
  | nil => intro m; simp [insertAll]
  | cons kv rest ih =>
      intro m
      have : insertAll m (kv :: rest) = insertAll (assocInsert kv.1 kv.2 m) rest := rfl
      rw [this, ih, assocGet?_insert]
      by_cases hk : kv.1 = k
      · have hb : (kv.1 == k) = true := by simpa using hk
        rw [if_pos hk, List.filter_cons, if_pos hb, List.getLast?_cons]
        cases (List.filter (fun kv => kv.1 == k) rest).getLast? <;> simp
      · have hb : (kv.1 == k) = false := by simpa using hk
        rw [if_neg hk, List.filter_cons, if_neg (by simp [hb])]

/-! ### external files -/

def extFilesOf : Spec.SItem → List ExternalFile
  | .extFiles fs => fs
  | _ => []

/-- all external-file entries of a list of items, in file order -/
def extEntries (its : List Spec.SItem) : List ExternalFile := its.flatMap extFilesOf

def extKV (f : ExternalFile) : Nat × ExternalFile := (f.id.toNat, f)

theorem addExtFiles_eq (fs : List ExternalFile) : ∀ (m : List (Nat × ExternalFile)),
    addExtFiles m fs = insertAll m (fs.map extKV) := by
  induction fs with
  | nil => intro m; rfl
  | cons f t ih => intro m; simp only [addExtFiles, ih]; rfl

def extStep (m : List (Nat × ExternalFile)) (it : Spec.SItem) : List (Nat × ExternalFile) :=
  insertAll m ((extFilesOf it).map extKV)

theorem stepSem_extFiles (frame : Nat) (pi pi' : ParseInfo) (it : Spec.SItem)
    (h : Spec.stepSem frame pi it = .ok pi') : pi'.extFiles = extStep pi.extFiles it := by
  cases it with
  | cel c => exact (addCel_other h).2.1
  | userData u => exact (addUserData_other h).2.1
  | tags ts =>
      simp only [Spec.stepSem] at h
      split at h <;> cases h <;> rfl
  | oldPalette p =>
      simp only [Spec.stepSem] at h
      split at h <;> cases h <;> rfl
  | extFiles fs => cases h; exact addExtFiles_eq fs _
  | _ => cases h; rfl

theorem foldl_extStep (its : List Spec.SItem) : ∀ (m : List (Nat × ExternalFile)),
    its.foldl extStep m = insertAll m ((extEntries its).map extKV) := by
  induction its with
  | nil => intro m; rfl
  | cons it rest ih =>
      intro m
      rw [List.foldl_cons, ih]
      simp only [extStep, extEntries, List.flatMap_cons, List.map_append, insertAll_append]

theorem runFrames_extFiles (frames : List (UInt16 × List Spec.SItem)) {k : Nat}
    {pi pi' : ParseInfo} (h : Spec.runFrames k pi frames = .ok pi') :
    pi'.extFiles = insertAll pi.extFiles ((extEntries (allItems frames)).map extKV) := by
  rw [runFrames_fold (fun pi => pi.extFiles) (fun _ => extStep) stepSem_extFiles
    (fun _ _ => rfl) frames h, foldFrames_const, foldl_extStep]

/-! ### tilesets -/

def tilesetItem? : Spec.SItem → Option (Tileset RawPixels)
  | .tileset t => some t
  | _ => none

/-- the tileset items of a list of items, in file order -/
def tilesetItems (its : List Spec.SItem) : List (Tileset RawPixels) := its.filterMap tilesetItem?

def tsKV (t : Tileset RawPixels) : Nat × Tileset RawPixels := (t.id.toNat, t)

def tsStep (m : List (Nat × Tileset RawPixels)) (it : Spec.SItem) : List (Nat × Tileset RawPixels) :=
  insertAll m ((tilesetItems [it]).map tsKV)

theorem stepSem_tilesets (frame : Nat) (pi pi' : ParseInfo) (it : Spec.SItem)
    (h : Spec.stepSem frame pi it = .ok pi') : pi'.tilesets = tsStep pi.tilesets it := by
  cases it with
  | cel c => exact (addCel_other h).2.2
  | userData u => exact (addUserData_other h).2.2
  | tags ts =>
      simp only [Spec.stepSem] at h
      split at h <;> cases h <;> rfl
  | oldPalette p =>
      simp only [Spec.stepSem] at h
      split at h <;> cases h <;> rfl
  | _ => cases h; rfl

theorem tilesetItems_cons (it : Spec.SItem) (its : List Spec.SItem) :
    tilesetItems (it :: its) = tilesetItems [it] ++ tilesetItems its := by
  simp only [tilesetItems, List.filterMap_cons, List.filterMap_nil]
  cases tilesetItem? it <;> rfl

theorem foldl_tsStep (its : List Spec.SItem) : ∀ (m : List (Nat × Tileset RawPixels)),
    its.foldl tsStep m = insertAll m ((tilesetItems its).map tsKV) := by
  induction its with
  | nil => intro m; rfl
  | cons it rest ih =>
      intro m
      rw [List.foldl_cons, ih, tilesetItems_cons it rest, List.map_append, insertAll_append]
      rfl

theorem runFrames_tilesets (frames : List (UInt16 × List Spec.SItem)) {k : Nat}
    {pi pi' : ParseInfo} (h : Spec.runFrames k pi frames = .ok pi') :
    pi'.tilesets = insertAll pi.tilesets ((tilesetItems (allItems frames)).map tsKV) := by
  rw [runFrames_fold (fun pi => pi.tilesets) (fun _ => tsStep) stepSem_tilesets
    (fun _ _ => rfl) frames h, foldFrames_const, foldl_tsStep]

/-- looking up a key among pairs built from the values -/
theorem getLast?_filter_kv {α : Type} (key : α → Nat) (l : List α) (k : Nat) :
    (((l.map (fun a => (key a, a))).filter (fun kv => kv.1 == k)).getLast?).map (·.2) =
      (l.filter (fun a => key a == k)).getLast? := by
  rw [List.filter_map, List.getLast?_map, Option.map_map]
  have : ((fun kv : Nat × α => kv.2) ∘ fun a => (key a, a)) = id := rfl
  rw [this, Option.map_id]
  rfl

end Ase.Proofs.More
