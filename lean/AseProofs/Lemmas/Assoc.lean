import Ase.Types
/-
  Finite maps as association lists (`assocInsert`, `assocGet?`): last insert wins.
-/
namespace Ase.Proofs
open Ase

theorem assocGet?_insert {α} (k k' : Nat) (v : α) (l : List (Nat × α)) :
    assocGet? k (assocInsert k' v l) = if k' = k then some v else assocGet? k l := by
  unfold assocGet? assocInsert
  by_cases h : k' = k
  · subst h; simp
  · have hb : (k' == k) = false := by simpa using h
    simp only [List.find?_cons, hb, h, if_false, List.find?_filter]
    congr 2
    funext a
    by_cases ha : a.1 = k
    · simp [ha, Ne.symm h]
    · simp [ha]

theorem palette_color_insert (p : Palette) (e : PalEntry) (k : Nat) :
    (p.insert e).color k = if e.id = k then some e else p.color k := by
  simp [Palette.insert, Palette.color, assocGet?_insert]

end Ase.Proofs
