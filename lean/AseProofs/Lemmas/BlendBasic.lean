import AseProofs.Lemmas.Arith
/-
  Byte/int conversion facts and structural facts about `normal`, `merge`, `blender` and the
  baseline functions of the blend model.
-/
namespace Ase.Proofs
open Ase Ase.Blend

theorem ch_nonneg (x : UInt8) : 0 ≤ ch x := by simp [ch]
theorem ch_le (x : UInt8) : ch x ≤ 255 := by
  have := x.toNat_lt
  simp only [ch]; omega

@[simp] theorem asU8_ch (x : UInt8) : asU8 (ch x) = x := by
  have h := x.toNat_lt
  simp only [asU8, ch]
  have : ((x.toNat : Int) % 256).toNat = x.toNat := by omega
  rw [this]; simp

theorem ch_asU8 (v : Int) (h0 : 0 ≤ v) (h1 : v ≤ 255) : ch (asU8 v) = v := by
  simp only [asU8, ch]
  have : (v % 256).toNat = v.toNat := by omega
  rw [this]
  have hlt : v.toNat < 256 := by omega
  simp [UInt8.toNat_ofNat_of_lt' hlt]
  omega

theorem ch_eq_zero_iff (x : UInt8) : ch x = 0 ↔ x = 0 := by
  constructor
  · intro h
    have : x.toNat = 0 := by simp only [ch] at h; omega
    exact UInt8.toNat_inj.mp (by simpa using this)
  · intro h; subst h; rfl

theorem beq_zero_iff (x : UInt8) : (x == 0) = true ↔ x = 0 := by simp

/-- `mul_un8` of two bytes is a byte (so the `as u8` in `mul_un8` never truncates) -/
theorem ch_mulUn8 (a b : Int) (ha0 : 0 ≤ a) (ha : a ≤ 255) (hb0 : 0 ≤ b) (hb : b ≤ 255) :
    ch (mulUn8 a b) = mulUn8I a b := by
  have h := mulUn8I_bounds_nonneg a b ha0 hb0 hb
  exact ch_asU8 _ h.1 (by omega)

theorem inByte_ch (x : UInt8) : inByte (ch x) = true := by
  have := ch_nonneg x; have := ch_le x
  simp [inByte]; omega

/-- `blend8 x x op = x` -/
theorem blend8_same (x op : UInt8) : blend8 x x op = x := by
  simp [blend8, mulUn8I_zero_left]
  exact asU8_ch x

end Ase.Proofs
