import AseProofs.Lemmas.FootprintDecode
import AseProofs.Lemmas.ValidParse
/-
  C12, footprint part 3: the `ParseInfo` state machine and the validation stage.

  * `runChunk_*`: the decoder lemmas in terms of the length of the chunk's buffer;
  * `processChunk_footprint`: one chunk adds at most `Alloc.chunkCost c` to the footprint;
  * `processChunks_footprint`, `parseFrames_footprint`: chunks of a frame, frames of a file
    (`Alloc.framesCost`);
  * `validate_footprint`: validation does not increase the footprint.
-/
namespace Ase.Proofs.C12
open Ase Ase.Footprint Ase.Proofs.C05

/-! ### the decoder lemmas in terms of the chunk buffer -/

section decoders
variable {data : Bytes}

theorem runChunk_layer {l : LayerData} (h : runChunk parseLayerChunk data = .ok l) :
    layerSize l ≤ data.length + 54 ∧ 18 ≤ data.length := by
  obtain ⟨u, hu, hq⟩ := runChunk_postC postC_parseLayerChunk h
  omega

theorem runChunk_tags {ts : List Tag} (h : runChunk parseTagsChunk data = .ok ts) :
    sumBy tagSize ts ≤ 4 * data.length := by
  obtain ⟨u, hu, hq⟩ := runChunk_postC postC_parseTagsChunk h
  omega

theorem runChunk_slice {s : Slice} (h : runChunk parseSliceChunk data = .ok s) :
    sliceSize s ≤ 3 * data.length + 80 := by
  obtain ⟨u, hu, hq⟩ := runChunk_postC postC_parseSliceChunk h
  omega

theorem runChunk_userData {ud : UserData} (h : runChunk parseUserDataChunk data = .ok ud) :
    udSize (some ud) ≤ data.length + 32 := by
  obtain ⟨u, hu, hq⟩ := runChunk_postC postC_parseUserDataChunk h
  omega

theorem runChunk_externalFiles {fs : List ExternalFile}
    (h : runChunk parseExternalFilesChunk data = .ok fs) :
    sumBy extFileSize fs ≤ 3 * data.length := by
  obtain ⟨u, hu, hq⟩ := runChunk_postC postC_parseExternalFilesChunk h
  omega

theorem runChunk_palette {p : Palette} (h : runChunk parsePaletteChunk data = .ok p) :
    paletteSize p ≤ 6 * data.length := by
  obtain ⟨u, hu, hq⟩ := runChunk_postC postC_parsePaletteChunk h
  omega

theorem runChunk_oldPalette {m : Profile} {scaled : Bool} {p : Palette}
    (h : runChunk (parseOldPaletteChunk m scaled) data = .ok p) :
    paletteSize p ≤ 11 * data.length := by
  obtain ⟨u, hu, hq⟩ := runChunk_postC (postC_parseOldPaletteChunk m scaled) h
  omega

theorem runChunk_cel {inflate : Inflate} (hexp : Alloc.ExpansionBounded inflate)
    {fmt : PixelFormat} {c : RawCel RawPixels}
    (h : runChunk (parseCelChunk inflate fmt) data = .ok c) :
    celSize rawPayload c ≤ 2064 * data.length + 2160 := by
  obtain ⟨u, hu, hq⟩ := runChunk_postC (postC_parseCelChunk inflate hexp fmt) h
  omega

-- (`omega` divides by the common factor 1033 here, which needs a deeper recursion than the default)
set_option maxRecDepth 4096 in
theorem runChunk_tileset {inflate : Inflate} (hexp : Alloc.ExpansionBounded inflate)
    {fmt : PixelFormat} {t : Tileset RawPixels}
    (h : runChunk (parseTilesetChunk inflate fmt) data = .ok t) :
    tilesetSize rawPayload t ≤ 1033 * data.length + 1120 := by
  obtain ⟨u, hu, hq⟩ := runChunk_postC (postC_parseTilesetChunk inflate hexp fmt) h
  omega

end decoders

/-! ### what `Alloc.chunkCost` offers -/

/-- every chunk type: 68 bytes per payload byte + 1152 -/
theorem chunkCost_ge (c : Chunk) : 68 * c.data.length + 1152 ≤ Alloc.chunkCost c := by
  unfold Alloc.chunkCost
  split
  · omega
  · omega
  · split <;> omega
  · omega

/-- cel and tileset chunks: 4132 bytes per payload byte + 6304 -/
theorem chunkCost_big (c : Chunk) (h : c.ty = .cel ∨ c.ty = .tileset) :
    4132 * c.data.length + 6304 ≤ Alloc.chunkCost c := by
  unfold Alloc.chunkCost
  rcases h with h | h <;> rw [h] <;> simp only <;> omega

/-! ### containers -/

theorem sumBy_assocInsert {α} (g : α → Nat) (k : Nat) (v : α) (l : List (Nat × α)) :
    sumBy (fun p => g p.2) (assocInsert k v l) ≤ sumBy (fun p => g p.2) l + g v := by
  unfold assocInsert
  have := sumBy_filter_le (fun p : Nat × α => g p.2) (fun p => p.1 != k) l
  simp only [sumBy_cons]
  omega

theorem sumBy_addExtFiles : ∀ (fs : List ExternalFile) (m : List (Nat × ExternalFile)),
    sumBy (fun p => extFileSize p.2) (addExtFiles m fs)
      ≤ sumBy (fun p => extFileSize p.2) m + sumBy extFileSize fs
  | [], m => by simp [addExtFiles]
  | f :: t, m => by
      have h1 := sumBy_addExtFiles t (assocInsert f.id.toNat f m)
      have h2 := sumBy_assocInsert extFileSize f.id.toNat f m
      simp only [addExtFiles, sumBy_cons]
      omega

theorem sumBy_frameInsert {P} (g : RawCel P → Nat) (k : Nat) (c : RawCel P) :
    ∀ row : FrameCels P,
      sumBy (fun p => g p.2) (FrameCels.insert k c row) = sumBy (fun p => g p.2) row + g c
  | [] => by simp [FrameCels.insert]
  | (k', c') :: t => by
      have := sumBy_frameInsert g k c t
      simp only [FrameCels.insert]
      split <;> simp only [sumBy_cons] <;> omega

theorem sumBy_frameModify_le {P} (g : RawCel P → Nat) (k : Nat) (f : RawCel P → RawCel P) (d : Nat)
    (hf : ∀ c, g (f c) ≤ g c + d) :
    ∀ row : FrameCels P,
      sumBy (fun p => g p.2) (FrameCels.modify k f row) ≤ sumBy (fun p => g p.2) row + d
  | [] => by simp [FrameCels.modify]
  | (k', c') :: t => by
      have := sumBy_frameModify_le g k f d hf t
      have := hf c'
      simp only [FrameCels.modify]
      split <;> simp only [sumBy_cons] <;> omega

theorem sumBy_setUD {α} (g : α → Nat) (d : Nat) (f : α → α) (hf : ∀ a, g (f a) ≤ g a + d)
    (arr arr' : Array α) (i : Nat) (h : setUD arr i f = some arr') :
    sumBy g arr'.toList ≤ sumBy g arr.toList + d ∧ arr'.size = arr.size := by
  unfold setUD at h
  split at h
  · cases h
  · rename_i a ha
    simp only [Option.some.injEq] at h
    subst h
    have := sumBy_setBang g arr i a (f a) ha
    have := hf a
    refine ⟨by omega, ?_⟩
    simp [Array.set!_eq_setIfInBounds]

/-! ### the state machine -/

theorem addCel_footprint (pi : ParseInfo) (frame : Nat) (cel : RawCel RawPixels)
    (pi' : ParseInfo) (h : pi.addCel frame cel = .ok pi') :
    footprintParse pi' = footprintParse pi + celSize rawPayload cel ∧ pi'.layers = pi.layers := by
  unfold ParseInfo.addCel at h
  split at h
  · cases h
  · rename_i row hrow
    dsimp -iota -proj only at h
    split at h
    · cases h
    · simp only [Res.ok.injEq] at h
      subst h
      refine ⟨?_, rfl⟩
      have h1 := sumBy_setBang (rowSize rawPayload) pi.cels frame row
        (FrameCels.insert cel.data.layerIndex.toNat cel row) hrow
      have h2 := sumBy_frameInsert (celSize rawPayload) cel.data.layerIndex.toNat cel row
      simp only [footprintParse, celsSize]
      simp only [rowSize] at h1
      omega

theorem udSize_set_cel (ud : UserData) (c : RawCel RawPixels) :
    celSize rawPayload { c with userData := some ud } ≤ celSize rawPayload c + udSize (some ud) := by
  simp only [celSize]; omega

theorem addUserData_footprint (pi : ParseInfo) (ud : UserData) (pi' : ParseInfo)
    (h : pi.addUserData ud = .ok pi') :
    footprintParse pi' ≤ footprintParse pi + udSize (some ud) ∧
      pi'.layers.size = pi.layers.size := by
  unfold ParseInfo.addUserData at h
  split at h
  · cases h
  · -- cel
    rename_i f l hctx
    split at h
    · cases h
    · rename_i row hrow
      split at h
      · cases h
      · simp only [Res.ok.injEq] at h
        subst h
        refine ⟨?_, rfl⟩
        have h1 := sumBy_setBang (rowSize rawPayload) pi.cels f row
          (FrameCels.modify l (fun c => { c with userData := some ud }) row) hrow
        have h2 := sumBy_frameModify_le (celSize rawPayload) l
          (fun c => { c with userData := some ud }) (udSize (some ud)) (udSize_set_cel ud) row
        simp only [footprintParse, celsSize]
        simp only [rowSize] at h1
        omega
  · -- layer
    rename_i i hctx
    split at h
    · cases h
    · rename_i ls hls
      simp only [Res.ok.injEq] at h
      subst h
      obtain ⟨h1, h2⟩ := sumBy_setUD layerSize (udSize (some ud))
        (fun l => { l with userData := some ud }) (fun l => by simp only [layerSize]; omega)
        _ _ _ hls
      refine ⟨?_, h2⟩
      simp only [footprintParse]
      omega
  · -- sprite (old palette context)
    simp only [Res.ok.injEq] at h
    subst h
    refine ⟨?_, rfl⟩
    simp only [footprintParse]
    omega
  · -- tag
    rename_i i hctx
    split at h
    · cases h
    · rename_i tags htags
      split at h
      · cases h
      · rename_i ts hts
        simp only [Res.ok.injEq] at h
        subst h
        obtain ⟨h1, _⟩ := sumBy_setUD tagSize (udSize (some ud))
          (fun t => { t with userData := some ud }) (fun t => by simp only [tagSize]; omega)
          _ _ _ hts
        refine ⟨?_, rfl⟩
        simp only [footprintParse, htags, optTagsSize]
        omega
  · -- slice
    rename_i i hctx
    split at h
    · cases h
    · rename_i ss hss
      simp only [Res.ok.injEq] at h
      subst h
      obtain ⟨h1, _⟩ := sumBy_setUD sliceSize (udSize (some ud))
        (fun s => { s with userData := some ud }) (fun s => by simp only [sliceSize]; omega)
        _ _ _ hss
      refine ⟨?_, rfl⟩
      simp only [footprintParse]
      omega

/-- what one chunk may add: the footprint (with the `parents` entry a layer will get) grows by
    at most the chunk's cost in the account, and layers are never removed -/
def StepOk (pi : ParseInfo) (c : Chunk) (pi' : ParseInfo) : Prop :=
  footprintParseV pi' ≤ footprintParseV pi + Alloc.chunkCost c ∧
    pi.layers.size ≤ pi'.layers.size

/-- **one chunk**: whatever `processChunk` delivers holds at most `chunkCost c` more bytes than
    the state before -/
theorem processChunk_step (inflate : Inflate) (hexp : Alloc.ExpansionBounded inflate)
    (m : Profile) (fmt : PixelFormat) (frame : Nat) (pi : ParseInfo) (c : Chunk) :
    ROk (StepOk pi c) (processChunk inflate m fmt frame pi c) := by
  have hge := chunkCost_ge c
  unfold processChunk
  split
  · -- colour profile
    exact ROk.bind_any (fun _ _ => rok_pure ⟨by omega, Nat.le_refl _⟩)
  · -- palette
    refine ROk.bind_any (fun p hp => rok_pure ⟨?_, Nat.le_refl _⟩)
    have := runChunk_palette hp
    simp only [footprintParseV, footprintParse, optPaletteSize]
    omega
  · -- layer
    refine ROk.bind_any (fun l hl => rok_pure ⟨?_, by simp⟩)
    have := runChunk_layer hl
    simp only [footprintParseV, footprintParse, parentsSize, sumBy_push, Array.size_push]
    omega
  · -- cel
    rename_i hty
    have hbig := chunkCost_big c (.inl hty)
    refine ROk.bind_any (fun cel hcel => ?_)
    intro pi' h
    obtain ⟨h1, h2⟩ := addCel_footprint pi frame cel pi' h
    have := runChunk_cel hexp hcel
    refine ⟨?_, by rw [h2]; exact Nat.le_refl _⟩
    simp only [footprintParseV, h1, h2]
    omega
  · -- external files
    refine ROk.bind_any (fun fs hfs => rok_pure ⟨?_, Nat.le_refl _⟩)
    have := runChunk_externalFiles hfs
    have := sumBy_addExtFiles fs pi.extFiles
    simp only [footprintParseV, footprintParse]
    omega
  · -- tags
    refine ROk.bind_any (fun ts hts => ?_)
    have := runChunk_tags hts
    split
    · refine rok_pure ⟨?_, Nat.le_refl _⟩
      simp only [footprintParseV, footprintParse, optTagsSize]
      omega
    · exact rok_pure ⟨by omega, Nat.le_refl _⟩
  · -- slice
    refine ROk.bind_any (fun s hs => rok_pure ⟨?_, Nat.le_refl _⟩)
    have := runChunk_slice hs
    simp only [footprintParseV, footprintParse, sumBy_push]
    omega
  · -- user data
    refine ROk.bind_any (fun ud hud => ?_)
    intro pi' h
    obtain ⟨h1, h2⟩ := addUserData_footprint pi ud pi' h
    have := runChunk_userData hud
    refine ⟨?_, by omega⟩
    simp only [footprintParseV, h2]
    omega
  · -- old palette 0x0004
    dsimp -iota -proj only
    split
    · refine ROk.bind_any (fun p hp => rok_pure ⟨?_, Nat.le_refl _⟩)
      have := runChunk_oldPalette hp
      simp only [footprintParseV, footprintParse, optPaletteSize]
      omega
    · exact rok_pure ⟨by simp only [footprintParseV, footprintParse]; omega, Nat.le_refl _⟩
  · -- old palette 0x0011
    dsimp -iota -proj only
    split
    · refine ROk.bind_any (fun p hp => rok_pure ⟨?_, Nat.le_refl _⟩)
      have := runChunk_oldPalette hp
      simp only [footprintParseV, footprintParse, optPaletteSize]
      omega
    · exact rok_pure ⟨by simp only [footprintParseV, footprintParse]; omega, Nat.le_refl _⟩
  · -- tileset
    rename_i hty
    have hbig := chunkCost_big c (.inr hty)
    refine ROk.bind_any (fun t ht => rok_pure ⟨?_, Nat.le_refl _⟩)
    have := runChunk_tileset hexp ht
    have := sumBy_assocInsert (tilesetSize rawPayload) t.id.toNat t pi.tilesets
    simp only [footprintParseV, footprintParse]
    omega
  all_goals exact rok_pure ⟨by omega, Nat.le_refl _⟩

/-- **one chunk**, as asked for: `footprintParse` grows by at most `chunkCost c` -/
theorem processChunk_footprint (inflate : Inflate) (hexp : Alloc.ExpansionBounded inflate)
    (m : Profile) (fmt : PixelFormat) (frame : Nat) (pi pi' : ParseInfo) (c : Chunk)
    (h : processChunk inflate m fmt frame pi c = .ok pi') :
    footprintParse pi' ≤ footprintParse pi + Alloc.chunkCost c := by
  obtain ⟨h1, h2⟩ := processChunk_step inflate hexp m fmt frame pi c pi' h
  simp only [footprintParseV, parentsSize] at h1
  omega

/-- the chunks of one frame -/
theorem processChunks_footprint (inflate : Inflate) (hexp : Alloc.ExpansionBounded inflate)
    (m : Profile) (fmt : PixelFormat) (frame : Nat) :
    ∀ (cs : List Chunk) (pi pi' : ParseInfo),
      processChunks inflate m fmt frame pi cs = .ok pi' →
      footprintParseV pi' ≤ footprintParseV pi + (cs.map Alloc.chunkCost).sum := by
  intro cs
  induction cs with
  | nil =>
      intro pi pi' h
      simp only [processChunks, Res.ok.injEq] at h
      subst h
      simp
  | cons c cs ih =>
      intro pi pi' h
      unfold processChunks at h
      cases hp : processChunk inflate m fmt frame pi c with
      | ok pi1 =>
          rw [hp] at h
          have h1 := (processChunk_step inflate hexp m fmt frame pi c pi1 hp).1
          have h2 := ih pi1 pi' h
          simp only [List.map_cons, List.sum_cons]
          omega
      | err e => rw [hp] at h; cases h
      | panic s => rw [hp] at h; cases h

/-! ### framing -/

theorem bind_ok_inv {σ α β} {x : RdS σ α} {f : α → RdS σ β} {s s' : σ} {b : β}
    (h : (x >>= f) s = .ok (b, s')) : ∃ a s1, x s = .ok (a, s1) ∧ f a s1 = .ok (b, s') := by
  rw [RdS.bind_run] at h
  cases hx : x s with
  | ok r => obtain ⟨a, s1⟩ := r; rw [hx] at h; exact ⟨a, s1, rfl, h⟩
  | err e => rw [hx] at h; cases h
  | panic p => rw [hx] at h; cases h

theorem lift_ok_inv {σ α} {r : Res α} {s s' : σ} {a : α}
    (h : (RdS.lift r : RdS σ α) s = .ok (a, s')) : r = .ok a ∧ s' = s := by
  cases r with
  | ok a' =>
      simp only [RdS.lift_ok, Res.ok.injEq, Prod.mk.injEq] at h
      exact ⟨by rw [h.1], h.2.symm⟩
  | err e => cases h
  | panic p => cases h

/-- a successful `readChunks` is what the account's `readChunksPartial` sees: all `n` chunks -/
theorem readChunksPartial_of_ok : ∀ (n : Nat) (avail : Int) (bs : Bytes) (cs : List Chunk)
    (rest : Bytes), readChunks bytesSrc n avail bs = .ok (cs, rest) →
    Alloc.readChunksPartial n avail bs = (cs, rest) ∧ cs.length = n := by
  intro n
  induction n with
  | zero =>
      intro avail bs cs rest h
      simp only [readChunks, RdS.pure_run, Res.ok.injEq, Prod.mk.injEq] at h
      obtain ⟨rfl, rfl⟩ := h
      exact ⟨rfl, rfl⟩
  | succ n ih =>
      intro avail bs cs rest h
      unfold readChunks at h
      obtain ⟨⟨c, avail'⟩, s1, h1, h2⟩ := bind_ok_inv h
      dsimp only at h2
      obtain ⟨cs', s2, h3, h4⟩ := bind_ok_inv h2
      simp only [RdS.pure_run, Res.ok.injEq, Prod.mk.injEq] at h4
      obtain ⟨rfl, rfl⟩ := h4
      obtain ⟨h5, h6⟩ := ih avail' s1 cs' s2 h3
      unfold Alloc.readChunksPartial
      simp only [h1, h5, List.length_cons, h6, and_self]

/-- the account is monotone in the number of frames it looks at -/
theorem framesCost_mono : ∀ (k n : Nat) (bs : Bytes), k ≤ n →
    Alloc.framesCost k bs ≤ Alloc.framesCost n bs := by
  intro k
  induction k with
  | zero => intro n bs _; simp [Alloc.framesCost]
  | succ k ih =>
      intro n bs hkn
      obtain ⟨n', rfl⟩ : ∃ n', n = n' + 1 := ⟨n - 1, by omega⟩
      unfold Alloc.framesCost
      split
      · rename_i fh rest hh
        generalize Alloc.readChunksPartial fh.numChunks ((fh.numBytes.toNat : Int) - 16) rest = r
        dsimp only
        split
        · have := ih n' r.2 (by omega)
          omega
        · omega
      · omega

/-- the account of a frame whose framing succeeded: the cost of all its chunks, and it goes on
    with what is left -/
theorem framesCost_succ_of_ok {bs r3 r4 : Bytes} {fh : FrameHeader} {cs : List Chunk}
    (hfh : readFrameHeader bytesSrc bs = .ok (fh, r3))
    (hcs : readChunks bytesSrc fh.numChunks ((fh.numBytes.toNat : Int) - 16) r3 = .ok (cs, r4))
    (n : Nat) :
    Alloc.framesCost (n + 1) bs = (cs.map Alloc.chunkCost).sum + Alloc.framesCost n r4 := by
  obtain ⟨h6, h7⟩ := readChunksPartial_of_ok _ _ _ _ _ hcs
  rw [Alloc.framesCost]
  simp only [hfh, h6, h7, beq_self_eq_true, if_true]

theorem footprintParseV_setFrameTime (pi : ParseInfo) (frame : Nat) (d : UInt16) :
    footprintParseV { pi with frameTimes := pi.frameTimes.set! frame d } = footprintParseV pi := by
  simp [footprintParseV, footprintParse, Array.set!_eq_setIfInBounds]

/-- one frame: the state grows by at most the cost of the frame's chunks, and the account
    continues with what is left -/
theorem parseFrame_footprint (inflate : Inflate) (hexp : Alloc.ExpansionBounded inflate)
    (m : Profile) (fmt : PixelFormat) (frame : Nat) (pi pi' : ParseInfo) (bs rest : Bytes)
    (h : parseFrame bytesSrc inflate m fmt frame pi bs = .ok (pi', rest)) (n : Nat) :
    footprintParseV pi' + Alloc.framesCost n rest ≤
      footprintParseV pi + Alloc.framesCost (n + 1) bs := by
  unfold parseFrame at h
  obtain ⟨fh, s1, h1, h2⟩ := bind_ok_inv h
  dsimp -iota -proj only at h2
  obtain ⟨cs, s2, h3, h4⟩ := bind_ok_inv h2
  obtain ⟨h5, rfl⟩ := lift_ok_inv h4
  have h8 := processChunks_footprint inflate hexp m fmt frame cs _ pi' h5
  rw [footprintParseV_setFrameTime] at h8
  have h10 := framesCost_succ_of_ok h1 h3 n
  omega

/-- **all frames read so far**, with the account continuing on what is left: after `k` frames
    the state holds at most the account of these frames more than the state they started from -/
theorem parseFrames_footprint_cont (inflate : Inflate) (hexp : Alloc.ExpansionBounded inflate)
    (m : Profile) (fmt : PixelFormat) :
    ∀ (k frame : Nat) (pi pi' : ParseInfo) (bs rest : Bytes),
      parseFrames bytesSrc inflate m fmt k frame pi bs = .ok (pi', rest) → ∀ n,
      footprintParseV pi' + Alloc.framesCost n rest
        ≤ footprintParseV pi + Alloc.framesCost (k + n) bs := by
  intro k
  induction k with
  | zero =>
      intro frame pi pi' bs rest h n
      simp only [parseFrames, RdS.pure_run, Res.ok.injEq, Prod.mk.injEq] at h
      rw [h.1, h.2, Nat.zero_add]
      omega
  | succ k ih =>
      intro frame pi pi' bs rest h n
      unfold parseFrames at h
      obtain ⟨pi1, s1, h1, h2⟩ := bind_ok_inv h
      have h3 := parseFrame_footprint inflate hexp m fmt frame pi pi1 bs s1 h1 (k + n)
      have h4 := ih (frame + 1) pi1 pi' s1 rest h2 n
      have e : k + 1 + n = k + n + 1 := by omega
      rw [e]
      omega

theorem parseFrames_footprint (inflate : Inflate) (hexp : Alloc.ExpansionBounded inflate)
    (m : Profile) (fmt : PixelFormat) (n frame : Nat) (pi pi' : ParseInfo) (bs rest : Bytes)
    (h : parseFrames bytesSrc inflate m fmt n frame pi bs = .ok (pi', rest)) :
    footprintParseV pi' ≤ footprintParseV pi + Alloc.framesCost n bs := by
  have := parseFrames_footprint_cont inflate hexp m fmt n frame pi pi' bs rest h 0
  simp only [Nat.add_zero] at this
  omega

/-! ### validation -/

theorem validatePixels_payload (pal : Option Palette) (fmt : PixelFormat) (bg : Bool)
    (raw : RawPixels) (px : Pixels) (h : validatePixels pal fmt bg raw = .ok px) :
    pxPayload px = rawPayload raw := by
  cases raw with
  | rgba a => simp only [validatePixels, Res.ok.injEq] at h; subst h; rfl
  | gray a => simp only [validatePixels, Res.ok.injEq] at h; subst h; rfl
  | indexed a =>
      obtain ⟨p, tci, _, _, hout, _⟩ := C11.indexed_complete pal fmt bg a px h
      subst hout
      rfl

theorem validateCel_size (layers : Array LayerData) (tilesets : List (Nat × Tileset Pixels))
    (pal : Option Palette) (fmt : PixelFormat) (numFrames : Nat)
    (cels : Array (FrameCels RawPixels)) (k : Nat) (c : RawCel RawPixels) (c' : RawCel Pixels)
    (h : validateCel layers tilesets pal fmt numFrames cels k c = .ok c') :
    celSize pxPayload c' = celSize rawPayload c := by
  unfold validateCel at h
  split at h
  · cases h
  · split at h
    · rename_i w hh px hcontent
      split at h
      · rename_i px' hpx
        cases h
        have := validatePixels_payload _ _ _ _ _ hpx
        simp only [celSize, contentSize, hcontent, this]
      · cases h
      · cases h
    · rename_i f hcontent
      split at h
      · cases h
        simp only [celSize, contentSize, hcontent]
      · cases h
    · rename_i t hcontent
      split at h
      · dsimp only at h
        split at h <;> split at h <;>
          first
            | (cases h; simp only [celSize, contentSize, hcontent])
            | cases h
      · cases h

theorem validateTilesets_size (pal : Option Palette) (fmt : PixelFormat) :
    ∀ (l : List (Nat × Tileset RawPixels)) (l' : List (Nat × Tileset Pixels)),
      validateTilesets pal fmt l = .ok l' →
      sumBy (fun p => tilesetSize pxPayload p.2) l' = sumBy (fun p => tilesetSize rawPayload p.2) l := by
  intro l
  induction l with
  | nil =>
      intro l' h
      simp only [validateTilesets, Res.ok.injEq] at h
      subst h
      rfl
  | cons hd tl ih =>
      intro l' h
      obtain ⟨k, t⟩ := hd
      unfold validateTilesets at h
      split at h
      · cases h
      · rename_i raw hraw
        split at h
        · rename_i px hpx
          cases hrest : validateTilesets pal fmt tl with
          | ok r =>
              rw [hrest] at h
              simp only [Res.map_ok, Res.ok.injEq] at h
              subst h
              have := validatePixels_payload _ _ _ _ _ hpx
              simp only [sumBy_cons]
              rw [ih r hrest]
              simp only [tilesetSize, hraw, optPay, this]
          | err e => rw [hrest] at h; cases h
          | panic s => rw [hrest] at h; cases h
        · cases h
        · cases h

theorem rowRel_size {layers : Array LayerData} {tilesets : List (Nat × Tileset Pixels)}
    {pal : Option Palette} {fmt : PixelFormat} {numFrames : Nat}
    {cels : Array (FrameCels RawPixels)} {row : FrameCels RawPixels} {row' : FrameCels Pixels}
    (h : RowRel layers tilesets pal fmt numFrames cels row row') :
    rowSize pxPayload row' ≤ rowSize rawPayload row := by
  have := sumBy_le_of_all2 (fun p : Nat × RawCel RawPixels => celSize rawPayload p.2)
    (fun p : Nat × RawCel Pixels => celSize pxPayload p.2)
    (fun p p' hr => Nat.le_of_eq (validateCel_size _ _ _ _ _ _ _ _ _ hr.2.2)) h
  simp only [rowSize]
  omega

/-- **validation does not increase the footprint**: pixel buffers keep their payload, tilesets
    theirs, the rows are rebuilt from the same cels; the one new table (`parents`, one entry per
    layer) is what `footprintParseV` has set aside -/
theorem validate_footprint (h : Header) (fmt : PixelFormat) (pi : ParseInfo) (s : Sprite)
    (hv : validate h fmt pi = .ok s) : footprintSprite s ≤ footprintParseV pi := by
  unfold validate at hv
  cases hpar : computeParents pi.layers with
  | err e => rw [hpar] at hv; cases hv
  | panic q => rw [hpar] at hv; cases hv
  | ok parents =>
  rw [hpar] at hv
  simp only [Res.bind_ok] at hv
  cases hts : validateTilesets pi.palette fmt pi.tilesets with
  | err e => rw [hts] at hv; cases hv
  | panic q => rw [hts] at hv; cases hv
  | ok tilesets =>
  rw [hts] at hv
  simp only [Res.bind_ok] at hv
  split at hv
  · cases hv
  · cases hrows : validateRows pi.layers tilesets pi.palette fmt h.numFrames.toNat pi.cels
        pi.cels.toList with
    | err e => rw [hrows] at hv; cases hv
    | panic q => rw [hrows] at hv; cases hv
    | ok rows =>
    rw [hrows] at hv
    simp only [Res.bind_ok, Res.pure_eq, Res.ok.injEq] at hv
    subst hv
    have hrel := validateRows_rel _ _ _ _ _ _ _ _ hrows
    have hp1 := (C09.parents_lt pi.layers parents hpar).1
    have hsets := validateTilesets_size _ _ _ _ hts
    have hcels : sumBy (rowSize pxPayload) rows ≤ sumBy (rowSize rawPayload) pi.cels.toList :=
      sumBy_le_of_all2 _ _ (fun _ _ hr => rowRel_size hr) hrel
    have htags : sumBy tagSize (pi.tags.getD #[]).toList = optTagsSize pi.tags := by
      cases pi.tags <;> rfl
    simp only [footprintSprite, footprintParseV, footprintParse, celsSize, hp1, hsets, htags]
    omega

end Ase.Proofs.C12
