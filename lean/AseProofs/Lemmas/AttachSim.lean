import AseProofs.Lemmas.AttachMachine
/-
  C10, the model performs the abstract step: `proj` extracts from `ParseInfo` the state of the
  abstract machine of `AttachMachine.lean`, `decodeEv` is the decoding phase of `processChunk`
  (it yields the event a chunk stands for, or the decoder's failure), and
  `processChunk_sim` says that `processChunk` = decode, then `absStep`, on the projected state -
  for every chunk, every state, including the error and panic outcomes.
-/
namespace Ase.Proofs.C10
open Ase Ase.Spec

/-! ### postconditions of chunk decoders -/

/-- every value the reader can return satisfies `Q` -/
def Post {σ α} (Q : α → Prop) (x : RdS σ α) : Prop := ∀ s a s', x s = .ok (a, s') → Q a

theorem Post.bind' {σ α β} {P : α → Prop} {Q : β → Prop} {x : RdS σ α} {f : α → RdS σ β}
    (hx : Post P x) (hf : ∀ a, P a → Post Q (f a)) : Post Q (x >>= f) := by
  intro s b s' h
  rw [RdS.bind_run] at h
  cases hxs : x s with
  | ok r =>
      obtain ⟨a, s1⟩ := r
      rw [hxs] at h
      exact hf a (hx s a s1 hxs) s1 b s' h
  | err e => rw [hxs] at h; cases h
  | panic p => rw [hxs] at h; cases h

theorem Post.bind {σ α β} {Q : β → Prop} {x : RdS σ α} {f : α → RdS σ β}
    (hf : ∀ a, Post Q (f a)) : Post Q (x >>= f) :=
  Post.bind' (P := fun _ => True) (fun _ _ _ _ => trivial) (fun a _ => hf a)

theorem Post.pure {σ α} {Q : α → Prop} {a : α} (h : Q a) : Post Q (Pure.pure a : RdS σ α) := by
  intro s b s' hb
  simp only [RdS.pure_run, Res.ok.injEq, Prod.mk.injEq] at hb
  rw [← hb.1]; exact h

theorem Post.fail {σ α} {Q : α → Prop} (e : Err) : Post Q (RdS.fail e : RdS σ α) := by
  intro s b s' hb
  simp at hb

theorem post_runChunk {α} {Q : α → Prop} {p : Rd α} (hp : Post Q p) {data : Bytes} {a : α}
    (h : runChunk p data = .ok a) : Q a := by
  unfold runChunk at h
  cases hr : p data with
  | ok r =>
      obtain ⟨a', s'⟩ := r
      rw [hr] at h
      simp only [Res.map_ok, Res.ok.injEq] at h
      subst h
      exact hp data a' s' hr
  | err e => rw [hr] at h; simp at h
  | panic s => rw [hr] at h; simp at h

theorem post_rdRepeat {α} {Q : α → Prop} {p : Rd α} (hp : Post Q p) :
    ∀ n, Post (fun l => ∀ a ∈ l, Q a) (rdRepeat p n) := by
  intro n
  induction n with
  | zero => unfold rdRepeat; exact Post.pure (by simp)
  | succ n ih =>
      unfold rdRepeat
      refine Post.bind' hp (fun a ha => Post.bind' ih (fun rest hrest => Post.pure ?_))
      intro b hb
      rcases List.mem_cons.mp hb with rfl | hb
      · exact ha
      · exact hrest b hb

macro "post_auto" : tactic => `(tactic| repeat (first
  | (refine Post.bind (fun _ => ?_))
  | exact Post.fail _
  | exact Post.pure rfl
  | split))

theorem post_parseLayerChunk : Post (fun l => l.userData = none) parseLayerChunk := by
  unfold parseLayerChunk; post_auto

theorem post_parseCelChunk (inflate : Inflate) (fmt : PixelFormat) :
    Post (fun c => c.userData = none) (parseCelChunk inflate fmt) := by
  unfold parseCelChunk; post_auto

theorem post_parseSliceChunk : Post (fun s => s.userData = none) parseSliceChunk := by
  unfold parseSliceChunk; post_auto

theorem post_parseTag : Post (fun t => t.userData = none) parseTag := by
  unfold parseTag; post_auto

theorem post_parseTagsChunk : Post (fun ts => ∀ t ∈ ts, t.userData = none) parseTagsChunk := by
  unfold parseTagsChunk
  apply Post.bind; intro _
  apply Post.bind; intro _
  exact post_rdRepeat post_parseTag _

/-! ### association lists of cels -/

theorem frameCels_get?_cons {P} (k k' : Nat) (c : RawCel P) (t : FrameCels P) :
    FrameCels.get? k ((k', c) :: t) = if k' = k then some c else FrameCels.get? k t := by
  unfold FrameCels.get?
  by_cases h : k' = k <;> simp [h]

theorem frameCels_get?_nil {P} (k : Nat) : FrameCels.get? k ([] : FrameCels P) = none := rfl

theorem frameCels_get?_insert {P} (k : Nat) (c : RawCel P) :
    ∀ (row : FrameCels P), FrameCels.get? k row = none →
      ∀ k'', FrameCels.get? k'' (FrameCels.insert k c row) =
        if k'' = k then some c else FrameCels.get? k'' row := by
  intro row
  induction row with
  | nil =>
      intro _ k''
      simp only [FrameCels.insert, frameCels_get?_cons, frameCels_get?_nil]
      by_cases h : k = k'' <;> simp [h, eq_comm]
  | cons hd t ih =>
      obtain ⟨k', c'⟩ := hd
      intro hnone k''
      rw [frameCels_get?_cons] at hnone
      by_cases hk : k' = k
      · simp [hk] at hnone
      · simp only [hk, if_false] at hnone
        simp only [FrameCels.insert]
        by_cases hlt : k < k'
        · simp only [hlt, if_true, frameCels_get?_cons]
          by_cases h : k = k'' <;> simp [h, eq_comm]
        · simp only [hlt, if_false, frameCels_get?_cons, ih hnone k'']
          by_cases h1 : k' = k''
          · have : ¬ k'' = k := by omega
            simp [h1, this]
          · simp [h1]

theorem frameCels_get?_modify {P} (k : Nat) (f : RawCel P → RawCel P) :
    ∀ (row : FrameCels P) k'', FrameCels.get? k'' (FrameCels.modify k f row) =
        if k'' = k then (FrameCels.get? k row).map f else FrameCels.get? k'' row := by
  intro row
  induction row with
  | nil => intro k''; simp [FrameCels.modify, frameCels_get?_nil]
  | cons hd t ih =>
      obtain ⟨k', c'⟩ := hd
      intro k''
      simp only [FrameCels.modify]
      by_cases hk : k' = k
      · subst hk
        simp only [beq_self_eq_true, if_true, frameCels_get?_cons]
        by_cases h : k' = k''
        · simp [h]
        · have : ¬ k'' = k' := fun h' => h h'.symm
          simp [h, this]
      · have hk' : (k' == k) = false := by simp [hk]
        simp only [hk', Bool.false_eq_true, if_false, frameCels_get?_cons, ih k'', hk]
        by_cases h1 : k' = k''
        · have : ¬ k'' = k := by omega
          simp [h1, this]
        · simp [h1]

/-! ### the projection -/

/-- the abstract state of a `ParseInfo` -/
def proj (pi : ParseInfo) : AState :=
  { layers := pi.layers.toList.map (·.userData)
    slices := pi.slices.toList.map (·.userData)
    tags := pi.tags.map (fun ts => ts.toList.map (·.userData))
    sprite := pi.spriteUserData
    nframes := pi.cels.size
    cels := fun f l => ((pi.cels[f]?).bind (FrameCels.get? l)).map (·.userData)
    ctx := pi.ctx }

theorem AState.ext' {a b : AState} (h1 : a.layers = b.layers) (h2 : a.slices = b.slices)
    (h3 : a.tags = b.tags) (h4 : a.sprite = b.sprite) (h5 : a.nframes = b.nframes)
    (h6 : ∀ f l, a.cels f l = b.cels f l) (h7 : a.ctx = b.ctx) : a = b := by
  cases a; cases b
  simp only at h1 h2 h3 h4 h5 h6 h7
  have : ‹Nat → Nat → Option (Option UserData)› = ‹Nat → Nat → Option (Option UserData)› := rfl
  simp only [AState.mk.injEq]
  exact ⟨h1, h2, h3, h4, h5, funext (fun f => funext (fun l => h6 f l)), h7⟩

theorem proj_new (n : Nat) (t : UInt16) : proj (ParseInfo.new n t) = AState.init n := by
  apply AState.ext'
  iterate 5 simp [proj, ParseInfo.new, AState.init]
  rotate_left
  · rfl
  · intro f l
    simp only [proj, ParseInfo.new, AState.init]
    by_cases h : f < n
    · simp [h, frameCels_get?_nil]
    · simp [h]

theorem setUD_proj {α} (arr : Array α) (i : Nat) (g : α → α) (ud : α → Option UserData)
    (u : UserData) (hg : ∀ a, ud (g a) = some u) :
    (setUD arr i g).map (fun a => a.toList.map ud) = setSlot (arr.toList.map ud) i u := by
  unfold setUD setSlot
  by_cases h : i < arr.size
  · simp [h, List.map_set, hg]
  · simp [h]

theorem map_eq_replicate_none {α} (f : α → Option UserData) :
    ∀ (l : List α), (∀ a ∈ l, f a = none) → l.map f = List.replicate l.length none := by
  intro l
  induction l with
  | nil => intro _; rfl
  | cons a l ih =>
      intro h
      simp only [List.map_cons, List.length_cons, List.replicate_succ]
      rw [h a (by simp), ih (fun b hb => h b (by simp [hb]))]

/-! ### the decoding phase -/

/-- The decoding phase of `processChunk`: the event the chunk stands for, or the decoder's
    failure.  `palNone` = "no palette has been stored yet" (a legacy palette chunk is only
    decoded in that case). -/
def decodeEv (inflate : Inflate) (m : Profile) (fmt : PixelFormat) (frame : Nat) (palNone : Bool)
    (c : Chunk) : Res Ev :=
  match c.ty with
  | .colorProfile => (runChunk parseColorProfileChunk c.data).map (fun _ => .other)
  | .palette => (runChunk parsePaletteChunk c.data).map (fun _ => .other)
  | .layer => (runChunk parseLayerChunk c.data).map (fun _ => .layer)
  | .cel => (runChunk (parseCelChunk inflate fmt) c.data).map
      (fun cel => .cel frame cel.data.layerIndex.toNat)
  | .externalFiles => (runChunk parseExternalFilesChunk c.data).map (fun _ => .other)
  | .tags => (runChunk parseTagsChunk c.data).map
      (fun ts => if frame == 0 then .tags ts.length else .other)
  | .slice => (runChunk parseSliceChunk c.data).map (fun _ => .slice)
  | .userData => (runChunk parseUserDataChunk c.data).map .userData
  | .oldPalette04 =>
      if palNone then (runChunk (parseOldPaletteChunk m false) c.data).map (fun _ => .oldPalette)
      else .ok .oldPalette
  | .oldPalette11 =>
      if palNone then (runChunk (parseOldPaletteChunk m true) c.data).map (fun _ => .oldPalette)
      else .ok .oldPalette
  | .tileset => (runChunk (parseTilesetChunk inflate fmt) c.data).map (fun _ => .other)
  | .celExtra | .mask | .path => .ok .other

/-! ### `addCel` and `addUserData` perform the abstract step -/

theorem addCel_sim (pi : ParseInfo) (frame : Nat) (cel : RawCel RawPixels)
    (hud : cel.userData = none) :
    (pi.addCel frame cel).map proj = absStep (proj pi) (.cel frame cel.data.layerIndex.toNat) := by
  unfold ParseInfo.addCel
  cases hrow : pi.cels[frame]? with
  | none =>
      have : ¬ frame < pi.cels.size := by
        intro h; rw [Array.getElem?_eq_getElem h] at hrow; cases hrow
      simp [absStep, proj, this]
  | some row =>
      have hf : frame < pi.cels.size := by
        rcases Nat.lt_or_ge frame pi.cels.size with h | h
        · exact h
        · rw [Array.getElem?_eq_none h] at hrow; cases hrow
      have hcel : (proj pi).cels frame cel.data.layerIndex.toNat =
          (FrameCels.get? cel.data.layerIndex.toNat row).map (·.userData) := by
        simp [proj, hrow]
      simp only [absStep]
      rw [hcel]
      have hnf : (proj pi).nframes = pi.cels.size := rfl
      simp only [hnf, hf, if_true, Option.isSome_map]
      cases hget : FrameCels.get? cel.data.layerIndex.toNat row with
      | some c0 => simp
      | none =>
          simp only [Option.isSome_none, Bool.false_eq_true, if_false, Res.map_ok, Res.ok.injEq]
          apply AState.ext' <;> try rfl
          · simp [proj]
          · intro f l
            simp only [proj, setCel, Array.set!_eq_setIfInBounds, Array.getElem?_setIfInBounds]
            by_cases hff : frame = f
            · subst hff
              simp only [if_true, hf, Option.bind_some, frameCels_get?_insert _ _ _ hget, hrow]
              by_cases hl : l = cel.data.layerIndex.toNat
              · simp [hl, hud]
              · simp [hl]
            · have : ¬ (f = frame ∧ l = cel.data.layerIndex.toNat) := by
                intro ⟨h, _⟩; exact hff h.symm
              simp [hff, this]

theorem addUserData_sim (pi : ParseInfo) (ud : UserData) :
    (pi.addUserData ud).map proj = absStep (proj pi) (.userData ud) := by
  unfold ParseInfo.addUserData
  have hctx : (proj pi).ctx = pi.ctx := rfl
  simp only [absStep, hctx]
  cases hc : pi.ctx with
  | none => rfl
  | some c =>
      cases c with
      | cel f l =>
          simp only
          have hnf : (proj pi).nframes = pi.cels.size := rfl
          cases hrow : pi.cels[f]? with
          | none =>
              have : ¬ f < pi.cels.size := by
                intro h; rw [Array.getElem?_eq_getElem h] at hrow; cases hrow
              simp [hnf, this]
          | some row =>
              have hf : f < pi.cels.size := by
                rcases Nat.lt_or_ge f pi.cels.size with h | h
                · exact h
                · rw [Array.getElem?_eq_none h] at hrow; cases hrow
              have hcel : (proj pi).cels f l = (FrameCels.get? l row).map (·.userData) := by
                simp [proj, hrow]
              simp only [hnf, hf, if_true, hcel]
              cases hget : FrameCels.get? l row with
              | none => rfl
              | some c0 =>
                  simp only [Option.map_some, Res.map_ok, Res.ok.injEq]
                  apply AState.ext' <;> try rfl
                  · simp [proj]
                  · intro f' l'
                    simp only [proj, setCel, Array.set!_eq_setIfInBounds,
                      Array.getElem?_setIfInBounds]
                    by_cases hff : f = f'
                    · subst hff
                      simp only [if_true, hf, Option.bind_some, frameCels_get?_modify, hrow]
                      by_cases hl : l' = l
                      · simp [hl, hget]
                      · simp [hl]
                    · have : ¬ (f' = f ∧ l' = l) := by
                        intro ⟨h, _⟩; exact hff h.symm
                      simp [hff, this]
      | layer i =>
          simp only
          have h := setUD_proj pi.layers i (fun l => { l with userData := some ud })
            (·.userData) ud (fun _ => rfl)
          have hl : (proj pi).layers = pi.layers.toList.map (·.userData) := rfl
          rw [hl, ← h]
          cases setUD pi.layers i (fun l => { l with userData := some ud }) with
          | none => rfl
          | some ls => rfl
      | oldPalette => rfl
      | tag i =>
          simp only
          have ht : (proj pi).tags = pi.tags.map (fun ts => ts.toList.map (·.userData)) := rfl
          rw [ht]
          cases htags : pi.tags with
          | none => rfl
          | some ts =>
              simp only [Option.map_some]
              have h := setUD_proj ts i (fun t => { t with userData := some ud })
                (·.userData) ud (fun _ => rfl)
              rw [← h]
              cases setUD ts i (fun t => { t with userData := some ud }) with
              | none => rfl
              | some ts' => rfl
      | slice i =>
          simp only
          have h := setUD_proj pi.slices i (fun l => { l with userData := some ud })
            (·.userData) ud (fun _ => rfl)
          have hl : (proj pi).slices = pi.slices.toList.map (·.userData) := rfl
          rw [hl, ← h]
          cases setUD pi.slices i (fun l => { l with userData := some ud }) with
          | none => rfl
          | some ls => rfl

/-! ### `processChunk` = decode, then the abstract step -/

theorem res_map_bind {α β γ} (x : Res α) (f : α → Res β) (g : β → γ) :
    (x >>= f).map g = x >>= fun a => (f a).map g := by
  cases x <;> rfl

/-- **`processChunk` performs exactly the abstract step of the chunk's event**, for every chunk
    and every state; decoder failures, `addCel` / `addUserData` errors and the panic value are
    reproduced as they are. -/
theorem processChunk_sim (inflate : Inflate) (m : Profile) (fmt : PixelFormat) (frame : Nat)
    (pi : ParseInfo) (c : Chunk) :
    (processChunk inflate m fmt frame pi c).map proj =
      (decodeEv inflate m fmt frame pi.palette.isNone c).bind (absStep (proj pi)) := by
  obtain ⟨ty, data⟩ := c
  cases ty with
  | colorProfile =>
      simp only [processChunk, decodeEv]
      cases runChunk parseColorProfileChunk data <;> rfl
  | palette =>
      simp only [processChunk, decodeEv]
      cases runChunk parsePaletteChunk data <;> rfl
  | externalFiles =>
      simp only [processChunk, decodeEv]
      cases runChunk parseExternalFilesChunk data <;> rfl
  | tileset =>
      simp only [processChunk, decodeEv]
      cases runChunk (parseTilesetChunk inflate fmt) data <;> rfl
  | celExtra => rfl
  | mask => rfl
  | path => rfl
  | layer =>
      simp only [processChunk, decodeEv]
      cases hr : runChunk parseLayerChunk data with
      | err e => rfl
      | panic s => rfl
      | ok l =>
          have hud : l.userData = none := post_runChunk post_parseLayerChunk hr
          simp only [Res.bind_ok, Res.pure_eq, Res.map_ok, Res.bind_ok', absStep, Res.ok.injEq]
          apply AState.ext'
          all_goals first | rfl | (intro f l; rfl) | simp [proj, hud]
  | slice =>
      simp only [processChunk, decodeEv]
      cases hr : runChunk parseSliceChunk data with
      | err e => rfl
      | panic s => rfl
      | ok l =>
          have hud : l.userData = none := post_runChunk post_parseSliceChunk hr
          simp only [Res.bind_ok, Res.pure_eq, Res.map_ok, Res.bind_ok', absStep, Res.ok.injEq]
          apply AState.ext'
          all_goals first | rfl | (intro f l; rfl) | simp [proj, hud]
  | cel =>
      simp only [processChunk, decodeEv]
      cases hr : runChunk (parseCelChunk inflate fmt) data with
      | err e => rfl
      | panic s => rfl
      | ok cel =>
          have hud : cel.userData = none := post_runChunk (post_parseCelChunk inflate fmt) hr
          simp only [Res.bind_ok, Res.map_ok, Res.bind_ok']
          exact addCel_sim pi frame cel hud
  | userData =>
      simp only [processChunk, decodeEv]
      cases hr : runChunk parseUserDataChunk data with
      | err e => rfl
      | panic s => rfl
      | ok ud =>
          simp only [Res.bind_ok, Res.map_ok, Res.bind_ok']
          exact addUserData_sim pi ud
  | tags =>
      simp only [processChunk, decodeEv]
      cases hr : runChunk parseTagsChunk data with
      | err e => rfl
      | panic s => rfl
      | ok ts =>
          have hud : ∀ t ∈ ts, t.userData = none := post_runChunk post_parseTagsChunk hr
          simp only [Res.bind_ok, Res.map_ok, Res.bind_ok']
          by_cases hf : (frame == 0) = true
          · simp only [hf, if_true, Res.pure_eq, Res.map_ok, absStep, Res.ok.injEq]
            apply AState.ext'
            all_goals first | rfl | (intro f l; rfl) | simp [proj, map_eq_replicate_none _ ts hud]
          · simp only [hf, Bool.false_eq_true, if_false, Res.pure_eq, Res.map_ok, absStep]
  | oldPalette04 =>
      simp only [processChunk, decodeEv]
      cases hp : pi.palette.isNone with
      | false => simp only [Bool.false_eq_true, if_false, Res.pure_eq, Res.map_ok]; rfl
      | true =>
          simp only [if_true]
          cases runChunk (parseOldPaletteChunk m false) data <;> rfl
  | oldPalette11 =>
      simp only [processChunk, decodeEv]
      cases hp : pi.palette.isNone with
      | false => simp only [Bool.false_eq_true, if_false, Res.pure_eq, Res.map_ok]; rfl
      | true =>
          simp only [if_true]
          cases runChunk (parseOldPaletteChunk m true) data <;> rfl

end Ase.Proofs.C10
