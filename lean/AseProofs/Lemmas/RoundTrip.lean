import Ase.Parse
import Ase.Spec.Encode
/-
  Round-trip facts for the primitive readers over plain bytes (`bytesSrc`):
  `read (enc x ++ r) = ok (x, r)` for every value `x`.  Every fact comes in two forms,
  the plain one and the one that pushes the reader through a `>>=`; with the input
  reassociated to the right (`List.append_assoc`) `simp` then runs a whole decoder over an
  encoding.
-/
namespace Ase.Proofs
open Ase

/-! ### reader monad plumbing -/

@[simp] theorem rd_pure_bind {σ α β} (a : α) (f : α → RdS σ β) (s : σ) :
    ((pure a : RdS σ α) >>= f) s = f a s := rfl

@[simp] theorem rd_fail_bind {σ α β} (e : Err) (f : α → RdS σ β) (s : σ) :
    ((RdS.fail e : RdS σ α) >>= f) s = .err e := rfl

@[simp] theorem rd_lift_ok_bind {σ α β} (a : α) (f : α → RdS σ β) (s : σ) :
    ((RdS.lift (.ok a) : RdS σ α) >>= f) s = f a s := rfl

@[simp] theorem rd_ite_apply {σ α} (c : Prop) [Decidable c] (x y : RdS σ α) (s : σ) :
    (if c then x else y) s = if c then x s else y s := by
  split <;> rfl

@[simp] theorem rd_bind_assoc {σ α β γ} (x : RdS σ α) (f : α → RdS σ β) (g : β → RdS σ γ) (s : σ) :
    ((x >>= f) >>= g) s = (x >>= fun a => f a >>= g) s := by
  simp only [RdS.bind_run]
  cases x s with
  | ok p => rfl
  | err e => rfl
  | panic p => rfl

/-! ### bytes -/

@[simp] theorem zeros_length (n : Nat) : (zeros n).length = n := by simp [zeros]
@[simp] theorem u16le_length (x : UInt16) : (u16le x).length = 2 := rfl
@[simp] theorem i16le_length (x : Int16) : (i16le x).length = 2 := rfl
@[simp] theorem u32le_length (x : UInt32) : (u32le x).length = 4 := rfl
@[simp] theorem i32le_length (x : Int32) : (i32le x).length = 4 := rfl
@[simp] theorem strle_length (s : Bytes) : (strle s).length = 2 + s.length := by
  simp [strle]

@[simp] theorem bytesRead_app (n : Nat) (pad r : Bytes) (h : pad.length = n) :
    bytesRead n (pad ++ r) = .ok (pad, r) := by
  subst h
  simp [bytesRead]

@[simp] theorem bytesSrc_read_app (n : Nat) (pad r : Bytes) (h : pad.length = n) :
    bytesSrc.read n (pad ++ r) = .ok (pad, r) := bytesRead_app n pad r h

@[simp] theorem readN_app (n : Nat) (pad r : Bytes) (h : pad.length = n) :
    readN bytesSrc n (pad ++ r) = .ok (pad, r) := bytesRead_app n pad r h

@[simp] theorem readN_bind {β} (n : Nat) (pad r : Bytes) (f : Bytes → Rd β) (h : pad.length = n) :
    (readN bytesSrc n >>= f) (pad ++ r) = f pad r :=
  RdS.bind_ok (readN_app n pad r h)

/-! ### u8 -/

@[simp] theorem readU8_cons (x : UInt8) (r : Bytes) : readU8 bytesSrc (x :: r) = .ok (x, r) := by
  simp [readU8, bytesSrc, bytesRead, Bind.bind, RdS.bind]

@[simp] theorem readU8_bind {β} (x : UInt8) (r : Bytes) (f : UInt8 → Rd β) :
    (readU8 bytesSrc >>= f) (x :: r) = f x r :=
  RdS.bind_ok (readU8_cons x r)

/-! ### u16 / i16 -/

theorem le16_split (x : UInt16) :
    le16 (UInt8.ofNat (x.toNat % 256)) (UInt8.ofNat (x.toNat / 256)) = x := by
  apply UInt16.toNat_inj.mp
  have h := x.toNat_lt
  simp only [le16, UInt16.toNat_ofNat', UInt8.toNat_ofNat']
  omega

@[simp] theorem readU16_app (x : UInt16) (r : Bytes) :
    readU16 bytesSrc (u16le x ++ r) = .ok (x, r) := by
  simp [readU16, u16le, bytesSrc, bytesRead, Bind.bind, RdS.bind, le16_split]

@[simp] theorem readU16_bind {β} (x : UInt16) (r : Bytes) (f : UInt16 → Rd β) :
    (readU16 bytesSrc >>= f) (u16le x ++ r) = f x r :=
  RdS.bind_ok (readU16_app x r)

theorem int16_roundtrip (x : Int16) : x.toUInt16.toInt16 = x := rfl
theorem int32_roundtrip (x : Int32) : x.toUInt32.toInt32 = x := rfl

@[simp] theorem readI16_app (x : Int16) (r : Bytes) :
    readI16 bytesSrc (i16le x ++ r) = .ok (x, r) := by
  simp only [readI16, i16le, readU16_bind]
  rfl

@[simp] theorem readI16_bind {β} (x : Int16) (r : Bytes) (f : Int16 → Rd β) :
    (readI16 bytesSrc >>= f) (i16le x ++ r) = f x r :=
  RdS.bind_ok (readI16_app x r)

/-! ### u32 / i32 -/

theorem le32_split (x : UInt32) :
    le32 (UInt8.ofNat (x.toNat % 256)) (UInt8.ofNat (x.toNat / 256 % 256))
      (UInt8.ofNat (x.toNat / 65536 % 256)) (UInt8.ofNat (x.toNat / 16777216)) = x := by
  apply UInt32.toNat_inj.mp
  have h := x.toNat_lt
  simp only [le32, UInt32.toNat_ofNat', UInt8.toNat_ofNat']
  omega

@[simp] theorem readU32_app (x : UInt32) (r : Bytes) :
    readU32 bytesSrc (u32le x ++ r) = .ok (x, r) := by
  simp [readU32, u32le, bytesSrc, bytesRead, Bind.bind, RdS.bind, le32_split]

@[simp] theorem readU32_bind {β} (x : UInt32) (r : Bytes) (f : UInt32 → Rd β) :
    (readU32 bytesSrc >>= f) (u32le x ++ r) = f x r :=
  RdS.bind_ok (readU32_app x r)

@[simp] theorem readI32_app (x : Int32) (r : Bytes) :
    readI32 bytesSrc (i32le x ++ r) = .ok (x, r) := by
  simp only [readI32, i32le, readU32_bind]
  rfl

@[simp] theorem readI32_bind {β} (x : Int32) (r : Bytes) (f : Int32 → Rd β) :
    (readI32 bytesSrc >>= f) (i32le x ++ r) = f x r :=
  RdS.bind_ok (readI32_app x r)

/-! ### skip -/

@[simp] theorem skip_app (n : Nat) (pad r : Bytes) (h : pad.length = n) :
    skip bytesSrc n (pad ++ r) = .ok ((), r) := by
  simp [skip, Bind.bind, RdS.bind, h]

@[simp] theorem skip_bind {β} (n : Nat) (pad r : Bytes) (f : Unit → Rd β) (h : pad.length = n) :
    (skip bytesSrc n >>= f) (pad ++ r) = f () r :=
  RdS.bind_ok (skip_app n pad r h)

/-! ### strings -/

theorem u16_ofNat_toNat (n : Nat) (h : n < 65536) : (UInt16.ofNat n).toNat = n := by
  simp only [UInt16.toNat_ofNat']
  omega

theorem u32_ofNat_toNat (n : Nat) (h : n < 4294967296) : (UInt32.ofNat n).toNat = n := by
  simp only [UInt32.toNat_ofNat']
  omega

@[simp] theorem readString_app (s r : Bytes) (hlen : s.length < 65536) (hutf : validUtf8 s = true) :
    readString bytesSrc (strle s ++ r) = .ok (s, r) := by
  simp [readString, strle, List.append_assoc, Bind.bind, RdS.bind, u16_ofNat_toNat _ hlen, hutf]

@[simp] theorem readString_bind {β} (s r : Bytes) (f : Bytes → Rd β)
    (hlen : s.length < 65536) (hutf : validUtf8 s = true) :
    (readString bytesSrc >>= f) (strle s ++ r) = f s r :=
  RdS.bind_ok (readString_app s r hlen hutf)

/-! ### repeated readers -/

/-- `rdRepeat` over the concatenation of per-item encodings. -/
theorem rdRepeat_map {α β} (p : Rd α) (enc : β → Bytes) (dec : β → α) (xs : List β)
    (h : ∀ x ∈ xs, ∀ r, p (enc x ++ r) = .ok (dec x, r)) (r : Bytes) :
    rdRepeat p xs.length ((xs.map enc).flatten ++ r) = .ok (xs.map dec, r) := by
  induction xs with
  | nil => rfl
  | cons x t ih =>
      have hx := h x (List.mem_cons_self) ((t.map enc).flatten ++ r)
      have ht := ih (fun y hy => h y (List.mem_cons_of_mem _ hy))
      simp only [List.length_cons, List.map_cons, List.flatten_cons, List.append_assoc, rdRepeat]
      rw [RdS.bind_ok hx, RdS.bind_ok ht]
      rfl

end Ase.Proofs
