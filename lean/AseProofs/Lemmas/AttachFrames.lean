import AseProofs.Lemmas.AttachSim
/-
  C10, from single chunks to chunk lists, frames and `parseFrames`:
  the model's run over the chunks of a file is a run of the abstract machine over the chunks'
  events (`processChunks_sim`, `runFrames_sim`, `parseFrames_runFrames`), and conversely when
  every chunk decodes, the model's run IS the abstract run (`processChunks_complete`,
  `runFrames_complete`).
-/
namespace Ase.Proofs.C10
open Ase Ase.Spec

/-- the two lists have the same length and are related element by element -/
inductive All₂ {α β : Type} (R : α → β → Prop) : List α → List β → Prop where
  | nil : All₂ R [] []
  | cons {a : α} {b : β} {as : List α} {bs : List β} :
      R a b → All₂ R as bs → All₂ R (a :: as) (b :: bs)

/-- `ev` is the event chunk `c` stands for in frame `frame` (its decoding succeeds) -/
def ChunkEv (inflate : Inflate) (m : Profile) (fmt : PixelFormat) (frame : Nat) (c : Chunk)
    (ev : Ev) : Prop :=
  ∃ palNone, decodeEv inflate m fmt frame palNone c = .ok ev

/-- chunk `c` decodes to `ev` whether or not a palette has been stored already -/
def DecodesAs (inflate : Inflate) (m : Profile) (fmt : PixelFormat) (frame : Nat) (c : Chunk)
    (ev : Ev) : Prop :=
  ∀ palNone, decodeEv inflate m fmt frame palNone c = .ok ev

theorem processChunk_ok_sim {inflate : Inflate} {m : Profile} {fmt : PixelFormat} {frame : Nat}
    {pi pi' : ParseInfo} {c : Chunk} (h : processChunk inflate m fmt frame pi c = .ok pi') :
    ∃ ev, ChunkEv inflate m fmt frame c ev ∧ absStep (proj pi) ev = .ok (proj pi') := by
  have hs := processChunk_sim inflate m fmt frame pi c
  rw [h] at hs
  cases hd : decodeEv inflate m fmt frame pi.palette.isNone c with
  | ok ev =>
      rw [hd] at hs
      exact ⟨ev, ⟨_, hd⟩, hs.symm⟩
  | err e => rw [hd] at hs; simp at hs
  | panic p => rw [hd] at hs; simp at hs

/-- a successful run of the model over a chunk list is a run of the abstract machine over the
    chunks' events -/
theorem processChunks_sim {inflate : Inflate} {m : Profile} {fmt : PixelFormat} {frame : Nat} :
    ∀ (cs : List Chunk) (pi pi' : ParseInfo),
      processChunks inflate m fmt frame pi cs = .ok pi' →
      ∃ evs, All₂ (ChunkEv inflate m fmt frame) cs evs ∧
        absRun (proj pi) evs = .ok (proj pi') := by
  intro cs
  induction cs with
  | nil =>
      intro pi pi' h
      simp only [processChunks, Res.ok.injEq] at h
      subst h
      exact ⟨[], All₂.nil, rfl⟩
  | cons c cs ih =>
      intro pi pi' h
      unfold processChunks at h
      cases hp : processChunk inflate m fmt frame pi c with
      | ok pi1 =>
          rw [hp] at h
          obtain ⟨ev, hev, hstep⟩ := processChunk_ok_sim hp
          obtain ⟨evs, hevs, hrun⟩ := ih pi1 pi' h
          exact ⟨ev :: evs, All₂.cons hev hevs, by simp only [absRun, hstep]; exact hrun⟩
      | err e => rw [hp] at h; cases h
      | panic p => rw [hp] at h; cases h

/-- when every chunk decodes, the model's run over the chunk list is the abstract machine's run
    over the events - including its failures -/
theorem processChunks_complete {inflate : Inflate} {m : Profile} {fmt : PixelFormat}
    {frame : Nat} : ∀ (cs : List Chunk) (evs : List Ev) (pi : ParseInfo),
      All₂ (DecodesAs inflate m fmt frame) cs evs →
      (processChunks inflate m fmt frame pi cs).map proj = absRun (proj pi) evs := by
  intro cs evs pi h
  induction h generalizing pi with
  | nil => rfl
  | @cons c ev cs evs hd _ ih =>
      have hs := processChunk_sim inflate m fmt frame pi c
      rw [hd pi.palette.isNone, Res.bind_ok'] at hs
      unfold processChunks
      simp only [absRun]
      cases hp : processChunk inflate m fmt frame pi c with
      | ok pi1 =>
          rw [hp] at hs
          simp only [Res.map_ok] at hs
          rw [← hs]
          exact ih pi1
      | err e =>
          rw [hp] at hs
          simp only [Res.map_err] at hs
          rw [← hs]; rfl
      | panic p =>
          rw [hp] at hs
          simp only [Res.map_panic] at hs
          rw [← hs]; rfl

/-! ### frames -/

/-- the state machine over a whole file: per frame the duration and the chunk list
    (`parseFrames` without the byte-level framing) -/
def runFrames (inflate : Inflate) (m : Profile) (fmt : PixelFormat) :
    Nat → ParseInfo → List (UInt16 × List Chunk) → Res ParseInfo
  | _, pi, [] => .ok pi
  | frame, pi, (d, cs) :: rest =>
      match processChunks inflate m fmt frame
          { pi with frameTimes := pi.frameTimes.set! frame d } cs with
      | .ok pi' => runFrames inflate m fmt (frame + 1) pi' rest
      | .err e => .err e
      | .panic p => .panic p

/-- event lists, frame by frame, of the chunk lists of frames `frame, frame+1, …` -/
def FramesRel (R : Nat → Chunk → Ev → Prop) :
    Nat → List (UInt16 × List Chunk) → List (List Ev) → Prop
  | _, [], [] => True
  | frame, (_, cs) :: rest, evs :: evss =>
      All₂ (R frame) cs evs ∧ FramesRel R (frame + 1) rest evss
  | _, _, _ => False

theorem proj_frameTimes (pi : ParseInfo) (ft : Array UInt16) :
    proj { pi with frameTimes := ft } = proj pi := rfl

theorem runFrames_sim {inflate : Inflate} {m : Profile} {fmt : PixelFormat} :
    ∀ (fs : List (UInt16 × List Chunk)) (frame : Nat) (pi pi' : ParseInfo),
      runFrames inflate m fmt frame pi fs = .ok pi' →
      ∃ evss, FramesRel (ChunkEv inflate m fmt) frame fs evss ∧
        absRun (proj pi) evss.flatten = .ok (proj pi') := by
  intro fs
  induction fs with
  | nil =>
      intro frame pi pi' h
      simp only [runFrames, Res.ok.injEq] at h
      subst h
      exact ⟨[], trivial, rfl⟩
  | cons f fs ih =>
      obtain ⟨d, cs⟩ := f
      intro frame pi pi' h
      unfold runFrames at h
      cases hp : processChunks inflate m fmt frame
          { pi with frameTimes := pi.frameTimes.set! frame d } cs with
      | ok pi1 =>
          rw [hp] at h
          obtain ⟨evs, hevs, hrun⟩ := processChunks_sim cs _ pi1 hp
          rw [proj_frameTimes] at hrun
          obtain ⟨evss, hevss, hrun'⟩ := ih (frame + 1) pi1 pi' h
          refine ⟨evs :: evss, ⟨hevs, hevss⟩, ?_⟩
          rw [List.flatten_cons, absRun_append, hrun]
          exact hrun'
      | err e => rw [hp] at h; cases h
      | panic p => rw [hp] at h; cases h

theorem runFrames_complete {inflate : Inflate} {m : Profile} {fmt : PixelFormat} :
    ∀ (fs : List (UInt16 × List Chunk)) (evss : List (List Ev)) (frame : Nat) (pi : ParseInfo),
      FramesRel (DecodesAs inflate m fmt) frame fs evss →
      (runFrames inflate m fmt frame pi fs).map proj = absRun (proj pi) evss.flatten := by
  intro fs
  induction fs with
  | nil =>
      intro evss frame pi h
      cases evss with
      | nil => rfl
      | cons _ _ => exact absurd h (by simp [FramesRel])
  | cons f fs ih =>
      obtain ⟨d, cs⟩ := f
      intro evss frame pi h
      cases evss with
      | nil => exact absurd h (by simp [FramesRel])
      | cons evs evss =>
          obtain ⟨h1, h2⟩ := h
          have hc := processChunks_complete cs evs
            { pi with frameTimes := pi.frameTimes.set! frame d } h1
          rw [proj_frameTimes] at hc
          unfold runFrames
          rw [List.flatten_cons, absRun_append, ← hc]
          cases hp : processChunks inflate m fmt frame
              { pi with frameTimes := pi.frameTimes.set! frame d } cs with
          | ok pi1 => simp only [Res.map_ok, Res.bind_ok']; exact ih evss (frame + 1) pi1 h2
          | err e => rfl
          | panic p => rfl

/-! ### the byte-level frame loop runs `runFrames` -/

section parse
variable {σ : Type} (S : Src σ)

theorem parseFrame_run {inflate : Inflate} {m : Profile} {fmt : PixelFormat} {frame : Nat}
    {pi pi' : ParseInfo} {s s' : σ}
    (h : parseFrame S inflate m fmt frame pi s = .ok (pi', s')) :
    ∃ d cs, processChunks inflate m fmt frame
      { pi with frameTimes := pi.frameTimes.set! frame d } cs = .ok pi' := by
  unfold parseFrame at h
  rw [RdS.bind_run] at h
  cases hh : readFrameHeader S s with
  | ok r =>
      obtain ⟨hd, s1⟩ := r
      rw [hh] at h
      simp only at h
      rw [RdS.bind_run] at h
      cases hc : readChunks S hd.numChunks ((hd.numBytes.toNat : Int) - 16) s1 with
      | ok r2 =>
          obtain ⟨cs, s2⟩ := r2
          rw [hc] at h
          simp only [RdS.lift] at h
          refine ⟨hd.duration, cs, ?_⟩
          cases hp : processChunks inflate m fmt frame
              { pi with frameTimes := pi.frameTimes.set! frame hd.duration } cs with
          | ok pi1 =>
              rw [hp] at h
              simp only [Res.map_ok, Res.ok.injEq, Prod.mk.injEq] at h
              rw [h.1]
          | err e => rw [hp] at h; simp at h
          | panic p => rw [hp] at h; simp at h
      | err e => rw [hc] at h; cases h
      | panic p => rw [hc] at h; cases h
  | err e => rw [hh] at h; cases h
  | panic p => rw [hh] at h; cases h

/-- a successful `parseFrames` is a successful `runFrames` over the chunk lists it read -/
theorem parseFrames_runFrames {inflate : Inflate} {m : Profile} {fmt : PixelFormat} :
    ∀ (n frame : Nat) (pi pi' : ParseInfo) (s s' : σ),
      parseFrames S inflate m fmt n frame pi s = .ok (pi', s') →
      ∃ fs, fs.length = n ∧ runFrames inflate m fmt frame pi fs = .ok pi' := by
  intro n
  induction n with
  | zero =>
      intro frame pi pi' s s' h
      unfold parseFrames at h
      simp only [RdS.pure_run, Res.ok.injEq, Prod.mk.injEq] at h
      exact ⟨[], rfl, by rw [← h.1]; rfl⟩
  | succ n ih =>
      intro frame pi pi' s s' h
      unfold parseFrames at h
      rw [RdS.bind_run] at h
      cases hf : parseFrame S inflate m fmt frame pi s with
      | ok r =>
          obtain ⟨pi1, s1⟩ := r
          rw [hf] at h
          simp only at h
          obtain ⟨d, cs, hcs⟩ := parseFrame_run S hf
          obtain ⟨fs, hlen, hrun⟩ := ih (frame + 1) pi1 pi' s1 s' h
          refine ⟨(d, cs) :: fs, by simp [hlen], ?_⟩
          simp only [runFrames, hcs]
          exact hrun
      | err e => rw [hf] at h; cases h
      | panic p => rw [hf] at h; cases h

end parse

end Ase.Proofs.C10
