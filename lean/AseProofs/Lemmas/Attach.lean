import Ase.Spec.Attach
/-
  C10, spec-level lemmas: how the declarative definitions of `Ase/Spec/Attach.lean`
  (`lastCtx`, `attachTarget`, `attachedSince`, `lastTags`, `tagLimit`) behave when one event is
  appended, and that they only depend on the prefix before the position asked about.
  Everything downstream (the state-machine invariant, transparency of `other` events) is proved
  by induction on appended events using these.
-/
namespace Ase.Proofs.C10
open Ase Ase.Spec

/-! ### list utilities -/

theorem snoc_induction {α} {P : List α → Prop} (nil : P [])
    (snoc : ∀ l a, P l → P (l ++ [a])) : ∀ l, P l := by
  intro l
  have h : ∀ r : List α, P r.reverse := by
    intro r
    induction r with
    | nil => simpa using nil
    | cons a r ih => simpa using snoc _ a ih
  simpa using h l.reverse

theorem find?_congr' {α} {p q : α → Bool} :
    ∀ {l : List α}, (∀ x ∈ l, p x = q x) → l.find? p = l.find? q := by
  intro l
  induction l with
  | nil => intro _; rfl
  | cons a l ih =>
      intro h
      simp only [List.find?_cons, h a (by simp)]
      rw [ih (fun x hx => h x (by simp [hx]))]

theorem findSome?_congr' {α β} {f g : α → Option β} :
    ∀ {l : List α}, (∀ x ∈ l, f x = g x) → l.findSome? f = l.findSome? g := by
  intro l
  induction l with
  | nil => intro _; rfl
  | cons a l ih =>
      intro h
      simp only [List.findSome?_cons, h a (by simp)]
      rw [ih (fun x hx => h x (by simp [hx]))]

theorem range_succ_reverse (n : Nat) :
    (List.range (n + 1)).reverse = n :: (List.range n).reverse := by
  simp [List.range_succ]

/-! ### `lastCtx` -/

theorem ctxAt_append_left {evs r : List Ev} {j : Nat} (h : j < evs.length) :
    ctxAt (evs ++ r) j = ctxAt evs j := by
  simp [ctxAt, List.getElem?_append_left h]

theorem ctxAt_snoc_length (evs : List Ev) (e : Ev) : ctxAt (evs ++ [e]) evs.length = e.isCtx := by
  simp [ctxAt]

theorem lastCtx_append {evs r : List Ev} {i : Nat} (h : i ≤ evs.length) :
    lastCtx (evs ++ r) i = lastCtx evs i := by
  unfold lastCtx
  apply find?_congr'
  intro j hj
  simp only [List.mem_reverse, List.mem_range] at hj
  exact ctxAt_append_left (by omega)

theorem lastCtx_lt {evs : List Ev} {i j : Nat} (h : lastCtx evs i = some j) :
    j < i ∧ ctxAt evs j = true := by
  unfold lastCtx at h
  have h1 := List.mem_of_find?_eq_some h
  have h2 := List.find?_some h
  simp only [List.mem_reverse, List.mem_range] at h1
  exact ⟨h1, h2⟩

theorem lastCtx_snoc (evs : List Ev) (e : Ev) :
    lastCtx (evs ++ [e]) (evs.length + 1) =
      if e.isCtx then some evs.length else lastCtx evs evs.length := by
  have h := lastCtx_append (evs := evs) (r := [e]) (i := evs.length) (Nat.le_refl _)
  unfold lastCtx at *
  rw [range_succ_reverse, List.find?_cons, ctxAt_snoc_length]
  cases e.isCtx <;> simp [h]

/-- `lastCtx` really is the greatest context-setting position below `i` -/
theorem lastCtx_greatest {evs : List Ev} {i j : Nat} (h : lastCtx evs i = some j) :
    ∀ j', j < j' → j' < i → ctxAt evs j' = false := by
  unfold lastCtx at h
  intro j' hjj' hj'i
  rw [List.find?_eq_some_iff_append] at h
  obtain ⟨_, as, bs, hsplit, hnone⟩ := h
  have hmem : j' ∈ (List.range i).reverse := by simp [hj'i]
  rw [hsplit] at hmem
  rcases List.mem_append.mp hmem with ha | hb
  · have := hnone j' ha
    simpa using this
  · rcases List.mem_cons.mp hb with hjp | hbs
    · omega
    · have hsorted : ((List.range i).reverse).Pairwise (· > ·) := by
        rw [List.pairwise_reverse]
        exact List.pairwise_lt_range.imp (fun h => h)
      rw [hsplit] at hsorted
      have := (List.pairwise_append.mp hsorted).2.1
      have := (List.pairwise_cons.mp this).1 j' hbs
      omega

theorem lastCtx_none {evs : List Ev} {i : Nat} (h : lastCtx evs i = none) :
    ∀ j, j < i → ctxAt evs j = false := by
  unfold lastCtx at h
  intro j hj
  rw [List.find?_eq_none] at h
  have := h j (by simp [hj])
  simpa using this

/-! ### `attachTarget` -/

/-- the target of a position only depends on the events before it -/
theorem attachTarget_append {evs r : List Ev} {i : Nat} (h : i ≤ evs.length) :
    attachTarget (evs ++ r) i = attachTarget evs i := by
  unfold attachTarget
  rw [lastCtx_append h]
  cases hj : lastCtx evs i with
  | none => rfl
  | some j =>
      have hji := (lastCtx_lt hj).1
      have h1 : (evs ++ r)[j]? = evs[j]? := List.getElem?_append_left (by omega)
      have h2 : (evs ++ r).take j = evs.take j := List.take_append_of_le_length (by omega)
      have h3 : (evs ++ r).take i = evs.take i := List.take_append_of_le_length h
      simp only [h1, h2, h3]

theorem attachTarget_take {evs : List Ev} {i : Nat} (h : i ≤ evs.length) :
    attachTarget evs i = attachTarget (evs.take i) (evs.take i).length := by
  have hl : (evs.take i).length = i := by simp [h]
  conv => lhs; rw [← List.take_append_drop i evs]
  rw [attachTarget_append (by omega), hl]

/-- the target a context-setting event `e` establishes after the prefix `evs` -/
def ctxTarget (evs : List Ev) : Ev → Option Target
  | .layer => some (.layer (evs.countP Ev.isLayer))
  | .cel f l => some (.cel f l)
  | .slice => some (.slice (evs.countP Ev.isSlice))
  | .oldPalette => some .sprite
  | .tags _ => some (.tag 0)
  | _ => none

/-- a record moves a tag target on to the next tag; other targets stay -/
def bump : Target → Target
  | .tag k => .tag (k + 1)
  | t => t

theorem attachTarget_snoc (evs : List Ev) (e : Ev) :
    attachTarget (evs ++ [e]) (evs.length + 1) =
      if e.isCtx then ctxTarget evs e
      else if e.isUD then (attachTarget evs evs.length).map bump
      else attachTarget evs evs.length := by
  unfold attachTarget
  rw [lastCtx_snoc]
  by_cases hc : e.isCtx = true
  · simp only [hc, if_true]
    have h1 : (evs ++ [e])[evs.length]? = some e := by simp
    have h2 : (evs ++ [e]).take evs.length = evs := by simp
    have h3 : ((evs ++ [e]).take (evs.length + 1)).drop (evs.length + 1) = [] := by simp
    simp only [h1, h2, h3]
    cases e <;> simp [ctxTarget, Ev.isCtx] at hc ⊢
  · simp only [hc, Bool.false_eq_true, if_false]
    cases hj : lastCtx evs evs.length with
    | none => cases e.isUD <;> simp
    | some j =>
        have hji := (lastCtx_lt hj).1
        have h1 : (evs ++ [e])[j]? = evs[j]? := List.getElem?_append_left hji
        have h2 : (evs ++ [e]).take j = evs.take j := List.take_append_of_le_length (by omega)
        have h3 : ((evs ++ [e]).take (evs.length + 1)).drop (j + 1) = evs.drop (j + 1) ++ [e] := by
          have : (evs ++ [e]).take (evs.length + 1) = evs ++ [e] := by
            apply List.take_of_length_le; simp
          rw [this, List.drop_append_of_le_length (by omega)]
        have h4 : (evs.take evs.length).drop (j + 1) = evs.drop (j + 1) := by simp
        simp only [h1, h2, h3, h4, List.countP_append]
        cases hev : evs[j]? with
        | none => cases e.isUD <;> simp
        | some e' =>
            cases e' <;> cases hu : e.isUD <;> simp [bump, hu]

/-! ### `attachedSince`, `lastTags`, `tagLimit` -/

theorem recordAt_append {evs r : List Ev} {lo : Nat} {t : Target} {i : Nat}
    (h : i < evs.length) : recordAt (evs ++ r) lo t i = recordAt evs lo t i := by
  unfold recordAt
  rw [List.getElem?_append_left h, attachTarget_append (Nat.le_of_lt h)]

theorem attachedSince_snoc (evs : List Ev) (e : Ev) (lo : Nat) (t : Target) :
    attachedSince (evs ++ [e]) lo t =
      match e with
      | .userData u =>
          if lo ≤ evs.length ∧ attachTarget evs evs.length = some t then some u
          else attachedSince evs lo t
      | _ => attachedSince evs lo t := by
  have hrest : (List.range evs.length).reverse.findSome? (recordAt (evs ++ [e]) lo t) =
      attachedSince evs lo t := by
    unfold attachedSince
    apply findSome?_congr'
    intro i hi
    simp only [List.mem_reverse, List.mem_range] at hi
    exact recordAt_append hi
  have hlast : recordAt (evs ++ [e]) lo t evs.length =
      match e with
      | .userData u =>
          if lo ≤ evs.length ∧ attachTarget evs evs.length = some t then some u else none
      | _ => none := by
    unfold recordAt
    have h1 : (evs ++ [e])[evs.length]? = some e := by simp
    rw [h1, attachTarget_append (Nat.le_refl _)]
    cases e <;> rfl
  conv => lhs; unfold attachedSince
  rw [List.length_append, List.length_singleton, range_succ_reverse, List.findSome?_cons, hlast,
    hrest]
  cases e with
  | userData u =>
      by_cases hc : lo ≤ evs.length ∧ attachTarget evs evs.length = some t
      · simp [hc]
      · simp [hc]
  | _ => rfl

theorem attachedSince_nil (lo : Nat) (t : Target) : attachedSince [] lo t = none := rfl

theorem attached_snoc (evs : List Ev) (e : Ev) (t : Target) :
    attached (evs ++ [e]) t =
      match e with
      | .userData u => if attachTarget evs evs.length = some t then some u else attached evs t
      | _ => attached evs t := by
  unfold attached
  rw [attachedSince_snoc]
  cases e <;> simp

theorem lastTags_snoc (evs : List Ev) (e : Ev) :
    lastTags (evs ++ [e]) =
      match e with
      | .tags n => some (evs.length, n)
      | _ => lastTags evs := by
  have hrest : (List.range evs.length).reverse.findSome? (tagsAt (evs ++ [e])) = lastTags evs := by
    unfold lastTags
    apply findSome?_congr'
    intro i hi
    simp only [List.mem_reverse, List.mem_range] at hi
    unfold tagsAt
    rw [List.getElem?_append_left hi]
  conv => lhs; unfold lastTags
  rw [List.length_append, List.length_singleton, range_succ_reverse, List.findSome?_cons, hrest]
  have h1 : (evs ++ [e])[evs.length]? = some e := by simp
  unfold tagsAt
  rw [h1]
  cases e <;> rfl

theorem tagLimit_append {evs r : List Ev} {i : Nat} (h : i ≤ evs.length) :
    tagLimit (evs ++ r) i = tagLimit evs i := by
  unfold tagLimit
  rw [lastCtx_append h]
  cases hj : lastCtx evs i with
  | none => rfl
  | some j =>
      have hji := (lastCtx_lt hj).1
      have h1 : (evs ++ r)[j]? = evs[j]? := List.getElem?_append_left (by omega)
      simp only [h1]

theorem tagLimit_snoc (evs : List Ev) (e : Ev) :
    tagLimit (evs ++ [e]) (evs.length + 1) =
      if e.isCtx then (match e with | .tags n => some n | _ => none)
      else tagLimit evs evs.length := by
  unfold tagLimit
  rw [lastCtx_snoc]
  by_cases hc : e.isCtx = true
  · simp only [hc, if_true]
    have h1 : (evs ++ [e])[evs.length]? = some e := by simp
    simp only [h1]
    cases e <;> rfl
  · simp only [hc, Bool.false_eq_true, if_false]
    cases hj : lastCtx evs evs.length with
    | none => rfl
    | some j =>
        have hji := (lastCtx_lt hj).1
        have h1 : (evs ++ [e])[j]? = evs[j]? := List.getElem?_append_left hji
        simp only [h1]

/-! ### consequences, by induction on appended events -/

theorem attachTarget_nil : attachTarget [] 0 = none := rfl

theorem countP_snoc_of_false {p : Ev → Bool} (evs : List Ev) (e : Ev) (h : p e = false) :
    (evs ++ [e]).countP p = evs.countP p := by
  simp [List.countP_append, h]

theorem countP_snoc_of_true {p : Ev → Bool} (evs : List Ev) (e : Ev) (h : p e = true) :
    (evs ++ [e]).countP p = evs.countP p + 1 := by
  simp [List.countP_append, h]

/-- a layer target names one of the layers seen so far -/
theorem target_layer_lt : ∀ (evs : List Ev) (i : Nat),
    attachTarget evs evs.length = some (.layer i) → i < evs.countP Ev.isLayer := by
  intro evs
  induction evs using snoc_induction with
  | nil => intro i h; simp [attachTarget_nil] at h
  | snoc evs e ih =>
      intro i h
      rw [List.length_append, List.length_singleton, attachTarget_snoc] at h
      cases e with
      | layer =>
          simp [Ev.isCtx, ctxTarget] at h
          rw [countP_snoc_of_true _ _ rfl]; omega
      | userData u =>
          simp only [Ev.isCtx, Ev.isUD, Bool.false_eq_true, if_false, if_true] at h
          rw [countP_snoc_of_false _ _ rfl]
          cases ht : attachTarget evs evs.length with
          | none => simp [ht] at h
          | some t =>
              cases t <;> simp [ht, bump] at h
              subst h; exact ih _ ht
      | other =>
          simp only [Ev.isCtx, Ev.isUD, Bool.false_eq_true, if_false] at h
          rw [countP_snoc_of_false _ _ rfl]
          exact ih _ h
      | _ => simp [Ev.isCtx, ctxTarget] at h

theorem target_slice_lt : ∀ (evs : List Ev) (i : Nat),
    attachTarget evs evs.length = some (.slice i) → i < evs.countP Ev.isSlice := by
  intro evs
  induction evs using snoc_induction with
  | nil => intro i h; simp [attachTarget_nil] at h
  | snoc evs e ih =>
      intro i h
      rw [List.length_append, List.length_singleton, attachTarget_snoc] at h
      cases e with
      | slice =>
          simp [Ev.isCtx, ctxTarget] at h
          rw [countP_snoc_of_true _ _ rfl]; omega
      | userData u =>
          simp only [Ev.isCtx, Ev.isUD, Bool.false_eq_true, if_false, if_true] at h
          rw [countP_snoc_of_false _ _ rfl]
          cases ht : attachTarget evs evs.length with
          | none => simp [ht] at h
          | some t =>
              cases t <;> simp [ht, bump] at h
              subst h; exact ih _ ht
      | other =>
          simp only [Ev.isCtx, Ev.isUD, Bool.false_eq_true, if_false] at h
          rw [countP_snoc_of_false _ _ rfl]
          exact ih _ h
      | _ => simp [Ev.isCtx, ctxTarget] at h

/-- a cel target names a cel event seen so far -/
theorem target_cel_mem : ∀ (evs : List Ev) (f l : Nat),
    attachTarget evs evs.length = some (.cel f l) → Ev.cel f l ∈ evs := by
  intro evs
  induction evs using snoc_induction with
  | nil => intro f l h; simp [attachTarget_nil] at h
  | snoc evs e ih =>
      intro f l h
      rw [List.length_append, List.length_singleton, attachTarget_snoc] at h
      cases e with
      | cel f' l' =>
          simp [Ev.isCtx, ctxTarget] at h
          simp [h]
      | userData u =>
          simp only [Ev.isCtx, Ev.isUD, Bool.false_eq_true, if_false, if_true] at h
          cases ht : attachTarget evs evs.length with
          | none => simp [ht] at h
          | some t =>
              cases t <;> simp [ht, bump] at h
              obtain ⟨rfl, rfl⟩ := h
              simp [ih _ _ ht]
      | other =>
          simp only [Ev.isCtx, Ev.isUD, Bool.false_eq_true, if_false] at h
          simp [ih _ _ h]
      | _ => simp [Ev.isCtx, ctxTarget] at h

theorem lastTags_lt : ∀ (evs : List Ev) (j n : Nat), lastTags evs = some (j, n) → j < evs.length := by
  intro evs
  induction evs using snoc_induction with
  | nil => intro j n h; simp [lastTags] at h
  | snoc evs e ih =>
      intro j n h
      rw [lastTags_snoc] at h
      rw [List.length_append, List.length_singleton]
      cases e with
      | tags m => simp at h; omega
      | _ => simp at h; have := ih _ _ h; omega

/-- a tag target belongs to the last tags event, and `tagLimit` is that event's tag count -/
theorem target_tag_lastTags : ∀ (evs : List Ev) (k : Nat),
    attachTarget evs evs.length = some (.tag k) →
      ∃ j n, lastTags evs = some (j, n) ∧ tagLimit evs evs.length = some n := by
  intro evs
  induction evs using snoc_induction with
  | nil => intro k h; simp [attachTarget_nil] at h
  | snoc evs e ih =>
      intro k h
      rw [List.length_append, List.length_singleton, attachTarget_snoc] at h
      rw [List.length_append, List.length_singleton, tagLimit_snoc, lastTags_snoc]
      cases e with
      | tags n => exact ⟨evs.length, n, rfl, by simp [Ev.isCtx]⟩
      | userData u =>
          simp only [Ev.isCtx, Ev.isUD, Bool.false_eq_true, if_false, if_true] at h ⊢
          cases ht : attachTarget evs evs.length with
          | none => simp [ht] at h
          | some t =>
              cases t <;> simp [ht, bump] at h
              exact ih _ ht
      | other =>
          simp only [Ev.isCtx, Ev.isUD, Bool.false_eq_true, if_false] at h ⊢
          exact ih _ h
      | _ => simp [Ev.isCtx, ctxTarget] at h

/-- nothing is attached to a layer that does not exist (yet) -/
theorem attachedSince_layer_none : ∀ (evs : List Ev) (lo k : Nat),
    evs.countP Ev.isLayer ≤ k → attachedSince evs lo (.layer k) = none := by
  intro evs
  induction evs using snoc_induction with
  | nil => intro lo k _; rfl
  | snoc evs e ih =>
      intro lo k hk
      rw [attachedSince_snoc]
      cases e with
      | layer =>
          rw [countP_snoc_of_true _ _ rfl] at hk
          exact ih _ _ (by omega)
      | userData u =>
          rw [countP_snoc_of_false _ _ rfl] at hk
          have hne : ¬ (lo ≤ evs.length ∧ attachTarget evs evs.length = some (.layer k)) := by
            intro ⟨_, h⟩
            have := target_layer_lt _ _ h
            omega
          simp only [hne, if_false]
          exact ih _ _ hk
      | _ =>
          rw [countP_snoc_of_false _ _ rfl] at hk
          exact ih _ _ hk

theorem attachedSince_slice_none : ∀ (evs : List Ev) (lo k : Nat),
    evs.countP Ev.isSlice ≤ k → attachedSince evs lo (.slice k) = none := by
  intro evs
  induction evs using snoc_induction with
  | nil => intro lo k _; rfl
  | snoc evs e ih =>
      intro lo k hk
      rw [attachedSince_snoc]
      cases e with
      | slice =>
          rw [countP_snoc_of_true _ _ rfl] at hk
          exact ih _ _ (by omega)
      | userData u =>
          rw [countP_snoc_of_false _ _ rfl] at hk
          have hne : ¬ (lo ≤ evs.length ∧ attachTarget evs evs.length = some (.slice k)) := by
            intro ⟨_, h⟩
            have := target_slice_lt _ _ h
            omega
          simp only [hne, if_false]
          exact ih _ _ hk
      | _ =>
          rw [countP_snoc_of_false _ _ rfl] at hk
          exact ih _ _ hk

/-- nothing is attached to a cel that has no cel event -/
theorem attachedSince_cel_none : ∀ (evs : List Ev) (lo f l : Nat),
    Ev.cel f l ∉ evs → attachedSince evs lo (.cel f l) = none := by
  intro evs
  induction evs using snoc_induction with
  | nil => intro lo f l _; rfl
  | snoc evs e ih =>
      intro lo f l hmem
      have hmem' : Ev.cel f l ∉ evs := fun h => hmem (by simp [h])
      rw [attachedSince_snoc]
      cases e with
      | userData u =>
          have hne : ¬ (lo ≤ evs.length ∧ attachTarget evs evs.length = some (.cel f l)) := by
            intro ⟨_, h⟩
            exact hmem' (target_cel_mem _ _ _ h)
          simp only [hne, if_false]
          exact ih _ _ _ hmem'
      | _ => exact ih _ _ _ hmem'

/-- records before position `lo` are not seen by `attachedSince … lo` -/
theorem attachedSince_length (evs : List Ev) (t : Target) :
    ∀ lo, evs.length ≤ lo → attachedSince evs lo t = none := by
  induction evs using snoc_induction with
  | nil => intro lo _; rfl
  | snoc evs e ih =>
      intro lo hlo
      rw [List.length_append, List.length_singleton] at hlo
      rw [attachedSince_snoc]
      cases e with
      | userData u =>
          have hne : ¬ (lo ≤ evs.length ∧ attachTarget evs evs.length = some t) := by
            intro ⟨h, _⟩; omega
          simp only [hne, if_false]
          exact ih _ (by omega)
      | _ => exact ih _ (by omega)

end Ase.Proofs.C10
