import AseProofs.Lemmas.Valid
import AseProofs.Lemmas.RenderBasic
import AseProofs.Props.C17
/-
  C05, part 4: loop lemmas of the renderer.  With a total blend function, in-bounds source
  indices and (for the row loop) preserved dimensions, each rendering loop returns `.ok`.
-/
namespace Ase.Proofs.C05
open Ase

/-- blend mode `mode` never fails (for any backdrop, source and opacity) -/
def ModeTotal {F : Type} (ops : FOps F) (m : Profile) (mode : Nat) : Prop :=
  ∀ (b s : RGBA) (o : UInt8), ∃ r, Blend.blend ops m mode b s o = .ok r

/-- the blend function never fails.  For the 14 integer modes this is a theorem in both build
    profiles (`C17.normal_total`, `C17.int_modes_total`); for the five floating-point modes
    (soft light, hue, saturation, color, luminosity) the range `debug_assert!`s of
    `from_rgba_i32` depend on the floating-point parameter `ops` in the checked profile.
    `floatTotal_release` (in `Props/C05.lean`) proves it outright for the release profile. -/
def FloatTotal {F : Type} (ops : FOps F) (m : Profile) : Prop :=
  ∀ (mode : Nat) (b s : RGBA) (o : UInt8), ∃ r, Blend.blend ops m mode b s o = .ok r

theorem FloatTotal.mode {F : Type} {ops : FOps F} {m : Profile} (h : FloatTotal ops m)
    (mode : Nat) : ModeTotal ops m mode := h mode

/-- the blend modes the layers of `s` use never fail -/
def LayersTotal {F : Type} (ops : FOps F) (m : Profile) (s : Sprite) : Prop :=
  ∀ ld ∈ s.layers, ModeTotal ops m ld.blendMode

theorem FloatTotal.layers {F : Type} {ops : FOps F} {m : Profile} (h : FloatTotal ops m)
    (s : Sprite) : LayersTotal ops m s := fun ld _ => h ld.blendMode

/-- integer modes need no hypothesis, in either build profile -/
theorem layersTotal_of_int {F : Type} (ops : FOps F) (m : Profile) (s : Sprite)
    (h : ∀ ld ∈ s.layers, C17.intMode ld.blendMode = true) : LayersTotal ops m s :=
  fun ld hld => C17.int_modes_total ops m ld.blendMode (h ld hld)

/-! ### arithmetic -/

theorem idx_lt {r c w h : Nat} (hr : r < h) (hc : c < w) : r * w + c < w * h := by
  have h1 : (r + 1) * w ≤ h * w := Nat.mul_le_mul_right w hr
  rw [Nat.succ_mul] at h1
  rw [Nat.mul_comm w h]
  omega

theorem tile_window {ppt id count : Nat} (hid : id < count) : ppt * id + ppt ≤ ppt * count := by
  have h1 : ppt * (id + 1) ≤ ppt * count := Nat.mul_le_mul_left ppt hid
  rw [Nat.mul_succ] at h1
  exact h1

/-! ### image primitives -/

theorem get_ok (img : Image) (x y : Nat) (hx : x < img.w) (hy : y < img.h) :
    ∃ c, img.get x y = .ok c := by
  simp [Image.get, hx, hy]

theorem put_ok (img : Image) (x y : Nat) (c : RGBA) (hx : x < img.w) (hy : y < img.h) :
    ∃ img', img.put x y c = .ok img' := by
  simp [Image.put, hx, hy]

section
variable {F : Type} (ops : FOps F) (m : Profile)

/-! ### raw cels -/

theorem writeRawRow_ok (mode : Nat) (hT : ModeTotal ops m mode) (op : UInt8) (pixels : Array RGBA)
    (cw : Nat) (x0 : Int) (y row : Nat) :
    ∀ (n col : Nat) (img : Image), y < img.h →
      (∀ c, col ≤ c → c < col + n → row * cw + c < pixels.size) →
      ∃ img', Sprite.writeRawRow ops m mode op pixels cw x0 y row n col img = .ok img' := by
  intro n
  induction n with
  | zero => intro col img _ _; exact ⟨img, rfl⟩
  | succ n ih =>
      intro col img hy hidx
      unfold Sprite.writeRawRow
      dsimp only
      split
      · exact ih _ _ hy (fun c h1 h2 => hidx c (by omega) (by omega))
      · rename_i hx
        simp only [Bool.or_eq_true, decide_eq_true_eq, not_or, Int.not_lt, ge_iff_le,
          Int.not_le] at hx
        have hxw : (x0 + (col : Int)).toNat < img.w := by omega
        have hpix : row * cw + col < pixels.size := hidx col (Nat.le_refl _) (by omega)
        have hsome : pixels[row * cw + col]? = some pixels[row * cw + col] := by simp [hpix]
        obtain ⟨old, hold⟩ := get_ok img _ y hxw hy
        obtain ⟨new, hnew⟩ := hT old pixels[row * cw + col] op
        obtain ⟨img1, himg1⟩ := put_ok img _ y new hxw hy
        simp only [hsome, hold, hnew, himg1]
        have hd := put_dims himg1
        exact ih _ img1 (by rw [← hd.2.1]; exact hy) (fun c h1 h2 => hidx c (by omega) (by omega))

theorem writeRawRows_ok (mode : Nat) (hT : ModeTotal ops m mode) (op : UInt8) (pixels : Array RGBA)
    (cw : Nat) (x0 y0 : Int) :
    ∀ (n row : Nat) (img : Image),
      (∀ r, row ≤ r → r < row + n → ∀ c, c < cw → r * cw + c < pixels.size) →
      ∃ img', Sprite.writeRawRows ops m mode op pixels cw x0 y0 n row img = .ok img' := by
  intro n
  induction n with
  | zero => intro row img _; exact ⟨img, rfl⟩
  | succ n ih =>
      intro row img hidx
      unfold Sprite.writeRawRows
      dsimp only
      split
      · exact ih _ _ (fun r h1 h2 => hidx r (by omega) (by omega))
      · rename_i hy
        simp only [Bool.or_eq_true, decide_eq_true_eq, not_or, Int.not_lt, ge_iff_le,
          Int.not_le] at hy
        have hyh : (y0 + (row : Int)).toNat < img.h := by omega
        obtain ⟨img1, himg1⟩ := writeRawRow_ok ops m mode hT op pixels cw x0 _ row cw 0 img hyh
          (fun c _ h2 => hidx row (Nat.le_refl _) (by omega) c (by omega))
        simp only [himg1]
        exact ih _ img1 (fun r h1 h2 => hidx r (by omega) (by omega))

theorem writeRawCel_ok (img : Image) (d : CelCommon) (w h : UInt16)
    (pixels : Array RGBA) (mode : Nat) (hT : ModeTotal ops m mode) (lop : UInt8) (hsz : pixels.size = w.toNat * h.toNat) :
    ∃ img', Sprite.writeRawCel ops m img d w h pixels mode lop = .ok img' := by
  unfold Sprite.writeRawCel
  exact writeRawRows_ok ops m mode hT _ pixels _ _ _ _ 0 img
    (fun r _ h2 c hc => by rw [hsz]; exact idx_lt (by omega) hc)

/-! ### tilemap cels -/

theorem writeTilePixels_ok (mode : Nat) (hT : ModeTotal ops m mode) (op : UInt8) (tp : Array RGBA)
    (tw : Nat) (bx by_ : Int) :
    ∀ (n idx : Nat) (img : Image), idx + n ≤ tp.size →
      ∃ img', Sprite.writeTilePixels ops m mode op tp tw bx by_ n idx img = .ok img' := by
  intro n
  induction n with
  | zero => intro idx img _; exact ⟨img, rfl⟩
  | succ n ih =>
      intro idx img hsz
      unfold Sprite.writeTilePixels
      dsimp only
      have hsome : tp[idx]? = some tp[idx] := by
        have : idx < tp.size := by omega
        simp [this]
      simp only [hsome]
      split
      · rename_i hin
        simp only [Bool.and_eq_true, decide_eq_true_eq] at hin
        have hxw : (bx + ((idx % tw : Nat) : Int)).toNat < img.w := by omega
        have hyh : (by_ + ((idx / tw : Nat) : Int)).toNat < img.h := by omega
        obtain ⟨old, hold⟩ := get_ok img _ _ hxw hyh
        obtain ⟨new, hnew⟩ := hT old tp[idx] op
        obtain ⟨img1, himg1⟩ := put_ok img _ _ new hxw hyh
        simp only [hold, hnew, himg1]
        exact ih _ img1 (by omega)
      · exact ih _ img (by omega)

theorem writeTiles_ok (mode : Nat) (hT : ModeTotal ops m mode) (op : UInt8) (t : TilemapData)
    (pixels : Array RGBA) (tw th : Nat) (cx cy : Int)
    (hwin : ∀ id ∈ t.tiles, tw * th * id.toNat + tw * th ≤ pixels.size) :
    ∀ (n idx : Nat) (img : Image), idx + n ≤ t.tiles.size →
      ∃ img', Sprite.writeTiles ops m mode op t pixels tw th cx cy n idx img = .ok img' := by
  intro n
  induction n with
  | zero => intro idx img _; exact ⟨img, rfl⟩
  | succ n ih =>
      intro idx img hsz
      unfold Sprite.writeTiles
      dsimp only
      have hidx : idx / t.width.toNat * t.width.toNat + idx % t.width.toNat = idx :=
        Nat.div_add_mod' idx t.width.toNat
      have hlt : idx < t.tiles.size := by omega
      have hsome : t.tiles[idx / t.width.toNat * t.width.toNat + idx % t.width.toNat]?
          = some t.tiles[idx] := by
        rw [hidx]; simp [hlt]
      simp only [hsome]
      have hw := hwin t.tiles[idx] (Array.getElem_mem hlt)
      have hnot : ¬ (tw * th * t.tiles[idx].toNat + tw * th > pixels.size) := by omega
      simp only [hnot, if_false]
      obtain ⟨img1, himg1⟩ := writeTilePixels_ok ops m mode hT op
        (pixels.extract (tw * th * t.tiles[idx].toNat) (tw * th * t.tiles[idx].toNat + tw * th)) tw
        (((idx % t.width.toNat * tw : Nat) : Int) + cx) (((idx / t.width.toNat * th : Nat) : Int) + cy)
        (tw * th) 0 img (by simp only [Array.size_extract]; omega)
      simp only [himg1]
      exact ih _ img1 (by omega)

theorem writeTilemapCel_ok (img : Image) (d : CelCommon) (t : TilemapData)
    (ts : Tileset Pixels) (pixels : Array RGBA) (mode : Nat) (hT : ModeTotal ops m mode) (lop : UInt8)
    (hsz : t.tiles.size = t.width.toNat * t.height.toNat)
    (hpx : pixels.size = ts.tileCount.toNat * ts.tileW.toNat * ts.tileH.toNat)
    (hid : ∀ id ∈ t.tiles, id.toNat < ts.tileCount.toNat) :
    ∃ img', Sprite.writeTilemapCel ops m img d t ts pixels mode lop = .ok img' := by
  unfold Sprite.writeTilemapCel
  refine writeTiles_ok ops m mode hT _ t pixels _ _ _ _ ?_ _ 0 img (by omega)
  intro id hmem
  have := tile_window (ppt := ts.tileW.toNat * ts.tileH.toNat) (hid id hmem)
  have e : ts.tileCount.toNat * ts.tileW.toNat * ts.tileH.toNat
      = ts.tileW.toNat * ts.tileH.toNat * ts.tileCount.toNat := by
    rw [Nat.mul_assoc, Nat.mul_comm]
  rw [hpx, e]
  exact this

end
end Ase.Proofs.C05
