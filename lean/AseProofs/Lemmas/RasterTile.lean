import AseProofs.Lemmas.Raster
/-
  Point-wise facts about the tilemap rasteriser: the pixels of one tile (`writeTilePixels`),
  all tiles of the stored map (`writeTiles`), a tilemap cel (`writeTilemapCel`).
-/
namespace Ase.Proofs
open Ase

/-! ### arithmetic -/

theorem divmod_unique {w a b i : Nat} (hb : b < w) (h : a * w + b = i) : i / w = a ∧ i % w = b := by
  subst h
  have hw : 0 < w := by omega
  constructor
  · rw [Nat.add_comm, Nat.add_mul_div_right _ _ hw, Nat.div_eq_of_lt hb]; omega
  · rw [Nat.add_comm, Nat.add_mul_mod_self_right, Nat.mod_eq_of_lt hb]

theorem div_eq_iff_bounds {w d q : Nat} (hw : 0 < w) : d / w = q ↔ q * w ≤ d ∧ d < q * w + w := by
  constructor
  · intro h; subst h
    have h1 := Nat.div_add_mod d w
    have h2 := Nat.mod_lt d hw
    rw [Nat.mul_comm] at h1
    omega
  · intro ⟨h1, h2⟩
    have : q * w + (d - q * w) = d := by omega
    exact (divmod_unique (b := d - q * w) (by omega) this).1

theorem mod_of_div_eq {w d q : Nat} (h : d / w = q) : d % w = d - q * w := by
  subst h
  have h1 := Nat.div_add_mod d w
  rw [Nat.mul_comm] at h1
  omega

/-- index, inside a `tw`-wide tile based at `(bx, by_)`, of canvas position `(X, Y)` -/
def tileK (bx by_ : Int) (tw X Y : Nat) : Nat :=
  ((Y : Int) - by_).toNat * tw + ((X : Int) - bx).toNat

theorem tileK_eq_iff {bx by_ : Int} {tw X Y idx : Nat} (h1 : bx ≤ (X : Int))
    (h2 : (X : Int) < bx + (tw : Int)) (h3 : by_ ≤ (Y : Int)) :
    tileK bx by_ tw X Y = idx ↔
      ((X : Int) = bx + ((idx % tw : Nat) : Int) ∧ (Y : Int) = by_ + ((idx / tw : Nat) : Int)) := by
  constructor
  · intro h
    unfold tileK at h
    obtain ⟨hd, hm⟩ := divmod_unique (b := ((X : Int) - bx).toNat) (by omega) h
    rw [hd, hm]; omega
  · intro ⟨hx, hy⟩
    unfold tileK
    have e1 : ((X : Int) - bx).toNat = idx % tw := by omega
    have e2 : ((Y : Int) - by_).toNat = idx / tw := by omega
    rw [e1, e2, Nat.mul_comm]
    exact Nat.div_add_mod idx tw

/-- `(X, Y)` is one of the tile pixels `idx, …, idx + n - 1` of the tile based at `(bx, by_)` -/
def InTilePx (bx by_ : Int) (tw idx n X Y : Nat) : Prop :=
  bx ≤ (X : Int) ∧ (X : Int) < bx + (tw : Int) ∧ by_ ≤ (Y : Int) ∧
    idx ≤ tileK bx by_ tw X Y ∧ tileK bx by_ tw X Y < idx + n

section
variable {F : Type} (ops : FOps F) (m : Profile)

/-! ### the pixels of one tile -/

theorem writeTilePixels_spec_aux (mode : Nat) (op : UInt8) (tp : Array RGBA) (tw : Nat)
    (bx by_ : Int) (htw : 0 < tw) : ∀ (n idx : Nat) (img img' : Image),
      Sprite.writeTilePixels ops m mode op tp tw bx by_ n idx img = .ok img' →
      img.px.size = img.w * img.h →
      ∀ X Y : Nat, X < img.w → Y < img.h →
        (InTilePx bx by_ tw idx n X Y →
          BlendedAt ops m mode op img img' X Y tp[tileK bx by_ tw X Y]?) ∧
        (¬ InTilePx bx by_ tw idx n X Y → img'.get X Y = img.get X Y) := by
  intro n
  induction n with
  | zero =>
      intro idx img img' h _ X Y _ _
      simp [Sprite.writeTilePixels] at h; subst h
      refine ⟨fun hc => ?_, fun _ => rfl⟩
      unfold InTilePx at hc; omega
  | succ n ih =>
      intro idx img img' h hsz X Y hX hY
      unfold Sprite.writeTilePixels at h
      dsimp only at h
      have hpx : idx % tw < tw := Nat.mod_lt _ htw
      have hiff : bx ≤ (X : Int) → (X : Int) < bx + (tw : Int) → by_ ≤ (Y : Int) →
          (tileK bx by_ tw X Y = idx ↔
            ((X : Int) = bx + ((idx % tw : Nat) : Int) ∧ (Y : Int) = by_ + ((idx / tw : Nat) : Int))) :=
        fun h1 h2 h3 => tileK_eq_iff h1 h2 h3
      generalize idx % tw = px at h hpx hiff
      generalize idx / tw = py at h hiff
      split at h
      · cases h
      · rename_i p hp
        split at h
        · rename_i hon
          simp only [Bool.and_eq_true, decide_eq_true_eq] at hon
          split at h
          · rename_i old hold
            split at h
            · rename_i v hv
              split at h
              · rename_i img1 hput
                have hd := put_dims hput
                have hsz1 := hd.size hsz
                have hX1 : X < img1.w := by rw [← hd.1]; exact hX
                have hY1 : Y < img1.h := by rw [← hd.2.1]; exact hY
                have := ih _ _ _ h hsz1 X Y hX1 hY1
                unfold InTilePx at this ⊢
                by_cases hhere : X = (bx + (px : Int)).toNat ∧
                    Y = (by_ + (py : Int)).toNat
                · obtain ⟨hXe, hYe⟩ := hhere
                  have hk : tileK bx by_ tw X Y = idx :=
                    (hiff (by omega) (by omega) (by omega)).mpr (by omega)
                  have h2 := this.2 (by omega)
                  refine ⟨fun _ => ⟨old, p, v, ?_, ?_, hv, ?_⟩, fun hc => ?_⟩
                  · rw [hXe, hYe]; exact hold
                  · rw [hk]; exact hp
                  · rw [h2, hXe, hYe]; exact put_get_same hput hsz
                  · exfalso; apply hc; omega
                · have hne : X ≠ (bx + (px : Int)).toNat ∨
                      Y ≠ (by_ + (py : Int)).toNat := by omega
                  have hsame : img1.get X Y = img.get X Y := put_get_other hput hne
                  refine ⟨fun hc => ?_, fun hc => ?_⟩
                  · have hk := hiff hc.1 hc.2.1 hc.2.2.1
                    obtain ⟨old', p', v', h1, h2, h3, h4⟩ := this.1 (by omega)
                    exact ⟨old', p', v', by rw [← hsame]; exact h1, h2, h3, h4⟩
                  · rw [← hsame]; apply this.2
                    intro hc'; apply hc; omega
              · cases h
              · cases h
            · cases h
            · cases h
          · cases h
          · cases h
        · rename_i hoff
          simp only [Bool.and_eq_true, decide_eq_true_eq] at hoff
          have := ih _ _ _ h hsz X Y hX hY
          unfold InTilePx at this ⊢
          refine ⟨fun hc => ?_, fun hc => ?_⟩
          · have hk := hiff hc.1 hc.2.1 hc.2.2.1
            apply this.1; omega
          · apply this.2
            intro hc'; apply hc
            omega

theorem inTilePx_full {bx by_ : Int} {tw th X Y : Nat} :
    InTilePx bx by_ tw 0 (tw * th) X Y ↔ InRect bx by_ tw th X Y := by
  unfold InTilePx InRect tileK
  constructor
  · intro ⟨h1, h2, h3, _, h5⟩
    refine ⟨h1, h2, h3, ?_⟩
    by_cases hlt : ((Y : Int) - by_).toNat < th
    · omega
    · exfalso
      have : th * tw ≤ ((Y : Int) - by_).toNat * tw := Nat.mul_le_mul_right _ (by omega)
      rw [Nat.mul_comm th tw] at this
      omega
  · intro ⟨h1, h2, h3, h4⟩
    refine ⟨h1, h2, h3, Nat.zero_le _, ?_⟩
    have : (((Y : Int) - by_).toNat + 1) * tw ≤ th * tw := Nat.mul_le_mul_right _ (by omega)
    rw [Nat.succ_mul, Nat.mul_comm th tw] at this
    omega

/-- **one tile**: the `tw × th` tile drawn at `(bx, by_)` -/
theorem writeTilePixels_spec (mode : Nat) (op : UInt8) (tp : Array RGBA) (tw th : Nat)
    (bx by_ : Int) (htw : 0 < tw) (img img' : Image)
    (h : Sprite.writeTilePixels ops m mode op tp tw bx by_ (tw * th) 0 img = .ok img')
    (hsz : img.px.size = img.w * img.h) (X Y : Nat) (hX : X < img.w) (hY : Y < img.h) :
    (InRect bx by_ tw th X Y →
      BlendedAt ops m mode op img img' X Y
        tp[((Y : Int) - by_).toNat * tw + ((X : Int) - bx).toNat]?) ∧
    (¬ InRect bx by_ tw th X Y → img'.get X Y = img.get X Y) := by
  have := writeTilePixels_spec_aux ops m mode op tp tw bx by_ htw _ _ _ _ h hsz X Y hX hY
  rw [inTilePx_full] at this
  exact this

/-! ### all tiles of the stored map -/

/-- index (row-major in the `mw`-wide stored map) of the tile that covers canvas position
    `(X, Y)` when the map is drawn at `(cx, cy)` with `tw × th` tiles -/
def tileOf (cx cy : Int) (tw th mw X Y : Nat) : Nat :=
  (((Y : Int) - cy).toNat / th) * mw + ((X : Int) - cx).toNat / tw

/-- `(X, Y)` is covered by one of the stored tiles `idx, …, idx + n - 1` -/
def InTiles (cx cy : Int) (tw th mw idx n X Y : Nat) : Prop :=
  cx ≤ (X : Int) ∧ cy ≤ (Y : Int) ∧ ((X : Int) - cx).toNat / tw < mw ∧
    idx ≤ tileOf cx cy tw th mw X Y ∧ tileOf cx cy tw th mw X Y < idx + n

/-- the tileset pixel shown at `(X, Y)`: pixel `((Y - cy) mod th, (X - cx) mod tw)` of the tile
    whose id the stored map holds for the covering tile -/
def tileSrc (tiles : Array UInt32) (pixels : Array RGBA) (tw th mw : Nat) (cx cy : Int)
    (X Y : Nat) : Option RGBA :=
  match tiles[tileOf cx cy tw th mw X Y]? with
  | none => none
  | some id =>
      pixels[tw * th * id.toNat + (((Y : Int) - cy).toNat % th) * tw + ((X : Int) - cx).toNat % tw]?

theorem tileOf_eq_iff {cx cy : Int} {tw th mw idx X Y : Nat}
    (hq : ((X : Int) - cx).toNat / tw < mw) :
    tileOf cx cy tw th mw X Y = idx ↔
      (((X : Int) - cx).toNat / tw = idx % mw ∧ ((Y : Int) - cy).toNat / th = idx / mw) := by
  unfold tileOf
  constructor
  · intro h
    obtain ⟨hd, hm⟩ := divmod_unique hq h
    exact ⟨hm.symm, hd.symm⟩
  · intro ⟨h1, h2⟩
    rw [h1, h2, Nat.mul_comm]
    exact Nat.div_add_mod idx mw

theorem inTile_iff {cx cy : Int} {tw th tx ty X Y : Nat} (htw : 0 < tw) (hth : 0 < th) :
    InRect (((tx * tw : Nat) : Int) + cx) (((ty * th : Nat) : Int) + cy) tw th X Y ↔
      (cx ≤ (X : Int) ∧ cy ≤ (Y : Int) ∧ ((X : Int) - cx).toNat / tw = tx ∧
        ((Y : Int) - cy).toNat / th = ty) := by
  have hx := @div_eq_iff_bounds tw ((X : Int) - cx).toNat tx htw
  have hy := @div_eq_iff_bounds th ((Y : Int) - cy).toNat ty hth
  unfold InRect
  generalize tx * tw = bxn at hx ⊢
  generalize ty * th = byn at hy ⊢
  constructor
  · intro ⟨h1, h2, h3, h4⟩
    exact ⟨by omega, by omega, hx.mpr (by omega), hy.mpr (by omega)⟩
  · intro ⟨h1, h2, h3, h4⟩
    have := hx.mp h3
    have := hy.mp h4
    omega

theorem inTile_offsets {cx cy : Int} {tw th tx ty X Y : Nat} (htw : 0 < tw) (hth : 0 < th)
    (h : InRect (((tx * tw : Nat) : Int) + cx) (((ty * th : Nat) : Int) + cy) tw th X Y) :
    ((X : Int) - (((tx * tw : Nat) : Int) + cx)).toNat = ((X : Int) - cx).toNat % tw ∧
    ((Y : Int) - (((ty * th : Nat) : Int) + cy)).toNat = ((Y : Int) - cy).toNat % th := by
  obtain ⟨h1, h2, h3, h4⟩ := (inTile_iff htw hth).mp h
  rw [mod_of_div_eq h3, mod_of_div_eq h4]
  have hx := (@div_eq_iff_bounds tw ((X : Int) - cx).toNat tx htw).mp h3
  have hy := (@div_eq_iff_bounds th ((Y : Int) - cy).toNat ty hth).mp h4
  generalize tx * tw = bxn at hx ⊢
  generalize ty * th = byn at hy ⊢
  omega

theorem writeTiles_spec_aux (mode : Nat) (op : UInt8) (t : TilemapData) (pixels : Array RGBA)
    (tw th : Nat) (cx cy : Int) (htw : 0 < tw) (hth : 0 < th) (hmw : 0 < t.width.toNat) :
    ∀ (n idx : Nat) (img img' : Image),
      Sprite.writeTiles ops m mode op t pixels tw th cx cy n idx img = .ok img' →
      img.px.size = img.w * img.h →
      ∀ X Y : Nat, X < img.w → Y < img.h →
        (InTiles cx cy tw th t.width.toNat idx n X Y →
          BlendedAt ops m mode op img img' X Y
            (tileSrc t.tiles pixels tw th t.width.toNat cx cy X Y)) ∧
        (¬ InTiles cx cy tw th t.width.toNat idx n X Y → img'.get X Y = img.get X Y) := by
  intro n
  induction n with
  | zero =>
      intro idx img img' h _ X Y _ _
      simp [Sprite.writeTiles] at h; subst h
      refine ⟨fun hc => ?_, fun _ => rfl⟩
      unfold InTiles at hc; omega
  | succ n ih =>
      intro idx img img' h hsz X Y hX hY
      unfold Sprite.writeTiles at h
      dsimp only at h
      have hidx : idx / t.width.toNat * t.width.toNat + idx % t.width.toNat = idx := by
        rw [Nat.mul_comm]; exact Nat.div_add_mod idx t.width.toNat
      rw [hidx] at h
      have htx : idx % t.width.toNat < t.width.toNat := Nat.mod_lt _ hmw
      split at h
      · cases h
      · rename_i id hid
        split at h
        · cases h
        · rename_i hfit
          split at h
          · rename_i img1 hrow
            have hd := writeTilePixels_dims ops m _ _ _ _ _ _ _ _ _ _ hrow
            have hsz1 := hd.size hsz
            have hX1 : X < img1.w := by rw [← hd.1]; exact hX
            have hY1 : Y < img1.h := by rw [← hd.2.1]; exact hY
            have hr := writeTilePixels_spec ops m _ _ _ tw th _ _ htw _ _ hrow hsz X Y hX hY
            have := ih _ _ _ h hsz1 X Y hX1 hY1
            have hin := @inTile_iff cx cy tw th (idx % t.width.toNat) (idx / t.width.toNat) X Y htw hth
            have hT : ((X : Int) - cx).toNat / tw < t.width.toNat →
                (tileOf cx cy tw th t.width.toNat X Y = idx ↔
                  (((X : Int) - cx).toNat / tw = idx % t.width.toNat ∧
                    ((Y : Int) - cy).toNat / th = idx / t.width.toNat)) :=
              fun hq => tileOf_eq_iff hq
            by_cases hA : InRect (((idx % t.width.toNat * tw : Nat) : Int) + cx)
                (((idx / t.width.toNat * th : Nat) : Int) + cy) tw th X Y
            · -- covered by the tile drawn now
              obtain ⟨e1, e2⟩ := inTile_offsets htw hth hA
              obtain ⟨old, p, v, h1, h2, h3, h4⟩ := hr.1 hA
              obtain ⟨a1, a2, a3, a4⟩ := hin.mp hA
              have hq : ((X : Int) - cx).toNat / tw < t.width.toNat := by omega
              have hTe : tileOf cx cy tw th t.width.toNat X Y = idx := (hT hq).mpr ⟨a3, a4⟩
              have hlater := this.2 (by unfold InTiles; omega)
              refine ⟨fun _ => ⟨old, p, v, h1, ?_, h3, by rw [hlater]; exact h4⟩, fun hc => ?_⟩
              · unfold tileSrc
                rw [hTe, hid]
                dsimp only
                rw [e1, e2, Array.getElem?_extract] at h2
                split at h2
                · rw [← h2]; congr 1; omega
                · cases h2
              · exfalso; apply hc; unfold InTiles; omega
            · have hsame : img1.get X Y = img.get X Y := hr.2 hA
              have hnA : ¬ (cx ≤ (X : Int) ∧ cy ≤ (Y : Int) ∧
                  ((X : Int) - cx).toNat / tw = idx % t.width.toNat ∧
                  ((Y : Int) - cy).toNat / th = idx / t.width.toNat) := fun hc => hA (hin.mpr hc)
              unfold InTiles at this ⊢
              refine ⟨fun hc => ?_, fun hc => ?_⟩
              · have hT' := hT hc.2.2.1
                obtain ⟨old, p, v, h1, h2, h3, h4⟩ := this.1 (by omega)
                exact ⟨old, p, v, by rw [← hsame]; exact h1, h2, h3, h4⟩
              · rw [← hsame]; apply this.2
                intro hc'; apply hc
                have hT' := hT hc'.2.2.1
                omega
          · cases h
          · cases h

/-- `(X, Y)` is covered by a stored tile of the `mw × mh` map drawn at `(cx, cy)` -/
def InMap (cx cy : Int) (tw th mw mh X Y : Nat) : Prop :=
  cx ≤ (X : Int) ∧ cy ≤ (Y : Int) ∧ ((X : Int) - cx).toNat / tw < mw ∧
    ((Y : Int) - cy).toNat / th < mh

instance (cx cy : Int) (tw th mw mh X Y : Nat) : Decidable (InMap cx cy tw th mw mh X Y) := by
  unfold InMap; infer_instance

theorem inTiles_full {cx cy : Int} {tw th mw mh X Y : Nat} :
    InTiles cx cy tw th mw 0 (mw * mh) X Y ↔ InMap cx cy tw th mw mh X Y := by
  unfold InTiles InMap tileOf
  generalize ((X : Int) - cx).toNat / tw = qx
  generalize ((Y : Int) - cy).toNat / th = qy
  constructor
  · intro ⟨h1, h2, h3, _, h5⟩
    refine ⟨h1, h2, h3, ?_⟩
    by_cases hlt : qy < mh
    · exact hlt
    · exfalso
      have : mh * mw ≤ qy * mw := Nat.mul_le_mul_right _ (by omega)
      rw [Nat.mul_comm mh mw] at this
      omega
  · intro ⟨h1, h2, h3, h4⟩
    refine ⟨h1, h2, h3, Nat.zero_le _, ?_⟩
    have : (qy + 1) * mw ≤ mh * mw := Nat.mul_le_mul_right _ (by omega)
    rw [Nat.succ_mul, Nat.mul_comm mh mw] at this
    omega

/-- **tilemap lemma** (`writeTiles` over the whole stored map): the canvas position `(X, Y)`
    covered by the stored tile `(tx, ty) = ((X - cx) / tw, (Y - cy) / th)`, `tx < mapW`,
    `ty < mapH`, receives `blend mode old tilesetPixels[id*tw*th + ((Y-cy) mod th)*tw + (X-cx) mod tw]`
    with `id = tiles[ty * mapW + tx]`; every other position is unchanged.  Tiles do not overlap:
    each position is written at most once. -/
theorem writeTiles_spec (mode : Nat) (op : UInt8) (t : TilemapData) (pixels : Array RGBA)
    (tw th : Nat) (cx cy : Int) (htw : 0 < tw) (hth : 0 < th) (img img' : Image)
    (h : Sprite.writeTiles ops m mode op t pixels tw th cx cy
          (t.width.toNat * t.height.toNat) 0 img = .ok img')
    (hsz : img.px.size = img.w * img.h) (X Y : Nat) (hX : X < img.w) (hY : Y < img.h) :
    (InMap cx cy tw th t.width.toNat t.height.toNat X Y →
      BlendedAt ops m mode op img img' X Y
        (tileSrc t.tiles pixels tw th t.width.toNat cx cy X Y)) ∧
    (¬ InMap cx cy tw th t.width.toNat t.height.toNat X Y → img'.get X Y = img.get X Y) := by
  rcases Nat.eq_zero_or_pos t.width.toNat with h0 | hmw
  · rw [h0, Nat.zero_mul] at h
    simp [Sprite.writeTiles] at h; subst h
    refine ⟨fun hc => ?_, fun _ => rfl⟩
    unfold InMap at hc
    rw [h0] at hc
    exact absurd hc.2.2.1 (Nat.not_lt_zero _)
  · have := writeTiles_spec_aux ops m mode op t pixels tw th cx cy htw hth hmw _ _ _ _ h hsz X Y hX hY
    rw [inTiles_full] at this
    exact this

/-- degenerate tile sizes draw nothing -/
theorem writeTiles_degenerate (mode : Nat) (op : UInt8) (t : TilemapData) (pixels : Array RGBA)
    (tw th : Nat) (cx cy : Int) (hz : tw = 0 ∨ th = 0) : ∀ (n idx : Nat) (img img' : Image),
      Sprite.writeTiles ops m mode op t pixels tw th cx cy n idx img = .ok img' → img' = img := by
  have hppt : tw * th = 0 := by rcases hz with h | h <;> simp [h]
  intro n
  induction n with
  | zero => intro idx img img' h; simp [Sprite.writeTiles] at h; exact h.symm
  | succ n ih =>
      intro idx img img' h
      unfold Sprite.writeTiles at h
      dsimp only at h
      rw [hppt] at h
      split at h
      · cases h
      · split at h
        · cases h
        · simp only [Sprite.writeTilePixels] at h
          exact ih _ _ _ h

/-- **tilemap cel** (`writeTilemapCel`) -/
theorem writeTilemapCel_spec (img img' : Image) (d : CelCommon) (t : TilemapData)
    (ts : Tileset Pixels) (pixels : Array RGBA) (mode : Nat) (layerOpacity : UInt8)
    (htw : 0 < ts.tileW.toNat) (hth : 0 < ts.tileH.toNat)
    (h : Sprite.writeTilemapCel ops m img d t ts pixels mode layerOpacity = .ok img')
    (hsz : img.px.size = img.w * img.h) (X Y : Nat) (hX : X < img.w) (hY : Y < img.h) :
    (InMap d.x.toInt d.y.toInt ts.tileW.toNat ts.tileH.toNat t.width.toNat t.height.toNat X Y →
      BlendedAt ops m mode (Blend.mulUn8 (Blend.ch layerOpacity) (Blend.ch d.opacity)) img img' X Y
        (tileSrc t.tiles pixels ts.tileW.toNat ts.tileH.toNat t.width.toNat d.x.toInt d.y.toInt X Y)) ∧
    (¬ InMap d.x.toInt d.y.toInt ts.tileW.toNat ts.tileH.toNat t.width.toNat t.height.toNat X Y →
      img'.get X Y = img.get X Y) :=
  writeTiles_spec ops m mode _ t pixels _ _ _ _ htw hth img img' h hsz X Y hX hY

end
end Ase.Proofs
