import Ase.InflateT
import Ase.Inflate
/-
  Lemmas about the total inflater `Ase.ZlibT`:
  * every step moves the bit position forward and stays inside the input;
  * the deflate expansion invariant `Δ out.size ≤ 129 * Δ pos`;
  * the fuel handed out by `inflateZlib` is never exhausted;
  * stored-block streams (`Ase.Zlib.deflateStored`) inflate to their payload.
-/
namespace Ase.ZlibT

/-! ### bit reader -/

theorem getBit_ok {data : ByteArray} {pos b pos' : Nat} (h : getBit data pos = .ok b pos') :
    pos' = pos + 1 ∧ pos + 1 ≤ 8 * data.size ∧ b < 2 := by
  unfold getBit at h
  split at h
  · injection h with h1 h2
    refine ⟨h2.symm, by omega, ?_⟩
    subst h1
    exact Nat.mod_lt _ (by decide)
  · cases h

theorem getBits_ok {data : ByteArray} : ∀ {n pos v pos' : Nat},
    getBits data n pos = .ok v pos' →
      pos' = pos + n ∧ v < 2 ^ n ∧ (pos ≤ 8 * data.size → pos' ≤ 8 * data.size) := by
  intro n
  induction n with
  | zero =>
      intro pos v pos' h
      simp only [getBits] at h
      injection h with h1 h2
      subst h1 h2
      simp
  | succ n ih =>
      intro pos v pos' h
      simp only [getBits] at h
      split at h
      · cases h
      · rename_i b pos1 hb
        split at h
        · cases h
        · rename_i rest pos2 hr
          injection h with h1 h2
          obtain ⟨e1, l1, b2⟩ := getBit_ok hb
          obtain ⟨e2, l2, k2⟩ := ih hr
          subst h1 h2
          refine ⟨by omega, ?_, fun _ => k2 (by omega)⟩
          rw [Nat.pow_succ]
          omega

theorem decodeLoop_ok {data : ByteArray} {h : Huff} : ∀ {n len code first index pos s pos' : Nat},
    decodeLoop data h n len code first index pos = .ok s pos' →
      pos + 1 ≤ pos' ∧ pos' ≤ 8 * data.size := by
  intro n
  induction n with
  | zero => intro len code first index pos s pos' hh; simp [decodeLoop] at hh
  | succ n ih =>
      intro len code first index pos s pos' hh
      simp only [decodeLoop] at hh
      split at hh
      · cases hh
      · rename_i b pos1 hb
        obtain ⟨e1, l1, _⟩ := getBit_ok hb
        split at hh
        · injection hh with h1 h2
          omega
        · have := ih hh
          omega

theorem decodeSym_ok {data : ByteArray} {h : Huff} {pos s pos' : Nat}
    (hh : decodeSym data h pos = .ok s pos') : pos + 1 ≤ pos' ∧ pos' ≤ 8 * data.size :=
  decodeLoop_ok hh


theorem size_copyMatch (dist : Nat) : ∀ (n : Nat) (out : ByteArray),
    (copyMatch dist n out).size = out.size + n := by
  intro n
  induction n with
  | zero => intro out; rfl
  | succ n ih => intro out; simp only [copyMatch, ih, ByteArray.size_push]; omega

theorem lbase_bound : ∀ si, si < 29 → lbase[si]! + 2 ^ lext[si]! ≤ 259 := by decide

/-- what one successful step of a block does: the bit position moves forward by at least one
    bit, stays inside the input, and the output grows by at most 129 bytes per bit -/
def Adv (data : ByteArray) (out : ByteArray) (pos : Nat) (out' : ByteArray) (pos' : Nat) : Prop :=
  pos + 1 ≤ pos' ∧ pos' ≤ 8 * data.size ∧ out'.size + 129 * pos ≤ out.size + 129 * pos'

theorem codeStep_adv {data : ByteArray} {lc dc : Huff} {out : ByteArray} {pos : Nat} :
    (∀ out' pos', codeStep data lc dc out pos = .more out' pos' → Adv data out pos out' pos') ∧
    (∀ out' pos', codeStep data lc dc out pos = .done out' pos' → Adv data out pos out' pos') := by
  unfold codeStep Adv
  split
  · simp
  · rename_i sym pos1 hs
    obtain ⟨a1, a2⟩ := decodeSym_ok hs
    split
    · refine ⟨?_, by simp⟩
      intro out' pos' h
      injection h with h1 h2
      subst h1 h2
      simp only [ByteArray.size_push]
      omega
    · split
      · refine ⟨by simp, ?_⟩
        intro out' pos' h
        injection h with h1 h2
        subst h1 h2
        omega
      · simp only []
        split
        · simp
        · rename_i hsi
          split
          · simp
          · rename_i ext pos2 he
            obtain ⟨c1, c2, c3⟩ := getBits_ok he
            split
            · simp
            · rename_i ds pos3 hd
              obtain ⟨d1, d2⟩ := decodeSym_ok hd
              split
              · simp
              · split
                · simp
                · rename_i dx pos4 hx
                  obtain ⟨e1, e2, e3⟩ := getBits_ok hx
                  refine ⟨?_, by simp⟩
                  intro out' pos' h
                  injection h with h1 h2
                  subst h1 h2
                  rw [size_copyMatch]
                  have := lbase_bound (sym - 257) (by omega)
                  omega

/-- the expansion invariant of one compressed block -/
theorem codes_ok {data : ByteArray} {lc dc : Huff} : ∀ {fuel : Nat} {out : ByteArray} {pos : Nat}
    {out' : ByteArray} {pos' : Nat},
    codes data lc dc fuel out pos = .ok out' pos' → Adv data out pos out' pos' := by
  intro fuel
  induction fuel with
  | zero => intro out pos out' pos' h; simp [codes] at h
  | succ fuel ih =>
      intro out pos out' pos' h
      simp only [codes] at h
      split at h
      · cases h
      · rename_i o1 p1 hs
        injection h with h1 h2
        subst h1 h2
        exact codeStep_adv.2 _ _ hs
      · rename_i o1 p1 hs
        have a := codeStep_adv.1 _ _ hs
        have b := ih h
        unfold Adv at *
        omega


theorem storedBlock_ok {data out : ByteArray} {pos : Nat} {out' : ByteArray} {pos' : Nat}
    (h : storedBlock data out pos = .ok out' pos') : Adv data out pos out' pos' := by
  unfold storedBlock at h
  simp only [] at h
  split at h
  · cases h
  · split at h
    · cases h
    · split at h
      · cases h
      · injection h with h1 h2
        subst h1 h2
        unfold Adv
        simp only [ByteArray.size_append, ByteArray.size_extract]
        omega

theorem readCl_ok {data : ByteArray} : ∀ {n i : Nat} {cl : Array Nat} {pos : Nat}
    {cl' : Array Nat} {pos' : Nat},
    readCl data n i cl pos = .ok cl' pos' → pos ≤ pos' := by
  intro n
  induction n with
  | zero =>
      intro i cl pos cl' pos' h
      simp only [readCl] at h
      injection h with h1 h2
      omega
  | succ n ih =>
      intro i cl pos cl' pos' h
      simp only [readCl] at h
      split at h
      · cases h
      · rename_i v pos1 hv
        obtain ⟨a, _, _⟩ := getBits_ok hv
        have := ih h
        omega

theorem lenStep_ok {data : ByteArray} {lc : Huff} {total : Nat} {acc : Lens} {pos : Nat}
    {acc' : Lens} {pos' : Nat}
    (h : lenStep data lc total acc pos = .ok acc' pos') : pos ≤ pos' ∧ acc.n + 1 ≤ acc'.n := by
  unfold lenStep at h
  split at h
  · cases h
  · rename_i sym pos1 hs
    obtain ⟨a1, a2⟩ := decodeSym_ok hs
    split at h
    · injection h with h1 h2
      subst h1 h2
      simp only []
      omega
    · split at h
      · split at h
        · cases h
        · split at h
          · cases h
          · rename_i x pos2 hx
            obtain ⟨b1, _, _⟩ := getBits_ok hx
            split at h
            · cases h
            · injection h with h1 h2
              subst h1 h2
              simp only []
              omega
      · split at h
        · split at h
          · cases h
          · rename_i x pos2 hx
            obtain ⟨b1, _, _⟩ := getBits_ok hx
            split at h
            · cases h
            · injection h with h1 h2
              subst h1 h2
              simp only []
              omega
        · split at h
          · cases h
          · rename_i x pos2 hx
            obtain ⟨b1, _, _⟩ := getBits_ok hx
            split at h
            · cases h
            · injection h with h1 h2
              subst h1 h2
              simp only []
              omega

theorem readLengths_ok {data : ByteArray} {lc : Huff} {total : Nat} : ∀ {fuel : Nat}
    {acc : Lens} {pos : Nat} {acc' : Lens} {pos' : Nat},
    readLengths data lc total fuel acc pos = .ok acc' pos' → pos ≤ pos' := by
  intro fuel
  induction fuel with
  | zero =>
      intro acc pos acc' pos' h
      simp only [readLengths] at h
      split at h
      · injection h with h1 h2; omega
      · cases h
  | succ fuel ih =>
      intro acc pos acc' pos' h
      simp only [readLengths] at h
      split at h
      · injection h with h1 h2; omega
      · split at h
        · cases h
        · rename_i a1 p1 hs
          have := (lenStep_ok hs).1
          have := ih h
          omega

theorem dynamicBlock_ok {data : ByteArray} {fuel : Nat} {out : ByteArray} {pos : Nat}
    {out' : ByteArray} {pos' : Nat}
    (h : dynamicBlock data fuel out pos = .ok out' pos') : Adv data out pos out' pos' := by
  unfold dynamicBlock at h
  split at h
  · cases h
  rename_i a pos1 ha
  split at h
  · cases h
  rename_i b pos2 hb
  split at h
  · cases h
  rename_i c pos3 hc
  simp only [] at h
  split at h
  · cases h
  split at h
  · cases h
  rename_i cl pos4 hcl
  split at h
  · cases h
  split at h
  · cases h
  rename_i lengths pos5 hl
  split at h
  · cases h
  split at h
  · cases h
  split at h
  · cases h
  obtain ⟨a1, _, _⟩ := getBits_ok ha
  obtain ⟨b1, _, _⟩ := getBits_ok hb
  obtain ⟨c1, _, _⟩ := getBits_ok hc
  have d1 := readCl_ok hcl
  have e1 := readLengths_ok hl
  have f := codes_ok h
  unfold Adv at *
  omega

theorem block_ok {data : ByteArray} {ty : Nat} {out : ByteArray} {pos : Nat}
    {out' : ByteArray} {pos' : Nat}
    (h : block data ty out pos = .ok out' pos') : Adv data out pos out' pos' := by
  unfold block at h
  split at h
  · exact storedBlock_ok h
  · exact codes_ok h
  · exact dynamicBlock_ok h
  · cases h

theorem blocks_ok {data : ByteArray} : ∀ {fuel : Nat} {out : ByteArray} {pos : Nat}
    {out' : ByteArray} {pos' : Nat},
    blocks data fuel out pos = .ok out' pos' → Adv data out pos out' pos' := by
  intro fuel
  induction fuel with
  | zero => intro out pos out' pos' h; simp [blocks] at h
  | succ fuel ih =>
      intro out pos out' pos' h
      simp only [blocks] at h
      split at h
      · cases h
      rename_i last pos1 hlast
      split at h
      · cases h
      rename_i ty pos2 hty
      split at h
      · cases h
      rename_i out1 pos3 hb
      obtain ⟨a1, _, _⟩ := getBit_ok hlast
      obtain ⟨b1, _, _⟩ := getBits_ok hty
      have c := block_ok hb
      split at h
      · injection h with h1 h2
        subst h1 h2
        unfold Adv at *
        omega
      · have d := ih h
        unfold Adv at *
        omega

/-- the deflate expansion bound for the raw result -/
theorem inflateZlib_size {input out : ByteArray} (h : inflateZlib input = .ok out) :
    out.size + 2064 ≤ 1032 * input.size := by
  unfold inflateZlib at h
  split at h
  · cases h
  simp only [] at h
  split at h
  · cases h
  split at h
  · cases h
  rename_i o pos hb
  split at h
  · cases h
  split at h
  · cases h
  injection h with h1
  subst h1
  have a := blocks_ok hb
  unfold Adv at a
  simp only [ByteArray.size_empty] at a
  omega


/-! ### the fuel is never exhausted -/

theorem getBit_nofuel {data : ByteArray} {pos : Nat} : getBit data pos ≠ .err .fuel := by
  unfold getBit
  split <;> simp

theorem getBits_nofuel {data : ByteArray} : ∀ {n pos : Nat}, getBits data n pos ≠ .err .fuel := by
  intro n
  induction n with
  | zero => intro pos; simp [getBits]
  | succ n ih =>
      intro pos
      simp only [getBits]
      split
      · rename_i e he
        intro hh
        injection hh with hh
        subst hh
        exact getBit_nofuel he
      · split
        · rename_i e he
          intro hh
          injection hh with hh
          subst hh
          exact ih he
        · simp

theorem decodeLoop_nofuel {data : ByteArray} {h : Huff} : ∀ {n len code first index pos : Nat},
    decodeLoop data h n len code first index pos ≠ .err .fuel := by
  intro n
  induction n with
  | zero => intro len code first index pos; simp [decodeLoop]
  | succ n ih =>
      intro len code first index pos
      simp only [decodeLoop]
      split
      · rename_i e he
        intro hh
        injection hh with hh
        subst hh
        exact getBit_nofuel he
      · split
        · simp
        · exact ih

theorem decodeSym_nofuel {data : ByteArray} {h : Huff} {pos : Nat} :
    decodeSym data h pos ≠ .err .fuel := decodeLoop_nofuel

theorem codeStep_nofuel {data : ByteArray} {lc dc : Huff} {out : ByteArray} {pos : Nat} :
    codeStep data lc dc out pos ≠ .err .fuel := by
  unfold codeStep
  split
  · rename_i e he
    intro hh; injection hh with hh; subst hh
    exact decodeSym_nofuel he
  · split
    · simp
    · split
      · simp
      · simp only []
        split
        · simp
        · split
          · rename_i e he
            intro hh; injection hh with hh; subst hh
            exact getBits_nofuel he
          · split
            · rename_i e he
              intro hh; injection hh with hh; subst hh
              exact decodeSym_nofuel he
            · split
              · simp
              · split
                · rename_i e he
                  intro hh; injection hh with hh; subst hh
                  exact getBits_nofuel he
                · simp

theorem codes_nofuel {data : ByteArray} {lc dc : Huff} : ∀ {fuel : Nat} {out : ByteArray} {pos : Nat},
    1 ≤ fuel → 8 * data.size < fuel + pos → codes data lc dc fuel out pos ≠ .err .fuel := by
  intro fuel
  induction fuel with
  | zero => intro out pos h; omega
  | succ fuel ih =>
      intro out pos _ hf
      simp only [codes]
      split
      · rename_i e he
        intro hh; injection hh with hh; subst hh
        exact codeStep_nofuel he
      · simp
      · rename_i o1 p1 hs
        obtain ⟨a1, a2, _⟩ := codeStep_adv.1 _ _ hs
        exact ih (by omega) (by omega)

theorem readCl_nofuel {data : ByteArray} : ∀ {n i : Nat} {cl : Array Nat} {pos : Nat},
    readCl data n i cl pos ≠ .err .fuel := by
  intro n
  induction n with
  | zero => intro i cl pos; simp [readCl]
  | succ n ih =>
      intro i cl pos
      simp only [readCl]
      split
      · rename_i e he
        intro hh; injection hh with hh; subst hh
        exact getBits_nofuel he
      · exact ih

theorem lenStep_nofuel {data : ByteArray} {lc : Huff} {total : Nat} {acc : Lens} {pos : Nat} :
    lenStep data lc total acc pos ≠ .err .fuel := by
  unfold lenStep
  split
  · rename_i e he
    intro hh; injection hh with hh; subst hh
    exact decodeSym_nofuel he
  · split
    · simp
    · split
      · split
        · simp
        · split
          · rename_i e he
            intro hh; injection hh with hh; subst hh
            exact getBits_nofuel he
          · split <;> simp
      · split
        · split
          · rename_i e he
            intro hh; injection hh with hh; subst hh
            exact getBits_nofuel he
          · split <;> simp
        · split
          · rename_i e he
            intro hh; injection hh with hh; subst hh
            exact getBits_nofuel he
          · split <;> simp

theorem readLengths_nofuel {data : ByteArray} {lc : Huff} {total : Nat} : ∀ {fuel : Nat}
    {acc : Lens} {pos : Nat},
    total ≤ fuel + acc.n → readLengths data lc total fuel acc pos ≠ .err .fuel := by
  intro fuel
  induction fuel with
  | zero =>
      intro acc pos hf
      simp only [readLengths]
      split
      · simp
      · omega
  | succ fuel ih =>
      intro acc pos hf
      simp only [readLengths]
      split
      · simp
      · split
        · rename_i e he
          intro hh; injection hh with hh; subst hh
          exact lenStep_nofuel he
        · rename_i a1 p1 hs
          have := (lenStep_ok hs).2
          exact ih (by omega)

theorem dynamicBlock_nofuel {data : ByteArray} {fuel : Nat} {out : ByteArray} {pos : Nat}
    (h1 : 1 ≤ fuel) (hf : 8 * data.size < fuel + pos) :
    dynamicBlock data fuel out pos ≠ .err .fuel := by
  unfold dynamicBlock
  split
  · rename_i e he
    intro hh; injection hh with hh; subst hh
    exact getBits_nofuel he
  rename_i a pos1 ha
  split
  · rename_i e he
    intro hh; injection hh with hh; subst hh
    exact getBits_nofuel he
  rename_i b pos2 hb
  split
  · rename_i e he
    intro hh; injection hh with hh; subst hh
    exact getBits_nofuel he
  rename_i c pos3 hc
  simp only []
  split
  · simp
  split
  · rename_i e he
    intro hh; injection hh with hh; subst hh
    exact readCl_nofuel he
  rename_i cl pos4 hcl
  split
  · simp
  split
  · rename_i e he
    intro hh; injection hh with hh; subst hh
    exact readLengths_nofuel (by simp) he
  rename_i lengths pos5 hl
  split
  · simp
  split
  · simp
  split
  · simp
  obtain ⟨a1, _, _⟩ := getBits_ok ha
  obtain ⟨b1, _, _⟩ := getBits_ok hb
  obtain ⟨c1, _, _⟩ := getBits_ok hc
  have d1 := readCl_ok hcl
  have e1 := readLengths_ok hl
  exact codes_nofuel h1 (by omega)

theorem storedBlock_nofuel {data out : ByteArray} {pos : Nat} :
    storedBlock data out pos ≠ .err .fuel := by
  unfold storedBlock
  simp only []
  split
  · simp
  · split
    · simp
    · split <;> simp

theorem block_nofuel {data : ByteArray} {ty : Nat} {out : ByteArray} {pos : Nat}
    (hp : pos ≤ 8 * data.size) : block data ty out pos ≠ .err .fuel := by
  unfold block
  split
  · exact storedBlock_nofuel
  · exact codes_nofuel (by omega) (by omega)
  · exact dynamicBlock_nofuel (by omega) (by omega)
  · simp

theorem blocks_nofuel {data : ByteArray} : ∀ {fuel : Nat} {out : ByteArray} {pos : Nat},
    pos ≤ 8 * data.size → 8 * data.size < fuel + pos → blocks data fuel out pos ≠ .err .fuel := by
  intro fuel
  induction fuel with
  | zero => intro out pos h1 h2; omega
  | succ fuel ih =>
      intro out pos hp hf
      simp only [blocks]
      split
      · rename_i e he
        intro hh; injection hh with hh; subst hh
        exact getBit_nofuel he
      rename_i last pos1 hlast
      obtain ⟨a1, a2, _⟩ := getBit_ok hlast
      split
      · rename_i e he
        intro hh; injection hh with hh; subst hh
        exact getBits_nofuel he
      rename_i ty pos2 hty
      obtain ⟨b1, _, b3⟩ := getBits_ok hty
      split
      · rename_i e he
        intro hh; injection hh with hh; subst hh
        exact block_nofuel (b3 (by omega)) he
      rename_i out1 pos3 hb
      obtain ⟨c1, c2, _⟩ := block_ok hb
      split
      · simp
      · exact ih c2 (by omega)

/-- the fuel arguments handed out by `inflateZlib` always suffice -/
theorem inflateZlib_nofuel (input : ByteArray) : inflateZlib input ≠ .error .fuel := by
  unfold inflateZlib
  split
  · simp
  simp only []
  split
  · simp
  split
  · rename_i e he
    intro hh; injection hh with hh; subst hh
    exact blocks_nofuel (by omega) (by omega) he
  · split
    · simp
    · split <;> simp


/-! ### Adler-32 as a list fold -/

def adlerList : List UInt8 → Nat → Nat → Nat × Nat
  | [], a, b => (a, b)
  | x :: xs, a, b => adlerList xs ((a + x.toNat) % 65521) ((b + (a + x.toNat) % 65521) % 65521)

def adlerVal (l : List UInt8) : Nat := (adlerList l 1 0).2 * 65536 + (adlerList l 1 0).1

theorem byteAt_eq (bs : ByteArray) (i : Nat) (h : i < bs.size) :
    byteAt bs i = (bs.data.toList[i]'(by simpa using h)).toNat := by
  unfold byteAt ByteArray.get!
  cases bs with
  | mk d =>
    simp only [ByteArray.size] at h
    simp [h]

theorem adlerLoop_eq (bs : ByteArray) : ∀ (n i a b : Nat), i + n = bs.size →
    adlerLoop bs n i a b =
      (adlerList (bs.data.toList.drop i) a b).2 * 65536 + (adlerList (bs.data.toList.drop i) a b).1 := by
  intro n
  induction n with
  | zero =>
      intro i a b h
      have : bs.data.toList.drop i = [] := by
        apply List.drop_eq_nil_of_le
        simp only [Array.length_toList, ByteArray.size_data]; omega
      simp [adlerLoop, this, adlerList]
  | succ n ih =>
      intro i a b h
      have hi : i < bs.size := by omega
      have hd : bs.data.toList.drop i = bs.data.toList[i]'(by simpa using hi) :: bs.data.toList.drop (i + 1) :=
        List.drop_eq_getElem_cons _
      simp only [adlerLoop]
      rw [ih _ _ _ (by omega), hd, byteAt_eq bs i hi]
      simp only [adlerList]

theorem adler32_eq (bs : ByteArray) : adler32 bs = adlerVal bs.data.toList := by
  unfold adler32 adlerVal
  rw [adlerLoop_eq bs _ _ _ _ (by omega)]
  simp

theorem zlib_adler_loop (bs : ByteArray) : ∀ (i : Nat) (h : i ≤ bs.size) (a b : Nat),
    ByteArray.forIn.loop (m := Id) bs
      (fun x (s : Nat × Nat) =>
        pure (ForInStep.yield ((s.fst + x.toNat) % 65521, (s.snd + (s.fst + x.toNat) % 65521) % 65521)))
      i h (a, b) = pure (adlerList (bs.data.toList.drop (bs.size - i)) a b) := by
  intro i
  induction i with
  | zero =>
      intro h a b
      have : bs.data.toList.drop (bs.size - 0) = [] := by
        apply List.drop_eq_nil_of_le
        simp only [Array.length_toList, ByteArray.size_data]; omega
      rw [ByteArray.forIn.loop.eq_1, this]
      rfl
  | succ i ih =>
      intro h a b
      have hi : bs.size - (i + 1) < bs.size := by omega
      have hd : bs.data.toList.drop (bs.size - (i + 1)) =
          bs.data.toList[bs.size - (i + 1)]'(by simpa using hi) :: bs.data.toList.drop (bs.size - (i + 1) + 1) :=
        List.drop_eq_getElem_cons _
      rw [ByteArray.forIn.loop.eq_2, hd]
      simp only [adlerList, pure_bind]
      rw [ih]
      have e1 : bs.size - (i + 1) + 1 = bs.size - i := by omega
      have e2 : bs[bs.size - 1 - i]'(by omega) = bs.data.toList[bs.size - (i + 1)]'(by simpa using hi) := by
        simp only [ByteArray.getElem_eq_getElem_data, Array.getElem_toList]
        congr 1
        omega
      rw [e1, e2]

theorem zlib_adler32_eq (bs : ByteArray) : Zlib.adler32 bs = adlerVal bs.data.toList := by
  unfold Zlib.adler32 adlerVal
  simp only [forIn, ByteArray.forIn]
  rw [zlib_adler_loop]
  simp
  rfl

theorem adlerList_lt : ∀ (l : List UInt8) (a b : Nat), a < 65521 → b < 65521 →
    (adlerList l a b).1 < 65521 ∧ (adlerList l a b).2 < 65521 := by
  intro l
  induction l with
  | nil => intro a b ha hb; exact ⟨ha, hb⟩
  | cons x xs ih =>
      intro a b ha hb
      simp only [adlerList]
      exact ih _ _ (Nat.mod_lt _ (by decide)) (Nat.mod_lt _ (by decide))

theorem adlerVal_lt (l : List UInt8) : adlerVal l < 4294967296 := by
  unfold adlerVal
  have := adlerList_lt l 1 0 (by decide) (by decide)
  omega


/-! ### stored-block streams -/

/-- the input as seen through `byteAt`, at a place where the list is known -/
theorem byteAt_of_drop {L : List UInt8} {k : Nat} {x : UInt8} {xs : List UInt8}
    (h : L.drop k = x :: xs) :
    k < L.length ∧ byteAt ⟨L.toArray⟩ k = x.toNat ∧ L.drop (k + 1) = xs := by
  have hk : k < L.length := by
    apply Nat.lt_of_not_le
    intro hle
    rw [List.drop_eq_nil_of_le hle] at h
    cases h
  rw [List.drop_eq_getElem_cons hk] at h
  injection h with h1 h2
  refine ⟨hk, ?_, h2⟩
  rw [byteAt_eq _ _ (by simpa [ByteArray.size] using hk)]
  simp [h1]

theorem extract_of_drop {L : List UInt8} {j : Nat} {blk more : List UInt8}
    (hj : j ≤ L.length) (h : L.drop j = blk ++ more) :
    (ByteArray.mk L.toArray).extract j (j + blk.length) = ⟨blk.toArray⟩ ∧
      j + blk.length ≤ L.length ∧ L.drop (j + blk.length) = more := by
  have hl : (L.drop j).length = (blk ++ more).length := by rw [h]
  simp only [List.length_drop, List.length_append] at hl
  refine ⟨?_, by omega, ?_⟩
  · apply ByteArray.ext
    simp only [ByteArray.data_extract, List.extract_toArray, List.extract_eq_take_drop]
    congr 1
    rw [Nat.add_sub_cancel_left, h]
    simp
  · rw [← List.drop_drop, h]
    simp

theorem getBit_at {data : ByteArray} {k j : Nat} (hj : j < 8) (hk : k < data.size) :
    getBit data (8 * k + j) = .ok ((byteAt data k >>> j) % 2) (8 * k + j + 1) := by
  unfold getBit
  have e1 : (8 * k + j) / 8 = k := by omega
  have e2 : (8 * k + j) % 8 = j := by omega
  rw [e1, e2, if_pos hk]

/-- the three header bits of a stored block whose first byte is `0` or `1` -/
theorem stored_header {data : ByteArray} {k f : Nat} (hk : k < data.size) (hb : byteAt data k = f)
    (hf : f ≤ 1) :
    getBit data (8 * k) = .ok f (8 * k + 1) ∧ getBits data 2 (8 * k + 1) = .ok 0 (8 * k + 3) := by
  constructor
  · have := getBit_at (data := data) (k := k) (j := 0) (by omega) hk
    simp only [Nat.add_zero, Nat.shiftRight_zero] at this
    rw [this, hb]
    congr 1
    omega
  · have g1 := getBit_at (data := data) (k := k) (j := 1) (by omega) hk
    have g2 := getBit_at (data := data) (k := k) (j := 2) (by omega) hk
    have e3 : 8 * k + 3 = 8 * k + 2 + 1 := by omega
    simp only [getBits, g1, g2, hb, e3]
    have : f = 0 ∨ f = 1 := by omega
    rcases this with rfl | rfl <;> rfl

theorem go_stored (L : List UInt8) : ∀ (gf : Nat) (rest : Bytes) (k : Nat) (out : ByteArray)
    (fuel : Nat) (tail : Bytes),
    L.drop k = Zlib.deflateStored.go rest gf ++ tail →
    rest.length / 65535 + 1 ≤ gf →
    8 * L.length < fuel + 8 * k →
    ∃ k', blocks ⟨L.toArray⟩ fuel out (8 * k) = .ok (out ++ ⟨rest.toArray⟩) (8 * k') ∧
      L.drop k' = tail := by
  intro gf
  induction gf with
  | zero => intro rest k out fuel tail _ h; omega
  | succ gf ih =>
      intro rest k out fuel tail hd hg hf
      rw [Zlib.deflateStored.go.eq_2] at hd
      simp only [List.cons_append, List.nil_append, List.append_assoc] at hd
      obtain ⟨k0, b0, hd⟩ := byteAt_of_drop hd
      obtain ⟨_, b1, hd⟩ := byteAt_of_drop hd
      obtain ⟨_, b2, hd⟩ := byteAt_of_drop hd
      obtain ⟨_, b3, hd⟩ := byteAt_of_drop hd
      obtain ⟨_, b4, hd⟩ := byteAt_of_drop hd
      obtain ⟨ex, hlen, hd⟩ := extract_of_drop (by omega) hd
      have hn : (List.take 65535 rest).length ≤ 65535 := by
        rw [List.length_take]; omega
      generalize hblk : List.take 65535 rest = blk at *
      have hsz : (ByteArray.mk L.toArray).size = L.length := by simp [ByteArray.size]
      cases fuel with
      | zero => omega
      | succ fuel =>
        simp only [UInt8.toNat_ofNat'] at b1 b2 b3 b4
        have hfin : (if (List.drop 65535 rest).isEmpty = true then (1 : UInt8) else 0).toNat ≤ 1 := by
          split <;> decide
        obtain ⟨h1, h2⟩ := stored_header (by omega) b0 hfin
        simp only [blocks, h1, h2, block, storedBlock]
        have ep : (8 * k + 3 + 7) / 8 = k + 1 := by omega
        rw [ep, b1, b2, b3, b4]
        have elen : blk.length % 256 % 2 ^ 8 + 256 * (blk.length / 256 % 2 ^ 8) = blk.length := by omega
        have enlen : (65535 - blk.length) % 256 % 2 ^ 8 + 256 * ((65535 - blk.length) / 256 % 2 ^ 8)
            = 65535 - blk.length := by omega
        rw [elen, enlen]
        have c1 : ¬ (k + 1 + 4 > (ByteArray.mk L.toArray).size) := by omega
        have c2 : ¬ ((blk.length + (65535 - blk.length) != 65535) = true) := by
          simp; omega
        have c3 : ¬ (k + 1 + 4 + blk.length > (ByteArray.mk L.toArray).size) := by omega
        rw [if_neg c1, if_neg c2, if_neg c3]
        have ek : k + 1 + 4 = k + 1 + 1 + 1 + 1 + 1 := by omega
        rw [ek, ex]
        simp only []
        by_cases hemp : (List.drop 65535 rest).isEmpty = true
        · rw [if_pos hemp] at hd ⊢
          simp only [List.nil_append] at hd
          refine ⟨k + 1 + 1 + 1 + 1 + 1 + blk.length, ?_, hd⟩
          have : (1 : UInt8).toNat = 1 := rfl
          rw [this]
          simp only [beq_self_eq_true, if_true]
          congr 1
          · have : rest = blk := by
              rw [← hblk]
              have := List.isEmpty_iff.mp hemp
              rw [List.drop_eq_nil_iff] at this
              exact (List.take_of_length_le this).symm
            rw [this]
          · omega
        · rw [if_neg hemp] at hd ⊢
          have : (0 : UInt8).toNat = 0 := rfl
          rw [this]
          have hne : (0 == 1) = false := rfl
          simp only [hne]
          have hrl : 65535 < rest.length := by
            have : ¬ (List.drop 65535 rest = []) := fun h => hemp (List.isEmpty_iff.mpr h)
            rw [List.drop_eq_nil_iff] at this
            omega
          have hbl : blk.length = 65535 := by
            rw [← hblk, List.length_take]; omega
          have ek2 : (k + 1 + 1 + 1 + 1 + 1 + blk.length) * 8 = 8 * (k + 1 + 1 + 1 + 1 + 1 + blk.length) := by
            omega
          rw [ek2]
          obtain ⟨k', hk', hd'⟩ := ih (List.drop 65535 rest) _ (out ++ ⟨blk.toArray⟩) fuel tail hd
            (by rw [List.length_drop]; omega) (by omega)
          refine ⟨k', ?_, hd'⟩
          simp only [Bool.false_eq_true, if_false]
          rw [hk']
          congr 1
          rw [ByteArray.append_assoc]
          congr 1
          apply ByteArray.ext
          simp only [ByteArray.data_append]
          rw [← hblk]
          simp


theorem inflateZlib_deflateStored (bs : Bytes) :
    inflateZlib ⟨(Zlib.deflateStored bs).toArray⟩ = .ok ⟨bs.toArray⟩ := by
  unfold Zlib.deflateStored
  simp only [zlib_adler32_eq]
  generalize hgo : Zlib.deflateStored.go bs (bs.length / 65535 + 1) = g
  have had := adlerVal_lt bs
  generalize hadv : adlerVal bs = ad at had
  generalize hL : ([0x78, 0x01] ++ g ++
    [UInt8.ofNat (ad / 16777216), UInt8.ofNat (ad / 65536 % 256), UInt8.ofNat (ad / 256 % 256),
      UInt8.ofNat (ad % 256)] : Bytes) = L
  have hd0 : L.drop 0 = 0x78 :: 0x01 :: (g ++ [UInt8.ofNat (ad / 16777216), UInt8.ofNat (ad / 65536 % 256),
      UInt8.ofNat (ad / 256 % 256), UInt8.ofNat (ad % 256)]) := by
    rw [← hL]; simp
  obtain ⟨_, c0, hd1⟩ := byteAt_of_drop hd0
  obtain ⟨l1, c1, hd2⟩ := byteAt_of_drop hd1
  have hsz : (ByteArray.mk L.toArray).size = L.length := by simp [ByteArray.size]
  rw [← hgo] at hd2
  obtain ⟨k', hb, hd3⟩ := go_stored L _ bs 2 ByteArray.empty (8 * L.length) _ hd2 (by omega) (by omega)
  obtain ⟨t0, d0, hd4⟩ := byteAt_of_drop hd3
  obtain ⟨t1, d1, hd5⟩ := byteAt_of_drop hd4
  obtain ⟨t2, d2, hd6⟩ := byteAt_of_drop hd5
  obtain ⟨t3, d3, _⟩ := byteAt_of_drop hd6
  simp only [UInt8.toNat_ofNat'] at d0 d1 d2 d3
  unfold inflateZlib
  rw [if_neg (by omega)]
  simp only [c0, c1, hsz]
  rw [if_neg (by decide)]
  have e16 : 16 = 8 * 2 := rfl
  rw [e16, hb]
  simp only []
  have ep : (8 * k' + 7) / 8 = k' := by omega
  rw [ep, if_neg (by omega), d0, d1, d2, d3, adler32_eq]
  simp only [ByteArray.empty_append, hadv]
  rw [if_neg]
  simp only [bne_iff_ne, ne_eq, Decidable.not_not]
  omega

/-- round trip of the stored-block encoder through the total inflater -/
theorem inflate_deflateStored (bs : Bytes) : inflate (Zlib.deflateStored bs) = .ok bs := by
  unfold inflate
  rw [inflateZlib_deflateStored]

end Ase.ZlibT
