import AseProofs.Lemmas.WholeFile
import AseProofs.Props.C02
/-
  The user-data context of the parser state (`ParseInfo.ctx`): which items overwrite it, which
  neither read nor write it; the cel table under reordering of cel items.  Used by C07.
-/
namespace Ase.Proofs.WholeFile
open Ase Ase.Proofs

/-! ### `runItems` plumbing -/

theorem runItems_append (frame : Nat) (a b : List Spec.SItem) : ∀ (pi : ParseInfo),
    Spec.runItems frame pi (a ++ b) =
      (Spec.runItems frame pi a >>= fun pi' => Spec.runItems frame pi' b) := by
  induction a with
  | nil => intro pi; rfl
  | cons x t ih =>
      intro pi
      simp only [List.cons_append, Spec.runItems]
      cases Spec.stepSem frame pi x with
      | ok pi' => exact ih pi'
      | err e => rfl
      | panic s => rfl

/-! ### no-op items -/

def isNoop : Spec.SItem → Bool
  | .noop => true
  | _ => false

theorem runItems_filter_noop (frame : Nat) (its : List Spec.SItem) : ∀ (pi : ParseInfo),
    Spec.runItems frame pi (its.filter (fun i => !isNoop i)) = Spec.runItems frame pi its := by
  induction its with
  | nil => intro pi; rfl
  | cons x t ih =>
      intro pi
      cases x with
      | noop => simp only [List.filter, isNoop, Bool.not_true, Spec.runItems, Spec.stepSem]; exact ih pi
      | _ =>
          simp only [List.filter, isNoop, Bool.not_false, Spec.runItems]
          split
          · exact ih _
          · rfl
          · rfl

def dropNoops (frames : List (UInt16 × List Spec.SItem)) : List (UInt16 × List Spec.SItem) :=
  frames.map (fun f => (f.1, f.2.filter (fun i => !isNoop i)))

theorem runFrames_dropNoops (frames : List (UInt16 × List Spec.SItem)) :
    ∀ (k : Nat) (pi : ParseInfo),
      Spec.runFrames k pi (dropNoops frames) = Spec.runFrames k pi frames := by
  induction frames with
  | nil => intro k pi; rfl
  | cons f t ih =>
      intro k pi
      obtain ⟨d, its⟩ := f
      simp only [dropNoops, List.map_cons, Spec.runFrames, Spec.runFrame, runItems_filter_noop]
      split
      · exact ih _ _
      · rfl
      · rfl

/-! ### the user-data context -/

def setCtx (c : Option UDCtx) (pi : ParseInfo) : ParseInfo := { pi with ctx := c }

@[simp] theorem setCtx_setCtx (a b : Option UDCtx) (pi : ParseInfo) :
    setCtx a (setCtx b pi) = setCtx a pi := rfl

/-- items that overwrite the context without reading it -/
def setsCtx (frame : Nat) : Spec.SItem → Bool
  | .layer _ | .cel _ | .slice _ | .oldPalette _ => true
  | .tags _ => frame == 0
  | _ => false

/-- items that neither read nor write the context -/
def ctxNeutral (frame : Nat) : Spec.SItem → Bool
  | .palette _ | .extFiles _ | .tileset _ | .noop => true
  | .tags _ => frame != 0
  | _ => false

theorem addCel_setCtx (c : Option UDCtx) (pi : ParseInfo) (frame : Nat) (cel : RawCel RawPixels) :
    (setCtx c pi).addCel frame cel = pi.addCel frame cel := by
  simp only [ParseInfo.addCel, setCtx]

/-- a context-setting item makes the previous context unobservable -/
theorem stepSem_setsCtx (c : Option UDCtx) (frame : Nat) (pi : ParseInfo) (it : Spec.SItem)
    (h : setsCtx frame it = true) :
    Spec.stepSem frame (setCtx c pi) it = Spec.stepSem frame pi it := by
  cases it with
  | cel cel => exact addCel_setCtx c pi frame cel
  | tags ts =>
      simp only [setsCtx] at h
      simp only [Spec.stepSem, h, if_true]
      rfl
  | oldPalette p =>
      cases hp : pi.palette.isNone <;> simp only [Spec.stepSem, setCtx, hp] <;> rfl
  | layer l => rfl
  | slice s => rfl
  | _ => simp [setsCtx] at h

/-- a context-neutral item commutes with a change of the context -/
theorem stepSem_neutral (c : Option UDCtx) (frame : Nat) (pi : ParseInfo) (it : Spec.SItem)
    (h : ctxNeutral frame it = true) :
    Spec.stepSem frame (setCtx c pi) it = (Spec.stepSem frame pi it).map (setCtx c) := by
  cases it with
  | tags ts =>
      have h0 : (frame == 0) = false := by simpa [ctxNeutral] using h
      simp only [Spec.stepSem, h0]
      rfl
  | palette p => rfl
  | extFiles fs => rfl
  | tileset t => rfl
  | noop => rfl
  | _ => simp [ctxNeutral] at h

/-- **the context is overwritten**: after context-neutral items and a context-setting item the
    earlier context has no effect -/
theorem runItems_ctx_overwritten (frame : Nat) (mid : List Spec.SItem) (it : Spec.SItem)
    (rest : List Spec.SItem) (hmid : ∀ x ∈ mid, ctxNeutral frame x = true)
    (hit : setsCtx frame it = true) : ∀ (c : Option UDCtx) (pi : ParseInfo),
      Spec.runItems frame (setCtx c pi) (mid ++ it :: rest) =
        Spec.runItems frame pi (mid ++ it :: rest) := by
  induction mid with
  | nil =>
      intro c pi
      simp only [List.nil_append, Spec.runItems, stepSem_setsCtx c frame pi it hit]
  | cons x t ih =>
      intro c pi
      simp only [List.cons_append, Spec.runItems,
        stepSem_neutral c frame pi x (hmid x List.mem_cons_self)]
      cases Spec.stepSem frame pi x with
      | ok pi' => exact ih (fun y hy => hmid y (List.mem_cons_of_mem _ hy)) c pi'
      | err e => rfl
      | panic s => rfl

/-- validation does not look at the context -/
theorem validate_setCtx (h : Header) (fmt : PixelFormat) (c : Option UDCtx) (pi : ParseInfo) :
    validate h fmt (setCtx c pi) = validate h fmt pi := rfl

/-! ### a legacy palette behind a palette -/

theorem stepSem_oldPalette_present (frame : Nat) (pi : ParseInfo) (p q : Palette)
    (h : pi.palette = some q) :
    Spec.stepSem frame pi (.oldPalette p) = .ok (setCtx (some .oldPalette) pi) := by
  have hn : pi.palette.isNone = false := by rw [h]; rfl
  simp only [Spec.stepSem, hn]
  rfl

/-! ### the cel table under reordering of cel items -/

theorem get?_insert_ne {P} (k k' : Nat) (c : RawCel P) (hne : k ≠ k') : ∀ row : FrameCels P,
    FrameCels.get? k (FrameCels.insert k' c row) = FrameCels.get? k row := by
  intro row
  induction row with
  | nil =>
      have : (k' == k) = false := by simp; omega
      simp [FrameCels.insert, FrameCels.get?, List.find?, this]
  | cons hd tl ih =>
      obtain ⟨k0, c0⟩ := hd
      have hk : (k' == k) = false := by simp; omega
      by_cases h : k' < k0
      · simp [FrameCels.insert, FrameCels.get?, List.find?, h, hk]
      · simp only [FrameCels.insert, h, if_false]
        simp only [FrameCels.get?, List.find?] at ih ⊢
        cases hk0 : (k0 == k) with
        | true => rfl
        | false => exact ih

theorem cels_set_get (a : Array (FrameCels RawPixels)) (f : Nat) (x y : FrameCels RawPixels)
    (h : a[f]? = some x) : (a.set! f y)[f]? = some y := by
  have : f < a.size := by
    rcases Nat.lt_or_ge f a.size with h' | h'
    · exact h'
    · simp [h'] at h
  simp [this]

theorem addCel_some (pi : ParseInfo) (frame : Nat) (cel : RawCel RawPixels)
    (row : FrameCels RawPixels) (hrow : pi.cels[frame]? = some row) :
    pi.addCel frame cel =
      if (FrameCels.get? cel.data.layerIndex.toNat row).isSome then .err .invalid else
        .ok { pi with cels := pi.cels.set! frame (FrameCels.insert cel.data.layerIndex.toNat cel row),
                      ctx := some (.cel frame cel.data.layerIndex.toNat) } := by
  simp only [ParseInfo.addCel, hrow]

theorem addCel_swap (pi : ParseInfo) (frame : Nat) (c1 c2 : RawCel RawPixels)
    (hne : c1.data.layerIndex.toNat ≠ c2.data.layerIndex.toNat) (x : Option UDCtx) :
    ((pi.addCel frame c1 >>= fun q => q.addCel frame c2).map (setCtx x)) =
      ((pi.addCel frame c2 >>= fun q => q.addCel frame c1).map (setCtx x)) := by
  cases hrow : pi.cels[frame]? with
  | none => simp [ParseInfo.addCel, hrow]
  | some row =>
      rw [addCel_some pi frame c1 row hrow, addCel_some pi frame c2 row hrow]
      by_cases h1 : (FrameCels.get? c1.data.layerIndex.toNat row).isSome <;>
        by_cases h2 : (FrameCels.get? c2.data.layerIndex.toNat row).isSome
      · simp [h1, h2]
      · simp only [h1, h2, if_true, if_false, Res.bind_ok, Res.bind_err, Bool.false_eq_true]
        rw [addCel_some _ frame c1 _ (cels_set_get pi.cels frame row _ hrow)]
        simp [get?_insert_ne _ _ c2 hne, h1]
      · simp only [h1, h2, if_true, if_false, Res.bind_ok, Res.bind_err, Bool.false_eq_true]
        rw [addCel_some _ frame c2 _ (cels_set_get pi.cels frame row _ hrow)]
        simp [get?_insert_ne _ _ c1 (Ne.symm hne), h2]
      · simp only [h1, h2, if_false, Res.bind_ok, Bool.false_eq_true]
        rw [addCel_some _ frame c1 _ (cels_set_get pi.cels frame row _ hrow),
          addCel_some _ frame c2 _ (cels_set_get pi.cels frame row _ hrow)]
        simp only [get?_insert_ne _ _ c2 hne, get?_insert_ne _ _ c1 (Ne.symm hne), h1, h2,
          Bool.false_eq_true, if_false, Res.map_ok, setCtx]
        simp [C02.insert_comm _ _ c1 c2 hne row]

/-- equal modulo the context, continued by something that does not see the context -/
theorem bind_congr_modCtx {β} {x : Option UDCtx} {r1 r2 : Res ParseInfo} {g : ParseInfo → Res β}
    (h : r1.map (setCtx x) = r2.map (setCtx x)) (hg : ∀ c q, g (setCtx c q) = g q) :
    (r1 >>= g) = (r2 >>= g) := by
  cases r1 with
  | ok a =>
      cases r2 with
      | ok b =>
          simp only [Res.map_ok, Res.ok.injEq] at h
          simp only [Res.bind_ok]
          rw [← hg x a, h, hg x b]
      | err e => cases h
      | panic s => cases h
  | err e =>
      cases r2 with
      | ok b => cases h
      | err e' => simp only [Res.map_err, Res.err.injEq] at h; rw [h]
      | panic s => cases h
  | panic s =>
      cases r2 with
      | ok b => cases h
      | err e' => cases h
      | panic s' => simp only [Res.map_panic, Res.panic.injEq] at h; rw [h]

theorem runItems_cel_cel (frame : Nat) (pi : ParseInfo) (a b : RawCel RawPixels)
    (rest : List Spec.SItem) :
    Spec.runItems frame pi (.cel a :: .cel b :: rest) =
      ((pi.addCel frame a >>= fun q => q.addCel frame b) >>= fun q =>
        Spec.runItems frame q rest) := by
  simp only [Spec.runItems, Spec.stepSem]
  cases pi.addCel frame a with
  | ok q =>
      simp only [Res.bind_ok]
      cases q.addCel frame b <;> rfl
  | err e => rfl
  | panic s => rfl

theorem map_bind {α β γ} (r : Res α) (g : α → Res β) (f : β → γ) :
    (r >>= g).map f = (r >>= fun a => (g a).map f) := by
  cases r <;> rfl

/-- a run of cel items: a change of the initial context is invisible modulo the final context -/
theorem runCels_setCtx (frame : Nat) (x : Option UDCtx) (l : List (RawCel RawPixels))
    (c : Option UDCtx) (pi : ParseInfo) :
    (Spec.runItems frame (setCtx c pi) (l.map .cel)).map (setCtx x) =
      (Spec.runItems frame pi (l.map .cel)).map (setCtx x) := by
  cases l with
  | nil => rfl
  | cons a t =>
      simp only [List.map_cons, Spec.runItems, stepSem_setsCtx c frame pi (.cel a) rfl]

/-- **cel items in any order** (distinct layers): the same state up to the context -/
theorem runCels_perm (frame : Nat) (x : Option UDCtx) {l1 l2 : List (RawCel RawPixels)}
    (hperm : l1.Perm l2) :
    l1.Pairwise (fun a b => a.data.layerIndex.toNat ≠ b.data.layerIndex.toNat) →
    ∀ (pi : ParseInfo),
      (Spec.runItems frame pi (l1.map .cel)).map (setCtx x) =
        (Spec.runItems frame pi (l2.map .cel)).map (setCtx x) := by
  induction hperm with
  | nil => intro _ pi; rfl
  | cons a _ ih =>
      intro hp pi
      rw [List.pairwise_cons] at hp
      simp only [List.map_cons, Spec.runItems]
      cases Spec.stepSem frame pi (.cel a) with
      | ok q => exact ih hp.2 q
      | err e => rfl
      | panic s => rfl
  | swap a b l =>
      intro hp pi
      have hne : b.data.layerIndex.toNat ≠ a.data.layerIndex.toNat := by
        rw [List.pairwise_cons] at hp
        exact hp.1 a List.mem_cons_self
      simp only [List.map_cons, runItems_cel_cel, map_bind]
      exact bind_congr_modCtx (addCel_swap pi frame b a hne x)
        (fun c q => runCels_setCtx frame x l c q)
  | trans h1 _ ih1 ih2 =>
      intro hp pi
      have hp2 := (h1.pairwise_iff (fun {_ _} h => Ne.symm h)).mp hp
      exact (ih1 hp pi).trans (ih2 hp2 pi)

end Ase.Proofs.WholeFile
