import Ase.Spec.Sem
import AseProofs.Props.C01
/-
  From the per-chunk round-trip lemmas of `Props/C01.lean` to whole frames and files:
  `processChunk` on an encoded chunk is `stepSem` of the chunk's meaning, `parseFrame` on an
  encoded frame is `runFrame`, `parseFrames` on the concatenation of encoded frames is
  `runFrames`.
-/
namespace Ase.Proofs.WholeFile
open Ase Ase.Proofs Ase.Proofs.C01

/-! ### the spec functions of `Ase/Spec/Sem.lean` are those of the C01 statements -/

theorem rawPixelsOf_eq : Spec.rawPixelsOf = C01.rawPixelsOf := rfl
theorem tagOfSpec_eq : Spec.tagOfSpec = C01.tagOfSpec := rfl
theorem sliceKeyOfSpec_eq : Spec.sliceKeyOfSpec = C01.sliceKeyOfSpec := rfl
theorem palEntryOfSpec_eq : Spec.palEntryOfSpec = C01.palEntryOfSpec := rfl
theorem extFileOfSpec_eq : Spec.extFileOfSpec = C01.extFileOfSpec := rfl
theorem oldColor_eq : Spec.oldColor = C01.oldColor := rfl

theorem palOfEntries_eq (es : List Spec.PalEntrySpec) : ∀ (id : Nat) (p : Palette),
    Spec.palOfEntries id p es = C01.palOfEntries id p es := by
  induction es with
  | nil => intro id p; rfl
  | cons e t ih => intro id p; exact ih (id + 1) _

theorem oldEntries_eq (scaled : Bool) (cs : List (UInt8 × UInt8 × UInt8)) :
    ∀ (id : Nat) (p : Palette), Spec.oldEntries scaled id p cs = C01.oldEntries scaled id p cs := by
  induction cs with
  | nil => intro id p; rfl
  | cons c t ih => intro id p; obtain ⟨r, g, b⟩ := c; exact ih (id + 1) _

theorem oldPackets_eq (scaled : Bool) (ps : List (UInt8 × List (UInt8 × UInt8 × UInt8))) :
    ∀ (skip : Nat) (p : Palette),
      Spec.oldPackets scaled skip p ps = C01.oldPackets scaled skip p ps := by
  induction ps with
  | nil => intro skip p; rfl
  | cons pk t ih =>
      intro skip p
      obtain ⟨sk, cs⟩ := pk
      simp only [Spec.oldPackets, C01.oldPackets, oldEntries_eq]
      exact ih _ _

/-! ### well-formed chunks -/

/-- side conditions of a cel body; `pad` are the chunk's trailing bytes (the inflater is handed
    the rest of the chunk, i.e. the stored stream followed by them) -/
def CelBodyWF (inflate : Inflate) (fmt : PixelFormat) (pad : Bytes) : Spec.CelBody → Prop
  | .image w h px none => px.length = fmt.bpp * (w.toNat * h.toNat)
  | .image w h px (some z) =>
      inflate (z ++ pad) = .ok px ∧ px.length = fmt.bpp * (w.toNat * h.toNat)
  | .linked _ => True
  | .tilemap w h _ tiles z =>
      inflate (z ++ pad) = .ok ((tiles.map u32le).flatten) ∧ tiles.length = w.toNat * h.toNat

/-- The per-kind side conditions of the C01 round-trip lemmas. -/
def ItemWF (inflate : Inflate) (fmt : PixelFormat) (c : Spec.ChunkSpec) : Prop :=
  match c.item with
  | .layer l =>
      l.name.length < 65536 ∧ validUtf8 l.name = true ∧ l.ltype.toNat ≤ 2 ∧ l.blend.toNat ≤ 18
  | .cel cs => cs.reserved.length = 7 ∧ CelBodyWF inflate fmt c.pad cs.body
  | .tags r ts => r.length = 8 ∧ ts.length < 65536 ∧ ∀ t ∈ ts, TagOk t
  | .slice s =>
      s.keys.length < 4294967296 ∧ s.name.length < 65536 ∧ validUtf8 s.name = true
  | .palette _ first r es =>
      r.length = 8 ∧ es ≠ [] ∧ first.toNat + es.length - 1 < 4294967296 ∧ ∀ e ∈ es, PalEntryOk e
  | .oldPalette scaled ps => ps.length < 65536 ∧ ∀ pk ∈ ps, OldPacketOk scaled pk
  | .userData f t _ =>
      (f.toNat % 2 = 1 → t.length < 65536) ∧ (f.toNat % 2 = 1 → validUtf8 t = true)
  | .extFiles r fs => r.length = 8 ∧ fs.length < 4294967296 ∧ ∀ f ∈ fs, ExtFileOk f
  | .tileset t =>
      t.reserved.length = 14 ∧ t.name.length < 65536 ∧ validUtf8 t.name = true ∧
      t.tw.toNat ≠ 0 ∧ t.th.toNat ≠ 0 ∧
      (t.flags.toNat / 2 % 2 = 1 → TilesetPixelsOk inflate fmt t c.pad)
  | .colorProfile ptype flags _ r => r.length = 8 ∧ ptype.toNat ≤ 1 ∧ flags.toNat % 2 = 0
  | .ignorable code _ => code.toNat = 0x2006 ∨ code.toNat = 0x2016 ∨ code.toNat = 0x2017

/-- a well-formed chunk: its size fits the u32 size field and the item is well formed -/
def ChunkWF (inflate : Inflate) (fmt : PixelFormat) (c : Spec.ChunkSpec) : Prop :=
  chunkSize c < 4294967296 ∧ ItemWF inflate fmt c

theorem ChunkWF.chunkOk {inflate fmt c} (h : ChunkWF inflate fmt c) : ChunkOk c := by
  refine ⟨h.1, ?_⟩
  obtain ⟨item, pad⟩ := c
  cases item <;> first | trivial | exact h.2

/-! ### one chunk -/

theorem cel_roundtrip (inflate : Inflate) (fmt : PixelFormat) (c : Spec.CelSpec) (pad : Bytes)
    (hres : c.reserved.length = 7) (hb : CelBodyWF inflate fmt pad c.body) :
    runChunk (parseCelChunk inflate fmt) (Spec.encCel c ++ pad) = .ok (Spec.celOfSpec fmt c) := by
  obtain ⟨layer, x, y, op, res, body⟩ := c
  cases body with
  | image w h px z =>
      cases z with
      | none => exact cel_raw_roundtrip inflate fmt _ w h px pad hres rfl hb
      | some z => exact cel_compressed_roundtrip inflate fmt _ w h px z pad hres rfl hb.1 hb.2
  | linked f => exact cel_linked_roundtrip inflate fmt _ f pad hres rfl
  | tilemap w h mask tiles z =>
      exact cel_tilemap_roundtrip' inflate fmt _ w h mask tiles z pad hres rfl hb.1 hb.2

/-- **one chunk**: processing the chunk a well-formed item is read back as has exactly the
    effect of the item's meaning on the parser state -/
theorem processChunk_enc (inflate : Inflate) (m : Profile) (fmt : PixelFormat) (frame : Nat)
    (pi : ParseInfo) (c : Spec.ChunkSpec) (hwf : ItemWF inflate fmt c) :
    processChunk inflate m fmt frame pi (chunkOf c) =
      Spec.stepSem frame pi (Spec.semItem fmt m c.item) := by
  obtain ⟨item, pad⟩ := c
  cases item with
  | layer l =>
      obtain ⟨h1, h2, h3, h4⟩ := hwf
      have h := layer_roundtrip l pad h1 h2 h3 h4
      simp only [chunkOf, itemType, Spec.encItem] at h ⊢
      simp only [processChunk, h]
      rfl
  | cel cs =>
      obtain ⟨h1, h2⟩ := hwf
      have h := cel_roundtrip inflate fmt cs pad h1 h2
      simp only [chunkOf, itemType, Spec.encItem] at h ⊢
      simp only [processChunk, h]
      rfl
  | tags r ts =>
      obtain ⟨h1, h2, h3⟩ := hwf
      have h := tags_roundtrip r ts pad h1 h2 h3
      simp only [chunkOf, itemType, Spec.encItem] at h ⊢
      simp only [processChunk, h]
      rfl
  | slice s =>
      obtain ⟨h1, h2, h3⟩ := hwf
      have h := slice_roundtrip s pad h1 h2 h3
      simp only [chunkOf, itemType, Spec.encItem] at h ⊢
      simp only [processChunk, h]
      rfl
  | palette total first r es =>
      obtain ⟨h1, h2, h3, h4⟩ := hwf
      have h := palette_roundtrip total first r es pad h1 h2 h3 h4
      simp only [chunkOf, itemType, Spec.encItem] at h ⊢
      simp only [processChunk, h, Spec.semItem, palOfEntries_eq]
      rfl
  | oldPalette scaled ps =>
      obtain ⟨h1, h2⟩ := hwf
      have h := oldPalette_roundtrip m scaled ps pad h1 h2
      cases scaled <;>
      · simp only [chunkOf, itemType, Spec.encItem] at h ⊢
        simp only [processChunk, h, Spec.semItem, Spec.stepSem, oldPackets_eq]
        cases pi.palette <;> rfl
  | userData f t col =>
      obtain ⟨h1, h2⟩ := hwf
      have h := userData_roundtrip f t col pad h1 h2
      simp only [chunkOf, itemType, Spec.encItem] at h ⊢
      simp only [processChunk, h]
      rfl
  | extFiles r fs =>
      obtain ⟨h1, h2, h3⟩ := hwf
      have h := extFiles_roundtrip r fs pad h1 h2 h3
      simp only [chunkOf, itemType, Spec.encItem] at h ⊢
      simp only [processChunk, h]
      rfl
  | tileset t =>
      obtain ⟨h1, h2, h3, h4, h5, h6⟩ := hwf
      have h := tileset_roundtrip inflate fmt t pad h1 h2 h3 h4 h5 h6
      simp only [chunkOf, itemType, Spec.encItem] at h ⊢
      simp only [processChunk, h]
      rfl
  | colorProfile ptype flags gamma r =>
      obtain ⟨h1, h2, h3⟩ := hwf
      have h := colorProfile_roundtrip ptype flags gamma r pad h1 h2 h3
      simp only [chunkOf, itemType, Spec.encItem] at h ⊢
      simp only [processChunk, h]
      rfl
  | ignorable code payload =>
      have hwf : code.toNat = 0x2006 ∨ code.toNat = 0x2016 ∨ code.toNat = 0x2017 := hwf
      rcases hwf with h | h | h <;> simp [chunkOf, itemType, h, processChunk] <;> rfl

/-! ### the chunks of a frame -/

theorem processChunks_enc (inflate : Inflate) (m : Profile) (fmt : PixelFormat) (frame : Nat)
    (cs : List Spec.ChunkSpec) : ∀ (pi : ParseInfo), (∀ c ∈ cs, ItemWF inflate fmt c) →
      processChunks inflate m fmt frame pi (cs.map chunkOf) =
        Spec.runItems frame pi (cs.map (fun c => Spec.semItem fmt m c.item)) := by
  induction cs with
  | nil => intro pi _; rfl
  | cons c t ih =>
      intro pi h
      simp only [List.map_cons, processChunks, Spec.runItems,
        processChunk_enc inflate m fmt frame pi c (h c List.mem_cons_self)]
      cases Spec.stepSem frame pi (Spec.semItem fmt m c.item) with
      | ok pi' => exact ih pi' (fun y hy => h y (List.mem_cons_of_mem _ hy))
      | err e => rfl
      | panic s => rfl

/-! ### one frame -/

/-- a well-formed frame: the chunk count fits the field that carries it, the declared frame size
    fits its u32 field, every chunk is well formed -/
def FrameWF (inflate : Inflate) (fmt : PixelFormat) (f : Spec.FrameSpec) : Prop :=
  f.chunks.length < (if f.oldCountOnly then 65536 else 4294967296) ∧
  frameBytes f < 4294967296 ∧
  ∀ c ∈ f.chunks, ChunkWF inflate fmt c

/-- **one frame**: `parse_frame` on an encoded frame followed by arbitrary bytes stores the
    duration, runs the meanings of the chunks in order and stops exactly behind the frame -/
theorem parseFrame_enc (inflate : Inflate) (m : Profile) (fmt : PixelFormat) (frame : Nat)
    (pi : ParseInfo) (f : Spec.FrameSpec) (rest : Bytes) (hwf : FrameWF inflate fmt f) :
    parseFrame bytesSrc inflate m fmt frame pi (Spec.encFrame f ++ rest) =
      (Spec.runFrame frame f.duration pi (Spec.frameSem fmt m f).2).map (·, rest) := by
  obtain ⟨hcount, hbytes, hcs⟩ := hwf
  have hold : f.oldCountOnly = true → f.chunks.length < 65536 := by
    intro h; simpa [h] using hcount
  have hnew : f.oldCountOnly = false → f.chunks.length < 4294967296 := by
    intro h; simpa [h] using hcount
  have hav : ((Spec.encChunks f.chunks).length : Int)
      ≤ ((UInt32.ofNat (frameBytes f)).toNat : Int) - 16 := by
    rw [u32_ofNat_toNat _ hbytes]; unfold frameBytes; omega
  have hrd := readChunks_roundtrip f.chunks _ rest (fun c hc => (hcs c hc).chunkOk) hav
  unfold parseFrame
  rw [RdS.bind_ok (readFrameHeader_roundtrip f rest)]
  simp only [frame_numChunks f hold hnew]
  rw [RdS.bind_ok hrd, processChunks_enc inflate m fmt frame f.chunks _ (fun c hc => (hcs c hc).2)]
  rfl

/-! ### all frames -/

/-- **all frames**: `parseFrames` over the concatenation of the encoded frames -/
theorem parseFrames_enc (inflate : Inflate) (m : Profile) (fmt : PixelFormat)
    (frames : List Spec.FrameSpec) (rest : Bytes) : ∀ (frame : Nat) (pi : ParseInfo),
      (∀ f ∈ frames, FrameWF inflate fmt f) →
      parseFrames bytesSrc inflate m fmt frames.length frame pi
          ((frames.map Spec.encFrame).flatten ++ rest) =
        (Spec.runFrames frame pi (frames.map (Spec.frameSem fmt m))).map (·, rest) := by
  induction frames with
  | nil => intro frame pi _; rfl
  | cons f t ih =>
      intro frame pi h
      have hf := parseFrame_enc inflate m fmt frame pi f ((t.map Spec.encFrame).flatten ++ rest)
        (h f List.mem_cons_self)
      simp only [List.length_cons, List.map_cons, List.flatten_cons, List.append_assoc,
        parseFrames, Spec.runFrames]
      have hsem : Spec.frameSem fmt m f = (f.duration, (Spec.frameSem fmt m f).2) := rfl
      rw [hsem]
      cases hr : Spec.runFrame frame f.duration pi (Spec.frameSem fmt m f).2 with
      | ok pi' =>
          rw [hr] at hf
          rw [RdS.bind_ok hf]
          exact ih (frame + 1) pi' (fun y hy => h y (List.mem_cons_of_mem _ hy))
      | err e => rw [hr] at hf; rw [RdS.bind_err hf]; rfl
      | panic s => rw [hr] at hf; rw [RdS.bind_panic hf]; rfl

/-! ### `frameTimes` is written, never read -/

def setFT (ft : Array UInt16) (pi : ParseInfo) : ParseInfo := { pi with frameTimes := ft }

@[simp] theorem setFT_setFT (a b : Array UInt16) (pi : ParseInfo) :
    setFT a (setFT b pi) = setFT a pi := rfl

@[simp] theorem setFT_self (pi : ParseInfo) : setFT pi.frameTimes pi = pi := rfl

theorem addCel_setFT (ft : Array UInt16) (pi : ParseInfo) (frame : Nat) (c : RawCel RawPixels) :
    (setFT ft pi).addCel frame c = (pi.addCel frame c).map (setFT ft) := by
  simp only [ParseInfo.addCel, setFT]
  cases pi.cels[frame]? with
  | none => rfl
  | some row =>
      simp only
      split <;> rfl

theorem addUserData_setFT (ft : Array UInt16) (pi : ParseInfo) (u : UserData) :
    (setFT ft pi).addUserData u = (pi.addUserData u).map (setFT ft) := by
  simp only [ParseInfo.addUserData, setFT]
  repeat' split
  all_goals rfl

theorem stepSem_setFT (ft : Array UInt16) (frame : Nat) (pi : ParseInfo) (it : Spec.SItem) :
    Spec.stepSem frame (setFT ft pi) it = (Spec.stepSem frame pi it).map (setFT ft) := by
  cases it with
  | cel c => exact addCel_setFT ft pi frame c
  | userData u => exact addUserData_setFT ft pi u
  | tags ts => simp only [Spec.stepSem]; split <;> rfl
  | oldPalette p =>
      cases h : pi.palette.isNone <;> simp only [Spec.stepSem, setFT, h] <;> rfl
  | _ => rfl

theorem runItems_setFT (ft : Array UInt16) (frame : Nat) (its : List Spec.SItem) :
    ∀ (pi : ParseInfo),
      Spec.runItems frame (setFT ft pi) its = (Spec.runItems frame pi its).map (setFT ft) := by
  induction its with
  | nil => intro pi; rfl
  | cons it t ih =>
      intro pi
      simp only [Spec.runItems, stepSem_setFT]
      cases Spec.stepSem frame pi it with
      | ok pi' => exact ih pi'
      | err e => rfl
      | panic s => rfl

/-- the frame-time table after frames `k, k+1, …` have stored their durations -/
def ftSet : Nat → Array UInt16 → List (UInt16 × List Spec.SItem) → Array UInt16
  | _, ft, [] => ft
  | k, ft, (d, _) :: rest => ftSet (k + 1) (ft.set! k d) rest

theorem runFrame_eq (frame : Nat) (d : UInt16) (pi : ParseInfo) (its : List Spec.SItem) :
    Spec.runFrame frame d pi its =
      (Spec.runItems frame pi its).map (setFT (pi.frameTimes.set! frame d)) :=
  runItems_setFT (pi.frameTimes.set! frame d) frame its pi

theorem runFrames_setFT (frames : List (UInt16 × List Spec.SItem)) :
    ∀ (k : Nat) (ft : Array UInt16) (pi : ParseInfo),
      Spec.runFrames k (setFT ft pi) frames =
        (Spec.runFrames k pi frames).map (setFT (ftSet k ft frames)) := by
  induction frames with
  | nil => intro k ft pi; rfl
  | cons f t ih =>
      intro k ft pi
      obtain ⟨d, its⟩ := f
      simp only [Spec.runFrames, runFrame_eq, ftSet]
      have h1 : (setFT ft pi).frameTimes = ft := rfl
      rw [runItems_setFT, h1]
      cases Spec.runItems k pi its with
      | ok pi' =>
          simp only [Res.map_ok, setFT_setFT]
          rw [ih (k + 1) (ft.set! k d) pi', ih (k + 1) (pi.frameTimes.set! k d) pi']
          cases Spec.runFrames (k + 1) pi' t <;> rfl
      | err e => rfl
      | panic s => rfl

/-- the frame times of the final state are determined by the initial table and the durations -/
theorem runFrames_frameTimes (frames : List (UInt16 × List Spec.SItem)) (k : Nat)
    (pi pi' : ParseInfo) (h : Spec.runFrames k pi frames = .ok pi') :
    pi'.frameTimes = ftSet k pi.frameTimes frames := by
  have := runFrames_setFT frames k pi.frameTimes pi
  rw [setFT_self, h] at this
  simp only [Res.map_ok, Res.ok.injEq] at this
  rw [this]
  rfl

theorem ftSet_full (frames : List (UInt16 × List Spec.SItem)) :
    ∀ (pre post : List UInt16), post.length = frames.length →
      ftSet pre.length (pre ++ post).toArray frames = (pre ++ frames.map (·.1)).toArray := by
  induction frames with
  | nil =>
      intro pre post h
      have : post = [] := List.length_eq_zero_iff.mp h
      subst this
      rfl
  | cons f t ih =>
      intro pre post h
      obtain ⟨d, its⟩ := f
      cases post with
      | nil => simp at h
      | cons x post' =>
          have hset : (pre ++ x :: post').toArray.set! pre.length d
              = ((pre ++ [d]) ++ post').toArray := by
            simp
          have hlen : (pre ++ [d]).length = pre.length + 1 := by simp
          simp only [ftSet, hset]
          rw [← hlen, ih (pre ++ [d]) post' (by simpa using h)]
          simp

/-- when every frame of the table is written, the initial table's contents do not matter -/
theorem ftSet_replicate (frames : List (UInt16 × List Spec.SItem)) (t : UInt16) :
    ftSet 0 (Array.replicate frames.length t) frames = (frames.map (·.1)).toArray := by
  have := ftSet_full frames [] (List.replicate frames.length t) (by simp)
  simpa using this

theorem new_eq_setFT (n : Nat) (t : UInt16) :
    ParseInfo.new n t = setFT (Array.replicate n t) (ParseInfo.new n 0) := rfl

/-- the header's default frame time is overwritten by every frame header -/
theorem runFrames_new (frames : List (UInt16 × List Spec.SItem)) (t : UInt16) :
    Spec.runFrames 0 (ParseInfo.new frames.length t) frames =
      (Spec.runFrames 0 (ParseInfo.new frames.length 0) frames).map
        (setFT (frames.map (·.1)).toArray) := by
  rw [new_eq_setFT, runFrames_setFT, ftSet_replicate]

theorem runFrames_new_indep (frames : List (UInt16 × List Spec.SItem)) (t : UInt16) :
    Spec.runFrames 0 (ParseInfo.new frames.length t) frames =
      Spec.runFrames 0 (ParseInfo.new frames.length 0) frames := by
  rw [runFrames_new frames t, ← runFrames_new frames 0]

/-! ### validation looks at three header fields only -/

theorem validate_congr (h h' : Header) (fmt : PixelFormat) (pi : ParseInfo)
    (hn : h.numFrames = h'.numFrames) (hw : h.width = h'.width) (hh : h.height = h'.height) :
    validate h fmt pi = validate h' fmt pi := by
  simp only [validate, hn, hw, hh]

end Ase.Proofs.WholeFile
