import Ase.Parse
/-
  Panic-freedom calculus for the result type `Res` and the reader monad `RdS`, and
  panic-freedom of the primitive readers and of every chunk decoder (used by C04).

  * `RSat Q r`   : the result `r` is not a panic and, if it is a value, the value satisfies `Q`
  * `NP x`       : the reader `x` never returns a panic, whatever the source state
  * `Sat Q x`    : `NP x`, and every value `x` delivers satisfies `Q`
  * `SrcNP S`    : the source `S` never panics
  * `InflNP z`   : the inflate parameter never panics
-/
namespace Ase.Proofs.C04
open Ase

/-! ### results -/

/-- not a panic, and a value satisfies `Q` -/
def RSat {α} (Q : α → Prop) : Res α → Prop
  | .ok a => Q a
  | .err _ => True
  | .panic _ => False

@[simp] theorem rsat_ok {α} (Q : α → Prop) (a : α) : RSat Q (.ok a) ↔ Q a := Iff.rfl
@[simp] theorem rsat_err {α} (Q : α → Prop) (e : Err) : RSat Q (.err e : Res α) ↔ True := Iff.rfl
@[simp] theorem rsat_panic {α} (Q : α → Prop) (s : Site) : RSat Q (.panic s : Res α) ↔ False :=
  Iff.rfl
@[simp] theorem rsat_pure {α} (Q : α → Prop) (a : α) : RSat Q (pure a : Res α) ↔ Q a := Iff.rfl

theorem RSat.noPanic {α} {Q : α → Prop} {x : Res α} (h : RSat Q x) : Res.NoPanic x := by
  intro s hs; subst hs; exact h

theorem rsat_of_noPanic {α} {x : Res α} (h : Res.NoPanic x) : RSat (fun _ => True) x := by
  cases x with
  | ok a => trivial
  | err e => trivial
  | panic s => exact h s rfl

theorem RSat.of_ok {α} {Q : α → Prop} {x : Res α} {a : α} (h : RSat Q x) (hx : x = .ok a) : Q a := by
  subst hx; exact h

theorem RSat.mono {α} {P Q : α → Prop} {x : Res α} (h : RSat P x) (hpq : ∀ a, P a → Q a) :
    RSat Q x := by
  cases x with
  | ok a => exact hpq a h
  | err e => trivial
  | panic s => exact h

theorem RSat.bind {α β} {P : α → Prop} {Q : β → Prop} {x : Res α} {f : α → Res β}
    (hx : RSat P x) (hf : ∀ a, P a → RSat Q (f a)) : RSat Q (x >>= f) := by
  cases x with
  | ok a => exact hf a hx
  | err e => trivial
  | panic s => exact hx

theorem RSat.map {α β} {Q : β → Prop} {x : Res α} (f : α → β)
    (hx : RSat (fun a => Q (f a)) x) : RSat Q (x.map f) := by
  cases x with
  | ok a => exact hx
  | err e => trivial
  | panic s => exact hx

theorem noPanic_map {α β} {x : Res α} (f : α → β) (hx : Res.NoPanic x) :
    Res.NoPanic (x.map f) := by
  cases x with
  | ok a => exact Res.noPanic_ok _
  | err e => exact Res.noPanic_err _
  | panic s => exact absurd rfl (hx s)

/-- a non-panicking result is a value or an error -/
theorem ok_or_err_of_noPanic {α} {x : Res α} (h : Res.NoPanic x) :
    (∃ a, x = .ok a) ∨ (∃ e, x = .err e) := by
  cases x with
  | ok a => exact .inl ⟨a, rfl⟩
  | err e => exact .inr ⟨e, rfl⟩
  | panic s => exact absurd rfl (h s)

/-! ### readers -/

/-- the reader never returns a panic -/
structure NP {σ α} (x : RdS σ α) : Prop where
  np : ∀ s p, x s ≠ .panic p

/-- the reader never panics and its values satisfy `Q` -/
def Sat {σ α} (Q : α → Prop) (x : RdS σ α) : Prop := ∀ s, RSat (fun r => Q r.1) (x s)

theorem Sat.np {σ α} {Q : α → Prop} {x : RdS σ α} (h : Sat Q x) : NP x := by
  constructor
  intro s p hp
  have := h s
  rw [hp] at this
  exact this

theorem NP.sat {σ α} {x : RdS σ α} (h : NP x) : Sat (fun _ => True) x := by
  intro s
  cases hx : x s with
  | ok a => trivial
  | err e => trivial
  | panic p => exact h.np s p hx

theorem NP_pure {σ α} (a : α) : NP (pure a : RdS σ α) := by
  constructor; intro s p h; cases h

theorem NP_fail {σ α} (e : Err) : NP (RdS.fail e : RdS σ α) := by
  constructor; intro s p h; cases h

theorem NP_lift {σ α} {r : Res α} (h : Res.NoPanic r) : NP (RdS.lift r : RdS σ α) := by
  constructor
  intro s p hp
  cases r with
  | ok a => cases hp
  | err e => cases hp
  | panic q => exact h q rfl

theorem NP_bind {σ α β} {x : RdS σ α} {f : α → RdS σ β} (hx : NP x) (hf : ∀ a, NP (f a)) :
    NP (x >>= f) := by
  constructor
  intro s p hp
  rw [RdS.bind_run] at hp
  cases hxs : x s with
  | ok r =>
      obtain ⟨a, s'⟩ := r
      rw [hxs] at hp
      exact (hf a).np s' p hp
  | err e => rw [hxs] at hp; cases hp
  | panic q => exact hx.np s q hxs

/-- `lift r >>= f` where the continuation may use what `r` returned -/
theorem NP_bind_lift {σ α β} {r : Res α} {f : α → RdS σ β} (hr : Res.NoPanic r)
    (hf : ∀ a, r = .ok a → NP (f a)) : NP (RdS.lift r >>= f) := by
  constructor
  intro s p hp
  rw [RdS.bind_run] at hp
  cases r with
  | ok a => exact (hf a rfl).np s p hp
  | err e => cases hp
  | panic q => exact hr q rfl

theorem Sat_pure {σ α} {Q : α → Prop} {a : α} (h : Q a) : Sat Q (pure a : RdS σ α) := by
  intro s; exact h

theorem Sat_lift {σ α} {Q : α → Prop} {r : Res α} (h : RSat Q r) : Sat Q (RdS.lift r : RdS σ α) := by
  intro s
  cases r with
  | ok a => exact h
  | err e => trivial
  | panic q => exact h

theorem Sat_bind {σ α β} {P : α → Prop} {Q : β → Prop} {x : RdS σ α} {f : α → RdS σ β}
    (hx : Sat P x) (hf : ∀ a, P a → Sat Q (f a)) : Sat Q (x >>= f) := by
  intro s
  rw [RdS.bind_run]
  have h := hx s
  cases hxs : x s with
  | ok r =>
      obtain ⟨a, s'⟩ := r
      rw [hxs] at h
      exact hf a h s'
  | err e => trivial
  | panic q => rw [hxs] at h; exact h

theorem Sat_bind_np {σ α β} {Q : β → Prop} {x : RdS σ α} {f : α → RdS σ β}
    (hx : NP x) (hf : ∀ a, Sat Q (f a)) : Sat Q (x >>= f) :=
  Sat_bind hx.sat (fun a _ => hf a)

/-! ### sources and primitive readers -/

/-- the source never panics -/
def SrcNP {σ} (S : Src σ) : Prop := ∀ n, NP (S.read n)

theorem srcNP_bytes : SrcNP bytesSrc := by
  intro n
  constructor
  intro s p h
  simp only [bytesSrc, bytesRead] at h
  split at h <;> cases h

/-- the inflate parameter never panics -/
def InflNP (inflate : Inflate) : Prop := ∀ z s, inflate z ≠ .panic s

section prim
variable {σ : Type} {S : Src σ}

theorem NP_read (hS : SrcNP S) (n : Nat) : NP (S.read n) := hS n
theorem NP_readN (hS : SrcNP S) (n : Nat) : NP (readN S n) := hS n
theorem NP_readU8 (hS : SrcNP S) : NP (readU8 S) :=
  NP_bind (hS 1) (fun _ => NP_pure _)
theorem NP_readU16 (hS : SrcNP S) : NP (readU16 S) :=
  NP_bind (hS 2) (fun _ => NP_pure _)
theorem NP_readI16 (hS : SrcNP S) : NP (readI16 S) :=
  NP_bind (NP_readU16 hS) (fun _ => NP_pure _)
theorem NP_readU32 (hS : SrcNP S) : NP (readU32 S) :=
  NP_bind (hS 4) (fun _ => NP_pure _)
theorem NP_readI32 (hS : SrcNP S) : NP (readI32 S) :=
  NP_bind (NP_readU32 hS) (fun _ => NP_pure _)
theorem NP_skip (hS : SrcNP S) (n : Nat) : NP (skip S n) :=
  NP_bind (hS n) (fun _ => NP_pure _)
theorem NP_readString (hS : SrcNP S) : NP (readString S) := by
  unfold readString
  refine NP_bind (NP_readU16 hS) (fun len => NP_bind (hS _) (fun b => ?_))
  split
  · exact NP_pure _
  · exact NP_fail _

end prim

theorem NP_readRest : NP readRest := by
  constructor; intro s p h; cases h

theorem NP_takeBytes (n : Nat) : NP (takeBytes n) := by
  constructor
  intro s p h
  simp only [takeBytes] at h
  split at h <;> cases h

theorem NP_unzip {inflate : Inflate} (hi : InflNP inflate) (n : Nat) : NP (unzip inflate n) := by
  constructor
  intro s p h
  simp only [unzip] at h
  cases hz : inflate s with
  | ok out =>
      rw [hz] at h
      simp only at h
      split at h <;> cases h
  | err e => rw [hz] at h; cases h
  | panic q => exact hi s q hz

/-! ### pure results used by the decoders -/

theorem noPanic_outputSize (fmt : PixelFormat) (n : Nat) : Res.NoPanic (outputSize fmt n) := by
  unfold outputSize
  split
  · exact Res.noPanic_ok _
  · exact Res.noPanic_err _

theorem noPanic_pixelsFromBytes (fmt : PixelFormat) (b : Bytes) :
    Res.NoPanic (pixelsFromBytes fmt b) := by
  unfold pixelsFromBytes
  cases fmt with
  | rgba => simp only; split; exact Res.noPanic_err _; exact Res.noPanic_ok _
  | grayscale => simp only; split; exact Res.noPanic_err _; exact Res.noPanic_ok _
  | indexed t => exact Res.noPanic_ok _

theorem noPanic_scale6 (c : UInt8) : Res.NoPanic (scale6 c) := by
  unfold scale6
  split
  · exact Res.noPanic_err _
  · exact Res.noPanic_ok _

theorem noPanic_parseChunkType (code : UInt16) : Res.NoPanic (parseChunkType code) := by
  unfold parseChunkType
  split <;> first | exact Res.noPanic_ok _ | exact Res.noPanic_err _

theorem noPanic_parsePixelFormat (d : UInt16) (t : UInt8) :
    Res.NoPanic (parsePixelFormat d t) := by
  unfold parsePixelFormat
  split <;> first | exact Res.noPanic_ok _ | exact Res.noPanic_err _

/-! ### the step tactic -/

/-- discharge the source hypothesis of a primitive reader -/
macro "np_src" : tactic => `(tactic| first | assumption | exact srcNP_bytes)

/-- extensible: closes a goal `NP x` for a known reader `x` -/
syntax "np_lemma" : tactic
macro_rules | `(tactic| np_lemma) => `(tactic| first
  | exact NP_pure _
  | exact NP_fail _
  | exact NP_readU8 (by np_src)
  | exact NP_readU16 (by np_src)
  | exact NP_readI16 (by np_src)
  | exact NP_readU32 (by np_src)
  | exact NP_readI32 (by np_src)
  | exact NP_skip (by np_src) _
  | exact NP_readString (by np_src)
  | exact NP_readN (by np_src) _
  | exact NP_read (by np_src) _
  | exact NP_readRest
  | exact NP_takeBytes _
  | exact NP_unzip (by assumption) _
  | exact NP_lift (noPanic_outputSize _ _)
  | exact NP_lift (noPanic_pixelsFromBytes _ _)
  | exact NP_lift (noPanic_scale6 _)
  | exact NP_lift (noPanic_parseChunkType _)
  | exact NP_lift (noPanic_parsePixelFormat _ _)
  | assumption)

/-- one structural step of a panic-freedom proof -/
macro "np_step" : tactic => `(tactic| first
  | np_lemma
  | apply NP_bind
  | intro _
  | dsimp -iota -proj only
  | split)

/-- repeat `np_step` until nothing is left -/
macro "np_auto" : tactic => `(tactic| repeat np_step)

end Ase.Proofs.C04
