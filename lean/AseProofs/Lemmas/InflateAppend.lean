import AseProofs.Lemmas.InflateT
/-
  Bytes after a complete zlib stream do not matter to the total inflater `Ase.ZlibT`.

  The decoder reads its input only through `byteAt`/`extract`, guarded by comparisons with
  `data.size`.  `Ext data data'` says that `data'` agrees with `data` on the index range of
  `data` (e.g. `data' = data ++ extra`).  Every routine of the decoder that returns a
  non-error result on `data` returns the same result on `data'`; the fuelled loops also
  tolerate the larger fuel that the longer input hands out.
-/
namespace Ase.ZlibT

/-! ### ByteArray helpers -/

theorem get!_append_left (a b : ByteArray) {i : Nat} (h : i < a.size) :
    (a ++ b).get! i = a.get! i := by
  cases a with
  | mk d =>
    simp only [ByteArray.size] at h
    show (ByteArray.mk d ++ b).data[i]! = d[i]!
    rw [ByteArray.data_append]
    simp [getElem!_def, Array.getElem?_append_left h]

theorem extract_append_left (a b : ByteArray) {i j : Nat} (h : j ≤ a.size) :
    (a ++ b).extract i j = a.extract i j := by
  apply ByteArray.ext
  simp only [ByteArray.data_extract, ByteArray.data_append, Array.extract_append]
  have : j - a.data.size = 0 := by
    have : a.data.size = a.size := rfl
    omega
  rw [this]
  simp

theorem mk_toArray_append (z pad : List UInt8) :
    ByteArray.mk (z ++ pad).toArray = ByteArray.mk z.toArray ++ ByteArray.mk pad.toArray := by
  apply ByteArray.ext
  simp [ByteArray.data_append]

/-- `data'` extends `data`: same bytes on the index range of `data` -/
structure Ext (data data' : ByteArray) : Prop where
  size_le : data.size ≤ data'.size
  get : ∀ i, i < data.size → byteAt data' i = byteAt data i
  extract : ∀ i j, j ≤ data.size → data'.extract i j = data.extract i j

theorem ext_append (data extra : ByteArray) : Ext data (data ++ extra) where
  size_le := by rw [ByteArray.size_append]; omega
  get := by
    intro i h
    unfold byteAt
    rw [get!_append_left _ _ h]
  extract := fun _ _ h => extract_append_left _ _ h

/-! ### every routine: a non-error result on `data` is the result on an extension `data'`;
    the fuelled loops also accept more fuel -/

variable {data data' : ByteArray}

theorem getBit_ext (hx : Ext data data') {pos b pos' : Nat} (h : getBit data pos = .ok b pos') :
    getBit data' pos = .ok b pos' := by
  unfold getBit at h ⊢
  split at h
  · rename_i hlt
    rw [if_pos (by have := hx.size_le; omega), hx.get _ hlt]
    exact h
  · cases h

theorem getBits_ext (hx : Ext data data') : ∀ {n pos v pos' : Nat},
    getBits data n pos = .ok v pos' → getBits data' n pos = .ok v pos' := by
  intro n
  induction n with
  | zero => intro pos v pos' h; simpa only [getBits] using h
  | succ n ih =>
      intro pos v pos' h
      simp only [getBits] at h ⊢
      split at h
      · cases h
      · rename_i b pos1 hb
        rw [getBit_ext hx hb]
        split at h
        · cases h
        · rename_i rest pos2 hr
          rw [ih hr]
          exact h

theorem decodeLoop_ext (hx : Ext data data') {hf : Huff} : ∀ {n len code first index pos s pos' : Nat},
    decodeLoop data hf n len code first index pos = .ok s pos' →
    decodeLoop data' hf n len code first index pos = .ok s pos' := by
  intro n
  induction n with
  | zero => intro len code first index pos s pos' h; simp [decodeLoop] at h
  | succ n ih =>
      intro len code first index pos s pos' h
      simp only [decodeLoop] at h ⊢
      split at h
      · cases h
      · rename_i b pos1 hb
        rw [getBit_ext hx hb]
        simp only []
        split at h
        · rename_i hc
          rw [if_pos hc]
          exact h
        · rename_i hc
          rw [if_neg hc]
          exact ih h

theorem decodeSym_ext (hx : Ext data data') {hf : Huff} {pos s pos' : Nat}
    (h : decodeSym data hf pos = .ok s pos') : decodeSym data' hf pos = .ok s pos' :=
  decodeLoop_ext hx h


theorem codeStep_ext (hx : Ext data data') {lc dc : Huff} {out : ByteArray} {pos : Nat} :
    (∀ out' pos', codeStep data lc dc out pos = .more out' pos' →
        codeStep data' lc dc out pos = .more out' pos') ∧
    (∀ out' pos', codeStep data lc dc out pos = .done out' pos' →
        codeStep data' lc dc out pos = .done out' pos') := by
  unfold codeStep
  split
  · simp
  · rename_i sym pos1 hs
    rw [decodeSym_ext hx hs]
    simp only []
    split
    · simp
    · split
      · simp
      · split
        · simp
        · split
          · simp
          · rename_i ext pos2 he
            rw [getBits_ext hx he]
            simp only []
            split
            · simp
            · rename_i ds pos3 hd
              rw [decodeSym_ext hx hd]
              simp only []
              split
              · simp
              · split
                · simp
                · rename_i dx pos4 hdx
                  rw [getBits_ext hx hdx]
                  simp

theorem codes_ext (hx : Ext data data') {lc dc : Huff} : ∀ {fuel fuel' : Nat} {out : ByteArray}
    {pos : Nat} {out' : ByteArray} {pos' : Nat}, fuel ≤ fuel' →
    codes data lc dc fuel out pos = .ok out' pos' →
    codes data' lc dc fuel' out pos = .ok out' pos' := by
  intro fuel
  induction fuel with
  | zero => intro fuel' out pos out' pos' _ h; simp [codes] at h
  | succ fuel ih =>
      intro fuel' out pos out' pos' hle h
      cases fuel' with
      | zero => omega
      | succ fuel' =>
        simp only [codes] at h ⊢
        split at h
        · cases h
        · rename_i o1 p1 hs
          rw [codeStep_ext hx |>.2 _ _ hs]
          exact h
        · rename_i o1 p1 hs
          rw [codeStep_ext hx |>.1 _ _ hs]
          exact ih (by omega) h

theorem readCl_ext (hx : Ext data data') : ∀ {n i : Nat} {cl : Array Nat} {pos : Nat}
    {cl' : Array Nat} {pos' : Nat},
    readCl data n i cl pos = .ok cl' pos' → readCl data' n i cl pos = .ok cl' pos' := by
  intro n
  induction n with
  | zero => intro i cl pos cl' pos' h; simpa only [readCl] using h
  | succ n ih =>
      intro i cl pos cl' pos' h
      simp only [readCl] at h ⊢
      split at h
      · cases h
      · rename_i v pos1 hv
        rw [getBits_ext hx hv]
        exact ih h

theorem lenStep_ext (hx : Ext data data') {lc : Huff} {total : Nat} {acc : Lens} {pos : Nat}
    {acc' : Lens} {pos' : Nat}
    (h : lenStep data lc total acc pos = .ok acc' pos') :
    lenStep data' lc total acc pos = .ok acc' pos' := by
  unfold lenStep at h ⊢
  split at h
  · cases h
  · rename_i sym pos1 hs
    rw [decodeSym_ext hx hs]
    simp only []
    split at h
    · rename_i c; rw [if_pos c]; exact h
    · rename_i c; rw [if_neg c]
      split at h
      · rename_i c; rw [if_pos c]
        split at h
        · cases h
        · rename_i c; rw [if_neg c]
          split at h
          · cases h
          · rename_i x pos2 hxx
            rw [getBits_ext hx hxx]
            exact h
      · rename_i c; rw [if_neg c]
        split at h
        · rename_i c; rw [if_pos c]
          split at h
          · cases h
          · rename_i x pos2 hxx
            rw [getBits_ext hx hxx]
            exact h
        · rename_i c; rw [if_neg c]
          split at h
          · cases h
          · rename_i x pos2 hxx
            rw [getBits_ext hx hxx]
            exact h

theorem readLengths_ext (hx : Ext data data') {lc : Huff} {total : Nat} : ∀ {fuel : Nat}
    {acc : Lens} {pos : Nat} {acc' : Lens} {pos' : Nat},
    readLengths data lc total fuel acc pos = .ok acc' pos' →
    readLengths data' lc total fuel acc pos = .ok acc' pos' := by
  intro fuel
  induction fuel with
  | zero => intro acc pos acc' pos' h; simpa only [readLengths] using h
  | succ fuel ih =>
      intro acc pos acc' pos' h
      simp only [readLengths] at h ⊢
      split at h
      · rename_i c; rw [if_pos c]; exact h
      · rename_i c; rw [if_neg c]
        split at h
        · cases h
        · rename_i a1 p1 hs
          rw [lenStep_ext hx hs]
          exact ih h


theorem dynamicBlock_ext (hx : Ext data data') {fuel fuel' : Nat} {out : ByteArray} {pos : Nat}
    {out' : ByteArray} {pos' : Nat} (hle : fuel ≤ fuel')
    (h : dynamicBlock data fuel out pos = .ok out' pos') :
    dynamicBlock data' fuel' out pos = .ok out' pos' := by
  unfold dynamicBlock at h ⊢
  split at h
  · cases h
  rename_i a pos1 ha
  rw [getBits_ext hx ha]
  split at h
  · cases h
  rename_i b pos2 hb
  rw [getBits_ext hx hb]
  split at h
  · cases h
  rename_i c pos3 hc
  rw [getBits_ext hx hc]
  simp only [] at h ⊢
  split at h
  · cases h
  rename_i c1; rw [if_neg c1]
  split at h
  · cases h
  rename_i cl pos4 hcl
  rw [readCl_ext hx hcl]
  simp only []
  split at h
  · cases h
  rename_i c2; rw [if_neg c2]
  split at h
  · cases h
  rename_i lens pos5 hl
  rw [readLengths_ext hx hl]
  simp only []
  split at h
  · cases h
  rename_i c3; rw [if_neg c3]
  split at h
  · cases h
  rename_i c4; rw [if_neg c4]
  split at h
  · cases h
  rename_i c5; rw [if_neg c5]
  exact codes_ext hx hle h

theorem storedBlock_ext (hx : Ext data data') {out : ByteArray} {pos : Nat}
    {out' : ByteArray} {pos' : Nat}
    (h : storedBlock data out pos = .ok out' pos') :
    storedBlock data' out pos = .ok out' pos' := by
  have hs := hx.size_le
  unfold storedBlock at h ⊢
  simp only [] at h ⊢
  split at h
  · cases h
  rename_i c1
  rw [if_neg (by omega)]
  rw [hx.get _ (by omega), hx.get _ (by omega), hx.get _ (by omega), hx.get _ (by omega)]
  split at h
  · cases h
  rename_i c2; rw [if_neg c2]
  split at h
  · cases h
  rename_i c3
  rw [if_neg (by omega), hx.extract _ _ (by omega)]
  exact h

theorem block_ext (hx : Ext data data') {ty : Nat} {out : ByteArray} {pos : Nat}
    {out' : ByteArray} {pos' : Nat}
    (h : block data ty out pos = .ok out' pos') : block data' ty out pos = .ok out' pos' := by
  have hs := hx.size_le
  unfold block at h ⊢
  split at h
  · exact storedBlock_ext hx h
  · exact codes_ext hx (by omega) h
  · exact dynamicBlock_ext hx (by omega) h
  · cases h

theorem blocks_ext (hx : Ext data data') : ∀ {fuel fuel' : Nat} {out : ByteArray} {pos : Nat}
    {out' : ByteArray} {pos' : Nat}, fuel ≤ fuel' →
    blocks data fuel out pos = .ok out' pos' → blocks data' fuel' out pos = .ok out' pos' := by
  intro fuel
  induction fuel with
  | zero => intro fuel' out pos out' pos' _ h; simp [blocks] at h
  | succ fuel ih =>
      intro fuel' out pos out' pos' hle h
      cases fuel' with
      | zero => omega
      | succ fuel' =>
        simp only [blocks] at h ⊢
        split at h
        · cases h
        rename_i last pos1 hlast
        rw [getBit_ext hx hlast]
        split at h
        · cases h
        rename_i ty pos2 hty
        rw [getBits_ext hx hty]
        simp only []
        split at h
        · cases h
        rename_i out1 pos3 hb
        rw [block_ext hx hb]
        simp only []
        split at h
        · rename_i c; rw [if_pos c]; exact h
        · rename_i c; rw [if_neg c]; exact ih (by omega) h

/-- bytes after a complete zlib stream are not looked at -/
theorem inflateZlib_ext (hx : Ext data data') {out : ByteArray}
    (h : inflateZlib data = .ok out) : inflateZlib data' = .ok out := by
  have hs := hx.size_le
  unfold inflateZlib at h ⊢
  split at h
  · cases h
  rename_i c1
  rw [if_neg (by omega)]
  simp only [] at h ⊢
  rw [hx.get 0 (by omega), hx.get 1 (by omega)]
  split at h
  · cases h
  rename_i c2; rw [if_neg c2]
  split at h
  · cases h
  rename_i o pos hb
  rw [blocks_ext hx (by omega) hb]
  simp only []
  split at h
  · cases h
  rename_i c3
  rw [if_neg (by omega)]
  rw [hx.get _ (by omega), hx.get _ (by omega), hx.get _ (by omega), hx.get _ (by omega)]
  exact h

theorem inflateZlib_append (data extra : ByteArray) {out : ByteArray}
    (h : inflateZlib data = .ok out) : inflateZlib (data ++ extra) = .ok out :=
  inflateZlib_ext (ext_append data extra) h

theorem inflate_append (z pad out : Bytes) (h : inflate z = .ok out) :
    inflate (z ++ pad) = .ok out := by
  unfold inflate at h ⊢
  split at h
  · rename_i o ho
    rw [mk_toArray_append, inflateZlib_append _ _ ho]
    exact h
  · cases h
  · cases h

end Ase.ZlibT
