import AseProofs.Lemmas.WholeFile
/-
  Invariants of the state machine `runFrames`: the layers / slices of the final state are the
  layer / slice items in file order, the tags are those of the last tags item of frame 0 — all
  up to the user data the state machine attaches.
-/
namespace Ase.Proofs.WholeFile
open Ase Ase.Proofs

def stripL (l : LayerData) : LayerData := { l with userData := none }
def stripS (s : Slice) : Slice := { s with userData := none }
def stripT (t : Tag) : Tag := { t with userData := none }

def layerItem? : Spec.SItem → Option LayerData
  | .layer l => some l
  | _ => none

def sliceItem? : Spec.SItem → Option Slice
  | .slice s => some s
  | _ => none

/-- the layer items of a list of items, in order -/
def layerItems (its : List Spec.SItem) : List LayerData := its.filterMap layerItem?
def sliceItems (its : List Spec.SItem) : List Slice := its.filterMap sliceItem?

/-- the effect of one item on the (user-data-free) tag table -/
def tagsStep (frame : Nat) (t : Option (List Tag)) : Spec.SItem → Option (List Tag)
  | .tags ts => if frame == 0 then some (ts.map stripT) else t
  | _ => t

/-- all items of all frames, in file order -/
def allItems (frames : List (UInt16 × List Spec.SItem)) : List Spec.SItem :=
  frames.flatMap (·.2)

def keyL (pi : ParseInfo) : List LayerData := pi.layers.toList.map stripL
def keyS (pi : ParseInfo) : List Slice := pi.slices.toList.map stripS
def keyT (pi : ParseInfo) : Option (List Tag) := pi.tags.map (fun a => a.toList.map stripT)

theorem setUD_map {α β} (g : α → β) {f : α → α} {arr arr' : Array α} {i : Nat}
    (h : setUD arr i f = some arr') (hg : ∀ a, g (f a) = g a) :
    arr'.toList.map g = arr.toList.map g := by
  unfold setUD at h
  cases ha : arr[i]? with
  | none => simp [ha] at h
  | some a =>
      simp only [ha, Option.some.injEq] at h
      subst h
      have hi : i < arr.size := by
        rcases Nat.lt_or_ge i arr.size with h' | h'
        · exact h'
        · simp [h'] at ha
      have ha' : arr[i] = a := by
        have := Array.getElem?_eq_getElem hi
        rw [this] at ha; exact Option.some.inj ha
      simp only [Array.set!_eq_setIfInBounds, Array.toList_setIfInBounds, List.map_set, hg, ← ha']
      have : g arr[i] = (List.map g arr.toList)[i]'(by simpa using hi) := by simp
      rw [this, List.set_getElem_self]

theorem addCel_keys {pi pi' : ParseInfo} {frame : Nat} {c : RawCel RawPixels}
    (h : pi.addCel frame c = .ok pi') :
    pi'.layers = pi.layers ∧ pi'.slices = pi.slices ∧ pi'.tags = pi.tags := by
  unfold ParseInfo.addCel at h
  cases hrow : pi.cels[frame]? with
  | none => simp [hrow] at h
  | some row =>
      simp only [hrow] at h
      split at h
      · cases h
      · cases h; exact ⟨rfl, rfl, rfl⟩

theorem addUserData_keys {pi pi' : ParseInfo} {u : UserData} (h : pi.addUserData u = .ok pi') :
    keyL pi' = keyL pi ∧ keyS pi' = keyS pi ∧ keyT pi' = keyT pi := by
  unfold ParseInfo.addUserData at h
  split at h
  · cases h
  · -- cel
    split at h
    · cases h
    · split at h
      · cases h
      · cases h; exact ⟨rfl, rfl, rfl⟩
  · -- layer
    split at h
    · cases h
    · rename_i ls hls
      cases h
      exact ⟨setUD_map stripL hls (fun _ => rfl), rfl, rfl⟩
  · cases h; exact ⟨rfl, rfl, rfl⟩
  · -- tag
    split at h
    · cases h
    · rename_i tags htags
      split at h
      · cases h
      · rename_i ts hts
        cases h
        refine ⟨rfl, rfl, ?_⟩
        simp only [keyT, htags, Option.map_some]
        rw [setUD_map stripT hts (fun _ => rfl)]
  · -- slice
    split at h
    · cases h
    · rename_i ss hss
      cases h
      exact ⟨rfl, setUD_map stripS hss (fun _ => rfl), rfl⟩

/-- **one item**: a layer / slice item appends, a tags item in frame 0 replaces the tag table,
    nothing else changes layers, slices or tags — except for attached user data -/
theorem stepSem_keys {frame : Nat} {pi pi' : ParseInfo} {it : Spec.SItem}
    (h : Spec.stepSem frame pi it = .ok pi') :
    keyL pi' = keyL pi ++ (layerItems [it]).map stripL ∧
    keyS pi' = keyS pi ++ (sliceItems [it]).map stripS ∧
    keyT pi' = tagsStep frame (keyT pi) it := by
  cases it with
  | layer l =>
      cases h
      refine ⟨?_, by simp [keyS, sliceItems, sliceItem?], rfl⟩
      simp [keyL, layerItems, layerItem?]
  | cel c =>
      obtain ⟨h1, h2, h3⟩ := addCel_keys h
      simp [keyL, keyS, keyT, h1, h2, h3, layerItems, layerItem?, sliceItems, sliceItem?, tagsStep]
  | tags ts =>
      simp only [Spec.stepSem] at h
      by_cases h0 : (frame == 0) = true
      · simp only [h0, if_true, Res.ok.injEq] at h
        subst h
        simp [keyL, keyS, keyT, layerItems, layerItem?, sliceItems, sliceItem?, tagsStep, h0]
      · have h0' : (frame == 0) = false := by simpa using h0
        simp only [h0', Bool.false_eq_true, if_false, Res.ok.injEq] at h
        subst h
        simp [layerItems, layerItem?, sliceItems, sliceItem?, tagsStep, h0']
  | slice s =>
      cases h
      refine ⟨by simp [keyL, layerItems, layerItem?], ?_, rfl⟩
      simp [keyS, sliceItems, sliceItem?]
  | palette p => cases h; simp [layerItems, layerItem?, sliceItems, sliceItem?, tagsStep, keyL, keyS, keyT]
  | oldPalette p =>
      simp only [Spec.stepSem] at h
      split at h <;> cases h <;>
        simp [layerItems, layerItem?, sliceItems, sliceItem?, tagsStep, keyL, keyS, keyT]
  | userData u =>
      obtain ⟨h1, h2, h3⟩ := addUserData_keys h
      simp [h1, h2, h3, layerItems, layerItem?, sliceItems, sliceItem?, tagsStep]
  | extFiles fs => cases h; simp [layerItems, layerItem?, sliceItems, sliceItem?, tagsStep, keyL, keyS, keyT]
  | tileset t => cases h; simp [layerItems, layerItem?, sliceItems, sliceItem?, tagsStep, keyL, keyS, keyT]
  | noop => cases h; simp [layerItems, layerItem?, sliceItems, sliceItem?, tagsStep]

theorem layerItems_cons (it : Spec.SItem) (its : List Spec.SItem) :
    layerItems (it :: its) = layerItems [it] ++ layerItems its := by
  simp only [layerItems, List.filterMap_cons, List.filterMap_nil]
  cases layerItem? it <;> rfl

theorem sliceItems_cons (it : Spec.SItem) (its : List Spec.SItem) :
    sliceItems (it :: its) = sliceItems [it] ++ sliceItems its := by
  simp only [sliceItems, List.filterMap_cons, List.filterMap_nil]
  cases sliceItem? it <;> rfl

theorem runItems_keys (frame : Nat) (its : List Spec.SItem) : ∀ {pi pi' : ParseInfo},
    Spec.runItems frame pi its = .ok pi' →
    keyL pi' = keyL pi ++ (layerItems its).map stripL ∧
    keyS pi' = keyS pi ++ (sliceItems its).map stripS ∧
    keyT pi' = its.foldl (tagsStep frame) (keyT pi) := by
  induction its with
  | nil => intro pi pi' h; cases h; simp [layerItems, sliceItems]
  | cons it t ih =>
      intro pi pi' h
      simp only [Spec.runItems] at h
      cases hs : Spec.stepSem frame pi it with
      | ok q =>
          rw [hs] at h
          obtain ⟨a1, a2, a3⟩ := stepSem_keys hs
          obtain ⟨b1, b2, b3⟩ := ih h
          refine ⟨?_, ?_, ?_⟩
          · rw [b1, a1, layerItems_cons it t, List.map_append, List.append_assoc]
          · rw [b2, a2, sliceItems_cons it t, List.map_append, List.append_assoc]
          · rw [b3, a3]; rfl
      | err e => rw [hs] at h; cases h
      | panic s => rw [hs] at h; cases h

/-- the tag table after frames `k, k+1, …` -/
def tagsFrames : Nat → Option (List Tag) → List (UInt16 × List Spec.SItem) → Option (List Tag)
  | _, t, [] => t
  | k, t, (_, its) :: rest => tagsFrames (k + 1) (its.foldl (tagsStep k) t) rest

theorem runFrames_keys (frames : List (UInt16 × List Spec.SItem)) :
    ∀ {k : Nat} {pi pi' : ParseInfo}, Spec.runFrames k pi frames = .ok pi' →
    keyL pi' = keyL pi ++ (layerItems (allItems frames)).map stripL ∧
    keyS pi' = keyS pi ++ (sliceItems (allItems frames)).map stripS ∧
    keyT pi' = tagsFrames k (keyT pi) frames := by
  induction frames with
  | nil => intro k pi pi' h; cases h; simp [allItems, layerItems, sliceItems, tagsFrames]
  | cons f t ih =>
      intro k pi pi' h
      obtain ⟨d, its⟩ := f
      simp only [Spec.runFrames] at h
      cases hs : Spec.runFrame k d pi its with
      | ok q =>
          rw [hs] at h
          obtain ⟨a1, a2, a3⟩ := runItems_keys k its hs
          obtain ⟨b1, b2, b3⟩ := ih h
          have hall : allItems ((d, its) :: t) = its ++ allItems t := by
            simp [allItems]
          refine ⟨?_, ?_, ?_⟩
          · rw [b1, a1, hall, layerItems, layerItems, layerItems, List.filterMap_append,
              List.map_append, List.append_assoc]
            rfl
          · rw [b2, a2, hall, sliceItems, sliceItems, sliceItems, List.filterMap_append,
              List.map_append, List.append_assoc]
            rfl
          · rw [b3, a3]; rfl
      | err e => rw [hs] at h; cases h
      | panic s => rw [hs] at h; cases h

/-! ### tags: only frame 0 counts, and there the last tags item -/

theorem foldl_tagsStep_succ (k : Nat) (its : List Spec.SItem) : ∀ (t : Option (List Tag)),
    its.foldl (tagsStep (k + 1)) t = t := by
  induction its with
  | nil => intro t; rfl
  | cons it rest ih =>
      intro t
      simp only [List.foldl_cons]
      have : tagsStep (k + 1) t it = t := by cases it <;> rfl
      rw [this, ih]

theorem tagsFrames_succ (frames : List (UInt16 × List Spec.SItem)) :
    ∀ (k : Nat) (t : Option (List Tag)), tagsFrames (k + 1) t frames = t := by
  induction frames with
  | nil => intro k t; rfl
  | cons f rest ih =>
      intro k t
      obtain ⟨d, its⟩ := f
      simp only [tagsFrames, foldl_tagsStep_succ, ih]

/-- the tags of the last tags item of a list of items -/
def lastTags (its : List Spec.SItem) : Option (List Tag) :=
  its.foldl (fun acc it => match it with
    | .tags ts => some ts
    | _ => acc) none

theorem foldl_tagsStep_zero (its : List Spec.SItem) : ∀ (a : Option (List Tag)),
    its.foldl (tagsStep 0) (a.map (·.map stripT)) =
      (its.foldl (fun acc it => match it with
        | .tags ts => some ts
        | _ => acc) a).map (·.map stripT) := by
  induction its with
  | nil => intro a; rfl
  | cons it rest ih =>
      intro a
      simp only [List.foldl_cons]
      cases it <;> first | exact ih a | exact ih (some _)

theorem tagsFrames_zero (d : UInt16) (its : List Spec.SItem)
    (rest : List (UInt16 × List Spec.SItem)) :
    tagsFrames 0 none ((d, its) :: rest) = (lastTags its).map (·.map stripT) := by
  simp only [tagsFrames, tagsFrames_succ]
  exact foldl_tagsStep_zero its none

end Ase.Proofs.WholeFile
