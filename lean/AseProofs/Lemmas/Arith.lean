import Ase.Blend
import Ase.Spec.BlendRef
import Mathlib.Tactic.Linarith
import Mathlib.Tactic.Ring
/-
  Integer arithmetic facts behind the blend functions (shared by C03 and C17).
-/
namespace Ase.Proofs
open Ase Ase.Blend

theorem shr8 (x : Int) : x >>> 8 = x / 256 := by
  rw [Int.shiftRight_eq_div_pow]; norm_num

/-- `mulUn8I` written with floor divisions -/
theorem mulUn8I_eq (a b : Int) : mulUn8I a b = ((a * b + 128) / 256 + (a * b + 128)) / 256 := by
  simp only [mulUn8I, shr8]

/-- the rounding product of an unsigned byte difference by an opacity keeps sign and magnitude -/
theorem mulUn8I_bounds_nonneg (d o : Int) (hd0 : 0 ≤ d) (ho0 : 0 ≤ o) (ho : o ≤ 255) :
    0 ≤ mulUn8I d o ∧ mulUn8I d o ≤ d := by
  rw [mulUn8I_eq]
  have h1 : 0 ≤ d * o := Int.mul_nonneg hd0 ho0
  have h2 : d * o ≤ d * 255 := Int.mul_le_mul_of_nonneg_left ho hd0
  generalize d * o = p at *
  omega

theorem mulUn8I_bounds_neg (d o : Int) (hd0 : d ≤ 0) (ho0 : 0 ≤ o) (ho : o ≤ 255) :
    d ≤ mulUn8I d o ∧ mulUn8I d o ≤ 0 := by
  rw [mulUn8I_eq]
  have h1 : d * o ≤ 0 := Int.mul_nonpos_of_nonpos_of_nonneg hd0 ho0
  have h2 : d * 255 ≤ d * o := Int.mul_le_mul_of_nonpos_left hd0 ho
  generalize d * o = p at *
  omega

theorem mulUn8I_le_right (a b : Int) (ha0 : 0 ≤ a) (ha : a ≤ 255) (hb0 : 0 ≤ b) :
    mulUn8I a b ≤ b := by
  rw [mulUn8I_eq]
  have h1 : 0 ≤ a * b := Int.mul_nonneg ha0 hb0
  have h2 : a * b ≤ 255 * b := Int.mul_le_mul_of_nonneg_right ha hb0
  generalize a * b = p at *
  omega

theorem mulUn8I_zero_right (a : Int) : mulUn8I a 0 = 0 := by
  rw [mulUn8I_eq]; simp
theorem mulUn8I_zero_left (b : Int) : mulUn8I 0 b = 0 := by
  rw [mulUn8I_eq]; simp
theorem mulUn8I_255 (a : Int) (ha0 : 0 ≤ a) (ha : a ≤ 255) : mulUn8I a 255 = a := by
  rw [mulUn8I_eq]; omega

end Ase.Proofs

namespace Ase.Proofs

/-- truncated division of a scaled difference stays between 0 and the difference -/
theorem tdiv_scaled_nonneg (d n D : Int) (hD : 0 < D) (hn0 : 0 ≤ n) (hnD : n ≤ D) (hd : 0 ≤ d) :
    0 ≤ Int.tdiv (d * n) D ∧ Int.tdiv (d * n) D ≤ d := by
  have hnum : 0 ≤ d * n := Int.mul_nonneg hd hn0
  rw [Int.tdiv_eq_ediv_of_nonneg hnum]
  constructor
  · exact Int.ediv_nonneg hnum (le_of_lt hD)
  · apply Int.ediv_le_of_le_mul hD
    exact Int.mul_le_mul_of_nonneg_left hnD hd

theorem tdiv_scaled_nonpos (d n D : Int) (hD : 0 < D) (hn0 : 0 ≤ n) (hnD : n ≤ D) (hd : d ≤ 0) :
    d ≤ Int.tdiv (d * n) D ∧ Int.tdiv (d * n) D ≤ 0 := by
  have h := tdiv_scaled_nonneg (-d) n D hD hn0 hnD (by omega)
  have e : d * n = -((-d) * n) := by ring
  rw [e, Int.neg_tdiv]
  omega

/-- the alpha of `normal`: `sa + ba - mul_un8(ba, sa)` stays a non-zero byte -/
theorem normal_ra_range (sa ba : Int) (hs0 : 0 ≤ sa) (hs : sa ≤ 255) (hb0 : 1 ≤ ba) (hb : ba ≤ 255) :
    1 ≤ sa + ba - Ase.Blend.mulUn8I ba sa ∧ sa + ba - Ase.Blend.mulUn8I ba sa ≤ 255 ∧
    sa ≤ sa + ba - Ase.Blend.mulUn8I ba sa := by
  have h1 := mulUn8I_bounds_nonneg ba sa (by omega) hs0 hs
  have h2 := mulUn8I_le_right ba sa (by omega) hb hs0
  refine ⟨by omega, ?_, by omega⟩
  rw [mulUn8I_eq]
  have hp : 255 * (sa + ba) - 65025 ≤ ba * sa := by nlinarith
  have hp0 : 0 ≤ ba * sa := by positivity
  generalize ba * sa = p at *
  omega

end Ase.Proofs
