import AseProofs.Lemmas.NoPanic
/-
  Panic-freedom of every chunk decoder of `Ase/Chunks.lean` (used by C04).
  The only decoder with a modelled panic site of its own is the old-palette packet loop
  (`u32Add`); the only parameter that could panic is `inflate`.
-/
namespace Ase.Proofs.C04
open Ase

/-! ### layer chunk -/

theorem NP_parseLayerType (id : UInt16) : NP (parseLayerType id) := by
  unfold parseLayerType; np_auto
macro_rules | `(tactic| np_lemma) => `(tactic| exact NP_parseLayerType _)

theorem NP_parseBlendMode (id : UInt16) : NP (parseBlendMode id) := by
  unfold parseBlendMode; np_auto
macro_rules | `(tactic| np_lemma) => `(tactic| exact NP_parseBlendMode _)

theorem NP_parseLayerChunk : NP parseLayerChunk := by
  unfold parseLayerChunk; np_auto

/-! ### pixels, tilemap, cel chunk -/

theorem NP_pixelsFromRaw (fmt : PixelFormat) (n : Nat) : NP (pixelsFromRaw fmt n) := by
  unfold pixelsFromRaw; np_auto
macro_rules | `(tactic| np_lemma) => `(tactic| exact NP_pixelsFromRaw _ _)

theorem NP_pixelsFromCompressed {inflate : Inflate} (hi : InflNP inflate) (fmt : PixelFormat)
    (n : Nat) : NP (pixelsFromCompressed inflate fmt n) := by
  unfold pixelsFromCompressed; np_auto
macro_rules | `(tactic| np_lemma) => `(tactic| exact NP_pixelsFromCompressed (by assumption) _ _)

theorem NP_parseTilemap {inflate : Inflate} (hi : InflNP inflate) : NP (parseTilemap inflate) := by
  unfold parseTilemap; np_auto
macro_rules | `(tactic| np_lemma) => `(tactic| exact NP_parseTilemap (by assumption))

theorem NP_parseCelContent {inflate : Inflate} (hi : InflNP inflate) (fmt : PixelFormat)
    (t : UInt16) : NP (parseCelContent inflate fmt t) := by
  unfold parseCelContent; np_auto
macro_rules | `(tactic| np_lemma) => `(tactic| exact NP_parseCelContent (by assumption) _ _)

theorem NP_parseCelChunk {inflate : Inflate} (hi : InflNP inflate) (fmt : PixelFormat) :
    NP (parseCelChunk inflate fmt) := by
  unfold parseCelChunk; np_auto

/-! ### tags, slices, user data, external files, colour profile -/

theorem NP_rdRepeat {α} {p : Rd α} (hp : NP p) : ∀ n, NP (rdRepeat p n) := by
  intro n
  induction n with
  | zero => unfold rdRepeat; np_auto
  | succ n ih => unfold rdRepeat; np_auto

theorem NP_parseTag : NP parseTag := by
  unfold parseTag; np_auto

theorem NP_parseTagsChunk : NP parseTagsChunk := by
  unfold parseTagsChunk
  have := NP_rdRepeat NP_parseTag
  np_auto
  exact this _

theorem NP_parseSliceKey (flags : UInt32) : NP (parseSliceKey flags) := by
  unfold parseSliceKey; np_auto

theorem NP_parseSliceChunk : NP parseSliceChunk := by
  unfold parseSliceChunk
  np_auto
  exact NP_rdRepeat (NP_parseSliceKey _) _
  np_auto

theorem NP_parseUserDataChunk : NP parseUserDataChunk := by
  unfold parseUserDataChunk; np_auto

theorem NP_parseExternalFile : NP parseExternalFile := by
  unfold parseExternalFile; np_auto

theorem NP_parseExternalFilesChunk : NP parseExternalFilesChunk := by
  unfold parseExternalFilesChunk
  np_auto
  exact NP_rdRepeat NP_parseExternalFile _

theorem NP_parseColorProfileChunk : NP parseColorProfileChunk := by
  unfold parseColorProfileChunk; np_auto

/-! ### palettes -/

theorem NP_parsePaletteEntry (id : Nat) : NP (parsePaletteEntry id) := by
  unfold parsePaletteEntry; np_auto
macro_rules | `(tactic| np_lemma) => `(tactic| exact NP_parsePaletteEntry _)

theorem NP_parsePaletteEntries : ∀ n id p, NP (parsePaletteEntries n id p) := by
  intro n
  induction n with
  | zero => intro id p; unfold parsePaletteEntries; np_auto
  | succ n ih =>
      intro id p; unfold parsePaletteEntries
      np_auto
      exact ih _ _
macro_rules | `(tactic| np_lemma) => `(tactic| exact NP_parsePaletteEntries _ _ _)

theorem NP_parsePaletteChunk : NP parsePaletteChunk := by
  unfold parsePaletteChunk; np_auto

theorem NP_parseOldColor (scaled : Bool) : NP (parseOldColor scaled) := by
  unfold parseOldColor; np_auto
macro_rules | `(tactic| np_lemma) => `(tactic| exact NP_parseOldColor _)

theorem NP_parseOldEntries (scaled : Bool) : ∀ n id p, NP (parseOldEntries scaled n id p) := by
  intro n
  induction n with
  | zero => intro id p; unfold parseOldEntries; np_auto
  | succ n ih =>
      intro id p; unfold parseOldEntries
      np_auto
      exact ih _ _
macro_rules | `(tactic| np_lemma) => `(tactic| exact NP_parseOldEntries _ _ _ _)

/-- `u32Add` returns the sum when the sum fits -/
theorem u32Add_ok (m : Profile) (a b : Nat) (h : a + b < 4294967296) :
    u32Add m a b = .ok (a + b) := by
  simp [u32Add, h]

/-- The packet loop does not overflow: with `n` packets left and `skip` accumulated so far,
    `skip + 255 * n ≤ 255 * 65535` is an invariant (each packet adds one byte to `skip`),
    so `skip' ≤ 255 * 65535` and `count + skip' ≤ 256 + 255 * 65535 < 2^32`. -/
theorem NP_parseOldPackets (m : Profile) (scaled : Bool) :
    ∀ n skip p, skip + 255 * n ≤ 255 * 65535 → NP (parseOldPackets m scaled n skip p) := by
  intro n
  induction n with
  | zero => intro skip p _; unfold parseOldPackets; np_auto
  | succ n ih =>
      intro skip p hinv
      unfold parseOldPackets
      apply NP_bind (NP_readU8 srcNP_bytes)
      intro sk
      have hsk : sk.toNat < 256 := UInt8.toNat_lt sk
      have h1 : u32Add m skip sk.toNat = .ok (skip + sk.toNat) := u32Add_ok _ _ _ (by omega)
      apply NP_bind_lift (by rw [h1]; exact Res.noPanic_ok _)
      intro skip' hskip'
      rw [h1] at hskip'
      cases hskip'
      apply NP_bind (NP_readU8 srcNP_bytes)
      intro c
      have hc : c.toNat < 256 := UInt8.toNat_lt c
      have hcount : (if c.toNat == 0 then 256 else c.toNat) ≤ 256 := by
        split
        · exact Nat.le_refl _
        · exact Nat.le_of_lt hc
      have h2 : u32Add m (if c.toNat == 0 then 256 else c.toNat) (skip + sk.toNat)
          = .ok ((if c.toNat == 0 then 256 else c.toNat) + (skip + sk.toNat)) :=
        u32Add_ok _ _ _ (by omega)
      apply NP_bind_lift (by rw [h2]; exact Res.noPanic_ok _)
      intro _ _
      apply NP_bind (NP_parseOldEntries _ _ _ _)
      intro p'
      exact ih _ _ (by omega)

theorem NP_parseOldPaletteChunk (m : Profile) (scaled : Bool) :
    NP (parseOldPaletteChunk m scaled) := by
  unfold parseOldPaletteChunk
  apply NP_bind (NP_readU16 srcNP_bytes)
  intro packets
  have := UInt16.toNat_lt packets
  exact NP_parseOldPackets m scaled _ _ _ (by omega)

/-! ### tileset chunk -/

theorem NP_parseTilesetChunk {inflate : Inflate} (hi : InflNP inflate) (fmt : PixelFormat) :
    NP (parseTilesetChunk inflate fmt) := by
  unfold parseTilesetChunk; np_auto

end Ase.Proofs.C04
