import AseProofs.Props.C10
import AseProofs.Lemmas.MoreValidate
/-
  C10, carried from the final parser state to the loaded `Sprite`: validation copies layers,
  slices, tags and the sprite's own record, and `RawCel::validate` keeps each cel's record; so
  what `C10.Attached` says about `ParseInfo` holds of the sprite `parseFile` / `parse` return.
-/
namespace Ase.Proofs.C10
open Ase Ase.Spec Ase.Proofs

/-! ### validation keeps every user-data slot -/

/-- the user data of cel `(f, l)` of the sprite is that of the parser state (and the cel exists
    in the one iff in the other) -/
theorem validate_cel_userData {h : Header} {fmt : PixelFormat} {pi : ParseInfo} {s : Sprite}
    (hv : validate h fmt pi = .ok s) (f l : Nat) :
    ((s.cels[f]?).bind (FrameCels.get? l)).map (·.userData) =
      ((pi.cels[f]?).bind (FrameCels.get? l)).map (·.userData) := by
  rcases More.validate_cel hv f l with ⟨h1, h2⟩ | ⟨c, c', h1, h2, _, hval⟩
  · rw [h1, h2]; rfl
  · rw [h1, h2]
    simp only [Option.map_some, (More.validateCel_keeps hval).2.1]

/-- **what validation copies**: layers, slices, the sprite's record and the tags are those of the
    final parser state, and every cel keeps its record -/
theorem validate_userData {h : Header} {fmt : PixelFormat} {pi : ParseInfo} {s : Sprite}
    (hv : validate h fmt pi = .ok s) :
    s.layers = pi.layers ∧ s.slices = pi.slices ∧ s.spriteUserData = pi.spriteUserData ∧
    s.tags = pi.tags.getD #[] ∧
    ∀ f l : Nat, ((s.cels[f]?).bind (FrameCels.get? l)).map (·.userData) =
      ((pi.cels[f]?).bind (FrameCels.get? l)).map (·.userData) := by
  obtain ⟨_, _, _, _, _, h6, _, h8, _, h10, h11⟩ := C01.validate_reports hv
  exact ⟨h6, h11, h10, h8, validate_cel_userData hv⟩

/-! ### the attachment theorem for the loaded sprite -/

/-- The user-data slots of the loaded sprite `s` are the declarative attachments of the event
    list `evs` (the sprite-level form of `Attached`). -/
structure SpriteAttached (evs : List Ev) (s : Sprite) : Prop where
  nlayers : s.layers.size = evs.countP Ev.isLayer
  /-- layer `k` reports the record attached to `layer k` -/
  layers : ∀ k (h : k < s.layers.size), s.layers[k].userData = attached evs (.layer k)
  nslices : s.slices.size = evs.countP Ev.isSlice
  slices : ∀ k (h : k < s.slices.size), s.slices[k].userData = attached evs (.slice k)
  sprite : s.spriteUserData = attached evs .sprite
  /-- cel `(f, l)` exists iff there was a cel event for it, and reports the record attached to it -/
  cels : ∀ f l : Nat, ((s.cels[f]?).bind (FrameCels.get? l)).map (·.userData) =
    if Ev.cel f l ∈ evs then some (attached evs (.cel f l)) else none
  /-- no tags event: no tags; otherwise the tags of the LAST tags event (position `j`, `n` tags),
      tag `k` reporting the record attached to `tag k` after position `j` -/
  tags : match lastTags evs with
    | none => s.tags = #[]
    | some (j, n) => s.tags.size = n ∧
        ∀ k (h : k < s.tags.size), s.tags[k].userData = attachedSince evs j (.tag k)

/-- **`Attached` survives validation** -/
theorem spriteAttached_of_validate {h : Header} {fmt : PixelFormat} {pi : ParseInfo} {s : Sprite}
    {evs : List Ev} (ha : Attached evs pi) (hv : validate h fmt pi = .ok s) :
    SpriteAttached evs s := by
  obtain ⟨hl, hsl, hsp, htg, hc⟩ := validate_userData hv
  refine ⟨by rw [hl]; exact ha.nlayers, ?_, by rw [hsl]; exact ha.nslices, ?_, by rw [hsp]; exact ha.sprite,
    ?_, ?_⟩
  · intro k hk
    have hk' : k < pi.layers.size := by rw [← hl]; exact hk
    have := ha.layers k hk'
    simp only [hl]
    exact this
  · intro k hk
    have hk' : k < pi.slices.size := by rw [← hsl]; exact hk
    have := ha.slices k hk'
    simp only [hsl]
    exact this
  · intro f l
    rw [hc f l]
    exact ha.cels f l
  · have hat := ha.tags
    cases hlt : lastTags evs with
    | none =>
        rw [hlt] at hat
        simp only at hat ⊢
        rw [htg, hat]
        rfl
    | some p =>
        obtain ⟨j, n⟩ := p
        rw [hlt] at hat
        obtain ⟨ts, h1, h2, h3⟩ := hat
        simp only
        have hts : s.tags = ts := by rw [htg, h1]; rfl
        subst hts
        exact ⟨h2, h3⟩

/-- with a single tags event, tag `k` reports `attached evs (.tag k)` -/
theorem spriteAttached_tags {evs : List Ev} {s : Sprite} (h : SpriteAttached evs s)
    (hone : evs.countP isTags ≤ 1) {j n : Nat} (hlt : lastTags evs = some (j, n)) :
    s.tags.size = n ∧ ∀ k (hk : k < s.tags.size), s.tags[k].userData = attached evs (.tag k) := by
  have htg := h.tags
  rw [hlt] at htg
  obtain ⟨h2, h3⟩ := htg
  refine ⟨h2, ?_⟩
  intro k hk
  rw [h3 k hk, attachedSince_lastTags_eq evs hone j n hlt k]

/-! ### `parseFile` and `parse` -/

/-- what a successful `parseFile` did: header, pixel format, the frame loop, validation -/
theorem parseFile_ok {σ : Type} (S : Src σ) {inflate : Inflate} {m : Profile} {st st' : σ}
    {s : Sprite} (h : parseFile S inflate m st = .ok (s, st')) :
    ∃ (hd : Header) (fmt : PixelFormat) (pi : ParseInfo) (s1 : σ),
      parsePixelFormat hd.colorDepth hd.tci = .ok fmt ∧
      parseFrames S inflate m fmt hd.numFrames.toNat 0
        (ParseInfo.new hd.numFrames.toNat hd.defaultTime) s1 = .ok (pi, st') ∧
      validate hd fmt pi = .ok s := by
  unfold parseFile at h
  rw [RdS.bind_run] at h
  cases hh : readHeader S st with
  | err e => rw [hh] at h; cases h
  | panic p => rw [hh] at h; cases h
  | ok r =>
      obtain ⟨hd, s1⟩ := r
      rw [hh] at h
      simp only at h
      split at h
      · cases h
      · rw [RdS.bind_run] at h
        cases hf : parsePixelFormat hd.colorDepth hd.tci with
        | err e => rw [hf] at h; cases h
        | panic p => rw [hf] at h; cases h
        | ok fmt =>
            rw [hf] at h
            simp only [RdS.lift_ok] at h
            rw [RdS.bind_run] at h
            cases hp : parseFrames S inflate m fmt hd.numFrames.toNat 0
                (ParseInfo.new hd.numFrames.toNat hd.defaultTime) s1 with
            | err e => rw [hp] at h; cases h
            | panic p => rw [hp] at h; cases h
            | ok r2 =>
                obtain ⟨pi, s2⟩ := r2
                rw [hp] at h
                simp only [RdS.lift] at h
                cases hv : validate hd fmt pi with
                | err e => rw [hv] at h; cases h
                | panic p => rw [hv] at h; cases h
                | ok s' =>
                    rw [hv] at h
                    simp only [Res.map_ok, Res.ok.injEq, Prod.mk.injEq] at h
                    obtain ⟨rfl, rfl⟩ := h
                    exact ⟨hd, fmt, pi, s1, hf, hp, hv⟩

/-- **C10 for `parseFile`** (`userData_spec_parse` carried to the sprite): whenever loading
    succeeds - from any source, with any inflater, in either build profile - there are the chunk
    lists `fs` of the file's frames (one per frame of the sprite) and events `evss` the chunks
    decode to, such that every entity of the loaded sprite reports its declarative attachment:
    layer `k` reports `attached evs (.layer k)`, slice `k` `attached evs (.slice k)`, the sprite
    `attached evs .sprite`, cel `(f, l)` exists iff a cel chunk for it was read and reports
    `attached evs (.cel f l)`, and the tags are those of the last tags chunk of frame 0, tag `k`
    reporting the `k`-th record after it. -/
theorem userData_spec_parseFile {σ : Type} (S : Src σ) {inflate : Inflate} {m : Profile}
    {st st' : σ} {s : Sprite} (h : parseFile S inflate m st = .ok (s, st')) :
    ∃ fs evss, fs.length = s.numFrames.toNat ∧
      FramesRel (ChunkEv inflate m s.format) 0 fs evss ∧ SpriteAttached evss.flatten s := by
  obtain ⟨hd, fmt, pi, s1, _, hp, hv⟩ := parseFile_ok S h
  obtain ⟨fs, evss, hlen, hrel, hatt⟩ := userData_spec_parse S hp
  obtain ⟨_, _, h3, h4, _⟩ := C01.validate_reports hv
  rw [h3, h4]
  exact ⟨fs, evss, hlen, hrel, spriteAttached_of_validate hatt hv⟩

/-- **C10 for `parse`** (`AsepriteFile::read` on a byte string) -/
theorem userData_spec_parseBytes {inflate : Inflate} {m : Profile} {bs : Bytes} {s : Sprite}
    (h : parse inflate m bs = .ok s) :
    ∃ fs evss, fs.length = s.numFrames.toNat ∧
      FramesRel (ChunkEv inflate m s.format) 0 fs evss ∧ SpriteAttached evss.flatten s := by
  unfold parse at h
  cases hp : parseFile bytesSrc inflate m bs with
  | ok r =>
      obtain ⟨s', rest⟩ := r
      rw [hp] at h
      simp only [Res.map_ok, Res.ok.injEq] at h
      subst h
      exact userData_spec_parseFile bytesSrc hp
  | err e => rw [hp] at h; cases h
  | panic q => rw [hp] at h; cases h

/-- "an entity that is the target of no record reports none", for the loaded sprite -/
theorem unattached_none_sprite {evs : List Ev} {s : Sprite} (h : SpriteAttached evs s) :
    (∀ k (hk : k < s.layers.size),
      (∀ i u, evs[i]? = some (.userData u) → attachTarget evs i ≠ some (.layer k)) →
      s.layers[k].userData = none) ∧
    (∀ k (hk : k < s.slices.size),
      (∀ i u, evs[i]? = some (.userData u) → attachTarget evs i ≠ some (.slice k)) →
      s.slices[k].userData = none) ∧
    ((∀ i u, evs[i]? = some (.userData u) → attachTarget evs i ≠ some .sprite) →
      s.spriteUserData = none) ∧
    (∀ f l row c, s.cels[f]? = some row → FrameCels.get? l row = some c →
      (∀ i u, evs[i]? = some (.userData u) → attachTarget evs i ≠ some (.cel f l)) →
      c.userData = none) := by
  refine ⟨?_, ?_, ?_, ?_⟩
  · intro k hk hno
    rw [h.layers k hk]; exact unattached_none hno
  · intro k hk hno
    rw [h.slices k hk]; exact unattached_none hno
  · intro hno
    rw [h.sprite]; exact unattached_none hno
  · intro f l row c hrow hget hno
    have := h.cels f l
    rw [hrow] at this
    simp only [Option.bind_some, hget, Option.map_some] at this
    by_cases hm : Ev.cel f l ∈ evs
    · simp only [hm, if_true, Option.some.injEq] at this
      rw [this]; exact unattached_none hno
    · simp [hm] at this

end Ase.Proofs.C10
