import AseProofs.Props.C01Raw
/-
  C11, legacy palette chunks with SEVERAL packets: the palette a legacy chunk builds, colour
  index by colour index.  The skip bytes accumulate (a packet's colour count does not advance
  the position), so packets may overlap; where they do, the later packet wins.
-/
namespace Ase.Proofs.C11
open Ase Ase.Proofs Ase.Proofs.C01

abbrev Triple := UInt8 × UInt8 × UInt8
abbrev Packet := UInt8 × List Triple

/-- each packet's colour list paired with its absolute start id: the running sum of the skip
    bytes, starting from `skip` -/
def packetStarts : Nat → List Packet → List (Nat × List Triple)
  | _, [] => []
  | skip, (sk, cs) :: ps => (skip + sk.toNat, cs) :: packetStarts (skip + sk.toNat) ps

/-- the packet starting at `sc.1` with colours `sc.2` covers index `i` -/
def Covers (i : Nat) (sc : Nat × List Triple) : Prop := sc.1 ≤ i ∧ i < sc.1 + sc.2.length

instance (i : Nat) (sc : Nat × List Triple) : Decidable (Covers i sc) := by
  unfold Covers; infer_instance

/-- the palette entry the library reports for component triple `c` at index `i` -/
def entryOf (scaled : Bool) (i : Nat) (c : Triple) : PalEntry :=
  { id := i, rgba := ⟨Spec.oldColor scaled c.1, Spec.oldColor scaled c.2.1,
                      Spec.oldColor scaled c.2.2, 255⟩, name := none }

/-- the colour a packet writes at index `i`: triple `i - start`, if the packet covers `i` -/
def packetColor (scaled : Bool) (i : Nat) (sc : Nat × List Triple) : Option PalEntry :=
  if Covers i sc then (sc.2[i - sc.1]?).map (entryOf scaled i) else none

theorem packetColor_eq_some_iff (scaled : Bool) (i : Nat) (sc : Nat × List Triple) :
    (packetColor scaled i sc).isSome ↔ Covers i sc := by
  unfold packetColor
  by_cases h : Covers i sc
  · have h' : i - sc.1 < sc.2.length := by unfold Covers at h; omega
    simp [h, h']
  · simp [h]

theorem packetColor_covered (scaled : Bool) (i : Nat) (sc : Nat × List Triple)
    (h : Covers i sc) :
    packetColor scaled i sc =
      some (entryOf scaled i (sc.2[i - sc.1]'(by unfold Covers at h; omega))) := by
  have h' : i - sc.1 < sc.2.length := by unfold Covers at h; omega
  simp [packetColor, h, h']

theorem oldEntries_color' (scaled : Bool) (first : Nat) (cs : List Triple) (q : Palette)
    (i : Nat) :
    (Spec.oldEntries scaled first q cs).color i =
      (packetColor scaled i (first, cs)).or (q.color i) := by
  rw [oldEntries_color]
  unfold packetColor Covers
  by_cases h : first ≤ i ∧ i < first + cs.length
  · have h' : i - first < cs.length := by omega
    simp [h, h', entryOf]
  · simp [h]

/-- **the legacy palette, colour index by colour index**: colour `i` is the one written by the
    LAST packet (in chunk order) that covers `i`, and what was there before if none does -/
theorem oldPackets_color (scaled : Bool) (ps : List Packet) : ∀ (skip : Nat) (p : Palette)
    (i : Nat),
    (Spec.oldPackets scaled skip p ps).color i =
      (((packetStarts skip ps).reverse).findSome? (packetColor scaled i)).or (p.color i) := by
  induction ps with
  | nil => intro skip p i; simp [Spec.oldPackets, packetStarts]
  | cons pk t ih =>
      intro skip p i
      obtain ⟨sk, cs⟩ := pk
      rw [Spec.oldPackets, ih, oldEntries_color', packetStarts, List.reverse_cons,
        List.findSome?_append]
      simp [Option.or_assoc]

theorem findSome?_eq_none_of {α β} (f : α → Option β) (l : List α)
    (h : ∀ a ∈ l, f a = none) : l.findSome? f = none := by
  rw [List.findSome?_eq_none_iff]; exact h

/-- no packet covers `i`: the colour is unchanged -/
theorem oldPackets_color_uncovered (scaled : Bool) (ps : List Packet) (skip : Nat) (p : Palette)
    (i : Nat) (h : ∀ sc ∈ packetStarts skip ps, ¬ Covers i sc) :
    (Spec.oldPackets scaled skip p ps).color i = p.color i := by
  rw [oldPackets_color, findSome?_eq_none_of]
  · rfl
  · intro sc hsc
    have := h sc (List.mem_reverse.mp hsc)
    simp [packetColor, this]

/-- the last packet covers `i`: the colour is that packet's triple `i - start` -/
theorem oldPackets_color_last (scaled : Bool) (ps : List Packet) (skip : Nat) (p : Palette)
    (i : Nat) (st : Nat) (cs : List Triple)
    (hl : (packetStarts skip ps).getLast? = some (st, cs)) (h : st ≤ i ∧ i < st + cs.length) :
    (Spec.oldPackets scaled skip p ps).color i =
      some (entryOf scaled i (cs[i - st]'(by omega))) := by
  rw [oldPackets_color]
  obtain ⟨l, hl'⟩ := List.getLast?_eq_some_iff.mp hl
  rw [hl', List.reverse_append, List.reverse_singleton, List.singleton_append,
    List.findSome?_cons, packetColor_covered scaled i (st, cs) h]
  rfl

/-- the defined ids: those defined before and those covered by some packet -/
theorem oldPackets_ids (scaled : Bool) (ps : List Packet) (skip : Nat) (p : Palette) (i : Nat) :
    ((Spec.oldPackets scaled skip p ps).color i).isSome ↔
      (p.color i).isSome ∨ ∃ sc ∈ packetStarts skip ps, Covers i sc := by
  rw [oldPackets_color, Option.isSome_or, Bool.or_eq_true, List.isSome_findSome?]
  simp only [List.any_eq_true, List.mem_reverse, packetColor_eq_some_iff]
  exact Or.comm

/-- **the loaded palette, legacy case, over raw chunk fields**: when the file has no new-format
    palette chunk, the sprite has a palette iff it has a legacy palette chunk, and colour `i` is
    the one written by the last packet of the FIRST legacy chunk that covers `i` (start ids =
    running sums of the skip bytes from 0); ids covered by no packet are undefined -/
theorem loaded_palette_legacy_raw (inflate : Inflate) (m : Profile) (p : Spec.Program)
    (hwf : ProgramWF inflate p) (s : Sprite) (hs : parse inflate m (Spec.encode p) = .ok s)
    (hnew : (programItems p).filterMap newPalRaw? = []) :
    match ((programItems p).filterMap oldPalRaw?).head? with
    | none => s.palette = none
    | some (scaled, ps) => ∃ pal, s.palette = some pal ∧ ∀ i,
        pal.color i = ((packetStarts 0 ps).reverse).findSome? (packetColor scaled i) := by
  have h := loaded_palette_raw inflate m p hwf s hs
  rw [hnew] at h
  simp only [List.getLast?_nil] at h
  cases ho : ((programItems p).filterMap oldPalRaw?).head? with
  | none => rw [ho] at h; exact h
  | some r =>
      obtain ⟨scaled, ps⟩ := r
      rw [ho] at h
      refine ⟨_, h, ?_⟩
      intro i
      rw [oldPackets_color]
      exact Option.or_none

/-! ### non-vacuity: three overlapping packets -/

def c0 : Triple := (10, 11, 12)
def c1 : Triple := (20, 21, 22)
def c2 : Triple := (30, 31, 32)
def c3 : Triple := (40, 41, 42)
def c4 : Triple := (50, 51, 52)

/-- packets at ids 0 (two colours), 0+1 = 1 (two colours), 1+2 = 3 (one colour) -/
def exPackets : List Packet := [(0, [c0, c1]), (1, [c2, c3]), (2, [c4])]

example : packetStarts 0 exPackets = [(0, [c0, c1]), (1, [c2, c3]), (3, [c4])] := by decide

/-- the model itself: ids 0..3 = c0, c2, c3, c4 (c1 is overwritten), id 4 undefined -/
example : (List.range 5).map (Spec.oldPackets false 0 Palette.empty exPackets).color =
    [some (entryOf false 0 c0), some (entryOf false 1 c2), some (entryOf false 2 c3),
     some (entryOf false 3 c4), none] := by decide

/-- … and the characterisation gives the same -/
example : (List.range 5).map
      (fun i => ((packetStarts 0 exPackets).reverse).findSome? (packetColor false i)) =
    [some (entryOf false 0 c0), some (entryOf false 1 c2), some (entryOf false 2 c3),
     some (entryOf false 3 c4), none] := by decide

example : entryOf false 1 c2 = ⟨1, ⟨30, 31, 32, 255⟩, none⟩ := by decide
/-- 6-bit components are scaled: 63 ↦ 255 -/
example : entryOf true 7 (63, 0, 32) = ⟨7, ⟨255, 0, 130, 255⟩, none⟩ := by decide

example (q : Palette) : (Spec.oldPackets false 0 q exPackets).color 9 = q.color 9 :=
  oldPackets_color_uncovered false exPackets 0 q 9 (by decide)

example (q : Palette) :
    (Spec.oldPackets false 0 q exPackets).color 3 = some (entryOf false 3 c4) :=
  oldPackets_color_last false exPackets 0 q 3 3 [c4] (by decide) (by decide)

example : ((Spec.oldPackets false 0 Palette.empty exPackets).color 2).isSome := by
  rw [oldPackets_ids]; exact Or.inr ⟨(1, [c2, c3]), by decide, by decide⟩

/-! ### non-vacuity at file level: a program whose only palette chunk is that legacy chunk -/

def legacyProgram : Spec.Program :=
  { tinyProgram with
    frames := [{ duration := 100, oldCountOnly := false, oldField := 0, ph := 0, slack := 0,
                 chunks := [
                   ⟨.layer ⟨3, 0, 0, 0, 0, 0, 255, 0, 0, [76, 49], 0⟩, []⟩,
                   ⟨.oldPalette false exPackets, []⟩,
                   ⟨.oldPalette false [(0, [(9, 9, 9)])], []⟩,
                   ⟨.cel ⟨0, 0, 0, 255, zeros 7, .image 1 1 [10, 20, 30, 255] none⟩, [7]⟩] }] }

theorem legacyProgram_wf (inflate : Inflate) : ProgramWF inflate legacyProgram := by
  refine ⟨by decide, by decide, by decide, by decide, ?_⟩
  intro f hf
  simp only [legacyProgram, List.mem_singleton] at hf
  subst hf
  refine ⟨by decide, by decide +kernel, ?_⟩
  intro c hc
  simp only [List.mem_cons, List.not_mem_nil, or_false] at hc
  rcases hc with rfl | rfl | rfl | rfl
  · exact ⟨by decide, by decide, by decide, by decide, by decide⟩
  · refine ⟨by decide, by decide, ?_⟩
    intro pk hpk
    simp only [exPackets, List.mem_cons, List.not_mem_nil, or_false] at hpk
    rcases hpk with rfl | rfl | rfl <;> exact ⟨by decide, by decide, fun c _ h => by cases h⟩
  · refine ⟨by decide, by decide, ?_⟩
    intro pk hpk
    simp only [List.mem_singleton] at hpk
    subst hpk
    exact ⟨by decide, by decide, fun c _ h => by cases h⟩
  · exact ⟨by decide, by decide, rfl⟩

theorem legacyProgram_loads (inflate : Inflate) (m : Profile) :
    (parse inflate m (Spec.encode legacyProgram)).isOk = true := by
  rw [decode_encode inflate m legacyProgram (legacyProgram_wf inflate)]
  obtain ⟨a, b⟩ := m
  cases a <;> cases b <;> decide +kernel

/-- the FIRST legacy chunk decides; ids 0..3 = c0, c2, c3, c4, id 4 undefined -/
example (inflate : Inflate) (m : Profile) (s : Sprite)
    (hs : parse inflate m (Spec.encode legacyProgram) = .ok s) :
    ∃ pal, s.palette = some pal ∧ pal.color 0 = some (entryOf false 0 c0) ∧
      pal.color 1 = some (entryOf false 1 c2) ∧ pal.color 2 = some (entryOf false 2 c3) ∧
      pal.color 3 = some (entryOf false 3 c4) ∧ pal.color 4 = none := by
  have h := loaded_palette_legacy_raw inflate m legacyProgram (legacyProgram_wf inflate) s hs rfl
  have e : ((programItems legacyProgram).filterMap oldPalRaw?).head? = some (false, exPackets) :=
    rfl
  rw [e] at h
  obtain ⟨pal, h1, h2⟩ := h
  refine ⟨pal, h1, ?_, ?_, ?_, ?_, ?_⟩ <;> rw [h2] <;> decide

end Ase.Proofs.C11
