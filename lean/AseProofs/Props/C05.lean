import AseProofs.Lemmas.ValidParse
import AseProofs.Lemmas.ValidRender
import AseProofs.Props.C08
/-
  C05  A sprite that loads is fully usable: no accessor can fail afterwards.

  * `Valid s` (`Lemmas/Valid.lean`): the invariant of a loaded sprite.
  * `parse_valid` (`Lemmas/ValidParse.lean`): `parse inflate m bs = .ok s → Valid s`, for every
    byte string, every `inflate` parameter (no hypothesis: `unzip` checks the inflated length)
    and both build profiles.
  * this file: under `Valid s` every accessor of the public API returns `.ok` — never a panic,
    never an error — for all in-range arguments, and images have the documented dimensions.

  The only hypothesis besides `Valid` is `FloatTotal ops m` for the two rendering entry points:
  the blend function never fails.  It is a theorem for the release profile
  (`floatTotal_release`), and for the 14 integer modes in both profiles (`C17.int_modes_total`);
  for the five floating-point modes in the checked profile it is a property of the
  floating-point parameter `ops` (range `debug_assert!`s of `from_rgba_i32`).
  `frameImage_ok_of_layers` / `celImage_ok_of_layers` only ask for the modes the sprite's own
  layers use (`LayersTotal`); `frameImage_ok_int` / `celImage_ok_int` therefore need no blend
  hypothesis at all, in both profiles, when all layers use integer modes.
  `loaded_sprite_usable` bundles everything for the release profile, starting from `parse`.
-/
namespace Ase.Proofs.C05
open Ase

/-! ### layers and cels -/

/-- `Layer::is_visible` returns for every layer -/
theorem isVisible_ok (s : Sprite) (hv : Valid s) (i : Nat) (hi : i < s.numLayers) :
    ∃ b, s.isVisible i = .ok b := by
  obtain ⟨b, hb, _⟩ := C09.isVisible_iff s hv.parents_size hv.parents_lt i hi
  exact ⟨b, hb⟩

/-- `cel(frame, layer)` returns for every frame below `num_frames` and every layer index
    (an absent cel is `none`) -/
theorem cel_ok (s : Sprite) (hv : Valid s) (f l : Nat) (hf : f < s.numFrames.toNat) :
    ∃ c, s.cel f l = .ok c := by
  have hlt : f < s.cels.size := by rw [hv.cels_size]; exact hf
  have hsome : s.cels[f]? = some s.cels[f] := by simp [hlt]
  exact ⟨FrameCels.get? l s.cels[f], by simp only [Sprite.cel, hsome]⟩

/-- the row of an existing frame -/
theorem row_of_frame (s : Sprite) (hv : Valid s) (f : Nat) (hf : f < s.numFrames.toNat) :
    ∃ row, s.cels[f]? = some row ∧ row ∈ s.cels := by
  have hlt : f < s.cels.size := by rw [hv.cels_size]; exact hf
  exact ⟨s.cels[f], by simp [hlt], Array.getElem_mem hlt⟩

/-- a cel that `cel` returns satisfies the cel invariant under its layer index -/
theorem cel_some_ok (s : Sprite) (hv : Valid s) (f l : Nat) (c : RawCel Pixels)
    (h : s.cel f l = .ok (some c)) :
    CelOk s.layers s.tilesets s.palette s.numFrames.toNat s.cels l c := by
  unfold Sprite.cel at h
  split at h
  · cases h
  · rename_i row hrow
    simp only [Res.ok.injEq] at h
    exact hv.cel_ok row (Array.mem_of_getElem? hrow) (l, c) (mem_of_frameGet? h)

/-! ### rendering -/

section render
variable {F : Type} (ops : FOps F) (m : Profile)

theorem writeCelDirect_ok (s : Sprite) (hT : LayersTotal ops m s) (hv : Valid s) (img : Image)
    (k : Nat) (c : RawCel Pixels)
    (hc : CelOk s.layers s.tilesets s.palette s.numFrames.toNat s.cels k c)
    (hnl : ∀ f, c.content ≠ .linked f) :
    ∃ img', s.writeCelDirect ops m img c = .ok img' := by
  obtain ⟨hk, hlt, hcont⟩ := hc
  have hl : s.layers[c.data.layerIndex.toNat]? = some s.layers[k] := by rw [hk]; simp [hlt]
  have hmode : ModeTotal ops m s.layers[k].blendMode := hT s.layers[k] (Array.getElem_mem hlt)
  unfold Sprite.writeCelDirect
  simp only [hl]
  split
  · -- raw
    rename_i w h px hcc
    rw [hcc] at hcont
    obtain ⟨hsz, hok⟩ := hcont
    obtain ⟨rgba, hr, hrs⟩ := pixelsToRgba_ok s.palette px hok
    simp only [hr]
    exact writeRawCel_ok ops m img c.data w h rgba _ hmode _ (by rw [hrs, hsz])
  · -- tilemap
    rename_i t hcc
    rw [hcc] at hcont
    obtain ⟨ld, tsid, ts, hld, hlt', hts, hsz, hid⟩ := hcont
    have hld' : s.layers[k] = ld := by
      have : s.layers[k]? = some s.layers[k] := by simp [hlt]
      rw [this] at hld
      exact Option.some.inj hld
    rw [hld'] at hmode ⊢
    simp only [hlt', Sprite.tileset?, hts]
    obtain ⟨_, _, px, hpx, hpsz, hpok⟩ := hv.tileset_ok (tsid.toNat, ts) (mem_of_assocGet? hts)
    simp only at hpx hpsz
    obtain ⟨rgba, hr, hrs⟩ := pixelsToRgba_ok s.palette px hpok
    simp only [hpx, hr]
    exact writeTilemapCel_ok ops m img c.data t ts rgba _ hmode _ hsz (by rw [hrs, hpsz]) hid
  · -- linked: excluded
    rename_i f hcc
    exact absurd hcc (hnl f)

/-- `write_cel` never fails on a cel of a valid sprite: raw, tilemap or linked -/
theorem writeCel_ok (s : Sprite) (hT : LayersTotal ops m s) (hv : Valid s) (img : Image)
    (k : Nat) (c : RawCel Pixels)
    (hc : CelOk s.layers s.tilesets s.palette s.numFrames.toNat s.cels k c) :
    ∃ img', s.writeCel ops m img c = .ok img' := by
  unfold Sprite.writeCel
  split
  · rename_i f hcc
    obtain ⟨hk, hlt, hcont⟩ := hc
    rw [hcc] at hcont
    obtain ⟨hf, row, t, hrow, hget, hraw⟩ := hcont
    have hl : s.layers[c.data.layerIndex.toNat]? = some s.layers[k] := by rw [hk]; simp [hlt]
    have hcel : s.cel f.toNat c.data.layerIndex.toNat = .ok (some t) := by
      simp only [Sprite.cel, hrow, hk, hget]
    simp only [hl, hcel]
    refine writeCelDirect_ok ops m s hT hv img k t
      (hv.cel_ok row (Array.mem_of_getElem? hrow) (k, t) (mem_of_frameGet? hget)) ?_
    intro f' hf'
    rw [hf'] at hraw
    cases hraw
  · rename_i hnl
    exact writeCelDirect_ok ops m s hT hv img k c hc (fun f hf => hnl f hf)

theorem frameImageLoop_ok (s : Sprite) (hT : LayersTotal ops m s) (hv : Valid s) :
    ∀ (row : FrameCels Pixels) (img : Image),
      (∀ p ∈ row, CelOk s.layers s.tilesets s.palette s.numFrames.toNat s.cels p.1 p.2) →
      ∃ img', s.frameImageLoop ops m row img = .ok img' := by
  intro row
  induction row with
  | nil => intro img _; exact ⟨img, rfl⟩
  | cons hd tl ih =>
      intro img hall
      obtain ⟨k, c⟩ := hd
      have hc := hall (k, c) List.mem_cons_self
      have htl : ∀ p ∈ tl, CelOk s.layers s.tilesets s.palette s.numFrames.toNat s.cels p.1 p.2 :=
        fun p hp => hall p (List.mem_cons_of_mem _ hp)
      have hk : k < s.numLayers := hc.2.1
      unfold Sprite.frameImageLoop
      have hnot : ¬ (k ≥ s.numLayers) := by omega
      simp only [hnot, if_false]
      obtain ⟨b, hb⟩ := isVisible_ok s hv k hk
      cases b with
      | false =>
          simp only [hb]
          exact ih img htl
      | true =>
          obtain ⟨img1, himg1⟩ := writeCel_ok ops m s hT hv img k c hc
          simp only [hb, himg1]
          exact ih img1 htl

/-- `Frame::image`, general form: the blend modes of the sprite's own layers never fail -/
theorem frameImage_ok_of_layers (s : Sprite) (hT : LayersTotal ops m s) (hv : Valid s) (f : Nat)
    (hf : f < s.numFrames.toNat) :
    ∃ img, s.frameImage ops m f = .ok img ∧ img.w = s.width.toNat ∧ img.h = s.height.toNat := by
  obtain ⟨row, hrow, hmem⟩ := row_of_frame s hv f hf
  obtain ⟨img, himg⟩ := frameImageLoop_ok ops m s hT hv row s.canvas (hv.cel_ok row hmem)
  have hfi : s.frameImage ops m f = .ok img := by
    simp only [Sprite.frameImage, hrow]; exact himg
  obtain ⟨h1, h2, _⟩ := frameImage_dims ops m s f img hfi
  exact ⟨img, hfi, h1, h2⟩

/-- `Cel::image`, general form; any layer index is allowed (an absent cel gives the empty
    canvas), in particular every `l < s.numLayers` -/
theorem celImage_ok_of_layers (s : Sprite) (hT : LayersTotal ops m s) (hv : Valid s) (f l : Nat)
    (hf : f < s.numFrames.toNat) :
    ∃ img, s.celImage ops m f l = .ok img ∧ img.w = s.width.toNat ∧ img.h = s.height.toNat := by
  obtain ⟨oc, hoc⟩ := cel_ok s hv f l hf
  have hex : ∃ img, s.celImage ops m f l = .ok img := by
    unfold Sprite.celImage
    cases oc with
    | none => simp only [hoc]; exact ⟨_, rfl⟩
    | some c =>
        simp only [hoc]
        exact writeCel_ok ops m s hT hv s.canvas l c (cel_some_ok s hv f l c hoc)
  obtain ⟨img, himg⟩ := hex
  obtain ⟨h1, h2, _⟩ := celImage_dims ops m s f l img himg
  exact ⟨img, himg, h1, h2⟩

/-- **`Frame::image`** never fails on a loaded sprite and has the canvas dimensions -/
theorem frameImage_ok (hT : FloatTotal ops m) (s : Sprite) (hv : Valid s) (f : Nat)
    (hf : f < s.numFrames.toNat) :
    ∃ img, s.frameImage ops m f = .ok img ∧ img.w = s.width.toNat ∧ img.h = s.height.toNat :=
  frameImage_ok_of_layers ops m s (hT.layers s) hv f hf

/-- **`Cel::image`** never fails on a loaded sprite and has the canvas dimensions.  The
    hypothesis `l < s.numLayers` of the API is not even needed: an absent cel gives the empty
    canvas. -/
theorem celImage_ok (hT : FloatTotal ops m) (s : Sprite) (hv : Valid s) (f l : Nat)
    (hf : f < s.numFrames.toNat) (_hl : l < s.numLayers) :
    ∃ img, s.celImage ops m f l = .ok img ∧ img.w = s.width.toNat ∧ img.h = s.height.toNat :=
  celImage_ok_of_layers ops m s (hT.layers s) hv f l hf

/-- sprites whose layers only use the 14 integer blend modes render without any hypothesis on
    the floating-point parameter, in BOTH build profiles -/
theorem frameImage_ok_int (s : Sprite) (hv : Valid s)
    (hint : ∀ ld ∈ s.layers, C17.intMode ld.blendMode = true) (f : Nat)
    (hf : f < s.numFrames.toNat) :
    ∃ img, s.frameImage ops m f = .ok img ∧ img.w = s.width.toNat ∧ img.h = s.height.toNat :=
  frameImage_ok_of_layers ops m s (layersTotal_of_int ops m s hint) hv f hf

theorem celImage_ok_int (s : Sprite) (hv : Valid s)
    (hint : ∀ ld ∈ s.layers, C17.intMode ld.blendMode = true) (f l : Nat)
    (hf : f < s.numFrames.toNat) :
    ∃ img, s.celImage ops m f l = .ok img ∧ img.w = s.width.toNat ∧ img.h = s.height.toNat :=
  celImage_ok_of_layers ops m s (layersTotal_of_int ops m s hint) hv f l hf

end render

/-! ### tilemaps -/

/-- the logical size of a tilemap view never exceeds the canvas size -/
theorem ceil_le (W t : Nat) (ht : 1 ≤ t) : (W + t - 1) / t ≤ W := by
  cases W with
  | zero =>
      have : (0 + t - 1) / t = 0 := Nat.div_eq_of_lt (by omega)
      omega
  | succ b =>
      apply Nat.div_le_of_le_mul
      obtain ⟨a, rfl⟩ : ∃ a, t = a + 1 := ⟨t - 1, by omega⟩
      rw [Nat.succ_mul, Nat.mul_succ]
      omega

/-- what a tilemap view that `tilemap` returns is made of -/
theorem tilemap_inv (s : Sprite) (l f : Nat) (v : TilemapView) (h : s.tilemap l f = .ok (some v)) :
    ∃ ld tsid, s.layers[l]? = some ld ∧ ld.layerType = .tilemap tsid ∧
      assocGet? tsid.toNat s.tilesets = some v.tileset ∧
      s.cel f l = .ok (some v.cel) ∧ v.cel.content = .tilemap v.data := by
  unfold Sprite.tilemap at h
  split at h
  · cases h
  · split at h
    · cases h
    · rename_i ld hld
      split at h
      · rename_i tsid htsid
        split at h
        · cases h
        · rename_i ts hts
          split at h
          · rename_i c hc
            split at h
            · rename_i t ht
              dsimp only at h
              split at h
              · cases h
              · split at h
                · simp only [Res.ok.injEq, Option.some.injEq] at h
                  subst h
                  exact ⟨ld, tsid, hld, htsid, hts, hc, ht⟩
                · cases h
            · cases h
          · cases h
          · cases h
          · cases h
      · cases h

/-- **`tilemap(layer, frame)`** returns for all arguments (out-of-range ones give `none`) -/
theorem tilemap_ok (s : Sprite) (hv : Valid s) (l f : Nat) : ∃ r, s.tilemap l f = .ok r := by
  unfold Sprite.tilemap
  split
  · exact ⟨_, rfl⟩
  · rename_i hrange
    simp only [Bool.or_eq_true, decide_eq_true_eq, not_or, Nat.not_le, ge_iff_le] at hrange
    obtain ⟨hl, hf⟩ := hrange
    have hl' : l < s.layers.size := hl
    have hsome : s.layers[l]? = some s.layers[l] := Array.getElem?_eq_getElem hl'
    simp only [hsome]
    split
    · rename_i tsid htsid
      split
      · exact ⟨_, rfl⟩
      · rename_i ts hts
        obtain ⟨oc, hoc⟩ := cel_ok s hv f l hf
        simp only [hoc]
        cases oc with
        | none => exact ⟨_, rfl⟩
        | some c =>
            simp only
            split
            · rename_i t ht
              obtain ⟨hw, hh, _⟩ := hv.tileset_ok (tsid.toNat, ts) (mem_of_assocGet? hts)
              simp only at hw hh
              have hz : (ts.tileW.toNat == 0 || ts.tileH.toNat == 0) = false := by
                simp only [Bool.or_eq_false_iff, beq_eq_false_iff_ne]
                omega
              simp only [hz, Bool.false_eq_true, if_false]
              have hwlt : (s.width.toNat + ts.tileW.toNat - 1) / ts.tileW.toNat < 65536 := by
                have := ceil_le s.width.toNat ts.tileW.toNat hw
                have := s.width.toNat_lt
                omega
              have hhlt : (s.height.toNat + ts.tileH.toNat - 1) / ts.tileH.toNat < 65536 := by
                have := ceil_le s.height.toNat ts.tileH.toNat hh
                have := s.height.toNat_lt
                omega
              simp only [hwlt, hhlt, decide_true, Bool.and_self, if_true]
              exact ⟨_, rfl⟩
            · exact ⟨_, rfl⟩
    · exact ⟨_, rfl⟩

/-- the tileset of a returned view has a non-zero tile size, and the view holds exactly
    `width * height` tiles -/
theorem tilemap_view_ok (s : Sprite) (hv : Valid s) (l f : Nat) (v : TilemapView)
    (h : s.tilemap l f = .ok (some v)) :
    1 ≤ v.tileset.tileW.toNat ∧ 1 ≤ v.tileset.tileH.toNat ∧
    v.data.tiles.size = v.data.width.toNat * v.data.height.toNat := by
  obtain ⟨ld, tsid, _, _, hts, hcel, hcont⟩ := tilemap_inv s l f v h
  obtain ⟨hw, hh, _⟩ := hv.tileset_ok (tsid.toNat, v.tileset) (mem_of_assocGet? hts)
  obtain ⟨_, _, hc⟩ := cel_some_ok s hv f l v.cel hcel
  rw [hcont] at hc
  obtain ⟨_, _, _, _, _, _, hsz, _⟩ := hc
  exact ⟨hw, hh, hsz⟩

/-- **`Tilemap::tile_offsets`** never fails on a view of a loaded sprite -/
theorem tileOffsets_ok (s : Sprite) (hv : Valid s) (l f : Nat) (v : TilemapView)
    (h : s.tilemap l f = .ok (some v)) : ∃ o, v.tileOffsets = .ok o := by
  obtain ⟨hw, hh, _⟩ := tilemap_view_ok s hv l f v h
  exact ⟨_, C08.tile_offsets v (by omega) (by omega)⟩

/-- **`Tilemap::tile(x, y)`** never fails, for ALL coordinates -/
theorem tile_ok (s : Sprite) (hv : Valid s) (l f : Nat) (v : TilemapView)
    (h : s.tilemap l f = .ok (some v)) (x y : Nat) : ∃ id, v.tile x y = .ok id := by
  obtain ⟨hw, hh, hsz⟩ := tilemap_view_ok s hv l f v h
  unfold TilemapView.tile
  rw [C08.tile_offsets v (by omega) (by omega)]
  dsimp only
  split
  · exact ⟨_, rfl⟩
  · rename_i hin
    simp only [Bool.or_eq_true, decide_eq_true_eq, not_or, Int.not_lt, ge_iff_le] at hin
    obtain ⟨⟨⟨hx0, hy0⟩, hxw⟩, hyh⟩ := hin
    generalize (x : Int) - Int.tdiv v.cel.data.x.toInt (v.tileset.tileW.toNat : Int) = x' at *
    generalize (y : Int) - Int.tdiv v.cel.data.y.toInt (v.tileset.tileH.toNat : Int) = y' at *
    have hidx : y'.toNat * v.data.width.toNat + x'.toNat < v.data.tiles.size := by
      rw [hsz]
      exact idx_lt (by omega) (by omega)
    have hsome : v.data.tiles[y'.toNat * v.data.width.toNat + x'.toNat]?
        = some v.data.tiles[y'.toNat * v.data.width.toNat + x'.toNat] := by simp [hidx]
    simp only [hsome]
    exact ⟨_, rfl⟩

/-! ### tileset images -/

/-- **`Tileset::tile_image(i)`** never fails for `i < tile_count`; the image has the tile size -/
theorem tileImage_ok (s : Sprite) (hv : Valid s) (p : Nat × Tileset Pixels) (hp : p ∈ s.tilesets)
    (i : Nat) (hi : i < p.2.tileCount.toNat) :
    ∃ img, p.2.tileImage s.palette i = .ok img ∧
      img.w = p.2.tileW.toNat ∧ img.h = p.2.tileH.toNat := by
  obtain ⟨_, _, px, hpx, hpsz, hpok⟩ := hv.tileset_ok p hp
  obtain ⟨rgba, hr, hrs⟩ := pixelsToRgba_ok s.palette px hpok
  have hex : ∃ img, p.2.tileImage s.palette i = .ok img := by
    unfold Tileset.tileImage
    have hnot : ¬ (i ≥ p.2.tileCount.toNat) := by omega
    simp only [hnot, if_false, hpx, hr]
    unfold Image.fromRaw
    have hwin := tile_window (ppt := p.2.tileW.toNat * p.2.tileH.toNat) hi
    have e : p.2.tileCount.toNat * p.2.tileW.toNat * p.2.tileH.toNat
        = p.2.tileW.toNat * p.2.tileH.toNat * p.2.tileCount.toNat := by
      rw [Nat.mul_assoc, Nat.mul_comm]
    have hsz : ¬ ((rgba.extract (i * (p.2.tileW.toNat * p.2.tileH.toNat))
        (i * (p.2.tileW.toNat * p.2.tileH.toNat) + p.2.tileW.toNat * p.2.tileH.toNat)).size
        < p.2.tileW.toNat * p.2.tileH.toNat) := by
      simp only [Array.size_extract, hrs, hpsz, e]
      rw [Nat.mul_comm i]
      omega
    simp only [hsz, if_false]
    exact ⟨_, rfl⟩
  obtain ⟨img, himg⟩ := hex
  obtain ⟨h1, h2, _⟩ := C08.tileImage_spec s.palette p.2 i img himg
  exact ⟨img, himg, h1, h2⟩

/-- **`Tileset::image()`** never fails when the `u32` product `tile_height * tile_count` of
    its implementation does not overflow (explicit hypothesis); the image is `tile width` wide
    and `tile height * tile count` high -/
theorem tilesetImage_ok (m : Profile) (s : Sprite) (hv : Valid s) (p : Nat × Tileset Pixels)
    (hp : p ∈ s.tilesets) (hfit : p.2.tileH.toNat * p.2.tileCount.toNat < 2 ^ 32) :
    ∃ img, p.2.image m s.palette = .ok img ∧
      img.w = p.2.tileW.toNat ∧ img.h = p.2.tileH.toNat * p.2.tileCount.toNat := by
  obtain ⟨_, _, px, hpx, hpsz, hpok⟩ := hv.tileset_ok p hp
  obtain ⟨rgba, hr, hrs⟩ := pixelsToRgba_ok s.palette px hpok
  have hfit' : p.2.tileH.toNat * p.2.tileCount.toNat < 4294967296 := hfit
  have hex : ∃ img, p.2.image m s.palette = .ok img := by
    unfold Tileset.image
    simp only [u32Mul, hfit', if_true, hpx, hr]
    unfold Image.fromRaw
    have e : p.2.tileCount.toNat * p.2.tileW.toNat * p.2.tileH.toNat
        = p.2.tileW.toNat * (p.2.tileH.toNat * p.2.tileCount.toNat) := by
      rw [Nat.mul_assoc, Nat.mul_comm, Nat.mul_assoc]
    have hsz : ¬ (rgba.size < p.2.tileW.toNat * (p.2.tileH.toNat * p.2.tileCount.toNat)) := by
      rw [hrs, hpsz, e]; omega
    simp only [hsz, if_false]
    exact ⟨_, rfl⟩
  obtain ⟨img, himg⟩ := hex
  obtain ⟨h1, h2, _⟩ := C08.tilesetImage_spec m s.palette p.2 img himg hfit'
  exact ⟨img, himg, h1, h2⟩

/-- the tileset a tilemap layer names exists (so `tileset_by_id(..).unwrap()` style lookups
    on a tilemap layer's id succeed) -/
theorem layer_tileset_ok (s : Sprite) (hv : Valid s) (l : Nat) (ld : LayerData) (tsid : UInt32)
    (hl : s.layers[l]? = some ld) (ht : ld.layerType = .tilemap tsid) :
    ∃ ts, s.tileset? tsid.toNat = some ts ∧ TilesetOk s.palette ts := by
  have := hv.layer_tileset ld (Array.mem_of_getElem? hl) tsid ht
  obtain ⟨ts, hts⟩ := Option.isSome_iff_exists.mp this
  exact ⟨ts, hts, hv.tileset_ok (tsid.toNat, ts) (mem_of_assocGet? hts)⟩

/-! ### the blend hypothesis holds in the release profile -/

section blend
open Blend
variable {F : Type} (ops : FOps F)

theorem fromRgbaI32_release (r g b a : Int) :
    fromRgbaI32 Profile.release r g b a = .ok ⟨asU8 r, asU8 g, asU8 b, asU8 a⟩ := by
  simp [fromRgbaI32, Profile.release]

theorem baseline_gt18 (m : Profile) (mode : Nat) (h : 18 < mode) :
    baseline ops m mode = blendChannel m chDivide := by
  unfold baseline
  split <;> first | omega | rfl

/-- in the release profile (no `debug_assert!`s) the blend function never fails, for every
    stored mode value, every backdrop, source and opacity and every floating-point parameter -/
theorem floatTotal_release : FloatTotal ops Profile.release := by
  intro mode b s o
  by_cases hint : C17.intMode mode = true
  · exact C17.int_modes_total ops _ mode hint b s o
  · obtain ⟨rn, hn⟩ := C17.normal_total Profile.release b s o
    have hbase : ∃ bl, baseline ops Profile.release mode b s o = .ok bl := by
      have hcases : mode = 9 ∨ mode = 12 ∨ mode = 13 ∨ mode = 14 ∨ mode = 15 ∨ 18 < mode := by
        simp [C17.intMode] at hint
        omega
      rcases hcases with h | h | h | h | h | h
      · subst h
        simp only [baseline, softLightBase, fromRgbaI32_release, Res.bind_ok]
        exact C17.normal_total _ _ _ _
      · subst h
        simp only [baseline, hueBase, fromRgbF, fromRgbaI32_release, Res.bind_ok]
        exact C17.normal_total _ _ _ _
      · subst h
        simp only [baseline, saturationBase, fromRgbF, fromRgbaI32_release, Res.bind_ok]
        exact C17.normal_total _ _ _ _
      · subst h
        simp only [baseline, colorBase, fromRgbF, fromRgbaI32_release, Res.bind_ok]
        exact C17.normal_total _ _ _ _
      · subst h
        simp only [baseline, luminosityBase, fromRgbF, fromRgbaI32_release, Res.bind_ok]
        exact C17.normal_total _ _ _ _
      · rw [baseline_gt18 ops _ mode h]
        obtain ⟨r1, h1⟩ := C17.chan_total (ch b.r) (ch s.r) (ch_nonneg _) (ch_le _) (ch_nonneg _)
          (ch_le _) chDivide (by simp)
        obtain ⟨r2, h2⟩ := C17.chan_total (ch b.g) (ch s.g) (ch_nonneg _) (ch_le _) (ch_nonneg _)
          (ch_le _) chDivide (by simp)
        obtain ⟨r3, h3⟩ := C17.chan_total (ch b.b) (ch s.b) (ch_nonneg _) (ch_le _) (ch_nonneg _)
          (ch_le _) chDivide (by simp)
        obtain ⟨r, hr⟩ := C17.normal_total Profile.release b ⟨r1, r2, r3, s.a⟩ o
        exact ⟨r, by simp [blendChannel, h1, h2, h3, hr]⟩
    obtain ⟨bl, hbl⟩ := hbase
    have h0 : (mode == 0) = false := by
      cases hm : mode == 0
      · rfl
      · simp only [beq_iff_eq] at hm
        subst hm
        exact absurd (by decide) hint
    unfold blend
    simp only [h0, Bool.false_eq_true, if_false]
    unfold blender
    split
    · exact ⟨merge (merge rn bl b.a) bl (mulUn8 (ch b.a) (ch (mulUn8 (ch s.a) (ch o)))),
        by simp [hn, hbl]⟩
    · exact ⟨rn, hn⟩

end blend

/-! ### headline -/

/-- **C05**: a byte string that loads yields a sprite on which every accessor succeeds.
    (Release profile, so that no hypothesis on the floating-point parameter is left.) -/
theorem loaded_sprite_usable {F : Type} (ops : FOps F) (inflate : Inflate) (bs : Bytes)
    (s : Sprite) (h : parse inflate Profile.release bs = .ok s) :
    (∀ i, i < s.numLayers → ∃ b, s.isVisible i = .ok b) ∧
    (∀ f l, f < s.numFrames.toNat → ∃ c, s.cel f l = .ok c) ∧
    (∀ f, f < s.numFrames.toNat → ∃ img, s.frameImage ops Profile.release f = .ok img ∧
        img.w = s.width.toNat ∧ img.h = s.height.toNat) ∧
    (∀ f l, f < s.numFrames.toNat → l < s.numLayers →
        ∃ img, s.celImage ops Profile.release f l = .ok img ∧
        img.w = s.width.toNat ∧ img.h = s.height.toNat) ∧
    (∀ l f, ∃ r, s.tilemap l f = .ok r) ∧
    (∀ l f v, s.tilemap l f = .ok (some v) →
        (∃ o, v.tileOffsets = .ok o) ∧ ∀ x y, ∃ id, v.tile x y = .ok id) ∧
    (∀ p ∈ s.tilesets, ∀ i, i < p.2.tileCount.toNat →
        ∃ img, p.2.tileImage s.palette i = .ok img ∧
          img.w = p.2.tileW.toNat ∧ img.h = p.2.tileH.toNat) ∧
    (∀ p ∈ s.tilesets, p.2.tileH.toNat * p.2.tileCount.toNat < 2 ^ 32 →
        ∃ img, p.2.image Profile.release s.palette = .ok img ∧
          img.w = p.2.tileW.toNat ∧ img.h = p.2.tileH.toNat * p.2.tileCount.toNat) := by
  have hv := parse_valid inflate Profile.release bs s h
  have hT := floatTotal_release ops
  exact ⟨isVisible_ok s hv, cel_ok s hv, frameImage_ok ops _ hT s hv, celImage_ok ops _ hT s hv,
    tilemap_ok s hv,
    fun l f v hvw => ⟨tileOffsets_ok s hv l f v hvw, tile_ok s hv l f v hvw⟩,
    fun p hp i hi => tileImage_ok s hv p hp i hi,
    fun p hp hfit => tilesetImage_ok _ s hv p hp hfit⟩

/-! ### non-vacuity -/

section examples

/-- a two-frame RGBA file: one visible layer, a raw 1×1 cel in frame 0, a cel linked to it in
    frame 1 -/
def demoFile : Bytes :=
  ([0,0,0,0, 0xE0,0xA5, 2,0, 1,0, 1,0, 32,0, 0,0,0,0, 100,0, 0,0,0,0, 0,0,0,0, 0, 0,0,0, 0,0,
    1, 1, 0,0, 0,0, 0,0, 0,0] ++ List.replicate 84 0)
  ++ [70,0,0,0, 0xFA,0xF1, 2,0, 100,0, 0,0, 0,0,0,0]
  ++ [24,0,0,0, 0x04,0x20, 1,0, 0,0, 0,0, 0,0, 0,0, 0,0, 255, 0, 0,0, 0,0]
  ++ [30,0,0,0, 0x05,0x20, 0,0, 0,0, 0,0, 255, 0,0, 0,0,0,0,0,0,0, 1,0, 1,0, 10,20,30,255]
  ++ [40,0,0,0, 0xFA,0xF1, 1,0, 100,0, 0,0, 0,0,0,0]
  ++ [24,0,0,0, 0x05,0x20, 0,0, 0,0, 0,0, 255, 1,0, 0,0,0,0,0,0,0, 0,0]

def demoCheck : Res Sprite → Bool
  | .ok s => s.numFrames.toNat == 2 && s.layers.size == 1 &&
      s.layers.all (fun l => C17.intMode l.blendMode)
  | _ => false

theorem demo_loads :
    demoCheck (parse (fun _ => .err .invalid) Profile.checked demoFile) = true := by
  decide +kernel

/-- the hypothesis of `parse_valid` is satisfiable by a file with a raw and a linked cel, and
    the accessors then succeed on it (checked profile; the only layer uses Normal mode, so no
    hypothesis on the floating-point parameter is left) -/
example {F : Type} (ops : FOps F) :
    ∃ s, parse (fun _ => .err .invalid) Profile.checked demoFile = .ok s ∧ Valid s ∧
      s.numFrames.toNat = 2 ∧ s.numLayers = 1 ∧
      (∃ b, s.isVisible 0 = .ok b) ∧ (∃ c, s.cel 1 0 = .ok c) ∧
      (∃ r, s.tilemap 0 1 = .ok r) ∧
      (∃ img, s.frameImage ops Profile.checked 1 = .ok img ∧
        img.w = s.width.toNat ∧ img.h = s.height.toNat) := by
  have h := demo_loads
  cases hp : parse (fun _ => .err .invalid) Profile.checked demoFile with
  | err e => rw [hp] at h; cases h
  | panic q => rw [hp] at h; cases h
  | ok s =>
      rw [hp] at h
      simp only [demoCheck, Bool.and_eq_true, beq_iff_eq, Array.all_eq_true_iff_forall_mem] at h
      obtain ⟨⟨h1, h2⟩, h3⟩ := h
      have hv := parse_valid _ _ _ s hp
      exact ⟨s, rfl, hv, h1, h2, isVisible_ok s hv 0 (by rw [Sprite.numLayers, h2]; omega),
        cel_ok s hv 1 0 (by omega), tilemap_ok s hv 0 1,
        frameImage_ok_int ops _ s hv h3 1 (by omega)⟩

/-- a hand-built sprite with a tilemap layer, a tileset of two 1×2 tiles and a 2×1 tilemap cel -/
def demoTM : Sprite :=
  { width := 2, height := 2, numFrames := 1, format := .rgba, palette := none,
    layers := #[{ flags := 1, name := [], blendMode := 0, opacity := 255,
                  layerType := .tilemap 7, childLevel := 0, userData := none }],
    parents := #[none], frameTimes := #[100], tags := #[],
    cels := #[[(0, { data := ⟨0, 0, 0, 255⟩,
                     content := .tilemap { width := 2, height := 1, tiles := #[1, 0],
                                           mask := ⟨0x1fffffff, 0, 0, 0⟩ },
                     userData := none })]],
    extFiles := [],
    tilesets := [(7, { id := 7, emptyTileIsZero := true, tileCount := 2, tileW := 1, tileH := 2,
                       baseIndex := 1, name := [], extFile := none,
                       pixels := some (.rgba #[⟨0,0,0,0⟩, ⟨0,0,0,0⟩, ⟨1,2,3,255⟩, ⟨4,5,6,255⟩]) })],
    spriteUserData := none, slices := #[] }

/-- `Valid` is satisfiable by a sprite with a tilemap cel -/
theorem demoTM_valid : Valid demoTM := by
  refine ⟨rfl, ?_, rfl, ?_, ?_, ?_⟩
  · intro i p h
    cases i with
    | zero => simp [demoTM] at h
    | succ i => simp [demoTM] at h
  · intro row hrow p hp
    simp only [demoTM, List.mem_toArray, List.mem_singleton] at hrow
    subst hrow
    simp only [List.mem_singleton] at hp
    subst hp
    refine ⟨rfl, by decide, ?_⟩
    refine ⟨_, 7, _, rfl, rfl, rfl, rfl, ?_⟩
    intro id hid
    simp at hid
    rcases hid with rfl | rfl <;> decide
  · intro p hp
    simp only [demoTM, List.mem_singleton] at hp
    subst hp
    exact ⟨by decide, by decide, _, rfl, rfl, trivial⟩
  · intro ld hld tsid ht
    simp only [demoTM, List.mem_toArray, List.mem_singleton] at hld
    subst hld
    simp only [LayerType.tilemap.injEq] at ht
    subst ht
    rfl

/-- the tilemap accessors on it: a view exists and `tile` answers (also far outside) -/
example : ∃ v, demoTM.tilemap 0 0 = .ok (some v) ∧ v.tile 0 0 = .ok 1 ∧ v.tile 1 0 = .ok 0 ∧
    v.tile 1000000 5 = .ok 0 :=
  ⟨_, rfl, by decide +kernel, by decide +kernel, by decide +kernel⟩

/-- and it renders, in both profiles, with any floating-point parameter -/
example {F : Type} (ops : FOps F) (m : Profile) :
    ∃ img, demoTM.frameImage ops m 0 = .ok img ∧ img.w = 2 ∧ img.h = 2 :=
  frameImage_ok_int ops m demoTM demoTM_valid (by
    intro ld hld
    simp only [demoTM, List.mem_toArray, List.mem_singleton] at hld
    subst hld
    rfl) 0 (by decide)

/-- the extra hypothesis of `tilesetImage_ok` is needed: with `tile_height * tile_count ≥ 2^32`
    the checked profile panics on the `u32` product whatever the pixels are -/
example (pal : Option Palette) (ts : Tileset Pixels) (h1 : ts.tileH = 65535)
    (h2 : ts.tileCount = 65538) : ts.image Profile.checked pal = .panic .overflow := by
  simp [Tileset.image, u32Mul, h1, h2, Profile.checked]

end examples

end Ase.Proofs.C05
