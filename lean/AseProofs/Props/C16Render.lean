import AseProofs.Props.C16
import AseProofs.Props.C17
/-
  C16, rendering: the composited images do not depend on the build profile for sprites whose
  layers all use one of the 14 integer blend modes.  (`blend_profile_irrelevant_int` lifted
  through the renderer by induction.)
-/
namespace Ase.Proofs.C16
open Ase Ase.Proofs Ase.Sprite

variable {F : Type} (ops : FOps F) (m m' : Profile)

theorem writeRawRow_profile (mode : Nat) (hm : C17.intMode mode = true) (opacity : UInt8)
    (pixels : Array RGBA) (cw : Nat) (x0 : Int) (y row : Nat) :
    ∀ (n col : Nat) (img : Image),
      writeRawRow ops m mode opacity pixels cw x0 y row n col img =
        writeRawRow ops m' mode opacity pixels cw x0 y row n col img := by
  intro n
  induction n with
  | zero => intro col img; rfl
  | succ n ih =>
      intro col img
      simp only [writeRawRow, blend_profile_irrelevant_int ops m m' mode hm, ih]

theorem writeRawRows_profile (mode : Nat) (hm : C17.intMode mode = true) (opacity : UInt8)
    (pixels : Array RGBA) (cw : Nat) (x0 y0 : Int) :
    ∀ (n row : Nat) (img : Image),
      writeRawRows ops m mode opacity pixels cw x0 y0 n row img =
        writeRawRows ops m' mode opacity pixels cw x0 y0 n row img := by
  intro n
  induction n with
  | zero => intro row img; rfl
  | succ n ih =>
      intro row img
      simp only [writeRawRows, writeRawRow_profile ops m m' mode hm, ih]

theorem writeRawCel_profile (img : Image) (d : CelCommon) (w h : UInt16) (pixels : Array RGBA)
    (mode : Nat) (hm : C17.intMode mode = true) (lo : UInt8) :
    writeRawCel ops m img d w h pixels mode lo = writeRawCel ops m' img d w h pixels mode lo := by
  simp only [writeRawCel, writeRawRows_profile ops m m' mode hm]

theorem writeTilePixels_profile (mode : Nat) (hm : C17.intMode mode = true) (opacity : UInt8)
    (tilePixels : Array RGBA) (tw : Nat) (baseX baseY : Int) :
    ∀ (n idx : Nat) (img : Image),
      writeTilePixels ops m mode opacity tilePixels tw baseX baseY n idx img =
        writeTilePixels ops m' mode opacity tilePixels tw baseX baseY n idx img := by
  intro n
  induction n with
  | zero => intro idx img; rfl
  | succ n ih =>
      intro idx img
      simp only [writeTilePixels, blend_profile_irrelevant_int ops m m' mode hm, ih]

theorem writeTiles_profile (mode : Nat) (hm : C17.intMode mode = true) (opacity : UInt8)
    (t : TilemapData) (pixels : Array RGBA) (tw th : Nat) (cx cy : Int) :
    ∀ (n idx : Nat) (img : Image),
      writeTiles ops m mode opacity t pixels tw th cx cy n idx img =
        writeTiles ops m' mode opacity t pixels tw th cx cy n idx img := by
  intro n
  induction n with
  | zero => intro idx img; rfl
  | succ n ih =>
      intro idx img
      simp only [writeTiles, writeTilePixels_profile ops m m' mode hm, ih]

theorem writeTilemapCel_profile (img : Image) (d : CelCommon) (t : TilemapData)
    (ts : Tileset Pixels) (pixels : Array RGBA) (mode : Nat) (hm : C17.intMode mode = true)
    (lo : UInt8) :
    writeTilemapCel ops m img d t ts pixels mode lo =
      writeTilemapCel ops m' img d t ts pixels mode lo := by
  simp only [writeTilemapCel, writeTiles_profile ops m m' mode hm]

/-- the hypothesis, in the form the renderer uses it -/
theorem intMode_of_getElem? {s : Sprite} (hs : ∀ l ∈ s.layers, C17.intMode l.blendMode = true)
    {i : Nat} {l : LayerData} (h : s.layers[i]? = some l) : C17.intMode l.blendMode = true :=
  hs l (Array.mem_of_getElem? h)

theorem writeCelDirect_profile (s : Sprite)
    (hs : ∀ l ∈ s.layers, C17.intMode l.blendMode = true) (img : Image) (c : RawCel Pixels) :
    writeCelDirect ops m s img c = writeCelDirect ops m' s img c := by
  unfold writeCelDirect
  cases hl : s.layers[c.data.layerIndex.toNat]? with
  | none => rfl
  | some layer =>
      have hm := intMode_of_getElem? hs hl
      simp only [writeRawCel_profile ops m m' _ _ _ _ _ _ hm,
        writeTilemapCel_profile ops m m' _ _ _ _ _ _ hm]

theorem writeCel_profile (s : Sprite)
    (hs : ∀ l ∈ s.layers, C17.intMode l.blendMode = true) (img : Image) (c : RawCel Pixels) :
    writeCel ops m s img c = writeCel ops m' s img c := by
  unfold writeCel
  simp only [writeCelDirect_profile ops m m' s hs]

theorem frameImageLoop_profile (s : Sprite)
    (hs : ∀ l ∈ s.layers, C17.intMode l.blendMode = true) :
    ∀ (row : FrameCels Pixels) (img : Image),
      frameImageLoop ops m s row img = frameImageLoop ops m' s row img := by
  intro row
  induction row with
  | nil => intro img; rfl
  | cons p rest ih =>
      intro img
      obtain ⟨layerId, c⟩ := p
      simp only [frameImageLoop, writeCel_profile ops m m' s hs, ih]

/-- **`Frame::image` does not depend on the build profile** for sprites whose layers use the
    14 integer blend modes: same image, same error, or the same panic site in both builds -/
theorem frameImage_profile_irrelevant (s : Sprite)
    (hs : ∀ l ∈ s.layers, C17.intMode l.blendMode = true) (f : Nat) :
    s.frameImage ops m f = s.frameImage ops m' f := by
  unfold frameImage
  simp only [frameImageLoop_profile ops m m' s hs]

/-- **`Cel::image` does not depend on the build profile** under the same hypothesis -/
theorem celImage_profile_irrelevant (s : Sprite)
    (hs : ∀ l ∈ s.layers, C17.intMode l.blendMode = true) (f l : Nat) :
    s.celImage ops m f l = s.celImage ops m' f l := by
  unfold celImage
  simp only [writeCel_profile ops m m' s hs]

/-- finer: a single cel only needs *its own* layer (and, for a linked cel, the same layer) to
    use an integer mode -/
theorem writeCelDirect_profile_layer (s : Sprite) (img : Image) (c : RawCel Pixels)
    (hl : ∀ l, s.layers[c.data.layerIndex.toNat]? = some l → C17.intMode l.blendMode = true) :
    writeCelDirect ops m s img c = writeCelDirect ops m' s img c := by
  unfold writeCelDirect
  cases h : s.layers[c.data.layerIndex.toNat]? with
  | none => rfl
  | some layer =>
      have hm := hl layer h
      simp only [writeRawCel_profile ops m m' _ _ _ _ _ _ hm,
        writeTilemapCel_profile ops m m' _ _ _ _ _ _ hm]

end Ase.Proofs.C16
