import AseProofs.Props.C19
/-
  C02  Frame image equals bottom-to-top composition of visible layers.
-/
namespace Ase.Proofs.C02
open Ase Ase.Proofs

variable {F : Type} (ops : FOps F) (m : Profile)

/-- **dimensions**: a frame image has exactly the canvas dimensions -/
theorem frameImage_dims (s : Sprite) (f : Nat) (img : Image) (h : s.frameImage ops m f = .ok img) :
    img.w = s.width.toNat ∧ img.h = s.height.toNat ∧ img.px.size = s.width.toNat * s.height.toNat :=
  Ase.Proofs.frameImage_dims ops m s f img h

/-- the composition loop, as a specification: starting from the accumulated image, each cel in
    increasing layer order is blended in if its layer is visible, skipped otherwise -/
def composeSpec (s : Sprite) : FrameCels Pixels → Image → Res Image
  | [], img => .ok img
  | (l, c) :: rest, img =>
      match s.isVisible l with
      | .ok true =>
          match s.writeCel ops m img c with
          | .ok img' => composeSpec s rest img'
          | .err e => .err e
          | .panic p => .panic p
      | .ok false => composeSpec s rest img
      | .err e => .err e
      | .panic p => .panic p

theorem loop_eq_spec (s : Sprite) : ∀ (row : FrameCels Pixels),
    (∀ p ∈ row, p.1 < s.numLayers) → ∀ img, s.frameImageLoop ops m row img = composeSpec ops m s row img := by
  intro row
  induction row with
  | nil => intro _ _; rfl
  | cons hd tl ih =>
      intro hlayers img
      obtain ⟨l, c⟩ := hd
      have hl : ¬ l ≥ s.numLayers := by
        have := hlayers (l, c) (by simp); simp at this; omega
      have htl : ∀ p ∈ tl, p.1 < s.numLayers := fun p hp => hlayers p (by simp [hp])
      simp only [Sprite.frameImageLoop, hl, if_false, composeSpec]
      cases s.isVisible l with
      | ok b =>
          cases b with
          | true =>
              simp only
              cases s.writeCel ops m img c with
              | ok img' => exact ih htl img'
              | err e => rfl
              | panic p => rfl
          | false => exact ih htl img
      | err e => rfl
      | panic p => rfl

/-- **bottom-to-top composition**: when every cel of the frame lies on an existing layer, the
    frame image is the fold, in increasing layer order and starting from the transparent canvas,
    of "blend this cel's pixels if its layer is visible" -/
theorem frameImage_compose (s : Sprite) (f : Nat) (row : FrameCels Pixels)
    (hrow : s.cels[f]? = some row) (hlayers : ∀ p ∈ row, p.1 < s.numLayers) :
    s.frameImage ops m f = composeSpec ops m s row s.canvas := by
  simp only [Sprite.frameImage, hrow]
  exact loop_eq_spec ops m s row hlayers s.canvas

/-- pixels no cel covers stay fully transparent: a frame without cels is the transparent canvas -/
theorem uncovered_transparent (s : Sprite) (f : Nat) (hrow : s.cels[f]? = some []) (x y : Nat)
    (hx : x < s.width.toNat) (hy : y < s.height.toNat) :
    ∃ img, s.frameImage ops m f = .ok img ∧ img.get x y = .ok RGBA.zero := by
  refine ⟨s.canvas, C19.empty_frame ops m s f hrow, ?_⟩
  have hidx : y * s.width.toNat + x < s.width.toNat * s.height.toNat := by
    have h1 : y * s.width.toNat + x < (y + 1) * s.width.toNat := by rw [Nat.succ_mul]; omega
    have h2 : (y + 1) * s.width.toNat ≤ s.height.toNat * s.width.toNat :=
      Nat.mul_le_mul_right _ (by omega)
    rw [Nat.mul_comm s.width.toNat]
    omega
  simp [Sprite.canvas, Image.new, Image.get, hx, hy, Array.getD, hidx]

/-! ### the order in which cel chunks are stored does not matter -/

/-- inserting two cels with different layer ids into a frame's table commutes -/
theorem insert_comm {P} (k1 k2 : Nat) (c1 c2 : RawCel P) (hne : k1 ≠ k2) : ∀ (l : FrameCels P),
    FrameCels.insert k1 c1 (FrameCels.insert k2 c2 l) = FrameCels.insert k2 c2 (FrameCels.insert k1 c1 l) := by
  intro l
  induction l with
  | nil =>
      simp only [FrameCels.insert]
      by_cases h : k1 < k2
      · have : ¬ k2 < k1 := by omega
        simp [h, this]
      · have : k2 < k1 := by omega
        simp [h, this]
  | cons hd tl ih =>
      obtain ⟨k', c'⟩ := hd
      by_cases h1 : k1 < k' <;> by_cases h2 : k2 < k'
      · by_cases h : k1 < k2
        · have : ¬ k2 < k1 := by omega
          simp [FrameCels.insert, h1, h2, h, this]
        · have : k2 < k1 := by omega
          simp [FrameCels.insert, h1, h2, h, this]
      · have : ¬ k2 < k1 := by omega
        simp [FrameCels.insert, h1, h2, this]
      · have : ¬ k1 < k2 := by omega
        simp [FrameCels.insert, h1, h2, this]
      · simp [FrameCels.insert, h1, h2, ih]

/-- the table built from a list of (layer, cel) pairs, in storage order -/
def tableOf {P} (cels : List (Nat × RawCel P)) : FrameCels P :=
  cels.foldl (fun row p => FrameCels.insert p.1 p.2 row) []

theorem eq_of_key_eq {P} : ∀ (xs : List (Nat × RawCel P)),
    xs.Pairwise (fun a b => a.1 ≠ b.1) → ∀ x ∈ xs, ∀ y ∈ xs, x.1 = y.1 → x = y := by
  intro xs
  induction xs with
  | nil => intro _ x hx; cases hx
  | cons hd tl ih =>
      intro hp x hx y hy hxy
      rw [List.pairwise_cons] at hp
      rcases List.mem_cons.mp hx with rfl | hx' <;> rcases List.mem_cons.mp hy with rfl | hy'
      · rfl
      · exact absurd hxy (hp.1 y hy')
      · exact absurd hxy.symm (hp.1 x hx')
      · exact ih hp.2 x hx' y hy' hxy

/-- **storage order is irrelevant**: two orders of the same cel chunks (distinct layers) build
    the same per-frame table, hence render the same frame image -/
theorem celOrder_irrelevant {P} (xs ys : List (Nat × RawCel P)) (hperm : xs.Perm ys)
    (hdistinct : xs.Pairwise (fun a b => a.1 ≠ b.1)) : tableOf xs = tableOf ys := by
  unfold tableOf
  apply List.Perm.foldl_eq' hperm
  intro x hx y hy z
  by_cases hxy : x.1 = y.1
  · have : x = y := eq_of_key_eq xs hdistinct x hx y hy hxy
    subst this; rfl
  · exact (insert_comm y.1 x.1 y.2 x.2 (fun h => hxy h.symm) z)

end Ase.Proofs.C02
