import AseProofs.Props.C01Whole
import AseProofs.Lemmas.MoreValidate
import AseProofs.Lemmas.MoreRun
import AseProofs.Lemmas.MoreCels
/-
  C01, the remaining corollaries of the whole-file theorem: what the loaded sprite reports as
  palette, external files, cels and tilesets, in terms of the items of the file
  (`semParse h frames = .ok s`; by `decode_encode` this is `parse inflate m (encode p) = .ok s`
  for a well-formed program `p`, see the `loaded_*` forms at the end).
-/
namespace Ase.Proofs.C01
open Ase Ase.Proofs Ase.Proofs.WholeFile Ase.Proofs.More

variable {h : Spec.SHeader} {frames : List (UInt16 × List Spec.SItem)} {s : Sprite}

/-! ### palette -/

/-- **the palette** is that of the LAST new-format palette item if there is one, otherwise that
    of the FIRST legacy palette item, otherwise there is none (a new-format palette wins whether
    it comes before or after the legacy ones) -/
theorem sprite_palette (hs : Spec.semParse h frames = .ok s) :
    s.palette =
      (((allItems frames).filterMap palItem?).getLast?).or
        ((allItems frames).filterMap oldPalItem?).head? := by
  obtain ⟨pi, hr, hv⟩ := semParse_ok hs
  obtain ⟨_, _, _, _, h5, _⟩ := validate_reports hv
  rw [h5, runFrames_palette frames hr, foldl_palStep]
  simp [ParseInfo.new]

/-- spelled out, case by case -/
theorem sprite_palette_cases (hs : Spec.semParse h frames = .ok s) :
    (∀ p, ((allItems frames).filterMap palItem?).getLast? = some p → s.palette = some p) ∧
    (((allItems frames).filterMap palItem?) = [] →
      ∀ p rest, (allItems frames).filterMap oldPalItem? = p :: rest → s.palette = some p) ∧
    (((allItems frames).filterMap palItem?) = [] → (allItems frames).filterMap oldPalItem? = [] →
      s.palette = none) := by
  have hp := sprite_palette hs
  refine ⟨?_, ?_, ?_⟩
  · intro p h1; rw [hp, h1]; rfl
  · intro h1 p rest h2; rw [hp, h1, h2]; rfl
  · intro h1 h2; rw [hp, h1, h2]; rfl

/-! ### external files -/

/-- **external files**: looking up an id finds the LAST entry with that id over all external-files
    items in file order, and nothing if there is none -/
theorem sprite_extFiles (hs : Spec.semParse h frames = .ok s) (id : Nat) :
    assocGet? id s.extFiles =
      ((extEntries (allItems frames)).filter (fun f => f.id.toNat == id)).getLast? := by
  obtain ⟨pi, hr, hv⟩ := semParse_ok hs
  obtain ⟨_, _, _, _, _, _, _, _, h9, _⟩ := validate_reports hv
  rw [h9, runFrames_extFiles frames hr, assocGet?_insertAll]
  have h0 : assocGet? id (ParseInfo.new h.numFrames.toNat 0).extFiles = none := rfl
  rw [h0, Option.or_none]
  exact getLast?_filter_kv (fun f : ExternalFile => f.id.toNat) _ id

/-! ### cels -/

/-- what the sprite's cel `c'` under layer `l` has in common with the cel item `c` it came from:
    layer index, position and opacity; kind, size, link target and tile ids of the content; the
    pixels of a raw cel are the validated pixels of the item (validated against the sprite's
    palette and pixel format, with the background flag of layer `l`) -/
def CelLoaded (s : Sprite) (l : Nat) (c : RawCel RawPixels) (c' : RawCel Pixels) : Prop :=
  c'.data = c.data ∧ celShape c'.content = celShape c.content ∧
  ∀ px, celPixels? c.content = some px → ∃ ld px', s.layers[l]? = some ld ∧
    validatePixels s.palette s.format ld.isBackground px = .ok px' ∧
    celPixels? c'.content = some px'

theorem stripC_eq {c0 c : RawCel RawPixels} (hc : stripC c0 = stripC c) :
    c0.data = c.data ∧ c0.content = c.content := by
  obtain ⟨d0, ct0, u0⟩ := c0
  obtain ⟨d, ct, u⟩ := c
  simp only [stripC, RawCel.mk.injEq] at hc
  exact ⟨hc.1, hc.2.1⟩

/-- **cels**: for every frame index `f` and layer `l`, the sprite has a cel under `(f, l)` exactly
    when frame `f` has a cel item with layer index `l`, and it is the validated form of that
    item -/
theorem sprite_cels (hs : Spec.semParse h frames = .ok s) (f l : Nat) :
    match findCel (itemsAt frames f) l with
    | none => (s.cels[f]?).bind (FrameCels.get? l) = none
    | some c => ∃ c', (s.cels[f]?).bind (FrameCels.get? l) = some c' ∧ CelLoaded s l c c' := by
  obtain ⟨pi, hr, hv⟩ := semParse_ok hs
  obtain ⟨_, _, _, h4, h5, h6, _⟩ := validate_reports hv
  have hcv := (runFrames_cels frames hr).1 f l
  rw [cv_new, Option.or_none] at hcv
  simp only [Nat.zero_le, if_true, Nat.sub_zero] at hcv
  have hfmt : s.format = h.format := h4
  rcases validate_cel hv f l with ⟨h1, h2⟩ | ⟨c0, c', h1, h2, _, hval⟩
  · have : cv pi f l = none := by simp [cv, celAt, h1]
    rw [this] at hcv
    cases hfc : findCel (itemsAt frames f) l with
    | none => exact h2
    | some c => rw [hfc] at hcv; cases hcv
  · have : cv pi f l = some (stripC c0) := by simp [cv, celAt, h1]
    rw [this] at hcv
    cases hfc : findCel (itemsAt frames f) l with
    | none => rw [hfc] at hcv; cases hcv
    | some c =>
        rw [hfc] at hcv
        simp only [Option.map_some, Option.some.injEq] at hcv
        obtain ⟨hd, hct⟩ := stripC_eq hcv
        obtain ⟨k1, _, k3, k4⟩ := validateCel_keeps hval
        refine ⟨c', h2, by rw [k1, hd], by rw [k3, hct], ?_⟩
        intro px hpx
        rw [← hct] at hpx
        obtain ⟨ld, px', g1, g2, g3⟩ := k4 px hpx
        exact ⟨ld, px', by rw [h6]; exact g1, by rw [h5, hfmt]; exact g2, g3⟩

/-- "the cel item of frame `f` with layer index `l`" is well defined: a frame of a file that
    loads has at most one cel item per layer -/
theorem sprite_cels_unique (hs : Spec.semParse h frames = .ok s) (f : Nat) :
    (celLayers (itemsAt frames f)).Nodup := by
  obtain ⟨pi, hr, _⟩ := semParse_ok hs
  exact (runFrames_cels frames hr).2 f

/-- `findCel` is then membership -/
theorem findCel_eq_some_iff {its : List Spec.SItem} (hnd : (celLayers its).Nodup) (l : Nat)
    (c : RawCel RawPixels) :
    findCel its l = some c ↔ c ∈ celItems its ∧ c.data.layerIndex.toNat = l := by
  constructor
  · intro hf
    exact ⟨List.mem_of_find?_eq_some hf, by simpa using List.find?_some hf⟩
  · rintro ⟨hm, hl⟩
    unfold celLayers at hnd
    unfold findCel
    generalize celItems its = cs at hnd hm
    induction cs with
    | nil => cases hm
    | cons a t ih =>
        simp only [List.map_cons, List.nodup_cons] at hnd
        rcases List.mem_cons.mp hm with rfl | hm'
        · simp [hl]
        · have hne : a.data.layerIndex.toNat ≠ l := by
            intro e
            apply hnd.1
            rw [e, ← hl]
            exact List.mem_map.mpr ⟨c, hm', rfl⟩
          have hb : (a.data.layerIndex.toNat == l) = false := by simpa using hne
          simp only [List.find?_cons, hb]
          exact ih hnd.2 hm'

/-- **rows are sorted by layer**: the keys of every row of the cel table strictly increase (so
    iteration over a frame's cels is in layer order), and there is one row per frame of the
    header -/
theorem sprite_cels_sorted (hs : Spec.semParse h frames = .ok s) :
    s.cels.size = h.numFrames.toNat ∧
    ∀ (f : Nat) (row : FrameCels Pixels), s.cels[f]? = some row →
      (row.map (·.1)).Pairwise (· < ·) := by
  obtain ⟨pi, hr, hv⟩ := semParse_ok hs
  refine ⟨?_, ?_⟩
  · rw [validate_cels_size hv, runFrames_cels_size frames hr]
    simp [ParseInfo.new]
  · intro f row hrow
    have hk := validate_row_keys hv f
    rw [hrow] at hk
    cases hpr : pi.cels[f]? with
    | none => rw [hpr] at hk; cases hk
    | some prow =>
        rw [hpr] at hk
        simp only [Option.map_some, Option.some.injEq] at hk
        rw [hk]
        have hsorted := runFrames_rowsSorted frames hr (new_rowsSorted _ _) prow
          (Array.mem_of_getElem? hpr)
        exact List.pairwise_map.mpr hsorted

/-! ### tilesets -/

/-- the tileset items of the file with id `id`, the last of which is the one that counts -/
def lastTileset (frames : List (UInt16 × List Spec.SItem)) (id : Nat) :
    Option (Tileset RawPixels) :=
  ((tilesetItems (allItems frames)).filter (fun t => t.id.toNat == id)).getLast?

/-- **tilesets**: looking up an id finds the validated form of the LAST tileset item with that id
    (its id, flags, tile count, tile size, base index, name and external reference unchanged;
    its pixels validated against the sprite's palette and format), and nothing if there is no
    such item -/
theorem sprite_tilesets (hs : Spec.semParse h frames = .ok s) (id : Nat) :
    match lastTileset frames id with
    | none => assocGet? id s.tilesets = none
    | some t => ∃ t', assocGet? id s.tilesets = some t' ∧ TilesetRel s.palette s.format t t' := by
  obtain ⟨pi, hr, hv⟩ := semParse_ok hs
  obtain ⟨_, _, _, h4, h5, _⟩ := validate_reports hv
  have hfmt : s.format = h.format := h4
  have hpi : assocGet? id pi.tilesets = lastTileset frames id := by
    rw [runFrames_tilesets frames hr, assocGet?_insertAll]
    have h0 : assocGet? id (ParseInfo.new h.numFrames.toNat 0).tilesets = none := rfl
    rw [h0, Option.or_none]
    exact getLast?_filter_kv (fun t : Tileset RawPixels => t.id.toNat) _ id
  rcases validate_tileset hv id with ⟨h1, h2⟩ | ⟨t, t', h1, h2, hrel⟩
  · rw [← hpi, h1]; exact h2
  · rw [← hpi, h1]
    exact ⟨t', h2, by rw [h5, hfmt]; exact hrel⟩

/-! ### … for an encoded program -/

theorem loaded_palette (inflate : Inflate) (m : Profile) (p : Spec.Program)
    (hwf : ProgramWF inflate p) (s : Sprite) (hs : parse inflate m (Spec.encode p) = .ok s) :
    s.palette =
      (((allItems (Spec.framesSem m p)).filterMap palItem?).getLast?).or
        ((allItems (Spec.framesSem m p)).filterMap oldPalItem?).head? := by
  rw [decode_encode inflate m p hwf] at hs
  exact sprite_palette hs

theorem loaded_extFiles (inflate : Inflate) (m : Profile) (p : Spec.Program)
    (hwf : ProgramWF inflate p) (s : Sprite) (hs : parse inflate m (Spec.encode p) = .ok s)
    (id : Nat) :
    assocGet? id s.extFiles =
      ((extEntries (allItems (Spec.framesSem m p))).filter (fun f => f.id.toNat == id)).getLast? := by
  rw [decode_encode inflate m p hwf] at hs
  exact sprite_extFiles hs id

theorem loaded_cels (inflate : Inflate) (m : Profile) (p : Spec.Program)
    (hwf : ProgramWF inflate p) (s : Sprite) (hs : parse inflate m (Spec.encode p) = .ok s)
    (f l : Nat) :
    match findCel (itemsAt (Spec.framesSem m p) f) l with
    | none => (s.cels[f]?).bind (FrameCels.get? l) = none
    | some c => ∃ c', (s.cels[f]?).bind (FrameCels.get? l) = some c' ∧ CelLoaded s l c c' := by
  rw [decode_encode inflate m p hwf] at hs
  exact sprite_cels hs f l

theorem loaded_tilesets (inflate : Inflate) (m : Profile) (p : Spec.Program)
    (hwf : ProgramWF inflate p) (s : Sprite) (hs : parse inflate m (Spec.encode p) = .ok s)
    (id : Nat) :
    match lastTileset (Spec.framesSem m p) id with
    | none => assocGet? id s.tilesets = none
    | some t => ∃ t', assocGet? id s.tilesets = some t' ∧ TilesetRel s.palette s.format t t' := by
  rw [decode_encode inflate m p hwf] at hs
  exact sprite_tilesets hs id

/-! ### non-vacuity: the theorems applied to `tinyProgram` (which loads, `tinyProgram_loads`) -/

example (inflate : Inflate) (m : Profile) (s : Sprite)
    (hs : parse inflate m (Spec.encode tinyProgram) = .ok s) :
    ∃ c', (s.cels[0]?).bind (FrameCels.get? 0) = some c' ∧ c'.data = ⟨0, 0, 0, 255⟩ ∧
      celShape c'.content = .raw 1 1 := by
  have h := loaded_cels inflate m tinyProgram (tinyProgram_wf inflate) s hs 0 0
  have hf : findCel (itemsAt (Spec.framesSem m tinyProgram) 0) 0 =
      some (Spec.celOfSpec (Spec.formatOf 32 0)
        ⟨0, 0, 0, 255, zeros 7, .image 1 1 [10, 20, 30, 255] none⟩) := rfl
  rw [hf] at h
  obtain ⟨c', h1, h2, h3, _⟩ := h
  exact ⟨c', h1, h2, h3⟩

example (inflate : Inflate) (m : Profile) (s : Sprite)
    (hs : parse inflate m (Spec.encode tinyProgram) = .ok s) : s.palette = none := by
  rw [loaded_palette inflate m tinyProgram (tinyProgram_wf inflate) s hs]
  rfl

end Ase.Proofs.C01
