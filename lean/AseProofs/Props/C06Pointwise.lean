import AseProofs.Lemmas.Raster
import AseProofs.Props.C06
import AseProofs.Props.C17
/-
  C06 (point-wise)  A raw cel's image: the stored pixels placed at the cel offset, clipped to
  the canvas, alpha scaled by the rounded product of layer and cel opacity; everything else
  fully transparent.
-/
namespace Ase.Proofs.C06
open Ase Ase.Proofs

variable {F : Type} (ops : FOps F) (m : Profile)

/-- a raw cel is drawn by `writeRawCel` with its layer's blend mode and opacity -/
theorem writeCel_raw (s : Sprite) (img : Image) (c : RawCel Pixels) (w h : UInt16) (px : Pixels)
    (rgba : Array RGBA) (layer : LayerData)
    (hraw : c.content = .raw w h px) (hrgba : pixelsToRgba s.palette px = .ok rgba)
    (hlayer : s.layers[c.data.layerIndex.toNat]? = some layer) :
    s.writeCel ops m img c
      = Sprite.writeRawCel ops m img c.data w h rgba layer.blendMode layer.opacity := by
  simp only [Sprite.writeCel, hraw, Sprite.writeCelDirect, hlayer, hrgba]

/-- **cel image, as a blend over the transparent canvas**: inside the cel rectangle (clipped to
    the canvas) the pixel is `blend mode 0 rgba[(Y - y) * w + (X - x)] (layerOpacity ⊗ celOpacity)`,
    outside it is fully transparent -/
theorem celImage_spec_blend (s : Sprite) (f l : Nat) (c : RawCel Pixels) (w h : UInt16)
    (px : Pixels) (rgba : Array RGBA) (layer : LayerData) (img : Image)
    (hc : s.cel f l = .ok (some c)) (hraw : c.content = .raw w h px)
    (hrgba : pixelsToRgba s.palette px = .ok rgba)
    (hlayer : s.layers[c.data.layerIndex.toNat]? = some layer)
    (himg : s.celImage ops m f l = .ok img)
    (X Y : Nat) (hX : X < s.width.toNat) (hY : Y < s.height.toNat) :
    (InRect c.data.x.toInt c.data.y.toInt w.toNat h.toNat X Y →
      ∃ p v, rgba[((Y : Int) - c.data.y.toInt).toNat * w.toNat + ((X : Int) - c.data.x.toInt).toNat]?
              = some p ∧
        Blend.blend ops m layer.blendMode RGBA.zero p
          (Blend.mulUn8 (Blend.ch layer.opacity) (Blend.ch c.data.opacity)) = .ok v ∧
        img.get X Y = .ok v) ∧
    (¬ InRect c.data.x.toInt c.data.y.toInt w.toNat h.toNat X Y → img.get X Y = .ok RGBA.zero) := by
  have hw : Sprite.writeRawCel ops m s.canvas c.data w h rgba layer.blendMode layer.opacity = .ok img := by
    rw [← writeCel_raw ops m s s.canvas c w h px rgba layer hraw hrgba hlayer]
    simpa only [Sprite.celImage, hc] using himg
  have hXc : X < s.canvas.w := hX
  have hYc : Y < s.canvas.h := hY
  have hsp := writeRawCel_spec ops m s.canvas img c.data w h rgba layer.blendMode layer.opacity hw
    (canvas_size s) X Y hXc hYc
  have hzero := canvas_get s hXc hYc
  refine ⟨fun hin => ?_, fun hout => ?_⟩
  · obtain ⟨old, p, v, h1, h2, h3, h4⟩ := hsp.1 hin
    rw [hzero] at h1; cases h1
    exact ⟨p, v, h2, h3, h4⟩
  · rw [hsp.2 hout]; exact hzero

/-- **cel image** (C06, point-wise): for a raw cel, in every blend mode and both build profiles,
    the image shows at each canvas position inside the cel rectangle the stored (converted)
    pixel with its alpha scaled by the rounded opacity product
    `mulUn8 layerOpacity celOpacity`; every other position is fully transparent -/
theorem celImage_spec (s : Sprite) (f l : Nat) (c : RawCel Pixels) (w h : UInt16)
    (px : Pixels) (rgba : Array RGBA) (layer : LayerData) (img : Image)
    (hc : s.cel f l = .ok (some c)) (hraw : c.content = .raw w h px)
    (hrgba : pixelsToRgba s.palette px = .ok rgba)
    (hlayer : s.layers[c.data.layerIndex.toNat]? = some layer)
    (himg : s.celImage ops m f l = .ok img)
    (X Y : Nat) (hX : X < s.width.toNat) (hY : Y < s.height.toNat) :
    (InRect c.data.x.toInt c.data.y.toInt w.toNat h.toNat X Y →
      ∃ p, rgba[((Y : Int) - c.data.y.toInt).toNat * w.toNat + ((X : Int) - c.data.x.toInt).toNat]?
              = some p ∧
        img.get X Y = .ok ⟨p.r, p.g, p.b,
          Blend.mulUn8 (Blend.ch p.a)
            (Blend.ch (Blend.mulUn8 (Blend.ch layer.opacity) (Blend.ch c.data.opacity)))⟩) ∧
    (¬ InRect c.data.x.toInt c.data.y.toInt w.toNat h.toNat X Y → img.get X Y = .ok RGBA.zero) := by
  have hsp := celImage_spec_blend ops m s f l c w h px rgba layer img hc hraw hrgba hlayer himg X Y hX hY
  refine ⟨fun hin => ?_, hsp.2⟩
  obtain ⟨p, v, h1, h2, h3⟩ := hsp.1 hin
  rw [C17.over_transparent ops m layer.blendMode RGBA.zero p _ rfl] at h2
  cases h2
  exact ⟨p, h1, h3⟩

end Ase.Proofs.C06
