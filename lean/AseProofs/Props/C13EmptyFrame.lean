import Ase.Parse
import AseProofs.Props.C16
/-
  C13 (boundary): a frame without chunks.  `readChunks` with count 0 reads nothing and never
  looks at the byte budget, so the frame's size field (the first four bytes of the frame header)
  has no influence on the result of `parseFrame` — it may be smaller than 16, zero, or huge.
-/
namespace Ase.Proofs.C13
open Ase

/-- **(d)** no chunks: nothing is read, whatever the byte budget (negative budgets included) -/
theorem readChunks_zero {σ : Type} (S : Src σ) (budget : Int) :
    readChunks S 0 budget = pure [] := rfl

/-- the 12 bytes of a frame header after the size field: magic, old count 0, duration,
    two reserved bytes, new count 0 -/
def emptyFrameTail (d0 d1 p0 p1 : UInt8) : Bytes :=
  [0xFA, 0xF1, 0, 0, d0, d1, p0, p1, 0, 0, 0, 0]

/-- the state after an empty frame: only the frame's duration is recorded -/
def afterEmptyFrame (pi : ParseInfo) (frame : Nat) (d0 d1 : UInt8) : ParseInfo :=
  { pi with frameTimes := pi.frameTimes.set! frame (le16 d0 d1) }

/-- abstract source: if the 4-byte read of the size field succeeds with ANY bytes `sz` and the
    following reads deliver the magic, counts 0 / 0 and a duration, `parseFrame` returns the state
    with the duration recorded and the source state after the header. -/
theorem parseFrame_empty {σ : Type} (S : Src σ) (inflate : Inflate) (m : Profile)
    (fmt : PixelFormat) (frame : Nat) (pi : ParseInfo) (sz : Bytes) (d0 d1 p0 p1 : UInt8)
    (s0 s1 s2 s3 s4 s5 s6 : σ)
    (h1 : S.read 4 s0 = .ok (sz, s1)) (h2 : S.read 2 s1 = .ok ([0xFA, 0xF1], s2))
    (h3 : S.read 2 s2 = .ok ([0, 0], s3)) (h4 : S.read 2 s3 = .ok ([d0, d1], s4))
    (h5 : S.read 2 s4 = .ok ([p0, p1], s5)) (h6 : S.read 4 s5 = .ok ([0, 0, 0, 0], s6)) :
    parseFrame S inflate m fmt frame pi s0 = .ok (afterEmptyFrame pi frame d0 d1, s6) := by
  have hm : (le16 0xFA 0xF1).toNat = 0xF1FA := by decide
  have ho : (le16 0 0).toNat = 0 := by decide
  have hn : (le32 0 0 0 0).toNat = 0 := by decide
  have hdr : readFrameHeader S s0 =
      .ok (⟨le32 (sz.getD 0 0) (sz.getD 1 0) (sz.getD 2 0) (sz.getD 3 0), le16 0 0, le16 d0 d1,
            le32 0 0 0 0⟩, s6) := by
    have r1 : readU32 S s0 = .ok (_, s1) := RdS.bind_ok h1
    have r2 : readU16 S s1 = .ok (_, s2) := RdS.bind_ok h2
    have r3 : readU16 S s2 = .ok (_, s3) := RdS.bind_ok h3
    have r4 : readU16 S s3 = .ok (_, s4) := RdS.bind_ok h4
    have r5 : readU16 S s4 = .ok (_, s5) := RdS.bind_ok h5
    have r6 : readU32 S s5 = .ok (_, s6) := RdS.bind_ok h6
    unfold readFrameHeader
    rw [RdS.bind_ok r1, RdS.bind_ok r2]
    simp only [List.getD_cons_zero, List.getD_cons_succ, hm, bne_self_eq_false,
      Bool.false_eq_true, if_false]
    rw [RdS.bind_ok r3, RdS.bind_ok r4, RdS.bind_ok r5, RdS.bind_ok r6]
    rfl
  unfold parseFrame
  rw [RdS.bind_ok hdr]
  simp only [FrameHeader.numChunks, hn, ho, beq_self_eq_true, if_true, readChunks_zero]
  rfl

/-- the list-backed source: explicit result for an empty frame with any four size bytes -/
theorem parseFrame_empty_bytes (inflate : Inflate) (m : Profile) (fmt : PixelFormat)
    (frame : Nat) (pi : ParseInfo) (sz : Bytes) (hsz : sz.length = 4) (d0 d1 p0 p1 : UInt8)
    (tl : Bytes) :
    parseFrame bytesSrc inflate m fmt frame pi (sz ++ emptyFrameTail d0 d1 p0 p1 ++ tl) =
      .ok (afterEmptyFrame pi frame d0 d1, tl) := by
  match sz, hsz with
  | [a, b, c, d], _ =>
    exact parseFrame_empty bytesSrc inflate m fmt frame pi [a, b, c, d] d0 d1 p0 p1
      _ _ _ _ _ _ _ rfl rfl rfl rfl rfl rfl

/-- **(e)** On the list-backed source, the result of `parseFrame` (new state and remaining
    input) on a frame header with magic `0xF1FA` and chunk counts old = 0, new = 0 does not
    depend on the 4-byte size field. -/
theorem empty_frame_size_field_irrelevant (inflate : Inflate) (m : Profile) (fmt : PixelFormat)
    (frame : Nat) (pi : ParseInfo) (n1 n2 : UInt32) (d0 d1 p0 p1 : UInt8) (tl : Bytes) :
    parseFrame bytesSrc inflate m fmt frame pi (u32le n1 ++ emptyFrameTail d0 d1 p0 p1 ++ tl) =
    parseFrame bytesSrc inflate m fmt frame pi (u32le n2 ++ emptyFrameTail d0 d1 p0 p1 ++ tl) := by
  rw [parseFrame_empty_bytes _ _ _ _ _ (u32le n1) rfl, parseFrame_empty_bytes _ _ _ _ _ (u32le n2) rfl]

/-- (e) for arbitrary size bytes (not necessarily of the form `u32le n`) -/
theorem empty_frame_size_bytes_irrelevant (inflate : Inflate) (m : Profile) (fmt : PixelFormat)
    (frame : Nat) (pi : ParseInfo) (sz1 sz2 : Bytes) (h1 : sz1.length = 4) (h2 : sz2.length = 4)
    (d0 d1 p0 p1 : UInt8) (tl : Bytes) :
    parseFrame bytesSrc inflate m fmt frame pi (sz1 ++ emptyFrameTail d0 d1 p0 p1 ++ tl) =
    parseFrame bytesSrc inflate m fmt frame pi (sz2 ++ emptyFrameTail d0 d1 p0 p1 ++ tl) := by
  rw [parseFrame_empty_bytes _ _ _ _ _ sz1 h1, parseFrame_empty_bytes _ _ _ _ _ sz2 h2]

/-- (e) on an abstract source (a scheduled stream, for instance): two source states whose
    size-field reads succeed and lead to the same state `s1` give the same result -/
theorem empty_frame_size_field_irrelevant_src {σ : Type} (S : Src σ) (inflate : Inflate)
    (m : Profile) (fmt : PixelFormat) (frame : Nat) (pi : ParseInfo) (sz sz' : Bytes)
    (d0 d1 p0 p1 : UInt8) (s0 s0' s1 s2 s3 s4 s5 s6 : σ)
    (h1 : S.read 4 s0 = .ok (sz, s1)) (h1' : S.read 4 s0' = .ok (sz', s1))
    (h2 : S.read 2 s1 = .ok ([0xFA, 0xF1], s2))
    (h3 : S.read 2 s2 = .ok ([0, 0], s3)) (h4 : S.read 2 s3 = .ok ([d0, d1], s4))
    (h5 : S.read 2 s4 = .ok ([p0, p1], s5)) (h6 : S.read 4 s5 = .ok ([0, 0, 0, 0], s6)) :
    parseFrame S inflate m fmt frame pi s0 = parseFrame S inflate m fmt frame pi s0' := by
  rw [parseFrame_empty S inflate m fmt frame pi sz d0 d1 p0 p1 s0 s1 s2 s3 s4 s5 s6 h1 h2 h3 h4 h5 h6,
    parseFrame_empty S inflate m fmt frame pi sz' d0 d1 p0 p1 s0' s1 s2 s3 s4 s5 s6 h1' h2 h3 h4 h5 h6]

/-- build-profile (and inflater, and pixel-format) independence of an empty frame; the profile
    part is an instance of `C16.parseFrame_profile`, which holds for every frame -/
theorem empty_frame_profile_irrelevant (inflate inflate' : Inflate) (m m' : Profile)
    (fmt fmt' : PixelFormat) (frame : Nat) (pi : ParseInfo) (sz : Bytes) (hsz : sz.length = 4)
    (d0 d1 p0 p1 : UInt8) (tl : Bytes) :
    parseFrame bytesSrc inflate m fmt frame pi (sz ++ emptyFrameTail d0 d1 p0 p1 ++ tl) =
    parseFrame bytesSrc inflate' m' fmt' frame pi (sz ++ emptyFrameTail d0 d1 p0 p1 ++ tl) := by
  rw [parseFrame_empty_bytes _ _ _ _ _ sz hsz, parseFrame_empty_bytes _ _ _ _ _ sz hsz]

/-- checked (debug) profile = release profile, for every frame (restating C16) -/
theorem frame_checked_eq_release {σ : Type} (S : Src σ) (inflate : Inflate) (fmt : PixelFormat)
    (frame : Nat) (pi : ParseInfo) :
    parseFrame S inflate .checked fmt frame pi = parseFrame S inflate .release fmt frame pi :=
  C16.parseFrame_profile S inflate .checked .release fmt frame pi

/-! ### non-vacuity -/

/-- size fields 0 (smaller than the header itself) and 0xFFFFFFFF give the same result as 16 -/
example : parseFrame bytesSrc (fun _ => .err .invalid) .release .rgba 0 (ParseInfo.new 1 100)
      (u32le 0 ++ emptyFrameTail 7 0 0 0 ++ [1, 2, 3]) =
    parseFrame bytesSrc (fun _ => .err .invalid) .release .rgba 0 (ParseInfo.new 1 100)
      (u32le 16 ++ emptyFrameTail 7 0 0 0 ++ [1, 2, 3]) :=
  empty_frame_size_field_irrelevant _ _ _ _ _ 0 16 7 0 0 0 [1, 2, 3]

example : u32le 0xFFFFFFFF ++ emptyFrameTail 7 0 0 0 ++ [1, 2, 3] =
    [255, 255, 255, 255, 0xFA, 0xF1, 0, 0, 7, 0, 0, 0, 0, 0, 0, 0, 1, 2, 3] := by decide

/-- the frame succeeds, records duration 7 and leaves the trailing bytes -/
example : ∃ pi', parseFrame bytesSrc (fun _ => .err .invalid) .release .rgba 0
      (ParseInfo.new 1 100) (u32le 0xFFFFFFFF ++ emptyFrameTail 7 0 0 0 ++ [1, 2, 3]) =
      .ok (pi', [1, 2, 3]) ∧ pi'.frameTimes = #[7] ∧ pi'.tags = none :=
  ⟨_, parseFrame_empty_bytes _ _ _ _ _ _ rfl 7 0 0 0 _, by decide, rfl⟩

example : readChunks bytesSrc 0 (-5) [9] = .ok ([], [9]) := by rw [readChunks_zero]; rfl

end Ase.Proofs.C13
